"""Per-property configuration of ./check: Lean module with the property's theorems, harness runs,
trusted base and stated partiality (copied into the evidence)."""

JOURNAL_TB = [
    "modelled, differentially validated: journal.BuildJournal / Trip.update / createPartition / markPast as Gtfs.Journal.* (hand-written Lean model, compared on every prefix of every generated history)",
    "Go maps (trips, activeTrips) modelled as association lists observed through lookup/insert; sort.Strings as List.mergeSort on bytewise order",
    "times as Unix seconds (all times the journal handles have zero nanoseconds); fmt %d as Gtfs.intToDec",
]

HASH_TB = [
    "translated on every run (goext/gen_hash.go): the bodies of hasher.trip / hasher.vehicle into encoder combinators (Gen/HashSchema.lean); the translator is validated on every run by comparing the generated encoder's bytes with the byte stream the real Hash methods write into a recording hash.Hash",
    "encoding/binary.Write (fixed-width little-endian), bytes.Buffer and the hash.Hash passed in are trusted; the helper bodies string/stringPtr/timePtr/hashNumberPtr/flush/number are pinned textually by the translator",
    "fields are compared as unsigned representations (two's complement, IEEE bit patterns, Unix seconds)",
]

PROPS = {
    "C13": {
        "module": "GtfsVerif.Props.C13",
        "trusted_base": HASH_TB,
        "partial": [],
        "assumptions": ["string lengths and update counts below 2^64 (always true of Go values)"],
    },
    "C15": {
        "module": "GtfsVerif.Props.C15",
        "trusted_base": JOURNAL_TB,
        "partial": ["UID injectivity is proved only for suffixes that do not start with a digit (C15_uid_injective_partial); the full statement is false of the code's \"%d%s\" format: C15_uid_collision proves the witness (100,\"5\") vs (1005,\"\"), replayed on the implementation on every run as known finding D17",
                    "accounting is proved as a refinement of Trip.update / Trip.markPast to the abstract Account (assigned, numUpdates, lastObs, past) plus the per-UID closed form of a feed; the closed-form 'time of the first feed lacking the trip' over whole histories is checked by the oracle on the implementation, not restated as one theorem"],
        "assumptions": [],
    },
    "C19": {
        "module": "GtfsVerif.Props.C19",
        "trusted_base": ["modelled: DirectoryGtfsrtSource.Next as Gtfs.Journal.dirSource (sorted listing, filterMap of read-then-parse); sort.Strings as List.mergeSort on bytewise order",
                         "outside the model (named, exercised on real directories only): os.ReadDir, os.ReadFile, the file system, ParseRealtime's own error behaviour on corrupt bytes"],
        "partial": ["the file system is not modelled: which entries are unreadable is an input of the model; real directories with sub-directories, vanished files, dangling symlinks, empty/truncated/corrupt files are exercised by the correspondence", "unreadable-by-permission files are not exercised (the harness runs as root)"],
        "assumptions": ["directory entry names are distinct (true of any directory)"],
    },
    "C20": {
        "module": "GtfsVerif.Props.C20",
        "trusted_base": JOURNAL_TB + ["modelled, differentially validated byte for byte: text/template rendering of trips.csv.tmpl and stop_times.csv.tmpl as Gtfs.Journal.tripsCsv / stopTimesCsv",
                                      "read-back in the theorems is splitting at LF then at commas; that this coincides with encoding/csv on quote-free, CR-free text is checked by the oracle, which reads every export back with encoding/csv"],
        "partial": ["a stop-time row whose seven cells were all empty cannot occur (trip_uid and last_observed are never empty)"],
        "assumptions": [],
    },
    "C14": {
        "module": "GtfsVerif.Props.C14",
        "trusted_base": JOURNAL_TB,
        "partial": ["'which occurrence of a repeated stop is aligned' is left open exactly as in the statement; the theorems only use the first occurrence (T3)"],
        "assumptions": ["an update ignored by the unassigned-update guard is not an effective step (reading shared with C15)"],
    },
}

MANIFEST_TEXT = {
    "C15": {
        "text": "Theorems over the BuildJournal model for all histories and windows: output strictly increasing in UID (keys of the state are distinct and every entry's UID is its key, by induction over feeds; mergeSort sortedness), selection = assigned and start in [lo,hi], Trip.update/markPast refine the abstract account (count, last observed, marked-past set once, unassigned updates ignored after assignment, assignment monotone), UID injective for non-digit-leading suffixes; the counterexample to full UID injectivity is proved and kept as known finding D17. Tied to journal.go by comparing every prefix x window of generated histories; an independent accounting oracle checks the implementation.",
        "note": "Trusted: Lean kernel, correspondence harness. Known finding D17 (UID collision when the suffix starts with a digit) is listed in KNOWN_FINDINGS.jsonl and reproduced by a dedicated probe on every run.",
        "technique": "Lean 4 proof (state invariants by induction over feeds, refinement to an abstract account) + differential correspondence with journal.BuildJournal",
    },
    "C19": {
        "text": "Theorems over the directory-source model for all listings and all read/parse outcomes: the yielded sequence is the filterMap of the bytewise-sorted listing, one value per good file, bad entries are inert (sorting commutes with filtering, by uniqueness of sorted permutations), hence the journal over the directory equals the journal over its good files. The model is compared with DirectoryGtfsrtSource on real directories containing every fault kind.",
        "note": "Partial by nature: the file system and ParseRealtime's error paths are exercised, not proved. Trusted: Lean kernel, harness, os package.",
        "technique": "Lean 4 proof over a model of the source loop + fault-directory correspondence",
    },
    "C20": {
        "text": "Theorems for all journals free of CSV metacharacters: both tables split back (LF, then commas) into exactly the header and one row per trip / stop time in journal order with exactly the entry's cells (decimal round trip proved, direction 0/1/blank), each stop-time row keyed by its trip's UID. The rendering model is compared byte for byte with ExportToCsv and every export is read back with encoding/csv by the oracle.",
        "note": "Trusted: Lean kernel, harness, text/template (modelled by a hand-written renderer validated byte for byte), encoding/csv in the oracle.",
        "technique": "Lean 4 proof (join/split inverse, decimal round trip) + byte-level correspondence with ExportToCsv",
    },
    "C13": {
        "text": "The encoder model is regenerated from hash.go on every run; Lean proves, for all pairs of trips (vehicles), that the hash input streams are equal iff all data fields are equal: prefix-injectivity of the generated combinator expression by instance resolution, and injectivity of the generated field tuple (every data field is written). The generated encoder is compared byte for byte with the real Hash output, and pair oracles (one-field differences, nil vs zero, string boundary shift, update count, presentation-only differences) run on the implementation.",
        "note": "Trusted: Lean kernel, the hash-body translator (validated by byte comparison each run), encoding/binary and the supplied hash.Hash. The digest function itself (collisions of e.g. SHA-256) is out of scope: the property is about the hash input.",
        "technique": "Lean 4 proof (prefix-injective encoder combinators, instance resolution) over a model regenerated from hash.go + byte-stream correspondence",
    },
    "C14": {
        "text": "Theorems over the journal model for all stop-time lists, updates and histories: the update shape (marked-past prefix of the old list followed by exactly the update's stops), no drop before the first updated stop, the shape invariant over every reachable state of BuildJournal's loop by induction over the feed list (via the per-UID closed form of one feed), mark stability. The model is tied to journal.go by comparing every prefix of thousands of generated histories with the real BuildJournal, and the statement itself is checked on the implementation by an oracle.",
        "note": "Trusted: Lean kernel (axioms propext, Classical.choice, Quot.sound), the correspondence harness and its generators. The Go journal code is modelled (hand-written) rather than verified; the model/implementation tie is differential.",
        "technique": "Lean 4 proof by induction over feed histories + differential correspondence with journal.BuildJournal",
    },
}

NOT_APPLICABLE = []
