"""Per-property configuration of ./check: Lean module with the property's theorems, harness runs,
trusted base and stated partiality (copied into the evidence)."""

JOURNAL_TB = [
    "modelled, differentially validated: journal.BuildJournal / Trip.update / createPartition / markPast as Gtfs.Journal.* (hand-written Lean model, compared on every prefix of every generated history)",
    "Go maps (trips, activeTrips) modelled as association lists observed through lookup/insert; sort.Strings as List.mergeSort on bytewise order",
    "times as Unix seconds (all times the journal handles have zero nanoseconds); fmt %d as Gtfs.intToDec",
]

PROPS = {
    "C14": {
        "module": "GtfsVerif.Props.C14",
        "trusted_base": JOURNAL_TB,
        "partial": ["'which occurrence of a repeated stop is aligned' is left open exactly as in the statement; the theorems only use the first occurrence (T3)"],
        "assumptions": ["an update ignored by the unassigned-update guard is not an effective step (reading shared with C15)"],
    },
}
