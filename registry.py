"""Per-property configuration of ./check: Lean module with the property's theorems, harness runs,
trusted base and stated partiality (copied into the evidence)."""

JOURNAL_TB = [
    "modelled, differentially validated: journal.BuildJournal / Trip.update / createPartition / markPast as Gtfs.Journal.* (hand-written Lean model, compared on every prefix of every generated history)",
    "Go maps (trips, activeTrips) modelled as association lists observed through lookup/insert; sort.Strings as List.mergeSort on bytewise order",
    "times as Unix seconds (all times the journal handles have zero nanoseconds); fmt %d as Gtfs.intToDec",
]

PROPS = {
    "C14": {
        "module": "GtfsVerif.Props.C14",
        "trusted_base": JOURNAL_TB,
        "partial": ["'which occurrence of a repeated stop is aligned' is left open exactly as in the statement; the theorems only use the first occurrence (T3)"],
        "assumptions": ["an update ignored by the unassigned-update guard is not an effective step (reading shared with C15)"],
    },
}

MANIFEST_TEXT = {
    "C14": {
        "text": "Theorems over the journal model for all stop-time lists, updates and histories: the update shape (marked-past prefix of the old list followed by exactly the update's stops), no drop before the first updated stop, the shape invariant over every reachable state of BuildJournal's loop by induction over the feed list (via the per-UID closed form of one feed), mark stability. The model is tied to journal.go by comparing every prefix of thousands of generated histories with the real BuildJournal, and the statement itself is checked on the implementation by an oracle.",
        "note": "Trusted: Lean kernel (axioms propext, Classical.choice, Quot.sound), the correspondence harness and its generators. The Go journal code is modelled (hand-written) rather than verified; the model/implementation tie is differential.",
        "technique": "Lean 4 proof by induction over feed histories + differential correspondence with journal.BuildJournal",
    },
}

NOT_APPLICABLE = []
