"""Per-property configuration of ./check: Lean module with the property's theorems, harness runs,
trusted base and stated partiality (copied into the evidence)."""

JOURNAL_TB = [
    "modelled, differentially validated: journal.BuildJournal / Trip.update / createPartition / markPast as Gtfs.Journal.* (hand-written Lean model, compared on every prefix of every generated history)",
    "Go maps (trips, activeTrips) modelled as association lists observed through lookup/insert; sort.Strings as List.mergeSort on bytewise order",
    "times as Unix seconds (all times the journal handles have zero nanoseconds); fmt %d as Gtfs.intToDec",
]

HASH_TB = [
    "translated on every run (goext/gen_hash.go): the bodies of hasher.trip / hasher.vehicle into encoder combinators (Gen/HashSchema.lean); the translator is validated on every run by comparing the generated encoder's bytes with the byte stream the real Hash methods write into a recording hash.Hash",
    "encoding/binary.Write (fixed-width little-endian), bytes.Buffer and the hash.Hash passed in are trusted; the helper bodies string/stringPtr/timePtr/hashNumberPtr/flush/number are pinned textually by the translator",
    "fields are compared as unsigned representations (two's complement, IEEE bit patterns, Unix seconds)",
]

RT_TB = [
    "modelled, differentially validated: ParseRealtime (extension pre-pass, merge loop, link resolution, sorts), parseAlert, extensions/nycttrips, extensions/nyctalerts as Gtfs.Rt.* (hand-written Lean model over the decoded FeedMessage; compared on every generated message, all fields, through the public API)",
    "model boundary: protobuf-go Unmarshal / HasExtension / GetExtension (trusted; the harness builds messages with proto.Marshal and feeds the bytes to ParseRealtime)",
    "regexp on the fixed patterns startTimeRegex, startDateRegex, TripIDRegex, elevatorAlertIDRegex: hand-written matchers, the pattern texts are regenerated from the source and pinned by theorems, the matchers are differentially validated",
    "time.Date / time.Unix / Location: a date is its civil day number (Gtfs.Civil, Hinnant's algorithm with time.Date's normalisation), an instant its Unix seconds; the instant at which a date is surfaced is Gtfs.Zone.dateUnix, which follows the code of time.Date (go1.23: two look-ups) over the zone's transition table; the table is exported from the implementation's own zone database by walking Time.ZoneBounds (tz database, LoadLocation and ZoneBounds trusted; table range 1980-2045, dates outside it carry no instant on either side) and the model's instant is compared with .Unix() of the real value for every date of every case; the model of time.Date is additionally validated against the time package itself on twenty zones (transitions at local midnight, skipped calendar days, negative daylight saving, quarter-hour offsets; stream ZON, run with C02: every offset-change day with its neighbours, every day of 1985-2040 in the thorough tier), including that Zone.Settled holds exactly on the days whose instant reads local midnight; that the result carries the configured *time.Location is observed on the implementation by the canonicaliser",
    "Go maps as association lists; sort.Slice as List.mergeSort (keys are distinct where the output is claimed); strconv.Atoi without overflow; encoding/json of the NYCT metadata is opaque (marker text)",
    "enum decoders, enum numbers and NYCT tables are regenerated from the source (Gen.Enums, Gen.NyctTables)",
]

ST_TB = [
    "modelled, differentially validated: ParseStatic and its ten row loops as Gtfs.Static.* (hand-written Lean model from the list of archive members; compared on every generated feed, all fields and references, through the public API)",
    "modelled, differentially validated: encoding/csv as csv.New configures it plus the UTF-8 BOM removal, as the byte-level fold Gtfs.Csv (UTF-16 byte-order marks and invalid UTF-8 after a BOM are outside the model)",
    "model boundary: archive/zip and compress/flate (trusted; the harness wraps the members into a zip, store or deflate)",
    "parameters of the model (library calls, computed by the harness for every cell of the case): parseFloat64 = TrimSpace + strconv.ParseFloat, time.LoadLocation (zone database trusted). The float answers are not trusted: for every cell that is a plain decimal (after trimming ASCII white space) the model certifies, in exact natural-number arithmetic, that the reported bits are the round-to-nearest, ties-to-even binary64 value of the decimal (Gtfs.Float.certify: signed zeros, subnormals, the overflow threshold); a refused cell is a disagreement. The certificate itself is validated against strconv.ParseFloat on random and adversarial decimals (ties between neighbouring doubles +- one unit in the last place, range edges) with the neighbouring bit patterns as negative controls (stream FLT, run with C01). Cells outside the plain decimal grammar (hex floats, inf, nan) keep the harness's answer uncertified",
    "a date is its civil day number (Gtfs.Civil); the instant at which it is surfaced is Gtfs.Zone.dateUnix (time.Date's code over the transition table of the feed's zone, exported from the implementation's zone database by walking Time.ZoneBounds, range 1980-2045), compared with .Unix() of every start, end, added and removed date; that each date carries the reported location and reads 00:00:00 there is additionally observed by the canonicaliser",
    "references are indices; the Go canonicaliser computes them by pointer identity and reports a pointer that is not an element of the result's own collection",
    "column names/required flags, ReadOr defaults, the file table, enum decoders and constants are regenerated from the source (Gen.Columns, Gen.FileTable, Gen.Enums)",
    "Go maps as association lists (last insertion wins); sort.Slice as List.mergeSort (claimed only for distinct keys); strconv.Atoi/ParseInt; int overflow inside parseGtfsTimeToDuration is not modelled",
]

INV_TB = [
    "the inventory extractor (goext/gen_inventory.go, goext/guards.go): it lists every panic-capable site, condition-less loop, range-over-map loop and shared write of the library from the typed syntax trees; its guard recogniser (nil check in an enclosing condition or early exit, range index, sort comparator, checked length, constant index into an array or a non-nil regex match, comma-ok assertion) and its map-range classifier (independent / collect-then-sort) are syntactic and trusted: they assume the guarded expression is not changed through an alias or a callee between guard and use; sites they do not recognise are discharged by hand in the Lean tables, filed by package, kind and operand type",
]

PROPS = {
    "C01": {
        "module": "GtfsVerif.Props.C01",
        "trusted_base": ST_TB,
        "runs": [{"cmd": "run", "prop": "C01"}, {"cmd": "run", "prop": "FLT"}],
        "partial": ["the statement 'well-formed archive in, exactly the written entities out, whatever the presentation' is one theorem down to headers and rows (C01_end_to_end: any archive holding any presentation of ten tables parses to the composition of the ten row functions over those tables; C01_presentation_independent as its corollary) plus per-row transcription theorems (C01_route_fields, C01_trip_fields, C01_stop_fields, C01_transfer_fields, C01_shape_row_fields, C01_frequency_fields, C01_stop_time_fields, C01_calendar_row, C01_one_entity_per_row; agency rows and calendar_dates rows are tied by the correspondence and by C09/C11's theorems); the typed-feed reading (unique ids, resolvable references => every row accepted and every reference the named entity) is carried by C03's reference theorems and by the oracle, which compares every field with the generated cells under two further presentations; zip/flate are outside the model",
                    "a transfers.txt row with from_stop_id = to_stop_id yields no Transfer (finding D20, pinned by TestParse/same_stop_transfer): well-formed feeds of the generator keep from != to"],
        "assumptions": ["values free of CR; unquoted fields free of comma, quote, LF (as the statement's quantifier)"],
    },
    "C03": {
        "module": "GtfsVerif.Props.C03",
        "trusted_base": ST_TB,
        "partial": [],
        "assumptions": [],
    },
    "C05": {
        "module": "GtfsVerif.Props.C05",
        "trusted_base": ST_TB + RT_TB + JOURNAL_TB + INV_TB,
        "runs": [{"cmd": "run", "prop": "C05"}, {"cmd": "run", "prop": "CSV"}],
        "partial": ["panics and hangs inside archive/zip, encoding/csv, protobuf-go, text/template, regexp cannot be exhibited by a theorem: they are exercised by the malformed-input streams (recover + 20 s watchdog per case)",
                    "ParseRealtime(_, nil) (a nil options pointer) panics; a nil pointer is not a configuration of the bundled extensions and is outside the quantifier"],
        "assumptions": [],
    },
    "C06": {
        "module": "GtfsVerif.Props.C06",
        "trusted_base": ST_TB + RT_TB + INV_TB,
        "partial": ["determinism across processes and repeated calls is a runtime fact observed by the oracle (6 repetitions, interleaved other inputs, a second process); the Lean part is that every range-over-map site of the regenerated inventory is one whose order cannot reach the output, and that no state is retained"],
        "assumptions": [],
    },
    "C08": {
        "module": "GtfsVerif.Props.C08",
        "trusted_base": ST_TB,
        "partial": [],
        "assumptions": ["distinct stop_sequence per trip and shape_pt_sequence per shape (the statement's quantifier): Go's sort is unstable"],
    },
    "C09": {
        "module": "GtfsVerif.Props.C09",
        "trusted_base": ST_TB,
        "partial": [],
        "assumptions": [],
    },
    "C10": {
        "module": "GtfsVerif.Props.C10",
        "trusted_base": ST_TB,
        "partial": [],
        "assumptions": [],
    },
    "C11": {
        "module": "GtfsVerif.Props.C11",
        "trusted_base": ST_TB,
        "partial": ["loading the zone is trusted (the harness tells the model which zone names resolve and hands it the zone's transition table, exported from the implementation's tz database)",
                    "'start of that day in the zone' is proved for fixed offsets unconditionally and for zones with transitions under the decidable condition Zone.Settled (C11_date_midnight, C11_date_midnight_quiet)"],
        "assumptions": [],
    },
    "C18": {
        "module": "GtfsVerif.Props.C18",
        "trusted_base": ST_TB + RT_TB + ["the Go race detector and memory model (runtime part): harness built with -race"],
        "runs": [{"cmd": "race", "prop": "C18", "binary": "harness-race"}],
        "partial": ["the absence of data races is a runtime fact: observed by the race detector over 16 goroutines sharing input buffers and one options/extension value per configuration, not proved; Lean proves that read-only processes cannot conflict in any interleaving and that the regenerated inventory of shared writes is within the allowed set"],
        "assumptions": [],
    },
    "C02": {
        "module": "GtfsVerif.Props.C02",
        "trusted_base": RT_TB,
        "runs": [{"cmd": "run", "prop": "C02"}, {"cmd": "run", "prop": "ZON"}],
        "partial": ["'exactly one Trip per distinct descriptor / one Vehicle per distinct vehicle' is proved on the model for conflict-free messages (C02_trips_exact, C02_vehicles_exact: present iff mentioned, once, with the own entity's data or the bare identifier; id-less vehicles one per id-less mention in feed order); that the surfaced Trip.Vehicle / Vehicle.Trip pointers agree with these entries is C04's part",
                    "'local midnight' is proved for every fixed offset unconditionally and for zones with transitions under the decidable condition Zone.Settled (time.Date's second guess is consistent; guaranteed when no transition lies in the window its look-ups reach: C02_start_date_midnight_quiet); where the wall clock skips midnight (Havana-style transitions at 00:00) no instant reads midnight and time.Date's answer, which the model reproduces, is outside the statement; the zone table itself comes from the implementation's tz database (trusted)"],
        "assumptions": ["protobuf required fields are present after Unmarshal (header, entity id, trip of a trip update)"],
    },
    "C04": {
        "module": "GtfsVerif.Props.C04",
        "trusted_base": RT_TB,
        "partial": ["pointer identity (t.Vehicle.Trip.Vehicle == t.Vehicle) is a runtime fact checked by the oracle's pointer walk; the theorems are about the data each reference reaches, over the whole message (C04_identified_link, C04_idless_trip_side, C04_idless_vehicle_side, C04_unassociated_trip, C04_unassociated_vehicle) and under any entity order (C07_parse_perm_invariant)"],
        "assumptions": [],
    },
    "C07": {
        "module": "GtfsVerif.Props.C07",
        "trusted_base": RT_TB,
        "partial": ["permutation invariance of Trips, Vehicles and their links is proved for every extension: C07_finish_perm_invariant over any pre-processed feed, C07_parse_perm_invariant for no extension and the NYCT trips extension (entity-by-entity pre-pass), C07_parse_perm_invariant_alerts for the NYCT alerts extension, whose pre-pass groups elevator alerts by first occurrence and is therefore order-sensitive: what it leaves of an elevator alert names no trip and no vehicle (prepass_alerts_mentions, an invariant of the pre-pass fold) and everything else is rewritten entity by entity; id-less Vehicles are the same multiset, each with its own entity's trip; alerts keep feed order (C02_alerts_exact, C17_alerts_end_to_end), the stops of an elevator group are the same set for every order (C17_group_stops_perm)"],
        "assumptions": [],
    },
    "C12": {
        "module": "GtfsVerif.Props.C12",
        "trusted_base": RT_TB,
        "partial": [],
        "assumptions": [],
    },
    "C16": {
        "module": "GtfsVerif.Props.C16",
        "trusted_base": RT_TB,
        "partial": ["transparency: C16_transparent_message (a message of plain entities parses exactly as with no extension) and C16_transparent_in_any_feed (in a mixed feed each plain entity reaches the merge loop unchanged and contributes to any state what it contributes without the extension); what the *result* of a mixed feed looks like entity by entity is checked by the oracle, which parses each feed with and without the extension",
                    "trip ids containing invalid UTF-8 in the two wildcard positions are outside the matcher model"],
        "assumptions": [],
    },
    "C17": {
        "module": "GtfsVerif.Props.C17",
        "extra_modules": ["GtfsVerif.Props.C17Groups"],
        "trusted_base": RT_TB,
        "partial": ["elevator grouping over a whole feed is proved on the pre-pass model (C17_group_keys: one group per distinct documented id; C17_group_stops: the group's entry is not skipped, carries the documented id, cause maintenance and effect accessibility issue, and informs exactly the distinct stops of all its members; C17_group_stops_perm: the same set for any order; later members skipped); composed with ParseRealtime's merge loop in C17_alerts_end_to_end (Realtime.Alerts is exactly the pre-pass entries that are not skipped, each turned into an alert, in feed order) and C17_group_alert_in_result (for every group of any feed the result contains the alert with the documented id, cause maintenance, effect accessibility issue, informing exactly the distinct stops of all members; the entry at a group's position provably comes from an alert-only entity); the same is checked end to end by the correspondence and the oracle",
                    "the JSON text of the NYCT metadata is opaque in the model (a marker); its presence is modelled exactly"],
        "assumptions": [],
    },
    "C13": {
        "module": "GtfsVerif.Props.C13",
        "trusted_base": HASH_TB,
        "partial": [],
        "assumptions": ["string lengths and update counts below 2^64 (always true of Go values)"],
    },
    "C15": {
        "module": "GtfsVerif.Props.C15",
        "trusted_base": JOURNAL_TB,
        "partial": ["UID injectivity is proved only for suffixes that do not start with a digit (C15_uid_injective_partial); the full statement is false of the code's \"%d%s\" format: C15_uid_collision proves the witness (100,\"5\") vs (1005,\"\"), replayed on the implementation on every run as known finding D17",
                    "accounting over whole histories is a refinement theorem (C15_account_history: after any sequence of feeds the entry of a UID carries the account the specification computes feed by feed) with the marked-past corollary (C15_marked_past_time: the mark is the time of the first feed lacking the trip after a feed that had it, later feeds lacking it change nothing); the identifier fields of the last applied update are per-step theorems (C15_applied_identity)"],
        "assumptions": [],
    },
    "C19": {
        "module": "GtfsVerif.Props.C19",
        "trusted_base": ["modelled: DirectoryGtfsrtSource.Next as Gtfs.Journal.dirSource (sorted listing, filterMap of read-then-parse); sort.Strings as List.mergeSort on bytewise order",
                         "outside the model (named, exercised on real directories only): os.ReadDir, os.ReadFile, the file system, ParseRealtime's own error behaviour on corrupt bytes"],
        "partial": ["the file system is not modelled: which entries are unreadable is an input of the model; real directories with sub-directories, vanished files, dangling symlinks, empty/truncated/corrupt files are exercised by the correspondence", "unreadable-by-permission files are not exercised (the harness runs as root)"],
        "assumptions": ["directory entry names are distinct (true of any directory)"],
    },
    "C20": {
        "module": "GtfsVerif.Props.C20",
        "trusted_base": JOURNAL_TB + ["modelled, differentially validated byte for byte: text/template rendering of trips.csv.tmpl and stop_times.csv.tmpl as Gtfs.Journal.tripsCsv / stopTimesCsv", "regenerated: the decomposition of both template files and the FuncMap (Gen.ExportTemplate); the extractor's tokeniser is trusted to trim as text/template does",
                                      "read-back in the theorems is splitting at LF then at commas; that this coincides with encoding/csv on quote-free, CR-free text is checked by the oracle, which reads every export back with encoding/csv"],
        "partial": ["a stop-time row whose seven cells were all empty cannot occur (last_observed is a decimal number, never empty; the trip's UID may be empty in a journal that was not built by BuildJournal, and such journals are generated)"],
        "assumptions": [],
    },
    "C14": {
        "module": "GtfsVerif.Props.C14",
        "trusted_base": JOURNAL_TB,
        "partial": ["'which occurrence of a repeated stop is aligned' is left open exactly as in the statement; the theorems only use the first occurrence (T3)"],
        "assumptions": ["an update ignored by the unassigned-update guard is not an effective step (reading shared with C15)"],
    },
}

MANIFEST_TEXT = {
    "C01": {
        "text": "Theorems: the CSV reader returns exactly the written records for every quoting / LF-CRLF / final-newline choice (proved over the byte-level reader model), BOM removal, lookup by header name and member lookup by name, per-row transcription of routes / stops / trips, one entity per accepted row in order, ParseStatic on any archive presenting ten tables as the composition of the ten per-file row functions over those tables (one end-to-end theorem, presentation only in the hypotheses; presentation independence as corollary), H:MM:SS (past 24:00:00) decoding, YYYYMMDD decoding for every eight-digit string (valid dates are the civil day they name, everything else is rejected: no roll-over), decimal cells certified as correctly rounded binary64 values (within half a unit in the last place, ties to even; exact arithmetic; at most one answer per cell is certified), enums by digit over the regenerated decoders; columns, required flags and the file table of the source are tied to the model's. The correspondence parses each well-formed feed under three presentations and compares every field with the model and with the generated cells.",
        "note": "Trusted: Lean kernel, harness, zip/flate, tz database; strconv.ParseFloat is not trusted for plain decimals (every answer is certified in exact arithmetic; at most one answer per cell is certified - C01_float_unique, proved; that strconv's answer is the certified one is validated on every cell and by the stream FLT with neighbouring bit patterns as negative controls); encoding/csv is modelled and validated (also by a dedicated random-bytes stream). C01_end_to_end composes presentation, member lookup and the ten-file composition; per-row transcription for routes, trips, stops, transfers, shape points, frequencies, stop times and calendar rows are separate theorems.",
        "technique": "Lean 4 proof (CSV presentation round trip, per-row transcription) over regenerated schema facts + generator-truth correspondence",
    },
    "C03": {
        "text": "Theorems for any member bytes: every reference index is in range of its target collection and the target carries the id named in the referring row (route->agency, transfer->stops, trip->route/service/shape, stop time->stop/trip); the parent links produced by the linking pass form a forest for any ids and parent_station values (invariant over the pass: chains end, unprocessed stops are roots; adding a link whose target's chain avoids the stop keeps it); the fuel of the model's cycle check is never exhausted (on a forest every chain ends within length+1 steps, by pigeonhole), so any larger fuel - Go's unbounded loop - gives the same links. The canonicaliser locates every pointer by identity in the result's own collections; the oracle walks every chain under a step budget on adversarial feeds.",
        "note": "Trusted: Lean kernel, harness. Pointer identity is observed, not proved.",
        "technique": "Lean 4 proof (index specs, forest invariant by induction over the linking pass) + pointer-identity correspondence",
    },
    "C05": {
        "text": "Lean: the models of all entry points are total functions (termination checked by Lean); every panic-capable site of the regenerated inventory (index, slice, dereference, type assertion, panic) carries a guard the extractor recognised or is one of 17 hand-discharged kinds (filed by package, kind and operand type, so robust against moving and renaming), condition-less loops are pinned, Root terminates by the forest theorem. Runtime: malformed-input streams (semantic garbage in valid CSV, random CSV bytes, random archive bytes, mutated protobuf under all 25 extension configurations, journals and exports, every accessor) under recover and a watchdog; the model predicts the outcome class of static cases, and the CSV reader model is validated on random bytes.",
        "note": "Partial by nature: library internals are exercised, not proved.",
        "technique": "Lean 4 totality + inventory-discharge theorem over regenerated panic sites + malformed-input exploration",
    },
    "C06": {
        "text": "Lean: every range-over-map site of the regenerated inventory is classified by the extractor as independent iterations or collect-then-sort (none unclassified), the sort keys being distinct by C07/C11 theorems; no package-level state, options copied, stateful extension instantiated per message. Runtime oracle: same bytes parsed 6 times, again after unrelated inputs with one options/extension object, and in a second process; content and order compared, input buffer unchanged; cases are built so that any map-ordered output has 8 entries.",
        "note": "Determinism across runs is observed by repetition (miss probability 8^-6 per case for an 8-entry map), not proved.",
        "technique": "Lean 4 inventory theorem over regenerated map-range sites + repeated/cross-process parse oracle",
    },
    "C08": {
        "text": "Theorems: stop times ascending per trip, shapes ordered by id, shape points ascending (mergeSort sortedness), routes/trips keep row order (filterMap sublist), frequencies appended in row order, and row-permutation invariance of stop_times.txt and of shapes.txt (shapes, their order and their points) for distinct sequences (uniqueness of the sorted permutation). The correspondence parses each feed with the rows of stop_times.txt and shapes.txt reversed, riffled and shuffled.",
        "note": "Trusted: Lean kernel, harness; sort.Slice modelled as a sort (unstable: distinct keys assumed as in the statement).",
        "technique": "Lean 4 proof (sortedness, sorted-permutation uniqueness) + row-shuffle correspondence",
    },
    "C09": {
        "text": "Theorems: each listed cause makes the row function yield nothing; a rejected row inserted at any position of any of the ten files leaves that file's contribution unchanged (filterMap / fold insertion lemmas; for stops including the parent table, for stop times the per-trip lists); every agency warning names the file, the 1-based row number and exactly that row's cells and the header (invariant over the row fold). The correspondence inserts 1-5 invalid rows of every cause into random files and compares with the clean parse.",
        "note": "Trusted: Lean kernel, harness.",
        "technique": "Lean 4 proof (rejected rows are filterMap/fold no-ops, warning invariant) + bad-row insertion correspondence",
    },
    "C10": {
        "text": "Theorems over the regenerated ReadOr defaults and enum default branches: blank = absent for every default-bearing read, the defaults are the documented GTFS ones, which decoder reads which column, one-sided arrival/departure fill-in, and 'inheritance on = inheritance pass applied to inheritance off' with the pass touching nothing but wheelchair boarding of unspecified stops under a station. The correspondence spells 1-4 columns three ways (blank, absent, mixed) and toggles the option.",
        "note": "Trusted: Lean kernel, harness, extractor of the ReadOr call sites.",
        "technique": "Lean 4 proof (decide over regenerated defaults, fold-scope lemma) + three-spellings correspondence",
    },
    "C11": {
        "text": "Theorems: the service table keeps distinct keys, each entry under its own id, and start <= every added/removed date <= end after any sequence of calendar and exception rows (invariant by induction over both folds); one Service per id ordered by id; a calendar row sets flags and range, exception rows append in file order and extend the range, unknown types change nothing; zone rule; the instant of every date is time.Date's over the zone's transition table (closed form of its two look-ups), reads local midnight (fixed offsets: always; transitions: when the second guess is consistent), and the range covers the exception dates as instants too. The oracle recomputes the expected services from the generated rows.",
        "note": "Trusted: Lean kernel, harness, tz database.",
        "technique": "Lean 4 proof (table invariant by induction over rows) + generator-truth correspondence",
    },
    "C18": {
        "text": "Runtime: a -race build runs 16 goroutines over shared archives/messages with one shared options and extension value per configuration and compares every result with the call made alone; results are hashed and walked from other goroutines. Lean: read-only processes never conflict in any interleaving; the regenerated inventory shows no package-level writes, only allowed writes through parameters, options copied, per-message extension instances.",
        "note": "Partial by nature: the absence of races is observed by the race detector, not proved.",
        "technique": "Lean 4 interleaving lemma + inventory theorem over regenerated shared writes + Go race detector run",
    },
    "C02": {
        "text": "Theorems over the realtime model for all decoded messages: timestamps are the same instant (identity below 2^63, two's complement above), delay/time/uncertainty and every optional vehicle field carried over with absent staying absent, HH:MM:SS to seconds for all two-digit triples, YYYYMMDD to the civil day (normalisation is the identity on valid dates) surfaced at time.Date's instant over the configured zone's transition table (closed form of the two look-ups; local midnight for fixed offsets always and for zones with transitions whenever the second guess is consistent; instants ordered like days), direction and enum decoders over the regenerated tables, one Alert per non-skipped alert entity in feed order (closed form of the merge loop), regex texts pinned. The model is compared field by field with ParseRealtime on generated conflict-free messages in 8 zones and the oracle compares the result with the wire values.",
        "note": "Trusted: Lean kernel, protobuf-go, tz database and Time.ZoneBounds (the zone table is exported from them; time.Date's algorithm over the table is modelled and compared on every date), harness. 'One Trip per distinct descriptor, one Vehicle per distinct vehicle' is C02_trips_exact / C02_vehicles_exact.",
        "technique": "Lean 4 proof over a model of ParseRealtime + differential correspondence and wire-truth oracle",
    },
    "C04": {
        "text": "Theorems: an entity associating a trip with a vehicle records the association both ways (trip update with vehicle descriptor; vehicle position with trip descriptor; id-less vehicle as a positional link), and link resolution makes the two result entries reach each other's data (with id and id-less), nil when no association; over the whole message (closed form of the link tables as a fold over the message's vehicle items): every association an entity makes is reflected by mutual references whatever else the message contains, provided associations do not contradict each other. The oracle walks the real pointers (mutual, content equal to the list entries, nil exactly when unassociated) on conflict-free messages in several entity orders.",
        "note": "Pointer identity is a runtime fact: observed by the oracle, not proved. Trusted: Lean kernel, harness.",
        "technique": "Lean 4 proof over the association tables / link resolution of the model + pointer-walk oracle",
    },
    "C07": {
        "text": "Theorems for every message and extension: TripID.Less is a strict total order on parser-produced identifiers (lexicographic key), Trips is strictly increasing in it (state invariant of the merge loop by induction over entities: keys distinct, well-formed, entry id = key; mergeSort sortedness), Vehicles has no duplicate identifier; own-entity-wins for any position of the own entity among references; mentions of different trips commute. Permutation invariance of Trips, Vehicles and the links between them for conflict-free messages is proved for every extension, including the NYCT alerts extension whose pre-pass is order-sensitive (what it leaves of an elevator alert names no trip and no vehicle; closed form of merging one key's mentions, closed form of link resolution over the vehicle items of the message, uniqueness of a sorted permutation); every case is also parsed in 6 entity orders on model and implementation.",
        "note": "Trusted: Lean kernel, harness. sort.Slice is modelled as a sort; output claimed only where keys are distinct (proved).",
        "technique": "Lean 4 proof (strict total order via lexicographic keys, loop invariant by induction) + permutation correspondence",
    },
    "C12": {
        "text": "Decision-logic theorems for every alert: the informed entities are exactly the filterMap of the selectors (in order, exact values, trip id kept iff it identifies a trip) followed by the route fallbacks; every entity informs something; a trip id is present only if it determines a trip and is then among the trips merged into Trips; fallbacks only for routes not named explicitly, at most one per route, direction rule. Correspondence over all 2^10 presence patterns of a selector plus random multi-selector alerts; the oracle re-derives the statement from the wire.",
        "note": "Trusted: Lean kernel, harness, regenerated enum decoders.",
        "technique": "Lean 4 proof (closed form of the selector fold) + exhaustive presence-pattern correspondence",
    },
    "C16": {
        "text": "Theorems: direction map (NORTH/absent to False, SOUTH to True), assigned trip gets the vehicle descriptor {id: train id}, track rule, the start time for every origin time below 600000 by arithmetic (n*6/10 seconds, accepted by the start-time parser), the stale filter as an iff, the M-train swap is an involution that touches only N/S at the listed stations (regenerated list), plain entities are untouched by the pre-pass and contribute to any state of the merge loop what they contribute without the extension; a message of plain entities parses exactly as with no extension. Correspondence and oracle over mixed NYCT/plain feeds, all four option combinations, boundary first-stop times.",
        "note": "Trusted: Lean kernel, harness, hand-written matcher for TripIDRegex (text pinned, differentially validated).",
        "technique": "Lean 4 proof (arithmetic on %02d rendering, decision logic) + differential correspondence",
    },
    "C17": {
        "text": "Theorems: the priority->effect table (40 entries), the timetabled set, cause prefixes, elevator cause/effect and id formats are regenerated from the source and pinned to the documented values; effect is the fold of the priorities over the table, skip iff option and a timetabled priority, metadata iff requested, plain alerts pass through unchanged, over the whole pre-pass fold one group per distinct documented id whose entry informs exactly the distinct stops of all its members (invariant by induction over the entities), independent of member order, first member kept under the documented id and later members skipped. Correspondence and oracle over 3 policies x 2^3 flags, all priorities.",
        "note": "Trusted: Lean kernel, harness, hand-written matcher for the elevator id regex (text pinned), opaque metadata JSON.",
        "technique": "Lean 4 proof over regenerated tables (decide) and the alert pre-pass model + differential correspondence",
    },
    "C15": {
        "text": "Theorems over the BuildJournal model for all histories and windows: output strictly increasing in UID (keys of the state are distinct and every entry's UID is its key, by induction over feeds; mergeSort sortedness), selection = assigned and start in [lo,hi], Trip.update/markPast refine the abstract account (count, last observed, marked-past set once, unassigned updates ignored after assignment, assignment monotone) and the refinement is lifted to whole histories (the entry of a UID after any feed sequence carries the account computed feed by feed; the mark is the time of the first feed lacking the trip), UID injective for non-digit-leading suffixes; the counterexample to full UID injectivity is proved and kept as known finding D17; the UID of the model is proved to be the Sprintf format and prefix length read from buildTripUID on every run (C15_uid_is_source_format). Tied to journal.go by comparing every prefix x window of generated histories; an independent accounting oracle checks the implementation.",
        "note": "Trusted: Lean kernel, correspondence harness. Known finding D17 (UID collision when the suffix starts with a digit) is listed in KNOWN_FINDINGS.jsonl and reproduced by a dedicated probe on every run.",
        "technique": "Lean 4 proof (state invariants by induction over feeds, refinement to an abstract account) + differential correspondence with journal.BuildJournal",
    },
    "C19": {
        "text": "Theorems over the directory-source model for all listings and all read/parse outcomes: the yielded sequence is the filterMap of the bytewise-sorted listing, one value per good file, bad entries are inert (sorting commutes with filtering, by uniqueness of sorted permutations), hence the journal over the directory equals the journal over its good files. The model is compared with DirectoryGtfsrtSource on real directories containing every fault kind.",
        "note": "Partial by nature: the file system and ParseRealtime's error paths are exercised, not proved. Trusted: Lean kernel, harness, os package.",
        "technique": "Lean 4 proof over a model of the source loop + fault-directory correspondence",
    },
    "C20": {
        "text": "Theorems for all journals free of CSV metacharacters: both tables split back (LF, then commas) into exactly the header and one row per trip / stop time in journal order with exactly the entry's cells (decimal round trip proved, direction 0/1/blank), each stop-time row keyed by its trip's UID; the two template files and the FuncMap are read on every run, and the model's rows are proved to be the rendering of today's row actions, separators and terminator (header = model's header, as many names as cells, which field under which name). The rendering model is compared byte for byte with ExportToCsv and every export is read back with encoding/csv by the oracle.",
        "note": "Trusted: Lean kernel, harness, the template tokeniser of the extractor, text/template's evaluation of field actions (modelled by tripField / stField and a hand-written renderer, validated byte for byte), encoding/csv in the oracle.",
        "technique": "Lean 4 proof (join/split inverse, decimal round trip, rendering of the regenerated template rows) + byte-level correspondence with ExportToCsv",
    },
    "C13": {
        "text": "The encoder model is regenerated from hash.go on every run; Lean proves, for all pairs of trips (vehicles), that the hash input streams are equal iff all data fields are equal: prefix-injectivity of the generated combinator expression by instance resolution, and injectivity of the generated field tuple (every data field is written). The generated encoder is compared byte for byte with the real Hash output, and pair oracles (one-field differences, nil vs zero, string boundary shift, update count, presentation-only differences) run on the implementation.",
        "note": "Trusted: Lean kernel, the hash-body translator (validated by byte comparison each run), encoding/binary and the supplied hash.Hash. The digest function itself (collisions of e.g. SHA-256) is out of scope: the property is about the hash input.",
        "technique": "Lean 4 proof (prefix-injective encoder combinators, instance resolution) over a model regenerated from hash.go + byte-stream correspondence",
    },
    "C14": {
        "text": "Theorems over the journal model for all stop-time lists, updates and histories: the update shape (marked-past prefix of the old list followed by exactly the update's stops), no drop before the first updated stop, the shape invariant over every reachable state of BuildJournal's loop by induction over the feed list (via the per-UID closed form of one feed), mark stability. The model is tied to journal.go by comparing every prefix of thousands of generated histories with the real BuildJournal, and the statement itself is checked on the implementation by an oracle.",
        "note": "Trusted: Lean kernel (axioms propext, Classical.choice, Quot.sound), the correspondence harness and its generators. The Go journal code is modelled (hand-written) rather than verified; the model/implementation tie is differential.",
        "technique": "Lean 4 proof by induction over feed histories + differential correspondence with journal.BuildJournal",
    },
}

NOT_APPLICABLE = []
