"""Per-property configuration of ./check: Lean module with the property's theorems, harness runs,
trusted base and stated partiality (copied into the evidence)."""

JOURNAL_TB = [
    "modelled, differentially validated: journal.BuildJournal / Trip.update / createPartition / markPast as Gtfs.Journal.* (hand-written Lean model, compared on every prefix of every generated history)",
    "Go maps (trips, activeTrips) modelled as association lists observed through lookup/insert; sort.Strings as List.mergeSort on bytewise order",
    "times as Unix seconds (all times the journal handles have zero nanoseconds); fmt %d as Gtfs.intToDec",
]

HASH_TB = [
    "translated on every run (goext/gen_hash.go): the bodies of hasher.trip / hasher.vehicle into encoder combinators (Gen/HashSchema.lean); the translator is validated on every run by comparing the generated encoder's bytes with the byte stream the real Hash methods write into a recording hash.Hash",
    "encoding/binary.Write (fixed-width little-endian), bytes.Buffer and the hash.Hash passed in are trusted; the helper bodies string/stringPtr/timePtr/hashNumberPtr/flush/number are pinned textually by the translator",
    "fields are compared as unsigned representations (two's complement, IEEE bit patterns, Unix seconds)",
]

PROPS = {
    "C13": {
        "module": "GtfsVerif.Props.C13",
        "trusted_base": HASH_TB,
        "partial": [],
        "assumptions": ["string lengths and update counts below 2^64 (always true of Go values)"],
    },
    "C14": {
        "module": "GtfsVerif.Props.C14",
        "trusted_base": JOURNAL_TB,
        "partial": ["'which occurrence of a repeated stop is aligned' is left open exactly as in the statement; the theorems only use the first occurrence (T3)"],
        "assumptions": ["an update ignored by the unassigned-update guard is not an effective step (reading shared with C15)"],
    },
}

MANIFEST_TEXT = {
    "C13": {
        "text": "The encoder model is regenerated from hash.go on every run; Lean proves, for all pairs of trips (vehicles), that the hash input streams are equal iff all data fields are equal: prefix-injectivity of the generated combinator expression by instance resolution, and injectivity of the generated field tuple (every data field is written). The generated encoder is compared byte for byte with the real Hash output, and pair oracles (one-field differences, nil vs zero, string boundary shift, update count, presentation-only differences) run on the implementation.",
        "note": "Trusted: Lean kernel, the hash-body translator (validated by byte comparison each run), encoding/binary and the supplied hash.Hash. The digest function itself (collisions of e.g. SHA-256) is out of scope: the property is about the hash input.",
        "technique": "Lean 4 proof (prefix-injective encoder combinators, instance resolution) over a model regenerated from hash.go + byte-stream correspondence",
    },
    "C14": {
        "text": "Theorems over the journal model for all stop-time lists, updates and histories: the update shape (marked-past prefix of the old list followed by exactly the update's stops), no drop before the first updated stop, the shape invariant over every reachable state of BuildJournal's loop by induction over the feed list (via the per-UID closed form of one feed), mark stability. The model is tied to journal.go by comparing every prefix of thousands of generated histories with the real BuildJournal, and the statement itself is checked on the implementation by an oracle.",
        "note": "Trusted: Lean kernel (axioms propext, Classical.choice, Quot.sound), the correspondence harness and its generators. The Go journal code is modelled (hand-written) rather than verified; the model/implementation tie is differential.",
        "technique": "Lean 4 proof by induction over feed histories + differential correspondence with journal.BuildJournal",
    },
}

NOT_APPLICABLE = []
