#!/bin/sh
# Regenerates lean/GtfsVerif/Gen/*.lean from the repository's current working tree (as ./check does at the start of
# every run); a module the extractor does not recognise falls back to its snapshot.
cd "$(dirname "$0")"
export GOFLAGS=-mod=mod GOPROXY=off GOSUMDB=off GOTOOLCHAIN=local
REPO="${VERIF_REPO:-/repo}"
[ -x build/extract ] || (cd goext && go build -o ../build/extract .)
rm -rf build/gen.tmp && mkdir -p build/gen.tmp
(cd goext && ../build/extract --repo "$REPO" --out ../build/gen.tmp) >/dev/null 2>&1
rc=$?
for s in lean/GtfsVerif/GenSnapshot/*.lean; do
  f=$(basename "$s")
  if [ $rc -eq 0 ] && [ -f "build/gen.tmp/$f" ] && ! grep -q EXTRACTION-FAILED "build/gen.tmp/$f"; then src="build/gen.tmp/$f"; else src="$s"; fi
  cmp -s "$src" "lean/GtfsVerif/Gen/$f" || cp "$src" "lean/GtfsVerif/Gen/$f"
done
