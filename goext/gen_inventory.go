package main

import (
	"fmt"
	"go/ast"
	"go/token"
	"go/types"
	"path/filepath"
	"regexp"
	"sort"
	"strings"
)

// Inventories over the library's own (non-test, non-generated) code. Entries carry the enclosing
// function and the normalised expression, no line numbers, so that moving code does not change them.

var inventoryPkgs = []string{"", "/csv", "/warnings", "/journal", "/extensions", "/extensions/nycttrips", "/extensions/nyctalerts", "/constants"}

func funcName(fd *ast.FuncDecl) string {
	if fd.Recv != nil && len(fd.Recv.List) == 1 {
		t := fd.Recv.List[0].Type
		if st, ok := t.(*ast.StarExpr); ok {
			t = st.X
		}
		if ix, ok := t.(*ast.IndexExpr); ok {
			t = ix.X
		}
		if id, ok := t.(*ast.Ident); ok {
			return id.Name + "." + fd.Name.Name
		}
	}
	return fd.Name.Name
}

func rootIdent(e ast.Expr) *ast.Ident {
	for {
		switch x := e.(type) {
		case *ast.Ident:
			return x
		case *ast.SelectorExpr:
			e = x.X
		case *ast.IndexExpr:
			e = x.X
		case *ast.StarExpr:
			e = x.X
		case *ast.ParenExpr:
			e = x.X
		default:
			return nil
		}
	}
}

var indexContents = regexp.MustCompile(`\[[^\]]*\]`)

func leanStrList(xs []string) string {
	q := make([]string, len(xs))
	for i, x := range xs {
		q[i] = fmt.Sprintf("%q", x)
	}
	return "[" + strings.Join(q, ", ") + "]"
}

func genInventory(c *ctx) (string, error) {
	var mapRanges, mapRangeClasses, loops, loopFuncs, panicSites, unguarded, globalWrites, sharedWrites, sharedWriteKinds []string
	perMessageFresh := false
	for _, suffix := range inventoryPkgs {
		p := c.pkg(suffix)
		pkgShort := strings.TrimPrefix(suffix, "/")
		if pkgShort == "" {
			pkgShort = "gtfs"
		}
		for _, f := range p.Syntax {
			fname := filepath.Base(c.fset.Position(f.Pos()).Filename)
			if strings.HasSuffix(fname, "_test.go") || strings.HasSuffix(fname, ".pb.go") {
				continue
			}
			for _, d := range f.Decls {
				fd, ok := d.(*ast.FuncDecl)
				if !ok || fd.Body == nil {
					continue
				}
				fn := pkgShort + "." + funcName(fd)
				// parameters and receiver of this function
				params := map[types.Object]bool{}
				addFields := func(fl *ast.FieldList) {
					if fl == nil {
						return
					}
					for _, fld := range fl.List {
						for _, n := range fld.Names {
							if o := p.TypesInfo.Defs[n]; o != nil {
								params[o] = true
							}
						}
					}
				}
				addFields(fd.Recv)
				addFields(fd.Type.Params)
				isEntry := fn == "gtfs.ParseStatic" || fn == "gtfs.ParseRealtime" || strings.Contains(fn, ".extension.") || strings.Contains(fn, ".NoExtensionImpl.")
				recordWrite := func(lhs ast.Expr) {
					if _, plain := lhs.(*ast.Ident); plain {
						// assignment to a package-level variable itself
						id := lhs.(*ast.Ident)
						if o, ok := p.TypesInfo.Uses[id].(*types.Var); ok && o.Parent() == p.Types.Scope() {
							globalWrites = append(globalWrites, fn+": "+exprString(c, lhs))
						}
						return
					}
					r := rootIdent(lhs)
					if r == nil {
						return
					}
					o := p.TypesInfo.Uses[r]
					if v, ok := o.(*types.Var); ok && v.Parent() == p.Types.Scope() {
						globalWrites = append(globalWrites, fn+": "+exprString(c, lhs))
						return
					}
					if isEntry && o != nil && params[o] {
						sharedWrites = append(sharedWrites, fn+": "+r.Name+": "+exprString(c, lhs))
						// … and by package, type written through and path, so that moving the assignment into a helper
						// method of the same package or renaming the parameter does not change its key
						pkgName := fn
						if i := strings.Index(fn, "."); i >= 0 {
							pkgName = fn[:i]
						}
						path := strings.TrimPrefix(strings.TrimPrefix(exprString(c, lhs), "*"), r.Name)
						if strings.HasPrefix(exprString(c, lhs), "*") {
							path = "*" + path
						}
						path = indexContents.ReplaceAllString(path, "[]")
						sharedWriteKinds = append(sharedWriteKinds, pkgName+": "+strings.TrimPrefix(types.TypeString(o.Type(), func(q *types.Package) string { return q.Name() }), "*")+": "+path)
					}
				}
				g := &guardCtx{c: c, info: p.TypesInfo}
				// a site without a recognised guard is filed by package, kind and the *type* it operates on, so
				// that moving it to another function or renaming its variables does not change its key
				site := func(kind, text, guard string, on ast.Expr) {
					if guard != "" {
						panicSites = append(panicSites, fn+": "+kind+" "+text+"  [guard: "+guard+"]")
					} else {
						shape := ""
						if on != nil {
							if t := p.TypesInfo.TypeOf(on); t != nil {
								shape = types.TypeString(t, func(q *types.Package) string { return q.Name() })
							}
						} else {
							shape = "in " + funcName(fd)
						}
						panicSites = append(panicSites, fn+": "+kind+" "+text+"  [unguarded: "+pkgShort+": "+kind+" "+shape+"]")
						unguarded = append(unguarded, pkgShort+": "+kind+" "+shape)
					}
				}
				walkStack(fd.Body, func(n ast.Node, stack []ast.Node) {
					switch x := n.(type) {
					case *ast.RangeStmt:
						if t := p.TypesInfo.TypeOf(x.X); t != nil {
							if _, ok := t.Underlying().(*types.Map); ok {
								mapRanges = append(mapRanges, fn+": "+exprString(c, x.X))
								mapRangeClasses = append(mapRangeClasses, fn+": "+exprString(c, x.X)+": "+g.classifyMapRange(x, fd.Body))
							}
						}
					case *ast.ForStmt:
						if x.Cond == nil {
							loopFuncs = append(loopFuncs, fn)
							loops = append(loops, fn+": for {}")
						}
					case *ast.IndexExpr:
						if t := p.TypesInfo.TypeOf(x.X); t != nil {
							switch t.Underlying().(type) {
							case *types.Map, *types.Signature:
							default:
								if _, isType := p.TypesInfo.Types[x.X]; isType && p.TypesInfo.Types[x.X].IsType() {
									break
								}
								site("index", exprString(c, x), g.guardOfIndex(x, stack, fd), x.X)
							}
						}
					case *ast.SliceExpr:
						site("slice", exprString(c, x), g.guardOfSlice(x, stack, fd), x.X)
					case *ast.StarExpr:
						if tv, ok := p.TypesInfo.Types[x]; ok && !tv.IsType() {
							gd := g.guardOfDeref(x, stack, fd)
							if gd == "" && g.receiverNeverNil(x.X, fd) {
								gd = "receiver-of-addressable-values"
							}
							site("deref", exprString(c, x), gd, x.X)
						}
					case *ast.TypeAssertExpr:
						if x.Type != nil && !commaOk(x, stack) {
							site("assert", exprString(c, x), "", x.X)
						}
					case *ast.CallExpr:
						if id, ok := x.Fun.(*ast.Ident); ok && id.Name == "panic" {
							site("panic", "", "", nil)
						}
						if fn == "gtfs.ParseRealtime" {
							if sel, ok := x.Fun.(*ast.SelectorExpr); ok && sel.Sel.Name == "ForMessage" {
								perMessageFresh = true
							}
						}
					case *ast.AssignStmt:
						if x.Tok == token.DEFINE {
							return
						}
						for _, l := range x.Lhs {
							recordWrite(l)
						}
					case *ast.IncDecStmt:
						recordWrite(x.X)
					}
				})
			}
		}
	}
	// a comma-ok type assertion is not a panic site: drop `x, ok := e.(T)` forms (they appear as
	// assert entries whose parent is a two-valued assignment); handled by text: keep all, the
	// discharged table lists them with their guard.
	for _, l := range []*[]string{&mapRanges, &mapRangeClasses, &loops, &panicSites, &unguarded, &globalWrites, &sharedWrites, &sharedWriteKinds} {
		sort.Strings(*l)
		*l = dedup(*l)
	}
	var sb strings.Builder
	sb.WriteString("namespace Gtfs.Gen.Inventory\n\n")
	fmt.Fprintf(&sb, "/-- every `range` over a map, as \"pkg.func: operand\" -/\ndef mapRanges : List String := %s\n\n", leanStrListNL(mapRanges))
	fmt.Fprintf(&sb, "/-- the same sites with the extractor's structural classification: `independent` (each iteration touches only its own entry), `collect-then-sort` (the body only appends to slices that are sorted afterwards in the same function), or `unclassified: why` -/\ndef mapRangeClasses : List String := %s\n\n", leanStrListNL(mapRangeClasses))
	var unclassified []string
	for _, m := range mapRangeClasses {
		if strings.Contains(m, ": unclassified") {
			unclassified = append(unclassified, m)
		}
	}
	fmt.Fprintf(&sb, "/-- range-over-map sites whose order-insensitivity the extractor could not establish structurally -/\ndef mapRangesUnclassified : List String := %s\n\n", leanStrListNL(unclassified))
	fmt.Fprintf(&sb, "/-- every `for` without a condition -/\ndef unboundedLoops : List String := %s\n\n", leanStrListNL(loops))
	fmt.Fprintf(&sb, "/-- the functions these loops are in -/\ndef unboundedLoopFuncs : List String := %s\n\n", leanStrListNL(dedupStrings(loopFuncs)))
	fmt.Fprintf(&sb, "/-- every expression that can panic on some value: index/slice on non-maps, explicit dereference, type assertion, panic call -/\ndef panicSites : List String := %s\n\n", leanStrListNL(panicSites))
	fmt.Fprintf(&sb, "/-- every assignment whose target is (reached through) a package-level variable -/\ndef globalWrites : List String := %s\n\n", leanStrListNL(globalWrites))
	fmt.Fprintf(&sb, "/-- in the parse entry points and the extension methods: assignments through a parameter or the receiver, as \"pkg.func: root: target\" -/\ndef sharedWrites : List String := %s\n\n", leanStrListNL(sharedWrites))
	fmt.Fprintf(&sb, "/-- the same assignments by package, type written through and path (independent of function and parameter names) -/\ndef sharedWriteKinds : List String := %s\n\n", leanStrListNL(dedupStrings(sharedWriteKinds)))
	fmt.Fprintf(&sb, "/-- ParseRealtime asks a PerMessageExtension for a fresh instance per message -/\ndef parseRealtimeUsesForMessage : Bool := %v\n\n", perMessageFresh)
	fmt.Fprintf(&sb, "/-- ParseRealtime re-points its options parameter to a local copy (`x := *opts; opts = &x`) before any assignment through it -/\ndef parseRealtimeWritesOnlyToCopy : Bool := %v\n\n", copiesOpts(c))
	fmt.Fprintf(&sb, "/-- the panic-capable sites for which the extractor found no local guard (nil check, range index, sort comparator, checked length, constant index into an array), by function and kind: these are discharged by hand -/\ndef panicSiteKinds : List String := %s\n\n", leanStrListNL(unguarded))
	sb.WriteString("end Gtfs.Gen.Inventory\n")
	return sb.String(), nil
}

func dedup(xs []string) []string {
	var out []string
	for i, x := range xs {
		if i == 0 || x != xs[i-1] {
			out = append(out, x)
		}
	}
	return out
}

func leanStrListNL(xs []string) string {
	if len(xs) == 0 {
		return "[]"
	}
	q := make([]string, len(xs))
	for i, x := range xs {
		q[i] = fmt.Sprintf("  %q", x)
	}
	return "[\n" + strings.Join(q, ",\n") + "]"
}

// copiesOpts: in ParseRealtime, `X := *opts` then `opts = &X` occur before the first assignment
// whose target goes through opts.
func copiesOpts(c *ctx) bool {
	p := c.pkg("")
	fd := findFunc(p, "ParseRealtime")
	if fd == nil {
		return false
	}
	copied, repointed, ok := "", false, true
	for _, st := range fd.Body.List {
		ast.Inspect(st, func(n ast.Node) bool {
			as, isAs := n.(*ast.AssignStmt)
			if !isAs || len(as.Lhs) != 1 || len(as.Rhs) != 1 {
				return true
			}
			l, r := exprString(c, as.Lhs[0]), exprString(c, as.Rhs[0])
			if as.Tok == token.DEFINE && r == "*opts" {
				copied = l
			} else if l == "opts" && copied != "" && r == "&"+copied {
				repointed = true
			} else if strings.HasPrefix(l, "opts.") && !repointed {
				ok = false
			}
			return true
		})
	}
	return repointed && ok
}

func dedupStrings(xs []string) []string {
	seen := map[string]bool{}
	var out []string
	for _, x := range xs {
		if !seen[x] {
			seen[x] = true
			out = append(out, x)
		}
	}
	sort.Strings(out)
	return out
}

// isRowIterator: `for f.NextRow() { ... }` - the row iterator of the csv package, which consumes a finite reader
// (encoding/csv returns io.EOF or an error at the end of the member's bytes; both end the iteration).
func isRowIterator(cond ast.Expr) bool {
	call, ok := cond.(*ast.CallExpr)
	if !ok || len(call.Args) != 0 {
		return false
	}
	sel, ok := call.Fun.(*ast.SelectorExpr)
	return ok && sel.Sel.Name == "NextRow"
}
