package main

import (
	"fmt"
	"go/ast"
	"os"
	"path/filepath"
	"strings"
)

// ---------- the two text/template files behind Journal.ExportToCsv ----------
//
// The templates are tokenised the way text/template does it (`{{` … `}}` actions, `{{-` and `-}}` trimming the
// white space before and after), and each must decompose as
//
//	<header line> LF   {{range …}}+   action (literal action)*   <terminator>   {{end}}+   <trailing>
//
// The pieces are emitted; the theorems pin separators, terminator, trailing text and which field is rendered under
// which header name. The three functions of the FuncMap are read from export.go.

type tmplTok struct {
	action bool
	text   string
}

func tokeniseTemplate(s string) ([]tmplTok, error) {
	var toks []tmplTok
	trimNext := false
	for len(s) > 0 {
		i := strings.Index(s, "{{")
		if i < 0 {
			i = len(s)
		}
		lit := s[:i]
		if trimNext {
			lit = strings.TrimLeft(lit, " \t\r\n")
			trimNext = false
		}
		rest := s[i:]
		if rest == "" {
			if lit != "" {
				toks = append(toks, tmplTok{false, lit})
			}
			break
		}
		j := strings.Index(rest, "}}")
		if j < 0 {
			return nil, fmt.Errorf("unterminated action")
		}
		body := rest[2:j]
		if strings.HasPrefix(body, "- ") || strings.HasPrefix(body, "-\t") || strings.HasPrefix(body, "-\n") {
			lit = strings.TrimRight(lit, " \t\r\n")
			body = body[1:]
		}
		if strings.HasSuffix(body, " -") || strings.HasSuffix(body, "\t-") || strings.HasSuffix(body, "\n-") {
			trimNext = true
			body = body[:len(body)-1]
		}
		if lit != "" {
			toks = append(toks, tmplTok{false, lit})
		}
		if strings.Contains(body, "/*") || strings.ContainsAny(body, "\"`") {
			return nil, fmt.Errorf("action %q: comments and string literals are not modelled", body)
		}
		toks = append(toks, tmplTok{true, strings.Join(strings.Fields(body), " ")})
		s = rest[j+2:]
	}
	return toks, nil
}

type tmplShape struct {
	header     string
	ranges     []string
	actions    []string
	separators []string
	terminator string
	ends       int
	trailing   string
}

func decomposeTemplate(toks []tmplTok) (*tmplShape, error) {
	sh := &tmplShape{}
	i := 0
	if i >= len(toks) || toks[i].action || !strings.HasSuffix(toks[i].text, "\n") || strings.Count(toks[i].text, "\n") != 1 {
		return nil, fmt.Errorf("the template does not start with one header line")
	}
	sh.header = strings.TrimSuffix(toks[i].text, "\n")
	i++
	for i < len(toks) && toks[i].action && strings.HasPrefix(toks[i].text, "range ") {
		sh.ranges = append(sh.ranges, toks[i].text)
		i++
	}
	if len(sh.ranges) == 0 {
		return nil, fmt.Errorf("no range after the header")
	}
	isKeyword := func(a string) bool {
		w := strings.Fields(a)
		if len(w) == 0 {
			return true
		}
		switch w[0] {
		case "range", "end", "if", "else", "with", "define", "template", "block", "break", "continue":
			return true
		}
		return false
	}
	for {
		if i >= len(toks) || !toks[i].action || isKeyword(toks[i].text) {
			return nil, fmt.Errorf("row: expected a field action at token %d", i)
		}
		sh.actions = append(sh.actions, toks[i].text)
		i++
		if i+1 < len(toks) && !toks[i].action && toks[i+1].action && !isKeyword(toks[i+1].text) {
			sh.separators = append(sh.separators, toks[i].text)
			i++
			continue
		}
		break
	}
	if i < len(toks) && !toks[i].action {
		sh.terminator = toks[i].text
		i++
	}
	for i < len(toks) && toks[i].action && toks[i].text == "end" {
		sh.ends++
		i++
	}
	if i < len(toks) && !toks[i].action {
		sh.trailing = toks[i].text
		i++
	}
	if i != len(toks) {
		return nil, fmt.Errorf("unexpected token %q after the row", toks[i].text)
	}
	return sh, nil
}

// embeddedFile: the file named by the `//go:embed` directive on the package-level variable `name`
func embeddedFile(c *ctx, p pkgT, name string) (string, error) {
	for _, f := range p.Syntax {
		for _, d := range f.Decls {
			gd, ok := d.(*ast.GenDecl)
			if !ok || gd.Doc == nil {
				continue
			}
			for _, sp := range gd.Specs {
				vs, ok := sp.(*ast.ValueSpec)
				if !ok || len(vs.Names) != 1 || vs.Names[0].Name != name {
					continue
				}
				for _, cm := range gd.Doc.List {
					if strings.HasPrefix(cm.Text, "//go:embed ") {
						fn := strings.TrimSpace(strings.TrimPrefix(cm.Text, "//go:embed "))
						b, err := os.ReadFile(filepath.Join(filepath.Dir(c.fset.Position(f.Pos()).Filename), fn))
						return string(b), err
					}
				}
			}
		}
	}
	return "", fmt.Errorf("no //go:embed on %s", name)
}

// templateSources: for every `template.New(<name>).Funcs(…).Parse(<var>)` at package level, name ↦ text of the
// file embedded in <var>
func templateSources(c *ctx, p pkgT) (map[string]string, error) {
	out := map[string]string{}
	var err error
	for _, f := range p.Syntax {
		ast.Inspect(f, func(n ast.Node) bool {
			call, ok := n.(*ast.CallExpr)
			if !ok || len(call.Args) != 1 {
				return true
			}
			sel, ok := call.Fun.(*ast.SelectorExpr)
			if !ok || sel.Sel.Name != "Parse" {
				return true
			}
			v, ok := call.Args[0].(*ast.Ident)
			if !ok {
				return true
			}
			// find template.New("…") inside the receiver chain
			tname := ""
			ast.Inspect(sel.X, func(m ast.Node) bool {
				if c2, ok := m.(*ast.CallExpr); ok && len(c2.Args) == 1 {
					if s2, ok := c2.Fun.(*ast.SelectorExpr); ok && s2.Sel.Name == "New" {
						if s, ok := constString(p, c2.Args[0]); ok {
							tname = s
						}
					}
				}
				return true
			})
			if tname == "" {
				return true
			}
			text, e := embeddedFile(c, p, v.Name)
			if e != nil {
				err = e
				return true
			}
			out[tname] = text
			return true
		})
	}
	return out, err
}

func genExportTemplate(c *ctx) (string, error) {
	p := c.pkg("/journal")
	srcs, err := templateSources(c, p)
	if err != nil {
		return "", err
	}
	var sb strings.Builder
	sb.WriteString("namespace Gtfs.Gen.ExportTemplate\n\n")
	for _, t := range []struct{ file, lean string }{{"trips.csv.tmpl", "trips"}, {"stop_times.csv.tmpl", "stopTimes"}} {
		text, ok := srcs[t.file]
		if !ok {
			return "", fmt.Errorf("template %s is not parsed from an embedded file", t.file)
		}
		toks, err := tokeniseTemplate(text)
		if err != nil {
			return "", fmt.Errorf("%s: %v", t.file, err)
		}
		sh, err := decomposeTemplate(toks)
		if err != nil {
			return "", fmt.Errorf("%s: %v", t.file, err)
		}
		seps := []string{}
		for _, s := range sh.separators {
			seps = append(seps, leanBytes(s))
		}
		fmt.Fprintf(&sb, "/-- `%s`: the header line: %s -/\ndef %sHeader : List UInt8 := %s\n", t.file, leanComment(sh.header), t.lean, leanBytes(sh.header))
		fmt.Fprintf(&sb, "/-- `%s`: the range actions that open the row -/\ndef %sRanges : List String := %s\n", t.file, t.lean, leanStrList(sh.ranges))
		fmt.Fprintf(&sb, "/-- `%s`: the field actions of the row, in order -/\ndef %sRow : List String := %s\n", t.file, t.lean, leanStrList(sh.actions))
		fmt.Fprintf(&sb, "/-- `%s`: the literal text between consecutive field actions -/\ndef %sSeparators : List (List UInt8) := [%s]\n", t.file, t.lean, strings.Join(seps, ", "))
		fmt.Fprintf(&sb, "/-- `%s`: literal text after the last field action, number of `end`s, text after them (after `{{-`/`-}}` trimming) -/\ndef %sTerminator : List UInt8 := %s\ndef %sEnds : Nat := %d\ndef %sTrailing : List UInt8 := %s\n\n",
			t.file, t.lean, leanBytes(sh.terminator), t.lean, sh.ends, t.lean, leanBytes(sh.trailing))
	}
	// the FuncMap
	var fm *ast.CompositeLit
	for _, f := range p.Syntax {
		ast.Inspect(f, func(n ast.Node) bool {
			if cl, ok := n.(*ast.CompositeLit); ok {
				if t := p.TypesInfo.TypeOf(cl); t != nil && t.String() == "text/template.FuncMap" {
					fm = cl
				}
			}
			return true
		})
	}
	if fm == nil {
		return "", fmt.Errorf("no template.FuncMap literal")
	}
	funcs := map[string]*ast.FuncLit{}
	for _, e := range fm.Elts {
		kv, ok := e.(*ast.KeyValueExpr)
		if !ok {
			continue
		}
		k, ok1 := constString(p, kv.Key)
		fl, ok2 := kv.Value.(*ast.FuncLit)
		if ok1 && ok2 {
			funcs[k] = fl
		}
	}
	litParam := func(fl *ast.FuncLit) string {
		if fl.Type.Params == nil || len(fl.Type.Params.List) != 1 || len(fl.Type.Params.List[0].Names) != 1 {
			return "?"
		}
		return fl.Type.Params.List[0].Names[0].Name
	}
	shapeOK := func(name string, wants ...string) bool {
		fl := funcs[name]
		if fl == nil {
			return false
		}
		for _, want := range wants {
			if exprString(c, fl.Body) == strings.ReplaceAll(want, "§", litParam(fl)) {
				return true
			}
		}
		return false
	}
	// a body of another shape is not judged here: the file falls back to the snapshot and the byte comparison decides
	if !shapeOK("NullableString", `{ if § == nil { return "" } return *§ }`) {
		return "", fmt.Errorf("NullableString has an unrecognised body")
	}
	if !shapeOK("NullableUnix", `{ if § == nil { return "" } return fmt.Sprintf("%d", §.Unix()) }`,
		`{ if § == nil { return "" } return strconv.FormatInt(§.Unix(), 10) }`) {
		return "", fmt.Errorf("NullableUnix has an unrecognised body")
	}
	sb.WriteString("/-- `NullableString` is: nil ↦ \"\", otherwise the string pointed to -/\ndef nullableStringShape : Bool := true\n")
	sb.WriteString("/-- `NullableUnix` is: nil ↦ \"\", otherwise the Unix seconds in decimal -/\ndef nullableUnixShape : Bool := true\n")
	// FormatDirectionID: switch d { case CONST: return "…" … default: return "…" }
	{
		fl := funcs["FormatDirectionID"]
		if fl == nil || len(fl.Body.List) != 1 {
			return "", fmt.Errorf("FormatDirectionID: shape")
		}
		sw, ok := fl.Body.List[0].(*ast.SwitchStmt)
		if !ok || sw.Init != nil || exprString(c, sw.Tag) != litParam(fl) {
			return "", fmt.Errorf("FormatDirectionID: not a switch on the argument")
		}
		var cases []string
		dflt, haveDflt := "", false
		for _, cc := range sw.Body.List {
			clause := cc.(*ast.CaseClause)
			if len(clause.Body) != 1 {
				return "", fmt.Errorf("FormatDirectionID: clause body")
			}
			ret, ok := clause.Body[0].(*ast.ReturnStmt)
			if !ok || len(ret.Results) != 1 {
				return "", fmt.Errorf("FormatDirectionID: clause body")
			}
			s, ok := constString(p, ret.Results[0])
			if !ok {
				return "", fmt.Errorf("FormatDirectionID: non-constant result")
			}
			if clause.List == nil {
				dflt, haveDflt = s, true
				continue
			}
			for _, k := range clause.List {
				v, ok := constInt(p, k)
				if !ok {
					return "", fmt.Errorf("FormatDirectionID: non-constant case")
				}
				cases = append(cases, fmt.Sprintf("(%s, %s)", leanInt(v), leanBytes(s)))
			}
		}
		if !haveDflt {
			return "", fmt.Errorf("FormatDirectionID: no default")
		}
		fmt.Fprintf(&sb, "/-- `FormatDirectionID`: direction number ↦ text, tried in order; and the default -/\ndef formatDirectionCases : List (Int × List UInt8) := [%s]\ndef formatDirectionDefault : List UInt8 := %s\n\n",
			strings.Join(cases, ", "), leanBytes(dflt))
	}
	sb.WriteString("end Gtfs.Gen.ExportTemplate\n")
	return sb.String(), nil
}
