// Command extract regenerates lean/GtfsVerif/Gen/*.lean from the current source of /repo:
// the table-like and schema-like parts of the code (enum switches, column names and defaults,
// the file table, regex texts, NYCT tables, the hash field sequence) and the inventories
// (range-over-map sites, unbounded loops, potential-panic sites, writes to shared state).
//
// Each output file is self-contained Lean (core only). When a piece of code no longer has the
// shape the extractor understands, the corresponding file contains the marker EXTRACTION-FAILED
// and ./check falls back to the committed snapshot for it.
package main

import (
	"flag"
	"fmt"
	"go/ast"
	"go/constant"
	"go/token"
	"go/types"
	"os"
	"path/filepath"
	"sort"
	"strconv"
	"strings"

	"golang.org/x/tools/go/packages"
)

type ctx struct {
	pkgs map[string]*packages.Package // by import path suffix
	fset *token.FileSet
}

func main() {
	repo := flag.String("repo", "/repo", "repository root")
	out := flag.String("out", "", "output directory")
	flag.Parse()
	cfg := &packages.Config{
		Mode: packages.NeedName | packages.NeedFiles | packages.NeedSyntax | packages.NeedTypes | packages.NeedTypesInfo | packages.NeedImports | packages.NeedDeps,
		Dir:  *repo,
		Env:  append(os.Environ(), "GOFLAGS=-mod=mod", "GOPROXY=off", "GOSUMDB=off"),
	}
	pkgs, err := packages.Load(cfg, "./...")
	if err != nil {
		fmt.Fprintln(os.Stderr, "load:", err)
		os.Exit(1)
	}
	c := &ctx{pkgs: map[string]*packages.Package{}}
	for _, p := range pkgs {
		if len(p.Errors) > 0 {
			fmt.Fprintln(os.Stderr, "package errors in", p.PkgPath, p.Errors[0])
			os.Exit(1)
		}
		c.pkgs[p.PkgPath] = p
		c.fset = p.Fset
	}
	os.MkdirAll(*out, 0o755)
	gens := map[string]func(*ctx) (string, error){
		"Enums.lean":          genEnums,
		"Regex.lean":          genRegex,
		"Columns.lean":        genColumns,
		"FileTable.lean":      genFileTable,
		"NyctTables.lean":     genNyctTables,
		"HashSchema.lean":     genHashSchema,
		"Inventory.lean":      genInventory,
		"ExportTemplate.lean": genExportTemplate,
		"JournalFacts.lean":   genJournalFacts,
	}
	names := []string{}
	for n := range gens {
		names = append(names, n)
	}
	sort.Strings(names)
	for _, n := range names {
		body, err := safely(func() (string, error) { return gens[n](c) })
		if err != nil {
			body = "-- EXTRACTION-FAILED: " + strings.ReplaceAll(err.Error(), "\n", " ") + "\n"
			fmt.Fprintln(os.Stderr, n+":", err)
		}
		hdr := "-- REGENERATED on every run by go/cmd/extract from /repo. Do not edit.\n"
		if err := os.WriteFile(filepath.Join(*out, n), []byte(hdr+body), 0o644); err != nil {
			fmt.Fprintln(os.Stderr, err)
			os.Exit(1)
		}
	}
}

func safely(f func() (string, error)) (s string, err error) {
	defer func() {
		if r := recover(); r != nil {
			err = fmt.Errorf("panic: %v", r)
		}
	}()
	return f()
}

const rootPkg = "github.com/jamespfennell/gtfs"

func (c *ctx) pkg(suffix string) *packages.Package {
	p := c.pkgs[rootPkg+suffix]
	if p == nil {
		panic("package not found: " + suffix)
	}
	return p
}

// leanBytes renders a Go string as a Lean `List UInt8` literal with the text in a comment.
func leanBytes(s string) string {
	parts := make([]string, len(s))
	for i := 0; i < len(s); i++ {
		parts[i] = strconv.Itoa(int(s[i]))
	}
	return "[" + strings.Join(parts, ", ") + "]"
}

func leanComment(s string) string {
	s = strings.ReplaceAll(s, "-/", "- /")
	s = strings.ReplaceAll(s, "/-", "/ -")
	return s
}

func leanInt(i int64) string {
	if i < 0 {
		return fmt.Sprintf("(%d)", i)
	}
	return strconv.FormatInt(i, 10)
}

func findFunc(p *packages.Package, name string) *ast.FuncDecl {
	for _, f := range p.Syntax {
		for _, d := range f.Decls {
			if fd, ok := d.(*ast.FuncDecl); ok && fd.Name.Name == name && fd.Recv == nil {
				return fd
			}
		}
	}
	return nil
}

func findMethod(p *packages.Package, recv, name string) *ast.FuncDecl {
	for _, f := range p.Syntax {
		for _, d := range f.Decls {
			fd, ok := d.(*ast.FuncDecl)
			if !ok || fd.Name.Name != name || fd.Recv == nil || len(fd.Recv.List) != 1 {
				continue
			}
			t := fd.Recv.List[0].Type
			if st, ok := t.(*ast.StarExpr); ok {
				t = st.X
			}
			if id, ok := t.(*ast.Ident); ok && id.Name == recv {
				return fd
			}
		}
	}
	return nil
}

func constInt(p *packages.Package, e ast.Expr) (int64, bool) {
	tv, ok := p.TypesInfo.Types[e]
	if !ok || tv.Value == nil {
		return 0, false
	}
	if tv.Value.Kind() == constant.Int {
		v, ok := constant.Int64Val(tv.Value)
		return v, ok
	}
	return 0, false
}

func constString(p *packages.Package, e ast.Expr) (string, bool) {
	tv, ok := p.TypesInfo.Types[e]
	if !ok || tv.Value == nil || tv.Value.Kind() != constant.String {
		return "", false
	}
	return constant.StringVal(tv.Value), true
}

func pos(c *ctx, n ast.Node) string {
	p := c.fset.Position(n.Pos())
	return fmt.Sprintf("%s:%d", filepath.Base(p.Filename), p.Line)
}

var _ = types.Typ
