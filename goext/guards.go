package main

import (
	"fmt"
	"go/ast"
	"go/constant"
	"go/token"
	"go/types"
	"os"
	"regexp"
	"strconv"
	"strings"
)

// Syntactic guard recognition for panic-capable sites and order-insensitivity classification of
// range-over-map loops. Both are local, conservative pattern matchers: a site they do not recognise is
// reported as unguarded / unclassified and must then be discharged by hand in the Lean table
// (Props/C05.lean, Props/C06.lean). What they assume and do not check: the guarded expression is not
// modified through an alias between guard and use, and function calls in between do not modify it.

type guardCtx struct {
	c     *ctx
	info  *types.Info
	stack []ast.Node
}

// walkStack visits every node below root with the stack of its ancestors (root first, node last excluded).
func walkStack(root ast.Node, f func(n ast.Node, stack []ast.Node)) {
	var stack []ast.Node
	ast.Inspect(root, func(n ast.Node) bool {
		if n == nil {
			stack = stack[:len(stack)-1]
			return true
		}
		f(n, stack)
		stack = append(stack, n)
		return true
	})
}

func unparen(e ast.Expr) ast.Expr {
	for {
		p, ok := e.(*ast.ParenExpr)
		if !ok {
			return e
		}
		e = p.X
	}
}

// conjuncts / disjuncts of a condition
func splitBin(e ast.Expr, op token.Token) []ast.Expr {
	e = unparen(e)
	if b, ok := e.(*ast.BinaryExpr); ok && b.Op == op {
		return append(splitBin(b.X, op), splitBin(b.Y, op)...)
	}
	return []ast.Expr{e}
}

func (g *guardCtx) str(e ast.Node) string { return exprString(g.c, e) }

func (g *guardCtx) isNil(e ast.Expr) bool {
	id, ok := unparen(e).(*ast.Ident)
	return ok && id.Name == "nil"
}

func (g *guardCtx) constInt(e ast.Expr) (int64, bool) {
	if tv, ok := g.info.Types[e]; ok && tv.Value != nil && tv.Value.Kind() == constant.Int {
		v, exact := constant.Int64Val(tv.Value)
		return v, exact
	}
	if bl, ok := unparen(e).(*ast.BasicLit); ok && bl.Kind == token.INT {
		v, err := strconv.ParseInt(bl.Value, 0, 64)
		return v, err == nil
	}
	return 0, false
}

// lenOf: e is `len(x)`; returns the text of x
// unconv strips integer conversions: int(x), int64(len(a)), uint32(i) ...
func (g *guardCtx) unconv(e ast.Expr) ast.Expr {
	for {
		e = unparen(e)
		call, ok := e.(*ast.CallExpr)
		if !ok || len(call.Args) != 1 {
			return e
		}
		id, ok := call.Fun.(*ast.Ident)
		if !ok {
			return e
		}
		switch id.Name {
		case "int", "int8", "int16", "int32", "int64", "uint", "uint8", "uint16", "uint32", "uint64":
			e = call.Args[0]
		default:
			return e
		}
	}
}

// untype strips conversions to a named type: `byKey(xs)` denotes the same elements as `xs`
func (g *guardCtx) untype(e ast.Expr) ast.Expr {
	for {
		e = unparen(e)
		call, ok := e.(*ast.CallExpr)
		if !ok || len(call.Args) != 1 {
			return e
		}
		if tv, ok := g.info.Types[call.Fun]; !ok || !tv.IsType() {
			return e
		}
		e = call.Args[0]
	}
}

// sortInterfaceIndex: `x` is `recv[i]` inside the Less or Swap method of a slice type that implements sort.Interface
// with `Len() int { return len(recv) }`, `i` is one of the method's (never re-assigned) parameters, and the package never
// calls that Less/Swap itself – so the only caller is the sort package, which passes indices in [0, Len()).
func (g *guardCtx) sortInterfaceIndex(x *ast.IndexExpr, fd *ast.FuncDecl) bool {
	if fd == nil || fd.Recv == nil || len(fd.Recv.List) != 1 || len(fd.Recv.List[0].Names) != 1 || fd.Body == nil {
		return false
	}
	if fd.Name.Name != "Less" && fd.Name.Name != "Swap" {
		return false
	}
	recv := fd.Recv.List[0].Names[0]
	rid, ok := unparen(x.X).(*ast.Ident)
	if !ok || g.info.ObjectOf(rid) == nil || g.info.ObjectOf(rid) != g.info.ObjectOf(recv) {
		return false
	}
	named, ok := g.info.TypeOf(recv).(*types.Named)
	if !ok {
		return false
	}
	if _, ok := named.Underlying().(*types.Slice); !ok {
		return false
	}
	iid, ok := unparen(x.Index).(*ast.Ident)
	if !ok {
		return false
	}
	isParam := false
	for _, fld := range fd.Type.Params.List {
		for _, n := range fld.Names {
			if g.info.ObjectOf(n) == g.info.ObjectOf(iid) {
				isParam = true
			}
		}
	}
	if !isParam || g.assignsTo(fd.Body, iid.Name) || g.assignsTo(fd.Body, rid.Name) {
		return false
	}
	// the three methods exist, and Len is exactly len(receiver)
	var lenOK bool
	methods := map[string]*types.Func{}
	for i := 0; i < named.NumMethods(); i++ {
		methods[named.Method(i).Name()] = named.Method(i)
	}
	if methods["Len"] == nil || methods["Less"] == nil || methods["Swap"] == nil {
		return false
	}
	explicit := false
	for _, p := range g.c.pkgs {
		for _, f := range p.Syntax {
			info := p.TypesInfo
			ast.Inspect(f, func(n ast.Node) bool {
				switch d := n.(type) {
				case *ast.FuncDecl:
					if d.Recv != nil && d.Name.Name == "Len" && info.ObjectOf(d.Name) == types.Object(methods["Len"]) && d.Body != nil && len(d.Body.List) == 1 &&
						len(d.Recv.List) == 1 && len(d.Recv.List[0].Names) == 1 {
						if r, ok := d.Body.List[0].(*ast.ReturnStmt); ok && len(r.Results) == 1 {
							if l, ok := g.lenOf(r.Results[0]); ok && l == d.Recv.List[0].Names[0].Name {
								lenOK = true
							}
						}
					}
				case *ast.SelectorExpr:
					if o := info.ObjectOf(d.Sel); o != nil && (o == types.Object(methods["Less"]) || o == types.Object(methods["Swap"])) {
						explicit = true
					}
				}
				return true
			})
		}
	}
	return lenOK && !explicit
}

func (g *guardCtx) lenOf(e ast.Expr) (string, bool) {
	call, ok := g.unconv(e).(*ast.CallExpr)
	if !ok || len(call.Args) != 1 {
		return "", false
	}
	id, ok := call.Fun.(*ast.Ident)
	if !ok || id.Name != "len" {
		return "", false
	}
	return g.str(call.Args[0]), true
}

// a fact established when a condition holds (pos) or fails (neg)
type fact struct {
	kind string // "nonnil" | "lenGE" | "idxLT"
	expr string // the expression the fact is about (for idxLT: the slice)
	n    int64  // lenGE: len(expr) >= n
	idx  string // idxLT: idx < len(expr)
}

// factsOf returns what is known when `cond` is true (if truth) or false (if !truth).
func (g *guardCtx) factsOf(cond ast.Expr, truth bool) []fact {
	cond = unparen(cond)
	var out []fact
	if u, ok := cond.(*ast.UnaryExpr); ok && u.Op == token.NOT {
		return g.factsOf(u.X, !truth)
	}
	// `if h.isNil(x == nil) { return }`: a helper of the library that hands one of its boolean arguments back
	if call, ok := cond.(*ast.CallExpr); ok {
		for k, a := range call.Args {
			if _, isBin := unparen(a).(*ast.BinaryExpr); isBin && g.calleeReturnsParam(call, k) {
				return g.factsOf(a, truth)
			}
		}
	}
	if b, ok := cond.(*ast.BinaryExpr); ok {
		switch {
		case b.Op == token.LAND && truth, b.Op == token.LOR && !truth:
			return append(g.factsOf(b.X, truth), g.factsOf(b.Y, truth)...)
		case b.Op == token.LAND || b.Op == token.LOR:
			return nil
		}
		op := b.Op
		x, y := b.X, b.Y
		// normalise `nil != x`, `c < len(a)` to have the interesting operand on the left
		flip := map[token.Token]token.Token{token.LSS: token.GTR, token.GTR: token.LSS, token.LEQ: token.GEQ, token.GEQ: token.LEQ, token.EQL: token.EQL, token.NEQ: token.NEQ}
		if g.isNil(x) {
			x, y, op = y, x, flip[op]
		} else if _, isLen := g.lenOf(y); isLen {
			if _, alsoLen := g.lenOf(x); !alsoLen {
				// `i < len(a)` is handled below as idxLT; `c < len(a)` is flipped to `len(a) > c`
				if _, isConst := g.constInt(x); isConst {
					x, y, op = y, x, flip[op]
				}
			}
		}
		if !truth {
			neg := map[token.Token]token.Token{token.LSS: token.GEQ, token.GEQ: token.LSS, token.GTR: token.LEQ, token.LEQ: token.GTR, token.EQL: token.NEQ, token.NEQ: token.EQL}
			op = neg[op]
		}
		if g.isNil(y) && op == token.NEQ {
			out = append(out, fact{kind: "nonnil", expr: g.str(x)})
		}
		if a, ok := g.lenOf(x); ok {
			if n, ok := g.constInt(y); ok {
				switch op {
				case token.GTR:
					out = append(out, fact{kind: "lenGE", expr: a, n: n + 1})
				case token.GEQ, token.EQL:
					out = append(out, fact{kind: "lenGE", expr: a, n: n})
				case token.NEQ:
					if n == 0 {
						out = append(out, fact{kind: "lenGE", expr: a, n: 1})
					}
				}
			}
		}
		if a, ok := g.lenOf(y); ok && op == token.LSS {
			out = append(out, fact{kind: "idxLT", expr: a, idx: g.str(g.unconv(x))})
		}
	}
	return out
}

func terminates(b *ast.BlockStmt) bool {
	if b == nil || len(b.List) == 0 {
		return false
	}
	switch s := b.List[len(b.List)-1].(type) {
	case *ast.ReturnStmt:
		return true
	case *ast.BranchStmt:
		return s.Tok == token.CONTINUE || s.Tok == token.BREAK || s.Tok == token.GOTO
	case *ast.ExprStmt:
		if call, ok := s.X.(*ast.CallExpr); ok {
			if id, ok := call.Fun.(*ast.Ident); ok && id.Name == "panic" {
				return true
			}
		}
	}
	return false
}

// assignsTo reports whether statement s (deeply) assigns to `expr` itself or to its root identifier.
func (g *guardCtx) assignsTo(s ast.Node, expr string) bool {
	root := expr
	if i := strings.IndexAny(root, ".[("); i >= 0 {
		root = root[:i]
	}
	root = strings.TrimLeft(root, "*&")
	hit := false
	ast.Inspect(s, func(n ast.Node) bool {
		switch x := n.(type) {
		case *ast.AssignStmt:
			for _, l := range x.Lhs {
				ls := g.str(l)
				if ls == expr || ls == root {
					hit = true
				}
			}
		case *ast.IncDecStmt:
			ls := g.str(x.X)
			if ls == expr || ls == root {
				hit = true
			}
		case *ast.UnaryExpr:
			if x.Op == token.AND && g.str(x.X) == root {
				hit = true // address taken: could be modified through the pointer
			}
		}
		return true
	})
	return hit
}

// knownAt collects the facts that hold at `site` given its ancestor stack.
func (g *guardCtx) knownAt(site ast.Node, stack []ast.Node) []fact {
	var facts []fact
	child := site
	for i := len(stack) - 1; i >= 0; i-- {
		switch p := stack[i].(type) {
		case *ast.IfStmt:
			if child == ast.Node(p.Body) {
				facts = append(facts, g.factsOf(p.Cond, true)...)
			} else if p.Else != nil && child == ast.Node(p.Else) {
				facts = append(facts, g.factsOf(p.Cond, false)...)
			}
		case *ast.BinaryExpr:
			// `x != nil && *x > 0`: the left operand holds while the right one is evaluated; dually for ||
			if child == ast.Node(p.Y) {
				if p.Op == token.LAND {
					facts = append(facts, g.factsOf(p.X, true)...)
				} else if p.Op == token.LOR {
					facts = append(facts, g.factsOf(p.X, false)...)
				}
			}
		case *ast.BlockStmt:
			facts = append(facts, g.earlyExitFacts(p.List, child)...)
		case *ast.CaseClause:
			facts = append(facts, g.earlyExitFacts(p.Body, child)...)
			// `switch { case cond: ... }`: the clause's own condition holds in its body
			if i > 0 {
				if sw, ok := stack[i-1].(*ast.BlockStmt); ok && i > 1 {
					if ss, ok := stack[i-2].(*ast.SwitchStmt); ok && ss.Tag == nil && ss.Body == sw {
						// the conditions of all earlier clauses of a tagless switch are false when this clause is reached
						// (its own conditions included, when one of them is being evaluated)
						hasFallthrough := false
						ast.Inspect(sw, func(n ast.Node) bool {
							if b, ok := n.(*ast.BranchStmt); ok && b.Tok == token.FALLTHROUGH {
								hasFallthrough = true
							}
							return true
						})
						for _, st := range sw.List {
							cc, ok := st.(*ast.CaseClause)
							if !ok || cc == p || hasFallthrough {
								break
							}
							for _, c := range cc.List {
								facts = append(facts, g.factsOf(c, false)...)
							}
						}
					}
					if ss, ok := stack[i-2].(*ast.SwitchStmt); ok && ss.Tag == nil && ss.Body == sw && len(p.List) == 1 {
						inBody := false
						for _, st := range p.Body {
							if ast.Node(st) == child {
								inBody = true
							}
						}
						if inBody {
							facts = append(facts, g.factsOf(p.List[0], true)...)
						}
					}
				}
			}
		case *ast.ForStmt:
			if p.Cond != nil && child == ast.Node(p.Body) {
				facts = append(facts, g.factsOf(p.Cond, true)...)
			}
		case *ast.FuncLit, *ast.FuncDecl:
			// facts do not flow into closures from outside in general; sort comparators are handled separately
			if _, isLit := stack[i].(*ast.FuncLit); isLit {
				return facts
			}
		}
		child = stack[i]
	}
	return facts
}

// earlyExitFacts: statements before `child` in `list` of the form `if cond { ...; return|continue|break|panic }`
// establish !cond afterwards, provided nothing in between assigns to the expression concerned.
func (g *guardCtx) earlyExitFacts(list []ast.Stmt, child ast.Node) []fact {
	idx := -1
	for i, s := range list {
		if ast.Node(s) == child {
			idx = i
		}
	}
	var out []fact
	for i := 0; i < idx; i++ {
		ifs, ok := list[i].(*ast.IfStmt)
		if !ok || ifs.Else != nil || !terminates(ifs.Body) {
			continue
		}
		for _, f := range g.factsOf(ifs.Cond, false) {
			clobbered := false
			for j := i + 1; j < idx; j++ {
				if g.assignsTo(list[j], f.expr) || (f.idx != "" && g.assignsTo(list[j], f.idx)) {
					clobbered = true
				}
			}
			if !clobbered {
				out = append(out, f)
			}
		}
	}
	return out
}

// guardOfDeref: why `*x` cannot fault, or "".
// receiverNeverNil: `recv` is the pointer receiver of the enclosing unexported method, and every call of that method
// in the library is made on an addressable value (a variable, field or element of non-pointer type: the compiler
// takes its address) or on an explicit `&x` - never on a pointer that could be nil.
func (g *guardCtx) receiverNeverNil(recv ast.Expr, fd *ast.FuncDecl) bool {
	id, ok := unparen(recv).(*ast.Ident)
	if !ok || fd == nil || fd.Recv == nil || len(fd.Recv.List) != 1 || len(fd.Recv.List[0].Names) != 1 || fd.Name.IsExported() {
		return false
	}
	if g.info.ObjectOf(fd.Recv.List[0].Names[0]) != g.info.ObjectOf(id) || g.info.ObjectOf(id) == nil {
		return false
	}
	if g.assignsTo(fd.Body, id.Name) {
		return false
	}
	obj := g.info.ObjectOf(fd.Name)
	calls, allOK := 0, true
	for _, p := range g.c.pkgs {
		for _, file := range p.Syntax {
			ast.Inspect(file, func(nd ast.Node) bool {
				call, ok := nd.(*ast.CallExpr)
				if !ok {
					return true
				}
				sel, ok := unparen(call.Fun).(*ast.SelectorExpr)
				if !ok || p.TypesInfo.ObjectOf(sel.Sel) != obj || obj == nil {
					return true
				}
				calls++
				if u, ok := unparen(sel.X).(*ast.UnaryExpr); ok && u.Op == token.AND {
					return true
				}
				t := p.TypesInfo.TypeOf(sel.X)
				if t == nil {
					allOK = false
					return true
				}
				if _, isPtr := t.Underlying().(*types.Pointer); isPtr {
					allOK = false
				}
				return true
			})
		}
	}
	return calls > 0 && allOK
}

func (g *guardCtx) guardOfDeref(x *ast.StarExpr, stack []ast.Node, fd *ast.FuncDecl) string {
	key := g.str(unparen(x.X))
	if u, ok := unparen(x.X).(*ast.UnaryExpr); ok && u.Op == token.AND {
		return "address-of"
	}
	if g.localAddressOf(x.X, fd) {
		return "address-of-local"
	}
	for _, f := range g.knownAt(x, stack) {
		if f.kind == "nonnil" && f.expr == key {
			return "nil-checked"
		}
	}
	return ""
}

// grownByLenOfRanged: the site is `a[base+i]` inside `for i := range B { … }`, and the two statements just before that
// loop, in the same block, are `base := len(a)` and `a = append(a, make(T, len(B))...)`; the loop assigns none of a, base, B.
// At loop entry len(a) = base + len(B), and i < len(B).
func (g *guardCtx) grownByLenOfRanged(x *ast.IndexExpr, stack []ast.Node) bool {
	sum, ok := unparen(x.Index).(*ast.BinaryExpr)
	if !ok || sum.Op != token.ADD {
		return false
	}
	base, ok1 := unparen(sum.X).(*ast.Ident)
	idx, ok2 := unparen(sum.Y).(*ast.Ident)
	if !ok1 || !ok2 {
		return false
	}
	a := g.str(x.X)
	for i := len(stack) - 1; i >= 1; i-- {
		rs, ok := stack[i].(*ast.RangeStmt)
		if !ok {
			continue
		}
		k, ok := rs.Key.(*ast.Ident)
		if !ok || g.info.ObjectOf(k) == nil || g.info.ObjectOf(k) != g.info.ObjectOf(idx) {
			continue
		}
		blk, ok := stack[i-1].(*ast.BlockStmt)
		if !ok {
			return false
		}
		pos := -1
		for j, st := range blk.List {
			if st == ast.Stmt(rs) {
				pos = j
			}
		}
		if pos < 2 {
			return false
		}
		b := g.str(rs.X)
		if g.str(blk.List[pos-2]) != base.Name+" := len("+a+")" {
			return false
		}
		grow, ok := blk.List[pos-1].(*ast.AssignStmt)
		if !ok || grow.Tok != token.ASSIGN || len(grow.Lhs) != 1 || len(grow.Rhs) != 1 || g.str(grow.Lhs[0]) != a {
			return false
		}
		call, ok := grow.Rhs[0].(*ast.CallExpr)
		if !ok || !call.Ellipsis.IsValid() || len(call.Args) != 2 || g.str(call.Fun) != "append" || g.str(call.Args[0]) != a {
			return false
		}
		mk, ok := call.Args[1].(*ast.CallExpr)
		if !ok || g.str(mk.Fun) != "make" || len(mk.Args) != 2 {
			return false
		}
		if l, ok := g.lenOf(mk.Args[1]); !ok || l != b {
			return false
		}
		return !g.assignsTo(rs.Body, a) && !g.assignsTo(rs.Body, base.Name) && !g.assignsTo(rs.Body, b) && !g.assignsTo(rs.Body, idx.Name)
	}
	return false
}

// localAddressOf: `p` is a local identifier whose one and only assignment in the enclosing function is the definition
// `p := &<operand>` (and whose own address is never taken): it is never nil.
func (g *guardCtx) localAddressOf(e ast.Expr, fd *ast.FuncDecl) bool {
	id, ok := unparen(e).(*ast.Ident)
	if !ok {
		return false
	}
	obj := g.info.ObjectOf(id)
	if obj == nil {
		return false
	}
	if fd == nil || fd.Body == nil {
		return false
	}
	body := fd.Body
	defs, good := 0, false
	ast.Inspect(body, func(n ast.Node) bool {
		switch st := n.(type) {
		case *ast.AssignStmt:
			for i, l := range st.Lhs {
				lid, ok := unparen(l).(*ast.Ident)
				if !ok || g.info.ObjectOf(lid) != obj {
					continue
				}
				defs++
				if st.Tok == token.DEFINE && len(st.Lhs) == len(st.Rhs) {
					if u, ok := unparen(st.Rhs[i]).(*ast.UnaryExpr); ok && u.Op == token.AND {
						good = true
					}
				}
			}
		case *ast.IncDecStmt:
			if lid, ok := unparen(st.X).(*ast.Ident); ok && g.info.ObjectOf(lid) == obj {
				defs++
			}
		case *ast.UnaryExpr:
			if lid, ok := unparen(st.X).(*ast.Ident); ok && st.Op == token.AND && g.info.ObjectOf(lid) == obj {
				defs += 2
			}
		case *ast.RangeStmt:
			for _, kv := range []ast.Expr{st.Key, st.Value} {
				if lid, ok := kv.(*ast.Ident); ok && g.info.ObjectOf(lid) == obj {
					defs += 2
				}
			}
		}
		return true
	})
	return good && defs == 1
}

func (g *guardCtx) lenAtLeast(a string, n int64, site ast.Node, stack []ast.Node) bool {
	for _, f := range g.knownAt(site, stack) {
		if f.kind == "lenGE" && f.expr == a && f.n >= n {
			return true
		}
	}
	return false
}

// callersLenAtLeast: `a` is a parameter of the enclosing unexported function, and at every call of that function in
// the library the corresponding argument is known to have at least n elements (a length check in the caller).
func (g *guardCtx) callersLenAtLeast(a ast.Expr, n int64, stack []ast.Node, fd *ast.FuncDecl) bool {
	id, ok := unparen(a).(*ast.Ident)
	if !ok {
		return false
	}
	for _, nd := range stack {
		if f, ok := nd.(*ast.FuncDecl); ok && fd == nil {
			fd = f
		}
	}
	if fd == nil || fd.Name.IsExported() {
		return false
	}
	k, idx := -1, 0
	for _, fld := range fd.Type.Params.List {
		for _, nm := range fld.Names {
			if g.info.ObjectOf(nm) == g.info.ObjectOf(id) && g.info.ObjectOf(id) != nil {
				k = idx
			}
			idx++
		}
		if len(fld.Names) == 0 {
			idx++
		}
	}
	if k < 0 {
		return false
	}
	// the parameter must not be re-assigned in the function
	if g.assignsTo(fd.Body, id.Name) {
		return false
	}
	obj := g.info.ObjectOf(fd.Name)
	calls, allOK := 0, true
	for _, p := range g.c.pkgs {
		g2 := &guardCtx{c: g.c, info: p.TypesInfo}
		for _, file := range p.Syntax {
			for _, d := range file.Decls {
				caller, ok := d.(*ast.FuncDecl)
				if !ok || caller.Body == nil {
					continue
				}
				walkStack(caller, func(nd ast.Node, st []ast.Node) {
					call, ok := nd.(*ast.CallExpr)
					if !ok || k >= len(call.Args) {
						return
					}
					var cid *ast.Ident
					switch f := unparen(call.Fun).(type) {
					case *ast.Ident:
						cid = f
					case *ast.SelectorExpr:
						cid = f.Sel
					}
					if cid == nil || p.TypesInfo.ObjectOf(cid) != obj || obj == nil {
						return
					}
					calls++
					if !g2.lenAtLeast(g2.str(call.Args[k]), n, call, st) {
						allOK = false
					}
				})
			}
		}
	}
	if os.Getenv("GOEXT_DEBUG") != "" {
		fmt.Fprintf(os.Stderr, "callersLenAtLeast %s param %d need %d: calls=%d allOK=%v\n", fd.Name.Name, k, n, calls, allOK)
	}
	return calls > 0 && allOK
}

// guardOfIndex: why `a[i]` cannot fault, or "".
func (g *guardCtx) guardOfIndex(x *ast.IndexExpr, stack []ast.Node, fd *ast.FuncDecl) string {
	a := g.str(x.X)
	if c, ok := g.constInt(x.Index); ok && c >= 0 {
		if n, ok := g.regexGroups(x.X, fd); ok && c <= int64(n) {
			for _, f := range g.knownAt(x, stack) {
				if f.kind == "nonnil" && f.expr == a {
					return "regex-match"
				}
			}
		}
	}
	t := g.info.TypeOf(x.X)
	if t != nil {
		if p, ok := t.Underlying().(*types.Pointer); ok {
			t = p.Elem()
		}
		if arr, ok := t.Underlying().(*types.Array); ok {
			if c, ok := g.constInt(x.Index); ok && c >= 0 && c < arr.Len() {
				return "array-const"
			}
		}
	}
	if id, ok := unparen(x.Index).(*ast.Ident); ok {
		obj := g.info.ObjectOf(id)
		for i := len(stack) - 1; i >= 0; i-- {
			switch p := stack[i].(type) {
			case *ast.RangeStmt:
				if k, ok := p.Key.(*ast.Ident); ok && g.info.ObjectOf(k) == obj && obj != nil && g.str(p.X) == a {
					if !g.assignsTo(p.Body, a) {
						return "range-index"
					}
				}
				// the index variable of a range over ANOTHER operand of the same length: two fixed-size arrays of equal
				// length, or a slice made with exactly `len(<ranged operand>)` elements in this function and never re-assigned
				if k, ok := p.Key.(*ast.Ident); ok && g.info.ObjectOf(k) == obj && obj != nil && g.str(p.X) != a && !g.assignsTo(p.Body, a) {
					if g.sameArrayLen(x.X, p.X) {
						return "range-index-same-length"
					}
					if g.madeWithLenOf(x.X, g.str(p.X), fd) {
						return "range-index-made-with-len"
					}
				}
			case *ast.FuncLit:
				// sort.Slice(a, func(i, j int) bool { ... a[i] ... a[j] ... })
				if i > 0 {
					if call, ok := stack[i-1].(*ast.CallExpr); ok && len(call.Args) == 2 && call.Args[1] == ast.Expr(p) {
						if sel, ok := call.Fun.(*ast.SelectorExpr); ok && (sel.Sel.Name == "Slice" || sel.Sel.Name == "SliceStable") {
							if pk, ok := sel.X.(*ast.Ident); ok && pk.Name == "sort" && g.str(call.Args[0]) == a {
								for _, fld := range p.Type.Params.List {
									for _, n := range fld.Names {
										if g.info.ObjectOf(n) == obj {
											return "sort-comparator"
										}
									}
								}
							}
						}
					}
				}
			}
		}
	}
	if g.sortInterfaceIndex(x, fd) {
		return "sort-interface-method"
	}
	if g.grownByLenOfRanged(x, stack) {
		return "grown-by-len-of-ranged"
	}
	for _, f := range g.knownAt(x, stack) {
		if f.kind == "idxLT" && f.expr == a && f.idx == g.str(g.unconv(x.Index)) {
			return "bounds-checked"
		}
	}
	if c, ok := g.constInt(x.Index); ok && c >= 0 && g.lenAtLeast(a, c+1, x, stack) {
		return "len-checked"
	}
	if c, ok := g.constInt(x.Index); ok && c >= 0 && g.callersLenAtLeast(x.X, c+1, stack, fd) {
		return "len-checked-by-callers"
	}
	return ""
}

// guardOfSlice: why `a[lo:hi]` cannot fault, or "" (constant bounds against a checked length only).
func (g *guardCtx) guardOfSlice(x *ast.SliceExpr, stack []ast.Node, fd *ast.FuncDecl) string {
	if x.Slice3 {
		return ""
	}
	a := g.str(x.X)
	need := int64(0)
	for _, b := range []ast.Expr{x.Low, x.High} {
		if b == nil {
			continue
		}
		c, ok := g.constInt(b)
		if !ok || c < 0 {
			return ""
		}
		if c > need {
			need = c
		}
	}
	if x.Low != nil && x.High != nil {
		lo, _ := g.constInt(x.Low)
		hi, _ := g.constInt(x.High)
		if lo > hi {
			return ""
		}
	}
	if need == 0 {
		return "whole"
	}
	if g.lenAtLeast(a, need, x, stack) {
		return "len-checked"
	}
	if g.callersLenAtLeast(x.X, need, stack, fd) {
		return "len-checked-by-callers"
	}
	return ""
}

// commaOk: the type assertion is the right-hand side of a two-valued assignment / declaration.
func commaOk(x *ast.TypeAssertExpr, stack []ast.Node) bool {
	if len(stack) == 0 {
		return false
	}
	switch p := stack[len(stack)-1].(type) {
	case *ast.AssignStmt:
		return len(p.Lhs) == 2 && len(p.Rhs) == 1 && p.Rhs[0] == ast.Expr(x)
	case *ast.ValueSpec:
		return len(p.Names) == 2 && len(p.Values) == 1 && p.Values[0] == ast.Expr(x)
	}
	return false
}

// ---------- range over a map: can the visiting order reach anything? ----------

// classifyMapRange returns "independent", "collect-then-sort(<slices>)" or "unclassified: <why>".
func (g *guardCtx) classifyMapRange(rs *ast.RangeStmt, fnBody *ast.BlockStmt) string {
	local := map[types.Object]bool{}
	if id, ok := rs.Key.(*ast.Ident); ok && rs.Tok == token.DEFINE {
		local[g.info.ObjectOf(id)] = true
	}
	if id, ok := rs.Value.(*ast.Ident); ok && rs.Tok == token.DEFINE {
		local[g.info.ObjectOf(id)] = true
	}
	ast.Inspect(rs.Body, func(n ast.Node) bool {
		switch x := n.(type) {
		case *ast.AssignStmt:
			if x.Tok == token.DEFINE {
				for _, l := range x.Lhs {
					if id, ok := l.(*ast.Ident); ok {
						local[g.info.ObjectOf(id)] = true
					}
				}
			}
		case *ast.RangeStmt:
			for _, e := range []ast.Expr{x.Key, x.Value} {
				if id, ok := e.(*ast.Ident); ok && x.Tok == token.DEFINE {
					local[g.info.ObjectOf(id)] = true
				}
			}
		case *ast.DeclStmt:
			if gd, ok := x.Decl.(*ast.GenDecl); ok {
				for _, sp := range gd.Specs {
					if vs, ok := sp.(*ast.ValueSpec); ok {
						for _, n := range vs.Names {
							local[g.info.ObjectOf(n)] = true
						}
					}
				}
			}
		case *ast.FuncLit:
			for _, fld := range x.Type.Params.List {
				for _, n := range fld.Names {
					local[g.info.ObjectOf(n)] = true
				}
			}
		}
		return true
	})
	isLocalRooted := func(e ast.Expr) bool {
		r := rootIdent(e)
		return r != nil && local[g.info.ObjectOf(r)]
	}
	// an outer map or slice indexed by a loop-local value: one entry per iteration
	keyedByLocal := func(e ast.Expr) bool {
		for {
			switch x := unparen(e).(type) {
			case *ast.IndexExpr:
				if isLocalRooted(x.Index) {
					return true
				}
				e = x.X
			case *ast.SelectorExpr:
				e = x.X
			case *ast.StarExpr:
				e = x.X
			default:
				return false
			}
		}
	}
	appended := map[string]bool{}
	nestedBreak := map[*ast.BranchStmt]bool{}
	why := ""
	bad := func(s string) {
		if why == "" {
			why = s
		}
	}
	var inClosure int
	var visit func(n ast.Node) bool
	visit = func(n ast.Node) bool {
		switch x := n.(type) {
		case *ast.FuncLit:
			inClosure++
			ast.Inspect(x.Body, visit)
			inClosure--
			return false
		case *ast.ReturnStmt:
			if inClosure == 0 {
				bad("return inside the loop")
			}
		case *ast.BranchStmt:
			if (x.Tok == token.BREAK && !nestedBreak[x]) || x.Tok == token.GOTO {
				bad("break/goto leaves the loop at an order-dependent point")
			}
		case *ast.AssignStmt:
			for i, l := range x.Lhs {
				if id, ok := l.(*ast.Ident); ok && id.Name == "_" {
					continue
				}
				if x.Tok == token.DEFINE || isLocalRooted(l) || keyedByLocal(l) {
					continue
				}
				// S = append(S, ...)
				if len(x.Lhs) == len(x.Rhs) {
					if call, ok := unparen(x.Rhs[i]).(*ast.CallExpr); ok {
						if id, ok := call.Fun.(*ast.Ident); ok && id.Name == "append" && len(call.Args) >= 1 && g.str(call.Args[0]) == g.str(l) {
							appended[g.str(l)] = true
							continue
						}
					}
				}
				bad("assignment to " + g.str(l))
			}
		case *ast.IncDecStmt:
			if !isLocalRooted(x.X) && !keyedByLocal(x.X) {
				bad("update of " + g.str(x.X))
			}
		case *ast.ExprStmt:
			call, ok := x.X.(*ast.CallExpr)
			if !ok {
				break
			}
			switch f := call.Fun.(type) {
			case *ast.Ident:
				if f.Name == "delete" && len(call.Args) == 2 && isLocalRooted(call.Args[1]) {
					return true
				}
				// a helper of the library whose whole body is one sort of (a field of) its parameter, applied to this
				// iteration's own entry: the sort of its own slice, extracted into a function
				ownArgs := len(call.Args) > 0
				for _, a := range call.Args {
					if !isLocalRooted(g.untype(a)) && !keyedByLocal(g.untype(a)) {
						ownArgs = false
					}
				}
				if ownArgs && g.calleeOnlySortsParam(call) {
					return true
				}
				bad("call of " + f.Name)
			case *ast.SelectorExpr:
				if pk, ok := f.X.(*ast.Ident); ok && pk.Name == "sort" {
					// sort.Stable(byKey(own)) sorts `own`: a conversion to a named slice type shares the backing array
					if len(call.Args) >= 1 && (isLocalRooted(g.untype(call.Args[0])) || keyedByLocal(g.untype(call.Args[0]))) {
						return true
					}
					bad("sort of a shared slice inside the loop")
				} else if isLocalRooted(f.X) || keyedByLocal(f.X) {
					return true // a method of this iteration's own entry
				} else {
					bad("call of " + g.str(f))
				}
			default:
				bad("call")
			}
		case *ast.GoStmt, *ast.DeferStmt, *ast.SendStmt:
			bad("go/defer/send inside the loop")
		}
		return true
	}
	// an unlabeled break inside a nested for/switch/select does not leave the map range
	ast.Inspect(rs.Body, func(n ast.Node) bool {
		switch x := n.(type) {
		case *ast.ForStmt, *ast.RangeStmt, *ast.SwitchStmt, *ast.TypeSwitchStmt, *ast.SelectStmt:
			ast.Inspect(x, func(m ast.Node) bool {
				if b, ok := m.(*ast.BranchStmt); ok && b.Tok == token.BREAK && b.Label == nil {
					nestedBreak[b] = true
				}
				return true
			})
		}
		return true
	})
	ast.Inspect(rs.Body, visit)
	if why != "" {
		return "unclassified: " + why
	}
	if len(appended) == 0 {
		return "independent"
	}
	// every collected slice must be sorted after the loop, in the same function
	for s := range appended {
		sorted := false
		ast.Inspect(fnBody, func(n ast.Node) bool {
			call, ok := n.(*ast.CallExpr)
			if !ok || call.Pos() < rs.End() || len(call.Args) < 1 {
				return true
			}
			if sel, ok := call.Fun.(*ast.SelectorExpr); ok {
				if pk, ok := sel.X.(*ast.Ident); ok && (pk.Name == "sort" || pk.Name == "slices") &&
					(g.str(call.Args[0]) == s || strings.Contains(g.str(call.Args[0]), "("+s+")")) {
					sorted = true
				}
			}
			// or handed to a function of the library that sorts that parameter (the sort extracted into a helper)
			for k, a := range call.Args {
				if g.str(a) == s && g.calleeSortsParam(call, k) {
					sorted = true
				}
			}
			return true
		})
		if !sorted {
			return "unclassified: " + s + " is filled in map order and not sorted afterwards"
		}
	}
	return "collect-then-sort"
}

// sameArrayLen: both operands are fixed-size arrays (or pointers to them) of the same constant length.
func (g *guardCtx) sameArrayLen(a, b ast.Expr) bool {
	arr := func(e ast.Expr) (*types.Array, bool) {
		t := g.info.TypeOf(e)
		if t == nil {
			return nil, false
		}
		if p, ok := t.Underlying().(*types.Pointer); ok {
			t = p.Elem()
		}
		x, ok := t.Underlying().(*types.Array)
		return x, ok
	}
	x, ok1 := arr(a)
	y, ok2 := arr(b)
	return ok1 && ok2 && x.Len() == y.Len()
}

// madeWithLenOf: the only assignment to `a` in the function is `a := make(T, len(<other>))` (also with an equal
// capacity argument), or `a = make(T, n)` directly inside `if n := len(<other>); n > 0 { … }` (the operand stays nil
// only when <other> is empty, and then a range over <other> has no iteration); <other> is not re-assigned in the function.
func (g *guardCtx) madeWithLenOf(a ast.Expr, other string, fd *ast.FuncDecl) bool {
	if fd == nil || fd.Body == nil {
		return false
	}
	target := g.str(unparen(a))
	assignments, good, guarded := 0, false, false
	walkStack(fd.Body, func(n ast.Node, stack []ast.Node) {
		as, ok := n.(*ast.AssignStmt)
		if !ok {
			return
		}
		for i, l := range as.Lhs {
			if g.str(unparen(l)) != target {
				continue
			}
			assignments++
			if len(as.Lhs) != len(as.Rhs) {
				continue
			}
			call, ok := unparen(as.Rhs[i]).(*ast.CallExpr)
			if !ok || len(call.Args) < 2 {
				continue
			}
			f, ok := call.Fun.(*ast.Ident)
			if !ok || f.Name != "make" {
				continue
			}
			if x, ok := g.lenOf(call.Args[1]); ok && x == other {
				good = true
				continue
			}
			// a = make(T, n) as a statement of the body of `if n := len(other); n > 0`
			nid, ok := unparen(call.Args[1]).(*ast.Ident)
			if !ok || len(stack) < 2 {
				continue
			}
			blk, ok1 := stack[len(stack)-1].(*ast.BlockStmt)
			ifs, ok2 := stack[len(stack)-2].(*ast.IfStmt)
			if !ok1 || !ok2 || ifs.Body != blk || ifs.Init == nil {
				continue
			}
			init, ok := ifs.Init.(*ast.AssignStmt)
			if !ok || init.Tok != token.DEFINE || len(init.Lhs) != 1 || len(init.Rhs) != 1 || g.str(init.Lhs[0]) != nid.Name {
				continue
			}
			if x, ok := g.lenOf(init.Rhs[0]); !ok || x != other {
				continue
			}
			cond := g.str(ifs.Cond)
			if cond != nid.Name+" > 0" && cond != nid.Name+" != 0" {
				continue
			}
			if g.assignsTo(ifs.Body, nid.Name) {
				continue
			}
			good, guarded = true, true
		}
	})
	if guarded && g.assignsTo(fd.Body, other) {
		return false
	}
	return good && assignments == 1
}

// calleeReturnsParam: the call's target is a function of the library every return statement of which returns its
// k-th parameter (a helper that records something and hands its boolean argument back).
func (g *guardCtx) calleeReturnsParam(call *ast.CallExpr, k int) bool {
	var id *ast.Ident
	switch f := unparen(call.Fun).(type) {
	case *ast.Ident:
		id = f
	case *ast.SelectorExpr:
		id = f.Sel
	}
	if id == nil {
		return false
	}
	obj, ok := g.info.ObjectOf(id).(*types.Func)
	if !ok {
		return false
	}
	for _, p := range g.c.pkgs {
		for _, file := range p.Syntax {
			for _, d := range file.Decls {
				fd, ok := d.(*ast.FuncDecl)
				if !ok || fd.Body == nil || p.TypesInfo.Defs[fd.Name] != obj {
					continue
				}
				var names []string
				for _, fld := range fd.Type.Params.List {
					if len(fld.Names) == 0 {
						names = append(names, "_")
					}
					for _, n := range fld.Names {
						names = append(names, n.Name)
					}
				}
				if k >= len(names) {
					return false
				}
				returns, all := 0, true
				ast.Inspect(fd.Body, func(n ast.Node) bool {
					if _, ok := n.(*ast.FuncLit); ok {
						return false
					}
					if r, ok := n.(*ast.ReturnStmt); ok {
						returns++
						if len(r.Results) != 1 {
							all = false
						} else if a, ok := unparen(r.Results[0]).(*ast.Ident); !ok || a.Name != names[k] {
							all = false
						}
					}
					return true
				})
				// the parameter must not be re-assigned in the body
				reassigned := false
				ast.Inspect(fd.Body, func(n ast.Node) bool {
					if as, ok := n.(*ast.AssignStmt); ok {
						for _, l := range as.Lhs {
							if a, ok := l.(*ast.Ident); ok && a.Name == names[k] {
								reassigned = true
							}
						}
					}
					return true
				})
				return returns > 0 && all && !reassigned
			}
		}
	}
	return false
}

// calleeSortsParam: the call's target is a function declared in the library whose body passes its k-th parameter as the
// first argument of a sort.* / slices.* call (one level deep).
// calleeOnlySortsParam: the call's target is a function of the library whose body is exactly one statement, a call of
// sort.* / slices.Sort* whose first argument is rooted in one of the function's parameters.
func (g *guardCtx) calleeOnlySortsParam(call *ast.CallExpr) bool {
	id, ok := unparen(call.Fun).(*ast.Ident)
	if !ok {
		return false
	}
	obj, ok := g.info.ObjectOf(id).(*types.Func)
	if !ok {
		return false
	}
	for _, p := range g.c.pkgs {
		for _, file := range p.Syntax {
			for _, d := range file.Decls {
				fd, ok := d.(*ast.FuncDecl)
				if !ok || fd.Body == nil || p.TypesInfo.Defs[fd.Name] != obj {
					continue
				}
				if len(fd.Body.List) != 1 {
					return false
				}
				es, ok := fd.Body.List[0].(*ast.ExprStmt)
				if !ok {
					return false
				}
				c2, ok := es.X.(*ast.CallExpr)
				if !ok || len(c2.Args) < 1 {
					return false
				}
				sel, ok := c2.Fun.(*ast.SelectorExpr)
				if !ok {
					return false
				}
				pk, ok := sel.X.(*ast.Ident)
				if !ok || (pk.Name != "sort" && pk.Name != "slices") {
					return false
				}
				r := rootIdent(g.untype(c2.Args[0]))
				if r == nil {
					return false
				}
				for _, fld := range fd.Type.Params.List {
					for _, n := range fld.Names {
						if p.TypesInfo.Defs[n] == p.TypesInfo.ObjectOf(r) {
							return true
						}
					}
				}
				return false
			}
		}
	}
	return false
}

func (g *guardCtx) calleeSortsParam(call *ast.CallExpr, k int) bool {
	var id *ast.Ident
	switch f := unparen(call.Fun).(type) {
	case *ast.Ident:
		id = f
	case *ast.SelectorExpr:
		id = f.Sel
	}
	if id == nil {
		return false
	}
	obj, ok := g.info.ObjectOf(id).(*types.Func)
	if !ok {
		return false
	}
	for _, p := range g.c.pkgs {
		for _, file := range p.Syntax {
			for _, d := range file.Decls {
				fd, ok := d.(*ast.FuncDecl)
				if !ok || fd.Body == nil || p.TypesInfo.Defs[fd.Name] != obj {
					continue
				}
				// name of the k-th parameter
				var names []string
				for _, fld := range fd.Type.Params.List {
					if len(fld.Names) == 0 {
						names = append(names, "_")
					}
					for _, n := range fld.Names {
						names = append(names, n.Name)
					}
				}
				if k >= len(names) {
					return false
				}
				found := false
				ast.Inspect(fd.Body, func(n ast.Node) bool {
					c2, ok := n.(*ast.CallExpr)
					if !ok || len(c2.Args) < 1 {
						return true
					}
					if sel, ok := c2.Fun.(*ast.SelectorExpr); ok {
						if pk, ok := sel.X.(*ast.Ident); ok && (pk.Name == "sort" || pk.Name == "slices") {
							if a, ok := unparen(c2.Args[0]).(*ast.Ident); ok && a.Name == names[k] {
								found = true
							}
						}
					}
					return true
				})
				return found
			}
		}
	}
	return false
}

// regexGroups: `m` was assigned `re.FindStringSubmatch(..)` in this function, `re` being a package-level
// `regexp.MustCompile("literal")`; returns the number of capture groups (a non-nil match has n+1 elements).
func (g *guardCtx) regexGroups(m ast.Expr, fd *ast.FuncDecl) (int, bool) {
	id, ok := unparen(m).(*ast.Ident)
	if !ok {
		return 0, false
	}
	obj := g.info.ObjectOf(id)
	n, found, assignments := 0, false, 0
	ast.Inspect(fd.Body, func(nd ast.Node) bool {
		as, ok := nd.(*ast.AssignStmt)
		if !ok {
			return true
		}
		for i, l := range as.Lhs {
			lid, ok := l.(*ast.Ident)
			if !ok || g.info.ObjectOf(lid) != obj {
				continue
			}
			assignments++
			if len(as.Lhs) != len(as.Rhs) {
				continue
			}
			call, ok := unparen(as.Rhs[i]).(*ast.CallExpr)
			if !ok {
				continue
			}
			sel, ok := call.Fun.(*ast.SelectorExpr)
			if !ok || sel.Sel.Name != "FindStringSubmatch" {
				continue
			}
			rid, ok := sel.X.(*ast.Ident)
			if !ok {
				continue
			}
			v, ok := g.info.ObjectOf(rid).(*types.Var)
			if !ok {
				continue
			}
			if k, ok := g.c.regexGroupCount(v); ok {
				n, found = k, true
			}
		}
		return true
	})
	return n, found && assignments == 1
}

// regexGroupCount: v is a package-level variable initialised with regexp.MustCompile(<constant>).
func (c *ctx) regexGroupCount(v *types.Var) (int, bool) {
	if v.Pkg() == nil || v.Parent() != v.Pkg().Scope() {
		return 0, false
	}
	for _, p := range c.pkgs {
		if p.Types != v.Pkg() {
			continue
		}
		pat, err := regexVar(p, v.Name())
		if err != nil {
			return 0, false
		}
		re, err := regexp.Compile(pat)
		if err != nil {
			return 0, false
		}
		return re.NumSubexp(), true
	}
	return 0, false
}
