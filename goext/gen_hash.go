package main

import (
	"fmt"
	"go/ast"
	"go/types"
	"regexp"
	"strings"
)

// The hasher bodies are translated statement by statement into encoder combinators
// (Model/HashCombinators.lean): every field becomes one component of a nested pair, and the
// encoder is the matching nest of encPair / encStr / encFixed / encOpt / encCounted.

type hashItem struct {
	field string // Lean field accessor (on the record variable `x`)
	enc   string // Lean encoder expression
}

var tripFieldNames = map[string]string{
	"t.ID.ID": "id", "t.ID.RouteID": "routeId", "t.ID.DirectionID": "dir", "t.ID.HasStartDate": "hasStartDate",
	"t.ID.StartDate.Unix()": "startDate", "t.ID.HasStartTime": "hasStartTime", "t.ID.StartTime": "startTime",
	"t.ID.ScheduleRelationship": "sr",
	"stu.StopSequence":          "stopSequence", "stu.StopID": "stopId", "stu.NyctTrack": "track", "stu.ScheduleRelationship": "sr",
	"event.Time": "time", "event.Uncertainty": "uncertainty", "dp": "delay",
	"v.ID.ID": "id", "v.ID.Label": "label", "v.ID.LicensePlate": "licensePlate",
	"v.Position.Latitude": "latitude", "v.Position.Longitude": "longitude", "v.Position.Bearing": "bearing",
	"v.Position.Odometer": "odometer", "v.Position.Speed": "speed",
	"v.CurrentStopSequence": "currentStopSequence", "v.StopID": "stopId", "v.CurrentStatus": "currentStatus",
	"v.Timestamp": "timestamp", "v.CongestionLevel": "congestionLevel", "v.OccupancyStatus": "occupancyStatus",
	"v.OccupancyPercentage": "occupancyPercentage",
}

func basicWidth(t types.Type) (int, error) {
	if p, ok := t.Underlying().(*types.Pointer); ok {
		t = p.Elem()
	}
	b, ok := t.Underlying().(*types.Basic)
	if !ok {
		return 0, fmt.Errorf("not a basic type: %s", t)
	}
	switch b.Kind() {
	case types.Bool, types.Uint8, types.Int8:
		return 1, nil
	case types.Int16, types.Uint16:
		return 2, nil
	case types.Int32, types.Uint32, types.Float32:
		return 4, nil
	case types.Int64, types.Uint64, types.Float64:
		return 8, nil
	}
	return 0, fmt.Errorf("type %s has no fixed width under encoding/binary", t)
}

type hashGen struct {
	c     *ctx
	p     pkgT
	defs  []string          // emitted sub-record field/encoder definitions, in dependency order
	seen  map[string]string // name -> body, to check that repeated groups agree
	notes []string          // optional fields of the source unknown to the model (hashed as absent)
}

// define emits `def <name>Fields (v : <typ>) := ..` and `def enc<Name>Fields := ..` once.
func (g *hashGen) define(name, typ string, inner []hashItem) error {
	f, e := tuple(inner, "v")
	body := f + " | " + e
	if g.seen == nil {
		g.seen = map[string]string{}
	}
	if old, ok := g.seen[name]; ok {
		if old != body {
			return fmt.Errorf("hash: the two uses of %s differ: %s vs %s", name, old, body)
		}
		return nil
	}
	g.seen[name] = body
	g.defs = append(g.defs, fmt.Sprintf("def %sFields (v : %s) :=\n  %s\ndef enc%sFields :=\n  %s\n", name, typ, f, strings.Title(name), e))
	return nil
}

// absent: an optional field or optional group of the source that the model's records do not have (a later addition
// to the library). The harness cannot set it, so every value it hashes has it nil: the model writes what the source
// writes for nil - the presence marker alone. The field is listed in `unmodelledOptionalFields`.
func (g *hashGen) absent(what string) hashItem {
	g.notes = append(g.notes, what)
	return hashItem{"(none : Option Unit)", "(encOpt encUnit)"}
}

func (g *hashGen) fieldName(e ast.Expr) (string, error) {
	s := exprString(g.c, e)
	if n, ok := tripFieldNames[s]; ok {
		return n, nil
	}
	return "", fmt.Errorf("hash: unknown field expression %q", s)
}

func isHCall(c *ctx, e ast.Expr, name string) (*ast.CallExpr, bool) {
	call, ok := e.(*ast.CallExpr)
	if !ok {
		return nil, false
	}
	if sel, ok := call.Fun.(*ast.SelectorExpr); ok {
		if id, ok := sel.X.(*ast.Ident); ok && id.Name == "h" && sel.Sel.Name == name {
			return call, true
		}
	}
	if id, ok := call.Fun.(*ast.Ident); ok && id.Name == name {
		return call, true
	}
	return nil, false
}

// items translates a statement list. It returns the items in order.
func (g *hashGen) items(stmts []ast.Stmt) ([]hashItem, error) {
	var out []hashItem
	i := 0
	for i < len(stmts) {
		st := stmts[i]
		// stu := &t.StopTimeUpdates[i]
		if as, ok := st.(*ast.AssignStmt); ok && len(as.Lhs) == 1 && exprString(g.c, as.Lhs[0]) == "stu" && exprString(g.c, as.Rhs[0]) == "&t.StopTimeUpdates[i]" {
			i++
			continue
		}
		// var dp *int64; if event.Delay != nil { d := int64(*event.Delay); dp = &d }
		if ds, ok := st.(*ast.DeclStmt); ok && exprString(g.c, ds) == "var dp *int64" && i+1 < len(stmts) {
			if exprString(g.c, stmts[i+1]) == "if event.Delay != nil { d := int64(*event.Delay) dp = &d }" {
				i += 2
				continue
			}
			return nil, fmt.Errorf("hash: unexpected statements after 'var dp *int64': %s", exprString(g.c, stmts[i+1]))
		}
		es, isExpr := st.(*ast.ExprStmt)
		if isExpr {
			if call, ok := isHCall(g.c, es.X, "string"); ok {
				f, err := g.fieldName(call.Args[0])
				if err != nil {
					return nil, err
				}
				out = append(out, hashItem{f, "encStr"})
				i++
				continue
			}
			if call, ok := isHCall(g.c, es.X, "stringPtr"); ok {
				f, err := g.fieldName(call.Args[0])
				if err != nil {
					out = append(out, g.absent(exprString(g.c, call.Args[0])))
					i++
					continue
				}
				out = append(out, hashItem{f, "(encOpt encStr)"})
				i++
				continue
			}
			if call, ok := isHCall(g.c, es.X, "timePtr"); ok {
				f, err := g.fieldName(call.Args[0])
				if err != nil {
					out = append(out, g.absent(exprString(g.c, call.Args[0])))
					i++
					continue
				}
				out = append(out, hashItem{f, "(encOpt (encFixed 8))"})
				i++
				continue
			}
			if call, ok := isHCall(g.c, es.X, "hashNumberPtr"); ok && len(call.Args) == 2 {
				f, err := g.fieldName(call.Args[1])
				if err != nil {
					out = append(out, g.absent(exprString(g.c, call.Args[1])))
					i++
					continue
				}
				w, err := basicWidth(g.p.TypesInfo.TypeOf(call.Args[1]))
				if err != nil {
					return nil, err
				}
				out = append(out, hashItem{f, fmt.Sprintf("(encOpt (encFixed %d))", w)})
				i++
				continue
			}
			if call, ok := isHCall(g.c, es.X, "trip"); ok && exprString(g.c, call.Args[0]) == "v.Trip" {
				out = append(out, hashItem{"SELF", "encTrip"})
				i++
				continue
			}
			if call, ok := isHCall(g.c, es.X, "number"); ok && len(call.Args) == 1 {
				arg := call.Args[0]
				as := exprString(g.c, arg)
				// presence group: h.number(X == nil); if X != nil { ... }
				if strings.HasSuffix(as, " == nil") && i+1 < len(stmts) {
					x := strings.TrimSuffix(as, " == nil")
					if ifs, ok := stmts[i+1].(*ast.IfStmt); ok && ifs.Else == nil {
						cond := exprString(g.c, ifs.Cond)
						if cond == x+" != nil" {
							inner, err := g.items(ifs.Body.List)
							if err != nil {
								return nil, err
							}
							it, err := g.group(x, inner)
							if err != nil {
								return nil, err
							}
							out = append(out, it)
							i += 2
							continue
						}
						if cond == x+" == nil" && len(ifs.Body.List) == 1 && exprString(g.c, ifs.Body.List[0]) == "continue" {
							// event loop body: the rest of the block is the payload
							inner, err := g.items(stmts[i+2:])
							if err != nil {
								return nil, err
							}
							it, err := g.group(x, inner)
							if err != nil {
								return nil, err
							}
							out = append(out, it)
							return out, nil
						}
					}
					return nil, fmt.Errorf("hash: presence byte for %s is not followed by its guarded payload", x)
				}
				// count prefix: h.number(int64(len(t.StopTimeUpdates))) ... for i := range t.StopTimeUpdates {...}
				if as == "int64(len(t.StopTimeUpdates))" {
					var mid []hashItem
					j := i + 1
					for j < len(stmts) {
						if _, ok := stmts[j].(*ast.RangeStmt); ok {
							break
						}
						m, err := g.items(stmts[j : j+1])
						if err != nil {
							return nil, err
						}
						mid = append(mid, m...)
						j++
					}
					if j >= len(stmts) {
						return nil, fmt.Errorf("hash: count of StopTimeUpdates without the loop")
					}
					rs := stmts[j].(*ast.RangeStmt)
					if exprString(g.c, rs.X) != "t.StopTimeUpdates" {
						return nil, fmt.Errorf("hash: loop over %s after the count of StopTimeUpdates", exprString(g.c, rs.X))
					}
					inner, err := g.items(rs.Body.List)
					if err != nil {
						return nil, err
					}
					midF, midE := tuple(mid, "x")
					if len(mid) == 0 {
						return nil, fmt.Errorf("hash: no field between count and loop (layout not modelled)")
					}
					if err := g.define("stu", "StuData", inner); err != nil {
						return nil, err
					}
					out = append(out, hashItem{
						field: fmt.Sprintf("(%s, x.stus.map stuFields)", stripX(midF)),
						enc:   fmt.Sprintf("(encCounted %s encStuFields)", midE),
					})
					i = j + 1
					continue
				}
				// plain fixed-width number
				f, err := g.fieldName(arg)
				if err != nil {
					return nil, err
				}
				w, err := basicWidth(g.p.TypesInfo.TypeOf(arg))
				if err != nil {
					return nil, err
				}
				out = append(out, hashItem{f, fmt.Sprintf("(encFixed %d)", w)})
				i++
				continue
			}
		}
		// for _, event := range []*StopTimeEvent{stu.Arrival, stu.Departure} { ... }
		if rs, ok := st.(*ast.RangeStmt); ok {
			if cl, ok := rs.X.(*ast.CompositeLit); ok && exprString(g.c, rs.Value) == "event" {
				for _, el := range cl.Elts {
					name := map[string]string{"stu.Arrival": "arrival", "stu.Departure": "departure"}[exprString(g.c, el)]
					if name == "" {
						return nil, fmt.Errorf("hash: unknown event %s", exprString(g.c, el))
					}
					inner, err := g.items(rs.Body.List)
					if err != nil {
						return nil, err
					}
					if len(inner) != 1 {
						return nil, fmt.Errorf("hash: event loop body shape")
					}
					it := inner[0]
					it.field = strings.Replace(it.field, "x.event", "x."+name, 1)
					out = append(out, it)
				}
				i++
				continue
			}
		}
		return nil, fmt.Errorf("hash: statement not understood: %s", exprString(g.c, st))
	}
	return out, nil
}

func stripX(s string) string { return s }

// group makes `opt` of a nested record: X == nil presence byte + payload over X's fields.
func (g *hashGen) group(x string, inner []hashItem) (hashItem, error) {
	type gi struct{ field, def, typ string }
	info, ok := map[string]gi{
		"event":      {"event", "event", "EventData"},
		"v.ID":       {"id", "vehicleId", "VehicleIdData"},
		"v.Position": {"position", "position", "PositionData"},
		"v.Trip":     {"trip", "", ""},
	}[x]
	if !ok {
		return g.absent(x), nil
	}
	if info.def == "" {
		if len(inner) != 1 || inner[0].field != "SELF" {
			return hashItem{}, fmt.Errorf("hash: the trip of a vehicle is not hashed by h.trip")
		}
		return hashItem{field: "x.trip", enc: "(encOpt encTrip)"}, nil
	}
	if err := g.define(info.def, info.typ, inner); err != nil {
		return hashItem{}, err
	}
	return hashItem{
		field: fmt.Sprintf("(x.%s.map %sFields)", info.field, info.def),
		enc:   fmt.Sprintf("(encOpt enc%sFields)", strings.Title(info.def)),
	}, nil
}

// tuple renders items as a right-nested pair of field projections of `v` and the matching encoder.
func tuple(items []hashItem, v string) (string, string) {
	if len(items) == 0 {
		return "()", "encUnit"
	}
	fieldOf := func(it hashItem) string {
		if it.field == "SELF" {
			return v
		}
		if strings.HasPrefix(it.field, "(") || strings.HasPrefix(it.field, "x.") {
			return strings.ReplaceAll(it.field, "x.", v+".")
		}
		return v + "." + it.field
	}
	if len(items) == 1 {
		return fieldOf(items[0]), items[0].enc
	}
	rf, re := tuple(items[1:], v)
	return fmt.Sprintf("(%s, %s)", fieldOf(items[0]), rf), fmt.Sprintf("(encPair %s %s)", items[0].enc, re)
}

func genHashSchema(c *ctx) (string, error) {
	p := c.pkg("")
	g := &hashGen{c: c, p: p}
	tripFD := findMethod(p, "hasher", "trip")
	vehFD := findMethod(p, "hasher", "vehicle")
	if tripFD == nil || vehFD == nil {
		return "", fmt.Errorf("hasher.trip / hasher.vehicle not found")
	}
	ti, err := g.items(tripFD.Body.List)
	if err != nil {
		return "", err
	}
	tripDefs := g.defs
	g.defs = nil
	vi, err := g.items(vehFD.Body.List)
	if err != nil {
		return "", err
	}
	vehDefs := g.defs
	// the helper encoders must have the shapes the combinators assume (compared after renaming the hasher's two
	// fields to h – the hash function – and b – the buffer –, whatever they are called in the source)
	hf, bf := hasherFields(p)
	if hf == "" || bf == "" {
		return "", fmt.Errorf("hash: hasher is not a struct of a hash.Hash and a bytes.Buffer")
	}
	norm := func(s string) string {
		s = regexp.MustCompile(`\.`+regexp.QuoteMeta(hf)+`\b`).ReplaceAllString(s, ".h")
		s = regexp.MustCompile(`\.`+regexp.QuoteMeta(bf)+`\b`).ReplaceAllString(s, ".b")
		return s
	}
	for _, chk := range []struct{ recv, name, want string }{
		{"hasher", "string", "{ h.number(uint64(len(s))) h.flush() h.h.Write([]byte(s)) }"},
		{"hasher", "stringPtr", "{ h.number(a == nil) if a != nil { h.string(*a) } }"},
		{"hasher", "timePtr", "{ var up *int64 if t != nil { u := t.Unix() up = &u } hashNumberPtr(h, up) }"},
		{"hasher", "flush", "{ h.h.Write(h.b.Bytes()) h.b.Reset() }"},
	} {
		fd := findMethod(p, chk.recv, chk.name)
		if fd == nil || norm(exprString(c, fd.Body)) != chk.want {
			got := "<missing>"
			if fd != nil {
				got = exprString(c, fd.Body)
			}
			return "", fmt.Errorf("hash: helper %s has body %s", chk.name, got)
		}
	}
	if fd := findFunc(p, "hashNumberPtr"); fd == nil || exprString(c, fd.Body) != "{ h.number(a == nil) if a != nil { h.number(*a) } }" {
		return "", fmt.Errorf("hash: helper hashNumberPtr changed")
	}
	if fd := findMethod(p, "hasher", "number"); fd == nil || !strings.Contains(norm(exprString(c, fd.Body)), "binary.Write(&h.b, binary.LittleEndian, a)") {
		return "", fmt.Errorf("hash: helper number changed")
	}
	for _, m := range []struct{ recv, name, enc string }{
		{"Trip", "Hash", "trip"},
		{"Vehicle", "Hash", "vehicle"},
	} {
		fd := findMethod(p, m.recv, m.name)
		if fd == nil || len(fd.Recv.List[0].Names) != 1 {
			return "", fmt.Errorf("hash: %s.%s changed shape", m.recv, m.name)
		}
		want := fmt.Sprintf("{ s := hasher{%s: %s} s.%s(%s) s.flush() }", hf, paramName(fd, 0), m.enc, fd.Recv.List[0].Names[0].Name)
		if exprString(c, fd.Body) != want {
			return "", fmt.Errorf("hash: %s.%s changed shape", m.recv, m.name)
		}
	}
	tf, te := tuple(ti, "x")
	vf, ve := tuple(vi, "x")
	var sb strings.Builder
	sb.WriteString("import GtfsVerif.Model.HashCombinators\nnamespace Gtfs.Gen.HashSchema\nopen Gtfs.Hash\n\n")
	for _, d := range tripDefs {
		sb.WriteString(d + "\n")
	}
	sb.WriteString("/-- the fields `hasher.trip` writes, in order, as a nested pair -/\n")
	fmt.Fprintf(&sb, "def tripFields (x : TripData) :=\n  %s\n\n", tf)
	fmt.Fprintf(&sb, "/-- the encoder `hasher.trip` applies to them -/\ndef encTripFields :=\n  %s\n\n", te)
	sb.WriteString("def encTrip (x : TripData) : List UInt8 := encTripFields (tripFields x)\n\n")
	for _, d := range vehDefs {
		sb.WriteString(d + "\n")
	}
	sb.WriteString("/-- the fields `hasher.vehicle` writes, in order -/\n")
	fmt.Fprintf(&sb, "def vehicleFields (x : VehicleData) :=\n  %s\n\n", vf)
	fmt.Fprintf(&sb, "def encVehicleFields :=\n  %s\n\n", ve)
	sb.WriteString("def encVehicle (x : VehicleData) : List UInt8 := encVehicleFields (vehicleFields x)\n\n")
	sb.WriteString("/-- optional fields and groups the source hashes that the model's records do not have (hashed as absent) -/\n")
	fmt.Fprintf(&sb, "def unmodelledOptionalFields : List String := %s\n\nend Gtfs.Gen.HashSchema\n", leanStrListNL(dedupStrings(g.notes)))
	return sb.String(), nil
}

// hasherFields: the names of the hash.Hash field and of the bytes.Buffer field of `hasher`
func hasherFields(p pkgT) (hashField, bufField string) {
	obj := p.Types.Scope().Lookup("hasher")
	if obj == nil {
		return "", ""
	}
	st, ok := obj.Type().Underlying().(*types.Struct)
	if !ok || st.NumFields() != 2 {
		return "", ""
	}
	for i := 0; i < st.NumFields(); i++ {
		switch st.Field(i).Type().String() {
		case "hash.Hash":
			hashField = st.Field(i).Name()
		case "bytes.Buffer":
			bufField = st.Field(i).Name()
		}
	}
	return
}
