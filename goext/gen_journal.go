package main

import (
	"fmt"
	"go/ast"
	"go/types"
	"strings"
)

// ---------- the trip UID of the journal (journal.go buildTripUID) ----------
//
// The function is the one package-level function of the journal package with signature (time.Time, string) string.
// Its body must read: `if len(id) < N { id = "" } else { id = id[N:] }` followed by `return fmt.Sprintf(F, t.Unix(), id)`.
// N (both occurrences must agree) and F are emitted.

func genJournalFacts(c *ctx) (string, error) {
	p := c.pkg("/journal")
	var fd *ast.FuncDecl
	n := 0
	for _, f := range p.Syntax {
		for _, d := range f.Decls {
			x, ok := d.(*ast.FuncDecl)
			if !ok || x.Recv != nil || x.Body == nil {
				continue
			}
			fn, ok := p.TypesInfo.ObjectOf(x.Name).(*types.Func)
			if !ok {
				continue
			}
			sig := fn.Type().(*types.Signature)
			if sig.Params().Len() == 2 && sig.Results().Len() == 1 && sig.Params().At(0).Type().String() == "time.Time" &&
				sig.Params().At(1).Type().String() == "string" && sig.Results().At(0).Type().String() == "string" {
				fd = x
				n++
			}
		}
	}
	if n != 1 {
		return "", fmt.Errorf("journal: %d functions (time.Time, string) string", n)
	}
	t, id := paramName(fd, 0), paramName(fd, 1)
	if len(fd.Body.List) != 2 {
		return "", fmt.Errorf("journal: %s has %d statements", fd.Name.Name, len(fd.Body.List))
	}
	ifs, ok := fd.Body.List[0].(*ast.IfStmt)
	if !ok || ifs.Init != nil || ifs.Else == nil {
		return "", fmt.Errorf("journal: %s does not start with if/else", fd.Name.Name)
	}
	cond, ok := ifs.Cond.(*ast.BinaryExpr)
	if !ok || cond.Op.String() != "<" || exprString(c, cond.X) != "len("+id+")" {
		return "", fmt.Errorf("journal: condition %s", exprString(c, ifs.Cond))
	}
	n1, ok := constInt(p, cond.Y)
	if !ok {
		return "", fmt.Errorf("journal: non-constant bound")
	}
	if exprString(c, ifs.Body) != "{ "+id+" = \"\" }" {
		return "", fmt.Errorf("journal: then-branch %s", exprString(c, ifs.Body))
	}
	eb, ok := ifs.Else.(*ast.BlockStmt)
	if !ok || len(eb.List) != 1 {
		return "", fmt.Errorf("journal: else-branch")
	}
	as, ok := eb.List[0].(*ast.AssignStmt)
	if !ok || len(as.Lhs) != 1 || len(as.Rhs) != 1 || exprString(c, as.Lhs[0]) != id {
		return "", fmt.Errorf("journal: else-branch %s", exprString(c, eb))
	}
	sl, ok := as.Rhs[0].(*ast.SliceExpr)
	if !ok || exprString(c, sl.X) != id || sl.High != nil || sl.Low == nil {
		return "", fmt.Errorf("journal: else-branch %s", exprString(c, eb))
	}
	n2, ok := constInt(p, sl.Low)
	if !ok || n2 != n1 {
		return "", fmt.Errorf("journal: the length test (%d) and the cut differ", n1)
	}
	ret, ok := fd.Body.List[1].(*ast.ReturnStmt)
	if !ok || len(ret.Results) != 1 {
		return "", fmt.Errorf("journal: no return")
	}
	call, ok := ret.Results[0].(*ast.CallExpr)
	if !ok || exprString(c, call.Fun) != "fmt.Sprintf" || len(call.Args) != 3 ||
		exprString(c, call.Args[1]) != t+".Unix()" || exprString(c, call.Args[2]) != id {
		return "", fmt.Errorf("journal: return %s", exprString(c, ret))
	}
	format, ok := constString(p, call.Args[0])
	if !ok {
		return "", fmt.Errorf("journal: non-constant format")
	}
	var sb strings.Builder
	sb.WriteString("namespace Gtfs.Gen.JournalFacts\n\n")
	fmt.Fprintf(&sb, "/-- `%s`: ids shorter than this lose everything, longer ones this many leading bytes -/\ndef uidPrefixLen : Nat := %d\n", fd.Name.Name, n1)
	fmt.Fprintf(&sb, "/-- `%s`: the Sprintf format applied to (start.Unix(), rest of the id): %s -/\ndef uidFormat : List UInt8 := %s\n\n", fd.Name.Name, leanComment(format), leanBytes(format))
	sb.WriteString("end Gtfs.Gen.JournalFacts\n")
	return sb.String(), nil
}
