package main

import (
	"fmt"
	"go/ast"
	"go/printer"
	"go/token"
	"sort"
	"strings"
)

func exprString(c *ctx, e ast.Node) string {
	var sb strings.Builder
	printer.Fprint(&sb, c.fset, e)
	return strings.Join(strings.Fields(sb.String()), " ")
}

// switchTable reads `switch s { case "..": return CONST ... default: return CONST }`.
func switchTable(c *ctx, fd *ast.FuncDecl, p pkgT) (cases [][2]string, dflt ast.Stmt, err error) {
	var sw *ast.SwitchStmt
	for _, st := range fd.Body.List {
		if s, ok := st.(*ast.SwitchStmt); ok {
			sw = s
		}
	}
	if sw == nil {
		return nil, nil, fmt.Errorf("%s: no switch", fd.Name.Name)
	}
	for _, cc := range sw.Body.List {
		clause := cc.(*ast.CaseClause)
		if clause.List == nil {
			if len(clause.Body) != 1 {
				return nil, nil, fmt.Errorf("%s: default with %d statements", fd.Name.Name, len(clause.Body))
			}
			dflt = clause.Body[0]
			continue
		}
		if len(clause.Body) != 1 {
			return nil, nil, fmt.Errorf("%s: case with %d statements", fd.Name.Name, len(clause.Body))
		}
		ret, ok := clause.Body[0].(*ast.ReturnStmt)
		if !ok || len(ret.Results) != 1 {
			return nil, nil, fmt.Errorf("%s: case body is not a single return", fd.Name.Name)
		}
		v, ok := constInt(p, ret.Results[0])
		if !ok {
			return nil, nil, fmt.Errorf("%s: case returns a non-constant", fd.Name.Name)
		}
		for _, k := range clause.List {
			s, ok := constString(p, k)
			if !ok {
				return nil, nil, fmt.Errorf("%s: non-constant case label", fd.Name.Name)
			}
			cases = append(cases, [2]string{s, leanInt(v)})
		}
	}
	if dflt == nil {
		return nil, nil, fmt.Errorf("%s: switch without default", fd.Name.Name)
	}
	return cases, dflt, nil
}

func renderCases(cases [][2]string) string {
	parts := []string{}
	for _, c := range cases {
		parts = append(parts, fmt.Sprintf("(%s, %s)", leanBytes(c[0]), c[1]))
	}
	return "[" + strings.Join(parts, ", ") + "]"
}

func genEnums(c *ctx) (string, error) {
	p := c.pkg("")
	var sb strings.Builder
	sb.WriteString("namespace Gtfs.Gen.Enums\n\n")
	sb.WriteString("def lookup (cases : List (List UInt8 × Int)) (dflt : Int) (s : List UInt8) : Int :=\n  match cases.find? (fun c => c.1 == s) with\n  | some c => c.2\n  | none => dflt\n\n")
	simple := []string{"parseBikesAllowed", "parseDirectionID_GTFSStatic", "parseExactTimes", "parsePickupDropOffPolicy",
		"parseRouteType_GTFSStatic", "parseTransferType", "parseWheelchairBoarding"}
	for _, name := range simple {
		fd := findFunc(p, name)
		if fd == nil {
			return "", fmt.Errorf("function %s not found", name)
		}
		cases, dflt, err := switchTable(c, fd, p)
		if err != nil {
			return "", err
		}
		ret, ok := dflt.(*ast.ReturnStmt)
		if !ok || len(ret.Results) != 1 {
			return "", fmt.Errorf("%s: default is not a single return", name)
		}
		dv, ok := constInt(p, ret.Results[0])
		if !ok {
			return "", fmt.Errorf("%s: default returns a non-constant", name)
		}
		fmt.Fprintf(&sb, "/-- `%s` (enums.go): switch cases and default -/\ndef %s_cases : List (List UInt8 × Int) := %s\ndef %s_default : Int := %s\ndef %s (s : List UInt8) : Int := lookup %s_cases %s_default s\n\n",
			name, name, renderCases(cases), name, leanInt(dv), name, name, name)
	}
	// parseStopType: default branch depends on hasParentStop
	{
		name := "parseStopType"
		fd := findFunc(p, name)
		if fd == nil {
			return "", fmt.Errorf("function %s not found", name)
		}
		cases, dflt, err := switchTable(c, fd, p)
		if err != nil {
			return "", err
		}
		ifs, ok := dflt.(*ast.IfStmt)
		if !ok {
			return "", fmt.Errorf("parseStopType: default is not an if")
		}
		cond, ok := ifs.Cond.(*ast.Ident)
		if !ok || cond.Name != "hasParentStop" {
			return "", fmt.Errorf("parseStopType: unexpected condition %s", exprString(c, ifs.Cond))
		}
		one := func(b *ast.BlockStmt) (int64, error) {
			if b == nil || len(b.List) != 1 {
				return 0, fmt.Errorf("parseStopType: branch shape")
			}
			r, ok := b.List[0].(*ast.ReturnStmt)
			if !ok || len(r.Results) != 1 {
				return 0, fmt.Errorf("parseStopType: branch shape")
			}
			v, ok := constInt(p, r.Results[0])
			if !ok {
				return 0, fmt.Errorf("parseStopType: branch value")
			}
			return v, nil
		}
		a, err := one(ifs.Body)
		if err != nil {
			return "", err
		}
		eb, _ := ifs.Else.(*ast.BlockStmt)
		b, err := one(eb)
		if err != nil {
			return "", err
		}
		fmt.Fprintf(&sb, "/-- `parseStopType` (enums.go) -/\ndef parseStopType_cases : List (List UInt8 × Int) := %s\ndef parseStopType_defaultWithParent : Int := %s\ndef parseStopType_defaultNoParent : Int := %s\ndef parseStopType (s : List UInt8) (hasParent : Bool) : Int :=\n  lookup parseStopType_cases (if hasParent then parseStopType_defaultWithParent else parseStopType_defaultNoParent) s\n\n",
			renderCases(cases), leanInt(a), leanInt(b))
	}
	// parseDirectionID_GTFSRealtime: nil / 0 / other
	{
		fd := findFunc(p, "parseDirectionID_GTFSRealtime")
		if fd == nil {
			return "", fmt.Errorf("parseDirectionID_GTFSRealtime not found")
		}
		want := []string{"raw == nil", "*raw == 0"}
		var vals []int64
		if len(fd.Body.List) != 3 {
			return "", fmt.Errorf("parseDirectionID_GTFSRealtime: %d statements", len(fd.Body.List))
		}
		for i, st := range fd.Body.List {
			var ret *ast.ReturnStmt
			if i < 2 {
				ifs, ok := st.(*ast.IfStmt)
				if !ok || exprString(c, ifs.Cond) != want[i] || len(ifs.Body.List) != 1 || ifs.Else != nil {
					return "", fmt.Errorf("parseDirectionID_GTFSRealtime: statement %d has an unexpected shape", i)
				}
				ret, _ = ifs.Body.List[0].(*ast.ReturnStmt)
			} else {
				ret, _ = st.(*ast.ReturnStmt)
			}
			if ret == nil || len(ret.Results) != 1 {
				return "", fmt.Errorf("parseDirectionID_GTFSRealtime: statement %d", i)
			}
			v, ok := constInt(p, ret.Results[0])
			if !ok {
				return "", fmt.Errorf("parseDirectionID_GTFSRealtime: non-constant")
			}
			vals = append(vals, v)
		}
		fmt.Fprintf(&sb, "/-- `parseDirectionID_GTFSRealtime`: value for nil, for 0, for any other number -/\ndef directionRT_nil : Int := %s\ndef directionRT_zero : Int := %s\ndef directionRT_other : Int := %s\n\n", leanInt(vals[0]), leanInt(vals[1]), leanInt(vals[2]))
	}
	// parseRouteType_GTFSRealtime
	{
		fd := findFunc(p, "parseRouteType_GTFSRealtime")
		if fd == nil || len(fd.Body.List) != 2 {
			return "", fmt.Errorf("parseRouteType_GTFSRealtime: shape")
		}
		ifs, ok := fd.Body.List[0].(*ast.IfStmt)
		if !ok || exprString(c, ifs.Cond) != "raw == nil" || len(ifs.Body.List) != 1 {
			return "", fmt.Errorf("parseRouteType_GTFSRealtime: shape")
		}
		r0 := ifs.Body.List[0].(*ast.ReturnStmt)
		v, ok := constInt(p, r0.Results[0])
		if !ok {
			return "", fmt.Errorf("parseRouteType_GTFSRealtime: nil value")
		}
		r1, ok := fd.Body.List[1].(*ast.ReturnStmt)
		if !ok || exprString(c, r1.Results[0]) != "parseRouteType_GTFSStatic(strconv.FormatInt(int64(*raw), 10))" {
			return "", fmt.Errorf("parseRouteType_GTFSRealtime: second return is %s", exprString(c, fd.Body.List[1]))
		}
		fmt.Fprintf(&sb, "/-- `parseRouteType_GTFSRealtime`: nil ↦ this value, otherwise the static decoder on the decimal rendering -/\ndef routeTypeRT_nil : Int := %s\n\n", leanInt(v))
	}
	// named constants the model and the theorems refer to
	consts := []string{"DirectionID_Unspecified", "DirectionID_True", "DirectionID_False", "RouteType_Unknown",
		"StopType_Station", "WheelchairBoarding_NotSpecified", "PickupDropOffPolicy_Yes", "PickupDropOffPolicy_No",
		"BikesAllowed_NotSpecified", "FrequencyBased", "ScheduleBased", "TransferType_Recommended", "StopType_Stop", "StopType_Platform"}
	sort.Strings(consts)
	for _, name := range consts {
		obj := p.Types.Scope().Lookup(name)
		if obj == nil {
			return "", fmt.Errorf("constant %s not found", name)
		}
		v, ok := constInt(p, &ast.Ident{Name: name})
		_ = v
		_ = ok
		cv := objConst(obj)
		if cv == nil {
			return "", fmt.Errorf("%s is not an integer constant", name)
		}
		fmt.Fprintf(&sb, "def %s : Int := %s\n", name, leanInt(*cv))
	}
	sb.WriteString("\nend Gtfs.Gen.Enums\n")
	return sb.String(), nil
}

var _ = token.NoPos
