package main

import (
	"fmt"
	"go/ast"
	"go/printer"
	"go/token"
	"go/types"
	"sort"
	"strings"

	"golang.org/x/tools/go/packages"
)

func exprString(c *ctx, e ast.Node) string {
	var sb strings.Builder
	printer.Fprint(&sb, c.fset, e)
	return strings.Join(strings.Fields(sb.String()), " ")
}

// switchTable reads `switch s { case "..": return CONST ... default: return CONST }`.
func switchTable(c *ctx, fd *ast.FuncDecl, p pkgT) (cases [][2]string, dflt ast.Stmt, err error) {
	var sw *ast.SwitchStmt
	for _, st := range fd.Body.List {
		if s, ok := st.(*ast.SwitchStmt); ok {
			sw = s
		}
	}
	if sw == nil {
		return nil, nil, fmt.Errorf("%s: no switch", fd.Name.Name)
	}
	for _, cc := range sw.Body.List {
		clause := cc.(*ast.CaseClause)
		if clause.List == nil {
			// `if c { return A }; return B` is `if c { return A } else { return B }`
			if len(clause.Body) == 2 {
				ifs, ok1 := clause.Body[0].(*ast.IfStmt)
				ret, ok2 := clause.Body[1].(*ast.ReturnStmt)
				if ok1 && ok2 && ifs.Else == nil && ifs.Init == nil && len(ifs.Body.List) == 1 {
					if _, isRet := ifs.Body.List[0].(*ast.ReturnStmt); isRet {
						dflt = &ast.IfStmt{If: ifs.If, Cond: ifs.Cond, Body: ifs.Body, Else: &ast.BlockStmt{List: []ast.Stmt{ret}}}
						continue
					}
				}
			}
			if len(clause.Body) != 1 {
				return nil, nil, fmt.Errorf("%s: default with %d statements", fd.Name.Name, len(clause.Body))
			}
			dflt = clause.Body[0]
			continue
		}
		if len(clause.Body) != 1 {
			return nil, nil, fmt.Errorf("%s: case with %d statements", fd.Name.Name, len(clause.Body))
		}
		ret, ok := clause.Body[0].(*ast.ReturnStmt)
		if !ok || len(ret.Results) != 1 {
			return nil, nil, fmt.Errorf("%s: case body is not a single return", fd.Name.Name)
		}
		v, ok := constInt(p, ret.Results[0])
		if !ok {
			return nil, nil, fmt.Errorf("%s: case returns a non-constant", fd.Name.Name)
		}
		for _, k := range clause.List {
			s, ok := constString(p, k)
			if !ok {
				return nil, nil, fmt.Errorf("%s: non-constant case label", fd.Name.Name)
			}
			cases = append(cases, [2]string{s, leanInt(v)})
		}
	}
	if dflt == nil {
		return nil, nil, fmt.Errorf("%s: switch without default", fd.Name.Name)
	}
	return cases, dflt, nil
}

func renderCases(cases [][2]string) string {
	parts := []string{}
	for _, c := range cases {
		parts = append(parts, fmt.Sprintf("(%s, %s)", leanBytes(c[0]), c[1]))
	}
	return "[" + strings.Join(parts, ", ") + "]"
}

// enumDecoders: the name each decoder has in the generated Lean (historical Go names) ↦ how it is found in the source:
// the one package-level function with this result type and parameter shape ("s" = (string), "sb" = (string, bool),
// "p" = (pointer to an integer)). Found by signature, so a renamed decoder is still the same decoder.
var enumDecoders = [][3]string{
	{"parseBikesAllowed", "BikesAllowed", "s"}, {"parseDirectionID_GTFSStatic", "DirectionID", "s"}, {"parseExactTimes", "ExactTimes", "s"},
	{"parsePickupDropOffPolicy", "PickupDropOffPolicy", "s"}, {"parseRouteType_GTFSStatic", "RouteType", "s"},
	{"parseTransferType", "TransferType", "s"}, {"parseWheelchairBoarding", "WheelchairBoarding", "s"},
	{"parseStopType", "StopType", "sb"}, {"parseDirectionID_GTFSRealtime", "DirectionID", "p"}, {"parseRouteType_GTFSRealtime", "RouteType", "p"},
}

func findDecoder(p *packages.Package, leanName string) *ast.FuncDecl {
	var result, shape string
	for _, e := range enumDecoders {
		if e[0] == leanName {
			result, shape = e[1], e[2]
		}
	}
	var found []*ast.FuncDecl
	for _, f := range p.Syntax {
		for _, d := range f.Decls {
			fd, ok := d.(*ast.FuncDecl)
			if !ok || fd.Recv != nil || fd.Body == nil {
				continue
			}
			fn, ok := p.TypesInfo.ObjectOf(fd.Name).(*types.Func)
			if !ok {
				continue
			}
			sig := fn.Type().(*types.Signature)
			if sig.Results().Len() != 1 {
				continue
			}
			named, ok := sig.Results().At(0).Type().(*types.Named)
			if !ok || named.Obj().Pkg() != p.Types || named.Obj().Name() != result {
				continue
			}
			isStr := func(t types.Type) bool { b, ok := t.(*types.Basic); return ok && b.Kind() == types.String }
			isBool := func(t types.Type) bool { b, ok := t.(*types.Basic); return ok && b.Kind() == types.Bool }
			isIntPtr := func(t types.Type) bool {
				pt, ok := t.(*types.Pointer)
				if !ok {
					return false
				}
				b, ok := pt.Elem().(*types.Basic)
				return ok && b.Info()&types.IsInteger != 0
			}
			ps := sig.Params()
			match := false
			switch shape {
			case "s":
				match = ps.Len() == 1 && isStr(ps.At(0).Type())
			case "sb":
				match = ps.Len() == 2 && isStr(ps.At(0).Type()) && isBool(ps.At(1).Type())
			case "p":
				match = ps.Len() == 1 && isIntPtr(ps.At(0).Type())
			}
			if match {
				found = append(found, fd)
			}
		}
	}
	if len(found) != 1 {
		return nil
	}
	return found[0]
}

// canonicalDecoderName: the Lean name of an enum decoder called as `id`, or the identifier itself
func canonicalDecoderName(p *packages.Package, id *ast.Ident) string {
	obj := p.TypesInfo.ObjectOf(id)
	for _, e := range enumDecoders {
		if fd := findDecoder(p, e[0]); fd != nil && p.TypesInfo.ObjectOf(fd.Name) == obj {
			return e[0]
		}
	}
	return id.Name
}

func paramName(fd *ast.FuncDecl, i int) string {
	k := 0
	for _, fld := range fd.Type.Params.List {
		for _, n := range fld.Names {
			if k == i {
				return n.Name
			}
			k++
		}
	}
	return "?"
}

func genEnums(c *ctx) (string, error) {
	p := c.pkg("")
	var sb strings.Builder
	sb.WriteString("namespace Gtfs.Gen.Enums\n\n")
	sb.WriteString("def lookup (cases : List (List UInt8 × Int)) (dflt : Int) (s : List UInt8) : Int :=\n  match cases.find? (fun c => c.1 == s) with\n  | some c => c.2\n  | none => dflt\n\n")
	simple := []string{"parseBikesAllowed", "parseDirectionID_GTFSStatic", "parseExactTimes", "parsePickupDropOffPolicy",
		"parseRouteType_GTFSStatic", "parseTransferType", "parseWheelchairBoarding"}
	for _, name := range simple {
		fd := findDecoder(p, name)
		if fd == nil {
			return "", fmt.Errorf("function %s not found", name)
		}
		cases, dflt, err := switchTable(c, fd, p)
		if err != nil {
			return "", err
		}
		ret, ok := dflt.(*ast.ReturnStmt)
		if !ok || len(ret.Results) != 1 {
			return "", fmt.Errorf("%s: default is not a single return", name)
		}
		dv, ok := constInt(p, ret.Results[0])
		if !ok {
			return "", fmt.Errorf("%s: default returns a non-constant", name)
		}
		fmt.Fprintf(&sb, "/-- `%s` (enums.go): switch cases and default -/\ndef %s_cases : List (List UInt8 × Int) := %s\ndef %s_default : Int := %s\ndef %s (s : List UInt8) : Int := lookup %s_cases %s_default s\n\n",
			name, name, renderCases(cases), name, leanInt(dv), name, name, name)
	}
	// parseStopType: default branch depends on hasParentStop
	{
		name := "parseStopType"
		fd := findDecoder(p, name)
		if fd == nil {
			return "", fmt.Errorf("function %s not found", name)
		}
		cases, dflt, err := switchTable(c, fd, p)
		if err != nil {
			return "", err
		}
		ifs, ok := dflt.(*ast.IfStmt)
		if !ok {
			return "", fmt.Errorf("parseStopType: default is not an if")
		}
		cond, ok := ifs.Cond.(*ast.Ident)
		if !ok || cond.Name != paramName(fd, 1) {
			return "", fmt.Errorf("parseStopType: unexpected condition %s", exprString(c, ifs.Cond))
		}
		one := func(b *ast.BlockStmt) (int64, error) {
			if b == nil || len(b.List) != 1 {
				return 0, fmt.Errorf("parseStopType: branch shape")
			}
			r, ok := b.List[0].(*ast.ReturnStmt)
			if !ok || len(r.Results) != 1 {
				return 0, fmt.Errorf("parseStopType: branch shape")
			}
			v, ok := constInt(p, r.Results[0])
			if !ok {
				return 0, fmt.Errorf("parseStopType: branch value")
			}
			return v, nil
		}
		a, err := one(ifs.Body)
		if err != nil {
			return "", err
		}
		eb, _ := ifs.Else.(*ast.BlockStmt)
		b, err := one(eb)
		if err != nil {
			return "", err
		}
		fmt.Fprintf(&sb, "/-- `parseStopType` (enums.go) -/\ndef parseStopType_cases : List (List UInt8 × Int) := %s\ndef parseStopType_defaultWithParent : Int := %s\ndef parseStopType_defaultNoParent : Int := %s\ndef parseStopType (s : List UInt8) (hasParent : Bool) : Int :=\n  lookup parseStopType_cases (if hasParent then parseStopType_defaultWithParent else parseStopType_defaultNoParent) s\n\n",
			renderCases(cases), leanInt(a), leanInt(b))
	}
	// parseDirectionID_GTFSRealtime: nil / 0 / other
	{
		fd := findDecoder(p, "parseDirectionID_GTFSRealtime")
		if fd == nil {
			return "", fmt.Errorf("parseDirectionID_GTFSRealtime not found")
		}
		raw := paramName(fd, 0)
		want := []string{raw + " == nil", "*" + raw + " == 0"}
		var vals []int64
		if len(fd.Body.List) != 3 {
			return "", fmt.Errorf("parseDirectionID_GTFSRealtime: %d statements", len(fd.Body.List))
		}
		for i, st := range fd.Body.List {
			var ret *ast.ReturnStmt
			if i < 2 {
				ifs, ok := st.(*ast.IfStmt)
				if !ok || exprString(c, ifs.Cond) != want[i] || len(ifs.Body.List) != 1 || ifs.Else != nil {
					return "", fmt.Errorf("parseDirectionID_GTFSRealtime: statement %d has an unexpected shape", i)
				}
				ret, _ = ifs.Body.List[0].(*ast.ReturnStmt)
			} else {
				ret, _ = st.(*ast.ReturnStmt)
			}
			if ret == nil || len(ret.Results) != 1 {
				return "", fmt.Errorf("parseDirectionID_GTFSRealtime: statement %d", i)
			}
			v, ok := constInt(p, ret.Results[0])
			if !ok {
				return "", fmt.Errorf("parseDirectionID_GTFSRealtime: non-constant")
			}
			vals = append(vals, v)
		}
		fmt.Fprintf(&sb, "/-- `parseDirectionID_GTFSRealtime`: value for nil, for 0, for any other number -/\ndef directionRT_nil : Int := %s\ndef directionRT_zero : Int := %s\ndef directionRT_other : Int := %s\n\n", leanInt(vals[0]), leanInt(vals[1]), leanInt(vals[2]))
	}
	// parseRouteType_GTFSRealtime
	{
		fd := findDecoder(p, "parseRouteType_GTFSRealtime")
		static := findDecoder(p, "parseRouteType_GTFSStatic")
		if fd == nil || static == nil || len(fd.Body.List) != 2 {
			return "", fmt.Errorf("parseRouteType_GTFSRealtime: shape")
		}
		raw := paramName(fd, 0)
		ifs, ok := fd.Body.List[0].(*ast.IfStmt)
		if !ok || exprString(c, ifs.Cond) != raw+" == nil" || len(ifs.Body.List) != 1 {
			return "", fmt.Errorf("parseRouteType_GTFSRealtime: shape")
		}
		r0 := ifs.Body.List[0].(*ast.ReturnStmt)
		v, ok := constInt(p, r0.Results[0])
		if !ok {
			return "", fmt.Errorf("parseRouteType_GTFSRealtime: nil value")
		}
		r1, ok := fd.Body.List[1].(*ast.ReturnStmt)
		if !ok || exprString(c, r1.Results[0]) != static.Name.Name+"(strconv.FormatInt(int64(*"+raw+"), 10))" {
			return "", fmt.Errorf("parseRouteType_GTFSRealtime: second return is %s", exprString(c, fd.Body.List[1]))
		}
		fmt.Fprintf(&sb, "/-- `parseRouteType_GTFSRealtime`: nil ↦ this value, otherwise the static decoder on the decimal rendering -/\ndef routeTypeRT_nil : Int := %s\n\n", leanInt(v))
	}
	// named constants the model and the theorems refer to
	consts := []string{"DirectionID_Unspecified", "DirectionID_True", "DirectionID_False", "RouteType_Unknown",
		"StopType_Station", "WheelchairBoarding_NotSpecified", "PickupDropOffPolicy_Yes", "PickupDropOffPolicy_No",
		"BikesAllowed_NotSpecified", "FrequencyBased", "ScheduleBased", "TransferType_Recommended", "StopType_Stop", "StopType_Platform"}
	sort.Strings(consts)
	for _, name := range consts {
		obj := p.Types.Scope().Lookup(name)
		if obj == nil {
			return "", fmt.Errorf("constant %s not found", name)
		}
		v, ok := constInt(p, &ast.Ident{Name: name})
		_ = v
		_ = ok
		cv := objConst(obj)
		if cv == nil {
			return "", fmt.Errorf("%s is not an integer constant", name)
		}
		fmt.Fprintf(&sb, "def %s : Int := %s\n", name, leanInt(*cv))
	}
	sb.WriteString("\nend Gtfs.Gen.Enums\n")
	return sb.String(), nil
}

var _ = token.NoPos
