package main

import (
	"fmt"
	"go/ast"
	"go/constant"
	"go/types"
	"strings"

	"golang.org/x/tools/go/packages"
)

type pkgT = *packages.Package

func objConst(obj types.Object) *int64 {
	c, ok := obj.(*types.Const)
	if !ok || c.Val().Kind() != constant.Int {
		return nil
	}
	v, ok := constant.Int64Val(c.Val())
	if !ok {
		return nil
	}
	return &v
}

// ---------- regex texts ----------

func regexVar(p pkgT, name string) (string, error) {
	for _, f := range p.Syntax {
		for _, d := range f.Decls {
			gd, ok := d.(*ast.GenDecl)
			if !ok {
				continue
			}
			for _, sp := range gd.Specs {
				vs, ok := sp.(*ast.ValueSpec)
				if !ok {
					continue
				}
				for i, n := range vs.Names {
					if n.Name != name || i >= len(vs.Values) {
						continue
					}
					call, ok := vs.Values[i].(*ast.CallExpr)
					if !ok || len(call.Args) != 1 {
						return "", fmt.Errorf("%s: not a MustCompile call", name)
					}
					s, ok := constString(p, call.Args[0])
					if !ok {
						return "", fmt.Errorf("%s: pattern is not a constant", name)
					}
					return s, nil
				}
			}
		}
	}
	return "", fmt.Errorf("%s not found", name)
}

func genRegex(c *ctx) (string, error) {
	var sb strings.Builder
	sb.WriteString("namespace Gtfs.Gen.Regex\n\n")
	for _, it := range []struct{ pkg, name string }{
		{"", "startTimeRegex"}, {"", "startDateRegex"}, {"/extensions/nycttrips", "TripIDRegex"}, {"/extensions/nyctalerts", "elevatorAlertIDRegex"},
	} {
		s, err := regexVar(c.pkg(it.pkg), it.name)
		if err != nil {
			return "", err
		}
		fmt.Fprintf(&sb, "/-- `%s` = %s -/\ndef %s : List UInt8 := %s\n\n", it.name, leanComment(s), it.name, leanBytes(s))
	}
	sb.WriteString("end Gtfs.Gen.Regex\n")
	return sb.String(), nil
}

// ---------- columns of the static row loops ----------

type colInfo struct {
	name     string
	required bool
}

func genColumns(c *ctx) (string, error) {
	p := c.pkg("")
	funcs := []string{"parseAgencies", "parseRoutes", "parseStops", "parseTransfers", "parseCalendar", "parseCalendarDates",
		"parseScheduledTrips", "parseScheduledStopTimes", "parseShapes", "parseFrequencies"}
	var sb strings.Builder
	sb.WriteString("namespace Gtfs.Gen.Columns\n\n")
	for _, fn := range funcs {
		fd := findFunc(p, fn)
		if fd == nil {
			return "", fmt.Errorf("%s not found", fn)
		}
		var cols []colInfo
		varCol := map[string]string{}
		var readOrs []string  // (column, default)
		var decoders []string // (column, decoder, via ReadOr default or Read)
		checksMissing := false
		var walkErr error
		// local tables of names: `x := [7]string{...}` / `var x = []string{...}` (ranged over to create columns)
		identLits := map[string]*ast.CompositeLit{}
		ast.Inspect(fd.Body, func(n ast.Node) bool {
			switch x := n.(type) {
			case *ast.AssignStmt:
				if len(x.Lhs) == 1 && len(x.Rhs) == 1 {
					if id, ok := x.Lhs[0].(*ast.Ident); ok {
						if cl, ok := x.Rhs[0].(*ast.CompositeLit); ok {
							identLits[id.Name] = cl
						}
					}
				}
			case *ast.ValueSpec:
				if len(x.Names) == 1 && len(x.Values) == 1 {
					if cl, ok := x.Values[0].(*ast.CompositeLit); ok {
						identLits[x.Names[0].Name] = cl
					}
				}
			}
			return true
		})
		resolvedIdents := map[string]bool{} // range variables that stand for the elements of such a table
		var unresolved []string
		ast.Inspect(fd.Body, func(n ast.Node) bool {
			switch x := n.(type) {
			case *ast.AssignStmt:
				if len(x.Lhs) == 1 && len(x.Rhs) == 1 {
					if call, ok := x.Rhs[0].(*ast.CallExpr); ok {
						if sel, ok := call.Fun.(*ast.SelectorExpr); ok && (sel.Sel.Name == "RequiredColumn" || sel.Sel.Name == "OptionalColumn") && len(call.Args) == 1 {
							if s, ok := constString(p, call.Args[0]); ok {
								cols = append(cols, colInfo{s, sel.Sel.Name == "RequiredColumn"})
								if id, ok := x.Lhs[0].(*ast.Ident); ok {
									varCol[id.Name] = s
								}
							} else if id, isIdent := call.Args[0].(*ast.Ident); !isIdent {
								walkErr = fmt.Errorf("%s: column name is not a constant: %s", fn, exprString(c, call))
							} else {
								unresolved = append(unresolved, id.Name)
							}
						}
					}
				}
			case *ast.RangeStmt:
				// the weekday loop of parseCalendar: for i, days := range []string{...} { dayColumns[i] = f.RequiredColumn(days) }
				cl, ok := x.X.(*ast.CompositeLit)
				if id, isId := x.X.(*ast.Ident); isId && !ok {
					cl, ok = identLits[id.Name]
				}
				if ok {
					if v, isId := x.Value.(*ast.Ident); isId {
						resolvedIdents[v.Name] = true
					}
					isCol := false
					ast.Inspect(x.Body, func(m ast.Node) bool {
						if call, ok := m.(*ast.CallExpr); ok {
							if sel, ok := call.Fun.(*ast.SelectorExpr); ok && sel.Sel.Name == "RequiredColumn" {
								isCol = true
							}
						}
						return true
					})
					if isCol {
						for _, e := range cl.Elts {
							if s, ok := constString(p, e); ok {
								cols = append(cols, colInfo{s, true})
							}
						}
					}
				}
			case *ast.CallExpr:
				if sel, ok := x.Fun.(*ast.SelectorExpr); ok {
					if sel.Sel.Name == "MissingRequiredColumns" {
						checksMissing = true
					}
					if sel.Sel.Name == "ReadOr" && len(x.Args) == 1 {
						if id, ok := sel.X.(*ast.Ident); ok {
							col := varCol[id.Name]
							if s, ok := constString(p, x.Args[0]); ok {
								readOrs = append(readOrs, fmt.Sprintf("(%s, some %s)", leanBytes(col), leanBytes(s)))
							} else {
								readOrs = append(readOrs, fmt.Sprintf("(%s, none)", leanBytes(col)))
							}
						}
					}
				}
				// decoder(column.Read()) / decoder(column.ReadOr(lit))
				if fid, ok := x.Fun.(*ast.Ident); ok && isPackageFunc(p, fid) && len(x.Args) >= 1 {
					if inner, ok := x.Args[0].(*ast.CallExpr); ok {
						if sel, ok := inner.Fun.(*ast.SelectorExpr); ok && (sel.Sel.Name == "Read" || sel.Sel.Name == "ReadOr") {
							if id, ok := sel.X.(*ast.Ident); ok {
								if col, ok := varCol[id.Name]; ok {
									decoders = append(decoders, fmt.Sprintf("(%s, \"%s\")", leanBytes(col), canonicalDecoderName(p, fid)))
								}
							}
						}
					}
				}
				if fid, ok := x.Fun.(*ast.Ident); ok && fid.Name == "checkForMissingColumns" {
					checksMissing = true
				}
				// the check made through a helper of the library whose body calls MissingRequiredColumns
				if fid, ok := x.Fun.(*ast.Ident); ok {
					if hd := findFunc(p, fid.Name); hd != nil && hd.Body != nil && hd != fd {
						ast.Inspect(hd.Body, func(m ast.Node) bool {
							if c2, ok := m.(*ast.CallExpr); ok {
								if s2, ok := c2.Fun.(*ast.SelectorExpr); ok && s2.Sel.Name == "MissingRequiredColumns" {
									checksMissing = true
								}
							}
							return true
						})
					}
				}
			}
			return true
		})
		for _, u := range unresolved {
			if !resolvedIdents[u] && walkErr == nil {
				walkErr = fmt.Errorf("%s: column name %s is neither a constant nor an element of a local table of names", fn, u)
			}
		}
		if walkErr != nil {
			return "", walkErr
		}
		if len(cols) == 0 {
			return "", fmt.Errorf("%s: no columns recognised", fn)
		}
		parts := []string{}
		for _, ci := range cols {
			parts = append(parts, fmt.Sprintf("(%s, %v)", leanBytes(ci.name), ci.required))
		}
		names := []string{}
		for _, ci := range cols {
			names = append(names, ci.name)
		}
		fmt.Fprintf(&sb, "/-- `%s`: columns in declaration order (name, required): %s -/\ndef %s : List (List UInt8 × Bool) := [%s]\n", fn, strings.Join(names, " "), fn, strings.Join(parts, ", "))
		fmt.Fprintf(&sb, "/-- `%s`: ReadOr call sites (column, literal default; none = computed default) -/\ndef %s_readOr : List (List UInt8 × Option (List UInt8)) := [%s]\n", fn, fn, strings.Join(readOrs, ", "))
		fmt.Fprintf(&sb, "/-- `%s`: decoder applied directly to a column read -/\ndef %s_decoders : List (List UInt8 × String) := [%s]\n", fn, fn, strings.Join(decoders, ", "))
		fmt.Fprintf(&sb, "/-- `%s` checks for missing required columns before reading rows -/\ndef %s_checksMissingColumns : Bool := %v\n\n", fn, fn, checksMissing)
	}
	sb.WriteString("end Gtfs.Gen.Columns\n")
	return sb.String(), nil
}

// ---------- the file table of ParseStatic ----------

func genFileTable(c *ctx) (string, error) {
	p := c.pkg("")
	fd := findFunc(p, "ParseStatic")
	if fd == nil {
		return "", fmt.Errorf("ParseStatic not found")
	}
	var entries []string
	ast.Inspect(fd.Body, func(n ast.Node) bool {
		rs, ok := n.(*ast.RangeStmt)
		if !ok {
			return true
		}
		cl, ok := rs.X.(*ast.CompositeLit)
		if !ok {
			return true
		}
		for _, e := range cl.Elts {
			el, ok := e.(*ast.CompositeLit)
			if !ok {
				continue
			}
			file, optional, found := "", false, false
			for _, kv := range el.Elts {
				k, ok := kv.(*ast.KeyValueExpr)
				if !ok {
					continue
				}
				key := k.Key.(*ast.Ident).Name
				if strings.EqualFold(key, "file") {
					if s, ok := constString(p, k.Value); ok {
						file, found = s, true
					}
				}
				if strings.EqualFold(key, "optional") {
					if id, ok := k.Value.(*ast.Ident); ok && id.Name == "true" {
						optional = true
					}
				}
			}
			if found {
				entries = append(entries, fmt.Sprintf("(%s, %v)", leanBytes(file), optional))
			}
		}
		return true
	})
	if len(entries) == 0 {
		return "", fmt.Errorf("file table not recognised")
	}
	return "namespace Gtfs.Gen.FileTable\n\n/-- the table literal in ParseStatic: (file name, optional) in processing order -/\ndef files : List (List UInt8 × Bool) := [" + strings.Join(entries, ",\n  ") + "]\n\nend Gtfs.Gen.FileTable\n", nil
}

// isPackageFunc: the identifier names a function declared at package level in this package
func isPackageFunc(p *packages.Package, id *ast.Ident) bool {
	fn, ok := p.TypesInfo.ObjectOf(id).(*types.Func)
	return ok && fn.Pkg() == p.Types && fn.Type().(*types.Signature).Recv() == nil
}
