package main

import (
	"fmt"
	"go/ast"
	"go/token"
	"go/types"
	"strings"
)

func findVarValue(p pkgT, name string) ast.Expr {
	for _, f := range p.Syntax {
		for _, d := range f.Decls {
			gd, ok := d.(*ast.GenDecl)
			if !ok || gd.Tok != token.VAR {
				continue
			}
			for _, sp := range gd.Specs {
				vs := sp.(*ast.ValueSpec)
				for i, n := range vs.Names {
					if n.Name == name && i < len(vs.Values) {
						return vs.Values[i]
					}
				}
			}
		}
	}
	return nil
}

// findMapVar: the value of the one package-level variable whose type is a map from a type named `key` to a type
// named `val` (found by type, so a renamed table is still the same table)
func findMapVar(p pkgT, key, val string) ast.Expr {
	name := func(t types.Type) string {
		switch x := t.(type) {
		case *types.Named:
			return x.Obj().Name()
		case *types.Basic:
			return x.Name()
		}
		return ""
	}
	var found []ast.Expr
	for _, f := range p.Syntax {
		for _, d := range f.Decls {
			gd, ok := d.(*ast.GenDecl)
			if !ok || gd.Tok != token.VAR {
				continue
			}
			for _, sp := range gd.Specs {
				vs := sp.(*ast.ValueSpec)
				for i, n := range vs.Names {
					if i >= len(vs.Values) {
						continue
					}
					obj := p.TypesInfo.ObjectOf(n)
					if obj == nil {
						continue
					}
					if m, ok := obj.Type().Underlying().(*types.Map); ok && name(m.Key()) == key && name(m.Elem()) == val {
						found = append(found, vs.Values[i])
					}
				}
			}
		}
	}
	if len(found) != 1 {
		return nil
	}
	return found[0]
}

func genNyctTables(c *ctx) (string, error) {
	pa := c.pkg("/extensions/nyctalerts")
	pt := c.pkg("/extensions/nycttrips")
	pp := c.pkg("/proto")
	var sb strings.Builder
	sb.WriteString("namespace Gtfs.Gen.NyctTables\n\n")

	// priority -> effect
	lit, ok := findMapVar(pa, "MercuryEntitySelector_Priority", "Alert_Effect").(*ast.CompositeLit)
	if !ok {
		return "", fmt.Errorf("priortyToEffect is not a map literal")
	}
	var ents []string
	for _, e := range lit.Elts {
		kv := e.(*ast.KeyValueExpr)
		k, ok1 := constInt(pa, kv.Key)
		v, ok2 := constInt(pa, kv.Value)
		if !ok1 || !ok2 {
			return "", fmt.Errorf("priortyToEffect: non-constant entry")
		}
		ents = append(ents, fmt.Sprintf("(%s, %s)", leanInt(k), leanInt(v)))
	}
	fmt.Fprintf(&sb, "/-- `priortyToEffect`: Mercury priority number ↦ GTFS-realtime effect number -/\ndef priorityToEffect : List (Int × Int) := [%s]\n\n", strings.Join(ents, ", "))

	lit, ok = findMapVar(pa, "MercuryEntitySelector_Priority", "bool").(*ast.CompositeLit)
	if !ok {
		return "", fmt.Errorf("timetabledNoServicePriorities is not a map literal")
	}
	ents = nil
	for _, e := range lit.Elts {
		kv := e.(*ast.KeyValueExpr)
		k, ok1 := constInt(pa, kv.Key)
		if id, isId := kv.Value.(*ast.Ident); !ok1 || !isId || id.Name != "true" {
			return "", fmt.Errorf("timetabledNoServicePriorities: unexpected entry")
		}
		ents = append(ents, leanInt(k))
	}
	fmt.Fprintf(&sb, "def timetabledNoServicePriorities : List Int := [%s]\n\n", strings.Join(ents, ", "))

	// UpdateAlert: cause by id prefix
	ua := findMethod(pa, "extension", "UpdateAlert")
	if ua == nil {
		return "", fmt.Errorf("UpdateAlert not found")
	}
	var prefixes []string
	ast.Inspect(ua.Body, func(n ast.Node) bool {
		ifs, ok := n.(*ast.IfStmt)
		if !ok {
			return true
		}
		call, ok := ifs.Cond.(*ast.CallExpr)
		if !ok || exprString(c, call.Fun) != "strings.HasPrefix" || len(call.Args) != 2 || exprString(c, call.Args[0]) != "*ID" {
			return true
		}
		pre, ok := constString(pa, call.Args[1])
		if !ok {
			return true
		}
		for _, st := range ifs.Body.List {
			if as, ok := st.(*ast.AssignStmt); ok && exprString(c, as.Lhs[0]) == "cause" {
				if v, ok := constInt(pa, as.Rhs[0]); ok {
					prefixes = append(prefixes, fmt.Sprintf("(%s, %s)", leanBytes(pre), leanInt(v)))
				}
			}
		}
		return true
	})
	if len(prefixes) != 2 {
		return "", fmt.Errorf("UpdateAlert: expected two id-prefix rules, found %d", len(prefixes))
	}
	fmt.Fprintf(&sb, "/-- `UpdateAlert`: id prefix ↦ cause, tried in this order -/\ndef causeByPrefix : List (List UInt8 × Int) := [%s]\n\n", strings.Join(prefixes, ", "))

	// updateElevatorAlert: cause, effect, id formats per policy
	ue := findMethod(pa, "extension", "updateElevatorAlert")
	if ue == nil {
		return "", fmt.Errorf("updateElevatorAlert not found")
	}
	var cause, effect *int64
	var formats []string
	dfltFmt := ""
	ast.Inspect(ue.Body, func(n ast.Node) bool {
		switch x := n.(type) {
		case *ast.AssignStmt:
			if len(x.Lhs) == 1 && len(x.Rhs) == 1 {
				l := exprString(c, x.Lhs[0])
				if v, ok := constInt(pa, x.Rhs[0]); ok {
					vv := v
					if l == "cause" {
						cause = &vv
					}
					if l == "effect" {
						effect = &vv
					}
				}
			}
		case *ast.SwitchStmt:
			if exprString(c, x.Tag) != "e.opts.ElevatorAlertsDeduplicationPolicy" {
				return true
			}
			for _, cc := range x.Body.List {
				cl := cc.(*ast.CaseClause)
				if len(cl.Body) != 1 {
					continue
				}
				as, ok := cl.Body[0].(*ast.AssignStmt)
				if !ok {
					continue
				}
				call, ok := as.Rhs[0].(*ast.CallExpr)
				if !ok || exprString(c, call.Fun) != "fmt.Sprintf" {
					continue
				}
				f, _ := constString(pa, call.Args[0])
				args := []string{}
				for _, a := range call.Args[1:] {
					args = append(args, exprString(c, a))
				}
				desc := f + "|" + strings.Join(args, ",")
				if cl.List == nil {
					dfltFmt = desc
				} else {
					pol, _ := constString(pa, cl.List[0])
					formats = append(formats, fmt.Sprintf("(%s, %s)", leanBytes(pol), leanBytes(desc)))
				}
			}
		}
		return true
	})
	if cause == nil || effect == nil || len(formats) != 2 || dfltFmt == "" {
		return "", fmt.Errorf("updateElevatorAlert: shape not recognised")
	}
	fmt.Fprintf(&sb, "def elevatorCause : Int := %s\ndef elevatorEffect : Int := %s\n", leanInt(*cause), leanInt(*effect))
	fmt.Fprintf(&sb, "/-- new-id rule per deduplication policy: policy name ↦ \"format|arguments\"; then the default rule -/\ndef elevatorIdFormats : List (List UInt8 × List UInt8) := [%s]\ndef elevatorIdDefaultFormat : List UInt8 := %s\n\n", strings.Join(formats, ", "), leanBytes(dfltFmt))

	if obj := pa.Types.Scope().Lookup("MetadataLanguage"); obj != nil {
		if s, ok := constString(pa, &ast.Ident{Name: "x"}); ok {
			_ = s
		}
	}
	for _, f := range pa.Syntax {
		for _, d := range f.Decls {
			gd, ok := d.(*ast.GenDecl)
			if !ok || gd.Tok != token.CONST {
				continue
			}
			for _, sp := range gd.Specs {
				vs := sp.(*ast.ValueSpec)
				for i, n := range vs.Names {
					if n.Name == "MetadataLanguage" && i < len(vs.Values) {
						s, _ := constString(pa, vs.Values[i])
						fmt.Fprintf(&sb, "def metadataLanguage : List UInt8 := %s\n\n", leanBytes(s))
					}
				}
			}
		}
	}

	// nycttrips: M train fix
	fx := findFunc(pt, "fixMTrainPlatformsInBushwick")
	if fx == nil {
		return "", fmt.Errorf("fixMTrainPlatformsInBushwick not found")
	}
	route := ""
	var stations []string
	ast.Inspect(fx.Body, func(n ast.Node) bool {
		switch x := n.(type) {
		case *ast.BinaryExpr:
			if x.Op == token.NEQ && exprString(c, x.X) == "trip.GetTrip().GetRouteId()" {
				route, _ = constString(pt, x.Y)
			}
		case *ast.CompositeLit:
			if _, ok := x.Type.(*ast.MapType); ok {
				for _, e := range x.Elts {
					kv := e.(*ast.KeyValueExpr)
					if s, ok := constString(pt, kv.Key); ok {
						if id, ok := kv.Value.(*ast.Ident); ok && id.Name == "true" {
							stations = append(stations, leanBytes(s))
						}
					}
				}
			}
		}
		return true
	})
	if route == "" || len(stations) == 0 {
		return "", fmt.Errorf("fixMTrainPlatformsInBushwick: shape not recognised")
	}
	fmt.Fprintf(&sb, "def mTrainRoute : List UInt8 := %s\ndef buggyStationIDs : List (List UInt8) := [%s]\n\n", leanBytes(route), strings.Join(stations, ", "))

	// proto enum numbers the models refer to
	for _, name := range []string{"NyctTripDescriptor_NORTH", "NyctTripDescriptor_SOUTH", "Alert_MAINTENANCE", "Alert_TECHNICAL_PROBLEM",
		"Alert_ACCESSIBILITY_ISSUE", "Alert_UNKNOWN_CAUSE", "Alert_UNKNOWN_EFFECT"} {
		obj := pp.Types.Scope().Lookup(name)
		if obj == nil {
			return "", fmt.Errorf("proto constant %s not found", name)
		}
		v := objConst(obj)
		if v == nil {
			return "", fmt.Errorf("proto constant %s is not an integer", name)
		}
		fmt.Fprintf(&sb, "def %s : Int := %s\n", name, leanInt(*v))
	}
	sb.WriteString("\nend Gtfs.Gen.NyctTables\n")
	return sb.String(), nil
}
