#!/bin/sh
# usage: ./ingest_seed.sh <Cxx> <round-dir> <demo-rel-path> <go-pkg> <-run pattern> <check...>
# copies <round-dir>/<Cxx>/SEED to seeded/<Cxx>-agentN, confirms it in a scratch worktree and runs the named checks against it
p=$1; rd=$2; rel=$3; pkg=$4; pat=$5; shift 5
n=$(basename $rd | tr -dc 0-9)
d=seeded/$p-agent$n
mkdir -p $d && cp $rd/$p/SEED/* $d/
./confirm_seed.sh $d $rel $pkg "$pat" 2>&1 | tail -9
./try_seed.sh $d "$@" 2>&1 | tail -n +2 | cut -c1-300
