#!/bin/sh
# Measuring instrument (not a check): statement coverage of the library reached by the inputs of the quick tier.
# usage: ./coverage.sh    -> build/coverage.txt (per package) and build/uncovered.txt (blocks never executed)
set -e
cd "$(dirname "$0")"
export GOFLAGS=-mod=mod GOPROXY=off GOSUMDB=off GOTOOLCHAIN=local
B=$(pwd)/build; C=$B/cov; rm -rf $C; mkdir -p $C
(cd go && go build -cover -coverpkg=github.com/jamespfennell/gtfs,github.com/jamespfennell/gtfs/csv,github.com/jamespfennell/gtfs/journal,github.com/jamespfennell/gtfs/extensions/nycttrips,github.com/jamespfennell/gtfs/extensions/nyctalerts,verifharness/cmd/harness -o $B/harness-cov ./cmd/harness)
for p in C01 C02 C03 C04 C05 C06 C07 C08 C09 C10 C11 C12 C13 C14 C15 C16 C17 C19 C20 CSV; do
  d=$p; [ $p = CSV ] && d=C05
  GOCOVERDIR=$C $B/harness-cov run --prop $p --tier quick --seed ${VERIF_SEED:-1} --driver $B/driver-$d --known KNOWN_FINDINGS.jsonl --replays $B/cov-replays --out $B/cov-$p.json >/dev/null 2>&1 || true
done
(cd go && go tool covdata percent -i=$C > $B/coverage.txt && go tool covdata textfmt -i=$C -o $B/cov.txt)
grep -v "\.pb\.go" $B/cov.txt | grep -v verifharness | awk '$NF==0 {print $1}' > $B/uncovered.txt
grep -v verifharness $B/coverage.txt; echo "uncovered blocks: $(wc -l < $B/uncovered.txt) (build/uncovered.txt)"
rm -rf $C $B/harness-cov $B/cov-replays $B/cov-C*.json $B/cov-CSV.json
