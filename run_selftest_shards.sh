#!/bin/sh
# runs ./selftest.py over all stored seeds (ten shards, two properties each) and all stored behaviour-preserving
# changes (eleven shards) in parallel scratch copies under /tmp/st-*; logs under build/selftest-*.log, the tally in
# build/selftest-all.log. About an hour on 16 cores.
cd "$(dirname "$0")"
rm -f build/selftest-*.log
for s in 'C0[12]*' 'C0[34]*' 'C0[56]*' 'C0[78]*' 'C09*' 'C10*' 'C1[12]*' 'C1[34]*' 'C1[56]*' 'C1[78]*' 'C19*' 'C20*'; do
  n=$(echo "$s" | tr -dc 'C0-9')
  ./selftest.py --seeds-only --only "$s" --base /tmp/st-$n --log /verif/build/selftest-$n.log > /dev/null 2>&1 &
done
for b in 'B[1-4]' 'B[5-8]' 'B9' 'B1[0-3]' 'B1[4-7]' 'B1[89]' 'B2[0-2]' 'B2[3-5]' 'F[1-4]' 'F[5-8]' 'F9' 'F10' 'M[1-3]' 'M[45]' 'N[12]' 'N[34]'; do
  n=$(echo "$b" | tr -dc 'BFMN0-9')
  ./selftest.py --benign-only --only-benign "$b" --base /tmp/st-$n --log /verif/build/selftest-benign-$n.log > /dev/null 2>&1 &
done
wait
cat build/selftest-C*.log build/selftest-benign-*.log | grep -v "^expectations" | sort > build/selftest-all.log
grep -c "caught\|quiet" build/selftest-all.log; grep -v "caught\|quiet" build/selftest-all.log
true
