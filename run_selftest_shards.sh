#!/bin/sh
# runs ./selftest.py over all stored seeds in five parallel shards (scratch copies under /tmp/st-*), then the
# refactorings in one more; logs under build/selftest-*.log
cd "$(dirname "$0")"
for s in 'C0[1-5]*' 'C0[6-9]*' 'C1[0-4]*' 'C1[5-9]*' 'C20*'; do
  n=$(echo "$s" | tr -dc 'C0-9')
  ./selftest.py --seeds-only --only "$s" --base /tmp/st-$n --log /verif/build/selftest-$n.log > /dev/null 2>&1 &
done
for b in 'B[1-5]' 'B[6-9]' 'B1[0-4]' 'B1[5-9]' 'B2[0-9]' 'F*' 'M*'; do
  n=$(echo "$b" | tr -dc 'BFM0-9')
  ./selftest.py --benign-only --only-benign "$b" --base /tmp/st-$n --log /verif/build/selftest-benign-$n.log > /dev/null 2>&1 &
done
wait
cat build/selftest-C*.log build/selftest-benign-*.log | grep -v "^expectations" | sort > build/selftest-all.log
grep -c "caught\|quiet" build/selftest-all.log; grep -v "caught\|quiet" build/selftest-all.log
