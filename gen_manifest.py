#!/usr/bin/env python3
"""Regenerates MANIFEST.json from registry.py (run by hand when the registry changes)."""
import json, os, sys
ROOT = os.path.dirname(os.path.abspath(__file__))
sys.path.insert(0, ROOT)
from registry import PROPS, MANIFEST_TEXT, NOT_APPLICABLE

checks = []
for pid in sorted(PROPS):
    info = PROPS[pid]
    mt = MANIFEST_TEXT[pid]
    checks.append({
        "property_id": pid,
        "quick_cmd": f"./check {pid} quick",
        "thorough_cmd": f"./check {pid} thorough",
        "evidence_file": f"/verif/evidence/{pid}.json",
        "replay_cmd_template": f"./check {pid} --replay {{path}}",
        "engine": "lean4-proof+correspondence",
        "level_claimed": {"category": "proof", "text": mt["text"], "design_ref": mt.get("design_ref", "DESIGN.md §3 " + pid)},
        "level_note": mt["note"],
        "technique": mt["technique"],
    })
manifest = {
    "version": 1,
    "setup_cmd": "./setup.sh",
    "hooks": {
        "guard": "verif",
        "enable": "go build -tags verif (no hook code exists in /repo: every observation goes through the exported API)",
        "baseline_off_cmd": "cd /repo && GOFLAGS=-mod=mod go test -vet=off -count=1 -json ./...",
        "source_commits": [],
        "add_only": True,
    },
    "engines": [{
        "name": "lean4-proof+correspondence",
        "path": "/verif/check",
        "serves_properties": sorted(PROPS),
        "kind_free_text": "Lean 4 theorems over a hand-written model (lean/GtfsVerif/Model) and facts regenerated from /repo on every run (lean/GtfsVerif/Gen, by goext/), axiom-audited; the model is tied to the code by a differential run of the compiled model against the real library (go/cmd/harness) plus direct oracles on the implementation",
    }],
    "checks": checks,
    "not_applicable": NOT_APPLICABLE,
    "notes": "See DESIGN.md. Known findings: KNOWN_FINDINGS.jsonl. Fix commits in /repo: fix-commits.txt.",
}
json.dump(manifest, open(os.path.join(ROOT, "MANIFEST.json"), "w"), indent=1)
print("wrote MANIFEST.json with", len(checks), "checks")
