#!/bin/sh
# usage: ./try_seed.sh <seed-dir> <prop...>   applies <seed-dir>/patch.diff to /repo, runs the checks, reverts
d=$1; shift
git -C /repo apply "$(realpath $d)/patch.diff" || exit 2
(cd /repo && GOFLAGS=-mod=mod GOPROXY=off GOSUMDB=off go test -vet=off -count=1 ./... 2>&1 | grep -v "no test files" | tr '\n' ' '); echo
for p in "$@"; do ./check $p quick 2>&1 | head -4; done
git -C /repo checkout -- .; git -C /repo clean -fdq
./regen.sh   # the generated facts again describe the unchanged tree
