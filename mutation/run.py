#!/usr/bin/env python3
"""Mutation campaign: which small syntactic mutants of the library, among those that still compile and
pass the library's own tests, do the quick checks notice?  A measuring instrument, not a check.

usage: mutation/run.py <worker-id> <n-workers> [--sample N] [--seed S]
Each worker owns a scratch copy of /repo and of /verif under /tmp/mw-<id> (removed at the end) and
appends one JSON line per mutant to /verif/mutation/results/w<id>.jsonl."""
import json, os, random, re, shutil, subprocess, sys, time

FILES = {
    "static.go": "C01 C03 C05 C06 C08 C09 C10 C11",
    "csv/csv.go": "C01 C05 C09 C10",
    "realtime.go": "C02 C04 C05 C06 C07 C12",
    "enums.go": "C01 C02 C10 C12",
    "hash.go": "C13 C05",
    "extensions/nycttrips/nycttrips.go": "C16 C05 C06",
    "extensions/nyctalerts/nyctalerts.go": "C17 C12 C05 C06",
    "journal/journal.go": "C14 C15 C19 C05",
    "journal/export.go": "C20 C05",
}
ENV = dict(os.environ, GOFLAGS="-mod=mod", GOPROXY="off", GOSUMDB="off", GOTOOLCHAIN="local")

def sh(cmd, cwd=None, env=None, timeout=1200):
    try:
        p = subprocess.run(cmd, cwd=cwd, env=env or ENV, stdout=subprocess.PIPE, stderr=subprocess.STDOUT, text=True, timeout=timeout)
        return p.returncode, p.stdout
    except subprocess.TimeoutExpired as e:
        return 124, (e.stdout or "") + "\nTIMEOUT"

def main():
    wid, nw = int(sys.argv[1]), int(sys.argv[2])
    sample, seed = None, 1
    if "--sample" in sys.argv: sample = int(sys.argv[sys.argv.index("--sample") + 1])
    if "--seed" in sys.argv: seed = int(sys.argv[sys.argv.index("--seed") + 1])
    mutate = "/verif/build/mutate"
    base = f"/tmp/mw-{wid}"
    shutil.rmtree(base, ignore_errors=True)
    os.makedirs(base)
    # a private pristine copy: /repo itself may be patched by other experiments while the campaign runs
    pristine = base + "/pristine"
    sh(["bash", "-c", f"mkdir -p {pristine} && git -C /repo archive HEAD | tar -x -C {pristine}"])
    sites = []
    for f in FILES:
        rc, out = sh([mutate, "-file", pristine + "/" + f, "-list"])
        for line in out.splitlines():
            k, op, pos, desc = line.split("\t", 3)
            sites.append((f, int(k), op, pos, desc))
    random.Random(seed).shuffle(sites)
    if sample: sites = sites[:sample]
    mine = sites[wid::nw]
    repo, verif = base + "/repo", base + "/verif"
    sh(["rsync", "-a", pristine + "/", repo + "/"])
    sh(["rsync", "-a", "--exclude", ".git", "--exclude", "build/driver-*", "--exclude", "build/harness*", "--exclude", "replays", "--exclude", "evidence",
        "--exclude", "mutation/results", "--exclude", "seeded", "--exclude", "benign", "/verif/", verif + "/"])
    gm = open(verif + "/go/go.mod").read().replace("=> /repo", "=> " + repo)
    open(verif + "/go/go.mod", "w").write(gm)
    os.makedirs("/verif/mutation/results", exist_ok=True)
    outp = f"/verif/mutation/results/w{wid}.jsonl"
    done = set()
    if os.path.exists(outp):
        for l in open(outp):
            try: d = json.loads(l); done.add((d["file"], d["k"]))
            except Exception: pass
    env = dict(ENV, VERIF_REPO=repo)
    for (f, k, op, pos, desc) in mine:
        if (f, k) in done: continue
        t0 = time.time()
        rec = {"file": f, "k": k, "op": op, "pos": pos, "desc": desc}
        shutil.copy(pristine + "/" + f, repo + "/" + f)
        rc, out = sh([mutate, "-file", pristine + "/" + f, "-apply", str(k), "-out", repo + "/" + f])
        if rc != 0:
            rec["status"] = "mutate-failed"
        else:
            rc, out = sh(["go", "build", "./..."], cwd=repo)
            if rc != 0:
                rec["status"] = "no-compile"
            else:
                rc, out = sh(["go", "test", "-vet=off", "-count=1", "./..."], cwd=repo, timeout=600)
                if rc != 0:
                    rec["status"] = "killed-by-tests"
                else:
                    caught, quiet, lines = [], [], {}
                    for prop in FILES[f].split():
                        rc, out = sh([verif + "/check", prop, "quick"], cwd=verif, env=env, timeout=1800)
                        v = [l for l in out.splitlines() if l.startswith("VIOLATION")]
                        if v:
                            caught.append(prop); lines[prop] = v[0][:160]
                        elif any(l.startswith("OK ") for l in out.splitlines()):
                            quiet.append(prop)
                        else:
                            caught.append(prop); lines[prop] = "BROKEN: " + out[-300:]
                    rec["status"] = "caught" if caught else "survived"
                    rec["caught_by"], rec["quiet"], rec["lines"] = caught, quiet, lines
                    if not caught:
                        rc, d = sh(["diff", "-u", pristine + "/" + f, repo + "/" + f])
                        rec["diff"] = d[:3000]
        rec["wall_s"] = round(time.time() - t0, 1)
        with open(outp, "a") as fh:
            fh.write(json.dumps(rec) + "\n")
        shutil.copy(pristine + "/" + f, repo + "/" + f)
    shutil.rmtree(base, ignore_errors=True)

if __name__ == "__main__":
    main()
