// Command mutate enumerates and applies small syntactic mutations to one Go source file.
//
//	mutate -file F -list            prints one line per mutation site: index, operator, position, description
//	mutate -file F -apply K -out G  writes F with mutation K applied to G
//
// It is a measuring instrument for the checks under /verif (which mutants of the library, among those that
// still compile and pass the library's own tests, do the checks notice?), not part of any check.
package main

import (
	"bytes"
	"flag"
	"fmt"
	"go/ast"
	"go/format"
	"go/parser"
	"go/token"
	"os"
	"strconv"
)

type mutation struct {
	op    string
	pos   token.Pos
	desc  string
	apply func()
}

func main() {
	file := flag.String("file", "", "source file")
	list := flag.Bool("list", false, "list mutation sites")
	apply := flag.Int("apply", -1, "apply mutation K")
	out := flag.String("out", "", "output file")
	flag.Parse()
	fset := token.NewFileSet()
	f, err := parser.ParseFile(fset, *file, nil, parser.ParseComments)
	if err != nil {
		fmt.Fprintln(os.Stderr, err)
		os.Exit(2)
	}
	var ms []mutation
	add := func(op string, pos token.Pos, desc string, fn func()) {
		ms = append(ms, mutation{op, pos, desc, fn})
	}
	swap := map[token.Token][]token.Token{
		token.EQL: {token.NEQ}, token.NEQ: {token.EQL},
		token.LSS: {token.LEQ, token.GTR}, token.LEQ: {token.LSS}, token.GTR: {token.GEQ, token.LSS}, token.GEQ: {token.GTR},
		token.LAND: {token.LOR}, token.LOR: {token.LAND},
		token.ADD: {token.SUB}, token.SUB: {token.ADD}, token.MUL: {token.QUO},
	}
	var funcName string
	ast.Inspect(f, func(n ast.Node) bool {
		switch x := n.(type) {
		case *ast.FuncDecl:
			funcName = x.Name.Name
		case *ast.BinaryExpr:
			for _, t := range swap[x.Op] {
				x, t, old := x, t, x.Op
				if x.Op == token.ADD {
					// skip string concatenation
					if bl, ok := x.X.(*ast.BasicLit); ok && bl.Kind == token.STRING {
						continue
					}
					if bl, ok := x.Y.(*ast.BasicLit); ok && bl.Kind == token.STRING {
						continue
					}
				}
				add("binop", x.OpPos, fmt.Sprintf("%s: %s -> %s", funcName, old, t), func() { x.Op = t })
			}
		case *ast.BasicLit:
			if x.Kind == token.INT {
				if v, err := strconv.ParseInt(x.Value, 0, 64); err == nil && v >= 0 && v <= 100000 {
					x, v := x, v
					add("int+1", x.Pos(), fmt.Sprintf("%s: %d -> %d", funcName, v, v+1), func() { x.Value = strconv.FormatInt(v+1, 10) })
					if v > 0 {
						add("int-1", x.Pos(), fmt.Sprintf("%s: %d -> %d", funcName, v, v-1), func() { x.Value = strconv.FormatInt(v-1, 10) })
					}
				}
			}
		case *ast.Ident:
			if x.Name == "true" || x.Name == "false" {
				x, old := x, x.Name
				nw := "true"
				if old == "true" {
					nw = "false"
				}
				add("bool", x.Pos(), fmt.Sprintf("%s: %s -> %s", funcName, old, nw), func() { x.Name = nw })
			}
		case *ast.IfStmt:
			x2 := x
			add("negate-if", x.Cond.Pos(), fmt.Sprintf("%s: if cond negated", funcName), func() {
				x2.Cond = &ast.UnaryExpr{Op: token.NOT, X: &ast.ParenExpr{X: x2.Cond}}
			})
		case *ast.BlockStmt:
			for i, st := range x.List {
				x, i := x, i
				switch s := st.(type) {
				case *ast.ExprStmt:
					if _, ok := s.X.(*ast.CallExpr); ok {
						add("drop-call", st.Pos(), fmt.Sprintf("%s: call statement removed", funcName), func() { x.List[i] = &ast.EmptyStmt{Semicolon: st.Pos()} })
					}
				case *ast.AssignStmt:
					if s.Tok != token.DEFINE {
						add("drop-assign", st.Pos(), fmt.Sprintf("%s: assignment removed", funcName), func() { x.List[i] = &ast.EmptyStmt{Semicolon: st.Pos()} })
					}
				case *ast.BranchStmt:
					if s.Tok == token.CONTINUE || s.Tok == token.BREAK {
						add("drop-branch", st.Pos(), fmt.Sprintf("%s: %s removed", funcName, s.Tok), func() { x.List[i] = &ast.EmptyStmt{Semicolon: st.Pos()} })
					}
				case *ast.IncDecStmt:
					add("drop-incdec", st.Pos(), fmt.Sprintf("%s: inc/dec removed", funcName), func() { x.List[i] = &ast.EmptyStmt{Semicolon: st.Pos()} })
				}
			}
		}
		return true
	})
	if *list {
		for i, m := range ms {
			p := fset.Position(m.pos)
			fmt.Printf("%d\t%s\t%d:%d\t%s\n", i, m.op, p.Line, p.Column, m.desc)
		}
		return
	}
	if *apply < 0 || *apply >= len(ms) {
		fmt.Fprintln(os.Stderr, "no such mutation")
		os.Exit(2)
	}
	ms[*apply].apply()
	var buf bytes.Buffer
	if err := format.Node(&buf, fset, f); err != nil {
		fmt.Fprintln(os.Stderr, err)
		os.Exit(2)
	}
	if err := os.WriteFile(*out, buf.Bytes(), 0o644); err != nil {
		fmt.Fprintln(os.Stderr, err)
		os.Exit(2)
	}
}
