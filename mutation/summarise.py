#!/usr/bin/env python3
"""Writes mutation/SUMMARY.md from mutation/results/*.jsonl and mutation/survivors.tsv."""
import collections, glob, json, os
root = os.path.dirname(os.path.abspath(__file__))
recs = {}
for f in sorted(glob.glob(root + "/results/*.jsonl")):
    for l in open(f):
        d = json.loads(l); recs[(d["file"], d["k"])] = d
verdict = {}
for l in open(root + "/survivors.tsv"):
    if l.startswith("#") or not l.strip(): continue
    f, k, v, note = l.rstrip("\n").split("\t", 3)
    verdict[(f, int(k))] = (v, note)
c = collections.Counter(d["status"] for d in recs.values())
by_file = collections.defaultdict(collections.Counter)
by_check = collections.Counter()
for d in recs.values():
    by_file[d["file"]][d["status"]] += 1
    for p in d.get("caught_by", []): by_check[p] += 1
surv = sorted(k for k, d in recs.items() if d["status"] == "survived")
out = []
out.append("# Mutation campaign (a measuring instrument, not a check)\n")
out.append("`mutation/run.py` applies every small syntactic mutation `mutation/main.go` knows (comparison and boolean\noperators, +/-, integer literals ±1, true/false, negated conditions, removed call / assignment / continue / break\nstatements) to the nine hand-written source files of the library, one at a time, in scratch copies of /repo and\n/verif. A mutant that still compiles and passes the library's own test suite is run against the quick tier of\nthe checks that concern its file.\n")
tot = sum(c.values())
out.append(f"Mutants: {tot}. Not compiling: {c['no-compile']}. Killed by the library's own tests: {c['killed-by-tests']}.\nPassing the tests: {c['caught'] + c['survived']}, of which **caught by a check: {c['caught']}**, quiet: {c['survived']}.\n")
eq = [k for k in surv if verdict.get(k, ("?",))[0] == "equivalent"]
gap = [k for k in surv if verdict.get(k, ("?",))[0] == "gap"]
unk = [k for k in surv if k not in verdict]
out.append(f"Of the {len(surv)} quiet ones, {len(eq)} are equivalent for every property (log lines, performance settings, caches,\nunreachable branches, comparisons after an inequality test), {len(gap)} were real gaps of a generator and have been closed\n(listed below; each is caught now), {len(unk)} are unclassified.\n")
out.append("| file | not compiling | killed by tests | caught | quiet |\n|---|---|---|---|---|")
for f in sorted(by_file):
    b = by_file[f]; out.append(f"| {f} | {b['no-compile']} | {b['killed-by-tests']} | {b['caught']} | {b['survived']} |")
out.append("\nChecks that caught mutants (a mutant may be caught by several): " + ", ".join(f"{p} {n}" for p, n in sorted(by_check.items())) + "\n")
out.append("## Quiet mutants\n\n| file | site | mutation | verdict | why |\n|---|---|---|---|---|")
for k in surv:
    d = recs[k]; v, note = verdict.get(k, ("unclassified", ""))
    out.append(f"| {k[0]} | {d['pos']} | {d['desc']} | {v} | {note} |")
open(root + "/SUMMARY.md", "w").write("\n".join(out) + "\n")
print(f"{tot} mutants, caught {c['caught']}, quiet {len(surv)} (equivalent {len(eq)}, gap {len(gap)}, unclassified {len(unk)})")
