module verifmutate

go 1.23
