#!/bin/sh
# usage: ./confirm_seed.sh <seed-dir> <demo-file-relative-path-in-repo> <go-test-pkg> <-run pattern>
# confirms in a scratch worktree: demo passes on the original, suite passes with the patch, demo fails with the patch
d=$(realpath $1); rel=$2; pkg=$3; pat=$4
wt=/tmp/confirm-$$
export GOFLAGS=-mod=mod GOPROXY=off GOSUMDB=off
git -C /repo worktree add -q --detach $wt HEAD || exit 2
cp "$d/$(basename $rel)" $wt/$rel
echo "== demo on original (expect ok)"; (cd $wt && go test -vet=off -count=1 -run "$pat" $pkg 2>&1 | tail -2)
rm $wt/$rel
git -C $wt apply "$d/patch.diff" || { echo "patch does not apply"; }
echo "== suite with patch (expect ok)"; (cd $wt && go test -vet=off -count=1 ./... 2>&1 | grep -v "no test files" | tr '\n' ' '); echo
cp "$d/$(basename $rel)" $wt/$rel
echo "== demo with patch (expect FAIL)"; (cd $wt && go test -vet=off -count=1 -run "$pat" $pkg 2>&1 | tail -3)
git -C /repo worktree remove --force $wt
