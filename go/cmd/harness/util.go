package main

import (
	"bytes"
	"encoding/json"
	"fmt"
	"io"
)

func bytesReader(b []byte) io.Reader { return bytes.NewReader(b) }

// accessors over decoded (UseNumber) JSON inputs; strings are bstr-encoded

func gm(v any, k string) map[string]any {
	m, _ := v.(map[string]any)
	if m == nil {
		return nil
	}
	x, _ := m[k].(map[string]any)
	return x
}

func ga(v any, k string) []any {
	m, _ := v.(map[string]any)
	if m == nil {
		return nil
	}
	x, _ := m[k].([]any)
	return x
}

func has(v any, k string) bool {
	m, _ := v.(map[string]any)
	if m == nil {
		return false
	}
	x, ok := m[k]
	return ok && x != nil
}

func gs(v any, k string) string {
	m, _ := v.(map[string]any)
	s, _ := m[k].(string)
	return unbstr(s)
}

func gsp(v any, k string) *string {
	if !has(v, k) {
		return nil
	}
	s := gs(v, k)
	return &s
}

func toI64(x any) int64 {
	switch t := x.(type) {
	case json.Number:
		i, err := t.Int64()
		if err != nil {
			// may be a uint64 above MaxInt64
			var u uint64
			fmt.Sscan(t.String(), &u)
			return int64(u)
		}
		return i
	case float64:
		return int64(t)
	case int:
		return int64(t)
	case int64:
		return t
	case uint64:
		return int64(t)
	}
	return 0
}

func gi(v any, k string) int64 {
	m, _ := v.(map[string]any)
	return toI64(m[k])
}

func gip(v any, k string) *int64 {
	if !has(v, k) {
		return nil
	}
	i := gi(v, k)
	return &i
}

func gb(v any, k string) bool {
	m, _ := v.(map[string]any)
	b, _ := m[k].(bool)
	return b
}
