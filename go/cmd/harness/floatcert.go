package main

import (
	"encoding/json"
	"fmt"
	"math"
	"math/big"
	"strconv"
	"strings"
)

// FLT: the float certificate of the model (lean/GtfsVerif/Model/Float.lean) against strconv.ParseFloat.
// Every case is a list of decimal cells with the bits ParseFloat gives them (null = error) and, as negative
// controls, the same cells with the neighbouring bit patterns, which the certificate must reject.

type fltProp struct{}

func (p *fltProp) Rule() string {
	return "decimal cells: random digit strings with and without fraction and exponent, signs, padding blanks, many digits, exponents across the whole binary64 range and beyond; exact decimal expansions of random doubles, of the midpoints between neighbouring doubles (ties) and of those midpoints +- one unit in the last place; the largest finite value, the overflow threshold, the smallest subnormal and half of it; every cell is certified with the bits strconv.ParseFloat returns (must pass) and with the two neighbouring bit patterns (must fail)"
}
func (p *fltProp) N(tier string) int {
	if tier == "thorough" {
		return 60000
	}
	return 3000
}

func exactDecimal(x *big.Float) string {
	return strings.TrimRight(strings.TrimRight(x.Text('f', 1200), "0"), ".")
}

func genDecimalCell(r *Rng, short bool) string {
	digits := func(n int) string {
		b := make([]byte, n)
		for i := range b {
			b[i] = byte('0' + r.Intn(10))
		}
		return string(b)
	}
	k := r.Intn(8)
	if short {
		k = []int{0, 2, 6, 7}[r.Intn(4)] // the first cases of a run are the samples of the evidence file: short cells
	}
	switch k {
	case 0: // coordinates as feeds write them
		return fmt.Sprintf("%s%d.%s", r.Pick([]string{"", "-", "+"}), r.Intn(181), digits(1+r.Intn(9)))
	case 1: // many digits
		return digits(1+r.Intn(25)) + "." + digits(r.Intn(30))
	case 2: // exponents over the whole range and beyond
		return fmt.Sprintf("%s%d.%se%d", r.Pick([]string{"", "-"}), r.Intn(10), digits(r.Intn(20)), r.Intn(700)-350)
	case 3: // exact expansion of a random double
		f := math.Float64frombits(r.U64())
		if math.IsNaN(f) || math.IsInf(f, 0) {
			f = 1.5
		}
		return exactDecimal(new(big.Float).SetPrec(2200).SetFloat64(f))
	case 4, 5: // the midpoint between a double and its successor, and one unit in the last place around it
		bits := r.U64() &^ (1 << 63)
		if r.P(1, 4) {
			bits = uint64(r.Intn(1 << 20)) // subnormals
		}
		if r.P(1, 8) {
			bits = 0x7fefffffffffffff - uint64(r.Intn(3)) // at the top
		}
		f := math.Float64frombits(bits)
		g := math.Float64frombits(bits + 1)
		if math.IsNaN(f) || math.IsInf(f, 0) {
			return "1"
		}
		a := new(big.Float).SetPrec(2200).SetFloat64(f)
		var b *big.Float
		if math.IsInf(g, 0) {
			b = new(big.Float).SetPrec(2200).SetMantExp(big.NewFloat(1), 1024)
		} else {
			b = new(big.Float).SetPrec(2200).SetFloat64(g)
		}
		mid := new(big.Float).SetPrec(2200).Add(a, b)
		mid.Quo(mid, big.NewFloat(2))
		s := exactDecimal(mid)
		switch r.Intn(3) {
		case 0:
			return s
		case 1:
			return s + "1" // just above the tie
		default:
			// just below: decrement the last digit (it is non-zero after trimming)
			bs := []byte(s)
			for i := len(bs) - 1; i >= 0; i-- {
				if bs[i] >= '1' && bs[i] <= '9' {
					bs[i]--
					return string(bs) + "9"
				}
			}
			return s
		}
	case 6: // edges
		return r.Pick([]string{"0", "-0", "0.0", "-0.000", "1e-400", "-1e-400", "4.9e-324", "2.4703282292062327e-324", "2.4703282292062328e-324",
			"1.7976931348623157e308", "1.7976931348623158e308", "1.797693134862315807e308", "1.797693134862315808e308", "1e309", "-1e309", "1e400", "2.2250738585072014e-308",
			"2.2250738585072011e-308", "9007199254740993", "9007199254740992", "9007199254740991", ".5", "5.", "+.5e+1", "1E2", "00012.50", "1e99999999"})
	default: // padded as a cell may be
		return r.Pick([]string{" ", "\t", ""}) + fmt.Sprintf("%d.%s", r.Intn(90), digits(r.Intn(8))) + r.Pick([]string{" ", "", "\n"})
	}
}

func (p *fltProp) Gen(r *Rng, tier string, i int) map[string]any {
	cells := []any{}
	for k := 0; k < 8; k++ {
		c := genDecimalCell(r, i < 4)
		f, err := strconv.ParseFloat(strings.TrimSpace(c), 64)
		var bits any
		if err == nil {
			bits = math.Float64bits(f)
		}
		cells = append(cells, map[string]any{"cell": bstr(c), "bits": bits, "expect": true})
		// negative controls: the neighbouring bit patterns, and "error" where there is a value / a value where there is an error
		if err == nil {
			b := math.Float64bits(f)
			cells = append(cells, map[string]any{"cell": bstr(c), "bits": b + 1, "expect": false})
			if b&^(1<<63) != 0 {
				cells = append(cells, map[string]any{"cell": bstr(c), "bits": b - 1, "expect": false})
			}
			cells = append(cells, map[string]any{"cell": bstr(c), "bits": nil, "expect": false})
		} else {
			cells = append(cells, map[string]any{"cell": bstr(c), "bits": uint64(0x7fefffffffffffff) | (math.Float64bits(f) & (1 << 63)), "expect": false})
		}
	}
	return map[string]any{"kind": "float", "cells": cells}
}
func (p *fltProp) Fixed() []map[string]any { return nil }
func (p *fltProp) Check(in map[string]any, model json.RawMessage) Verdict {
	var v Verdict
	var mr struct {
		Results []*bool `json:"results"`
	}
	if err := json.Unmarshal(model, &mr); err != nil {
		v.Disagree = "model reply unreadable"
		return v
	}
	cells := ga(in, "cells")
	if len(mr.Results) != len(cells) {
		v.Disagree = "model reply has the wrong length"
		return v
	}
	for i, c := range cells {
		want := gb(c, "expect")
		got := mr.Results[i]
		if got == nil {
			v.Disagree = fmt.Sprintf("cell %q is a plain decimal but the certificate does not read it", unbstr(gs(c, "cell")))
			return v
		}
		if *got != want {
			v.Disagree = fmt.Sprintf("cell %q with bits %v: certificate says %v, strconv.ParseFloat implies %v", unbstr(gs(c, "cell")), c.(map[string]any)["bits"], *got, want)
			return v
		}
	}
	v.Tags = append(v.Tags, "cells-certified")
	return v
}

func init() { props["FLT"] = func() Prop { return &fltProp{} } }

// floatCertOf reads the certificate summary of a static model reply: cells certified, cells whose bits were refused.
func floatCertOf(model json.RawMessage) (checked int, failed []string) {
	var mr struct {
		FloatCert struct {
			Checked int      `json:"checked"`
			Failed  []string `json:"failed"`
		} `json:"floatCert"`
	}
	if json.Unmarshal(model, &mr) == nil {
		for _, f := range mr.FloatCert.Failed {
			failed = append(failed, unbstr(f))
		}
		return mr.FloatCert.Checked, failed
	}
	return 0, nil
}
