package main

import (
	"sync"
	"time"
)

// Zone tables for the model (lean/GtfsVerif/Model/Zone.lean): the offset function of a *time.Location as the
// list of segments Location.lookup itself reports, obtained by walking Time.ZoneBounds. The tz database and
// time.LoadLocation stay trusted; time.Date's two-step lookup over the table is what the model reimplements.
//
// A table covers [zoneLo, zoneHi]; model and canonicaliser give the instant of a date only for civil days in
// [loDay, hiDay] (two days inside the covered range on either side), so no lookup leaves the table. Zones with
// a single segment (UTC, fixed offsets) are unbounded.

var (
	zoneLo = time.Date(1980, 1, 1, 0, 0, 0, 0, time.UTC).Unix()
	zoneHi = time.Date(2045, 1, 1, 0, 0, 0, 0, time.UTC).Unix()
)

type zoneTab struct {
	first        int64
	trans        [][2]int64
	bounded      bool
	loDay, hiDay int64
}

var zoneTabCache sync.Map // zoneKey -> *zoneTab

// a location is identified by its name and its offsets at three instants (fixed zones may share a name; the
// library loads its own copy of a named zone for every feed, so the pointer identifies nothing)
type zoneKey struct {
	name    string
	a, b, c int
}

func keyOfZone(loc *time.Location) zoneKey {
	_, a := time.Unix(zoneLo, 0).In(loc).Zone()
	_, b := time.Unix(946684800, 0).In(loc).Zone()
	_, c := time.Unix(962409600, 0).In(loc).Zone()
	return zoneKey{loc.String(), a, b, c}
}

func zoneTabOf(loc *time.Location) *zoneTab {
	if loc == nil {
		loc = time.UTC
	}
	key := keyOfZone(loc)
	if v, ok := zoneTabCache.Load(key); ok {
		return v.(*zoneTab)
	}
	zt := &zoneTab{}
	t := time.Unix(zoneLo, 0).In(loc)
	s, e := t.ZoneBounds()
	_, off := t.Zone()
	zt.first = int64(off)
	if s.IsZero() && e.IsZero() {
		zoneTabCache.Store(key, zt)
		return zt
	}
	zt.bounded = true
	zt.loDay = zoneLo/86400 + 2
	zt.hiDay = zoneHi/86400 - 2
	last := int64(-1 << 62)
	if !s.IsZero() {
		last = s.Unix()
	}
	for steps := 0; steps < 100000; steps++ {
		if e.IsZero() || e.Unix() > zoneHi {
			break
		}
		if e.After(t) {
			t = e
		} else {
			// the explicit transitions hand over to the POSIX rule here: step one day
			t = t.Add(24 * time.Hour)
		}
		s, e = t.ZoneBounds()
		_, off = t.Zone()
		if !s.IsZero() && s.Unix() > last {
			last = s.Unix()
			zt.trans = append(zt.trans, [2]int64{last, int64(off)})
		}
	}
	zoneTabCache.Store(key, zt)
	return zt
}

func (zt *zoneTab) json() map[string]any {
	tr := []any{}
	for _, p := range zt.trans {
		tr = append(tr, []any{p[0], p[1]})
	}
	m := map[string]any{"first": zt.first, "trans": tr}
	if zt.bounded {
		m["loDay"] = zt.loDay
		m["hiDay"] = zt.hiDay
	}
	return m
}

// covers: the model gives an instant for this civil day
func (zt *zoneTab) covers(day int64) bool {
	return !zt.bounded || (zt.loDay <= day && day <= zt.hiDay)
}

// dateInstant: what the canonicalisers print next to a date's civil day number (nil when the table does not cover it)
func (zt *zoneTab) dateInstant(t time.Time, day int64) any {
	if zt == nil || !zt.covers(day) {
		return nil
	}
	return t.Unix()
}

// addZoneTable hands the model the table of the configured zone of a realtime case (a derived part of the case,
// like the float and zone answers of a static case).
func addZoneTable(in map[string]any) {
	if gs(in, "kind") != "realtime" || in["zoneTable"] != nil {
		return
	}
	if _, ok := in["zone"]; !ok {
		return
	}
	defer func() { recover() }()
	in["zoneTable"] = zoneTabOf(zoneOf(in)).json()
}
