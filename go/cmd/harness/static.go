package main

import (
	"archive/zip"
	"bytes"
	stdcsv "encoding/csv"
	"fmt"
	"io"
	"math"
	"strconv"
	"strings"
	"time"

	"github.com/jamespfennell/gtfs"
	gcsv "github.com/jamespfennell/gtfs/csv"
	"github.com/jamespfennell/gtfs/warnings"
)

// ---------- tables and their byte-level presentation ----------

type table struct {
	name   string
	header []string
	rows   [][]string
}

type presentation struct {
	colPerm   []int    // permutation of the header
	extraCols []string // unknown columns appended (then permuted with the rest)
	quoteAll  bool
	quoteSome uint64 // per-field coin seed
	crlf      bool
	crlfMixed uint64
	bom       bool
	noFinalNL bool
}

func needsQuote(s string) bool {
	return s == "" && false || strings.ContainsAny(s, ",\"\r\n") || (len(s) > 0 && (s[0] == ' ' && false))
}

func quoteField(s string) string { return `"` + strings.ReplaceAll(s, `"`, `""`) + `"` }

// render writes the table as CSV bytes under a presentation.
func (t table) render(p *presentation, r *Rng) string {
	hdr := append([]string{}, t.header...)
	rows := make([][]string, len(t.rows))
	for i, row := range t.rows {
		rows[i] = append([]string{}, row...)
	}
	if p != nil {
		for _, ec := range p.extraCols {
			hdr = append(hdr, ec)
			for i := range rows {
				rows[i] = append(rows[i], fmt.Sprintf("x%d", i))
			}
		}
		if p.colPerm != nil && len(p.colPerm) == len(hdr) {
			nh := make([]string, len(hdr))
			for i, k := range p.colPerm {
				nh[i] = hdr[k]
			}
			for ri, row := range rows {
				nr := make([]string, len(hdr))
				for i, k := range p.colPerm {
					if k < len(row) {
						nr[i] = row[k]
					}
				}
				rows[ri] = nr
			}
			hdr = nh
		}
	}
	var sb strings.Builder
	if p != nil && p.bom {
		sb.WriteString("\xEF\xBB\xBF")
	}
	all := append([][]string{hdr}, rows...)
	for li, rec := range all {
		for fi, f := range rec {
			if fi > 0 {
				sb.WriteByte(',')
			}
			q := needsQuote(f) || (len(rec) == 1 && f == "")
			if p != nil && (p.quoteAll || (p.quoteSome != 0 && r != nil && r.P(1, 3))) {
				q = true
			}
			if q {
				sb.WriteString(quoteField(f))
			} else {
				sb.WriteString(f)
			}
		}
		last := li == len(all)-1
		if last && p != nil && p.noFinalNL {
			break
		}
		if p != nil && (p.crlf || (p.crlfMixed != 0 && r != nil && r.Bool())) {
			sb.WriteString("\r\n")
		} else {
			sb.WriteByte('\n')
		}
	}
	return sb.String()
}

type member struct{ name, data string }

func membersJSON(ms []member) []any {
	out := []any{}
	for _, m := range ms {
		out = append(out, map[string]any{"name": bstr(m.name), "data": bstr(m.data)})
	}
	return out
}

func membersOf(v any) []member {
	var out []member
	arr, _ := v.([]any)
	for _, m := range arr {
		out = append(out, member{gs(m, "name"), gs(m, "data")})
	}
	return out
}

// zipOf wraps members into an archive (store or deflate per member).
func zipOf(ms []member, deflate bool) []byte {
	var buf bytes.Buffer
	w := zip.NewWriter(&buf)
	for _, m := range ms {
		method := zip.Store
		if deflate {
			method = zip.Deflate
		}
		f, err := w.CreateHeader(&zip.FileHeader{Name: m.name, Method: method})
		if err != nil {
			panic(err)
		}
		f.Write([]byte(m.data))
	}
	w.Close()
	return buf.Bytes()
}

// ---------- the two library calls the model takes as parameters ----------

// floatCell is parseFloat64 of static.go as the property reads it: blank is absent, surrounding
// white space is ignored, the decimal is converted exactly (strconv.ParseFloat is trusted).
func floatCell(s string) any {
	if s == "" {
		return nil
	}
	f, err := strconv.ParseFloat(strings.TrimSpace(s), 64)
	if err != nil {
		return nil
	}
	return math.Float64bits(f)
}

func zoneCell(s string) any {
	loc, err := time.LoadLocation(s)
	if err != nil {
		return nil
	}
	return bstr(loc.String())
}

// zoneEntry: what time.LoadLocation answers for an agency_timezone cell, with the zone's table for the model
func zoneEntry(c string) map[string]any {
	m := map[string]any{"tz": bstr(c), "resolved": zoneCell(c)}
	if loc, err := time.LoadLocation(c); err == nil {
		m["table"] = zoneTabOf(loc).json()
	}
	return m
}

// envFor scans every cell of every member (with the library's own BOM-aware reader, leniently).
func envFor(lists ...[]member) (floats []any, zones []any) {
	seen := map[string]bool{}
	for _, ms := range lists {
		for _, m := range ms {
			rd := gcsv.BOMAwareCSVReader(strings.NewReader(m.data))
			rd.FieldsPerRecord = -1
			for {
				rec, err := rd.Read()
				if err == io.EOF {
					break
				}
				if err != nil {
					if _, ok := err.(*stdcsv.ParseError); ok && rec == nil {
						break
					}
				}
				for _, c := range rec {
					if !seen[c] && len(c) < 64 {
						seen[c] = true
						floats = append(floats, map[string]any{"cell": bstr(c), "bits": floatCell(c)})
						if m.name == "agency.txt" {
							zones = append(zones, zoneEntry(c))
						}
					}
				}
				if err != nil {
					break
				}
			}
		}
	}
	if !seen[""] {
		zones = append(zones, zoneEntry(""))
	}
	return
}

// ---------- canonical form of *gtfs.Static (the shape DriverStatic prints) ----------

type staticCanon struct {
	s             *gtfs.Static
	foreign       []string // references that are not elements of the result's own collections
	badTime       []string
	otherWarnings []string // kinds of warnings unknown to the model
}

func idxAgency(s *gtfs.Static, p *gtfs.Agency) int {
	for i := range s.Agencies {
		if p == &s.Agencies[i] {
			return i
		}
	}
	return -1
}
func idxRoute(s *gtfs.Static, p *gtfs.Route) int {
	for i := range s.Routes {
		if p == &s.Routes[i] {
			return i
		}
	}
	return -1
}
func idxStop(s *gtfs.Static, p *gtfs.Stop) int {
	for i := range s.Stops {
		if p == &s.Stops[i] {
			return i
		}
	}
	return -1
}
func idxService(s *gtfs.Static, p *gtfs.Service) int {
	for i := range s.Services {
		if p == &s.Services[i] {
			return i
		}
	}
	return -1
}
func idxShape(s *gtfs.Static, p *gtfs.Shape) int {
	for i := range s.Shapes {
		if p == &s.Shapes[i] {
			return i
		}
	}
	return -1
}

func (c *staticCanon) ref(kind string, i int, where string) any {
	if i < 0 {
		c.foreign = append(c.foreign, fmt.Sprintf("%s: %s reference is not an element of the result's own collection", where, kind))
		return "foreign"
	}
	return i
}

func bitsOf(p *float64) any {
	if p == nil {
		return nil
	}
	return math.Float64bits(*p)
}

func (c *staticCanon) date(t time.Time, zone string, where string) int64 {
	y, mo, d := t.Date()
	h, mi, s := t.Clock()
	if h != 0 || mi != 0 || s != 0 || t.Nanosecond() != 0 {
		c.badTime = append(c.badTime, fmt.Sprintf("%s: %v is not the start of a day", where, t))
	}
	if t.Location().String() != zone {
		c.badTime = append(c.badTime, fmt.Sprintf("%s: %v is expressed in %s, expected %s", where, t, t.Location(), zone))
	}
	return civilDays(y, mo, d)
}

func secs(d time.Duration, c *staticCanon, where string) int64 {
	if d%time.Second != 0 {
		c.badTime = append(c.badTime, where+": duration is not whole seconds")
	}
	return int64(d / time.Second)
}

func canonStatic(s *gtfs.Static) (map[string]any, *staticCanon) {
	c := &staticCanon{s: s}
	zone := "UTC"
	if len(s.Services) > 0 {
		zone = s.Services[0].StartDate.Location().String()
	}
	agencies := []any{}
	for _, a := range s.Agencies {
		agencies = append(agencies, map[string]any{"id": bstr(a.Id), "name": bstr(a.Name), "url": bstr(a.Url), "timezone": bstr(a.Timezone),
			"language": bstr(a.Language), "phone": bstr(a.Phone), "fareUrl": bstr(a.FareUrl), "email": bstr(a.Email)})
	}
	routes := []any{}
	for i, r := range s.Routes {
		m := map[string]any{"id": bstr(r.Id), "color": bstr(r.Color), "textColor": bstr(r.TextColor), "shortName": bstr(r.ShortName),
			"longName": bstr(r.LongName), "description": bstr(r.Description), "type": int(r.Type), "url": bstr(r.Url),
			"continuousPickup": int(r.ContinuousPickup), "continuousDropOff": int(r.ContinuousDropOff)}
		if r.Agency == nil {
			c.foreign = append(c.foreign, fmt.Sprintf("route %d: agency reference is nil", i))
			m["agency"] = "nil"
		} else {
			m["agency"] = c.ref("agency", idxAgency(s, r.Agency), fmt.Sprintf("route %d", i))
		}
		if r.SortOrder != nil {
			m["sortOrder"] = *r.SortOrder
		}
		routes = append(routes, m)
	}
	stops := []any{}
	for i, st := range s.Stops {
		m := map[string]any{"id": bstr(st.Id), "code": bstr(st.Code), "name": bstr(st.Name), "description": bstr(st.Description),
			"zoneId": bstr(st.ZoneId), "longitude": bitsOf(st.Longitude), "latitude": bitsOf(st.Latitude), "url": bstr(st.Url),
			"type": int(st.Type), "timezone": bstr(st.Timezone), "wheelchairBoarding": int(st.WheelchairBoarding), "platformCode": bstr(st.PlatformCode)}
		if st.Parent != nil {
			m["parent"] = c.ref("parent stop", idxStop(s, st.Parent), fmt.Sprintf("stop %d", i))
		}
		stops = append(stops, m)
	}
	transfers := []any{}
	for i, t := range s.Transfers {
		m := map[string]any{"type": int(t.Type)}
		if t.From == nil || t.To == nil {
			c.foreign = append(c.foreign, fmt.Sprintf("transfer %d: stop reference is nil", i))
			m["from"], m["to"] = "nil", "nil"
		} else {
			m["from"] = c.ref("stop", idxStop(s, t.From), fmt.Sprintf("transfer %d from", i))
			m["to"] = c.ref("stop", idxStop(s, t.To), fmt.Sprintf("transfer %d to", i))
		}
		if t.MinTransferTime != nil {
			m["minTransferTime"] = *t.MinTransferTime
		}
		transfers = append(transfers, m)
	}
	services := []any{}
	// the instant of every date is printed next to its civil day number: the model predicts it from the zone's table
	var zt *zoneTab
	if len(s.Services) > 0 {
		zt = zoneTabOf(s.Services[0].StartDate.Location())
	}
	for i, sv := range s.Services {
		where := fmt.Sprintf("service %d (%s)", i, sv.Id)
		added, removed := []any{}, []any{}
		addedAt, removedAt := []any{}, []any{}
		for _, d := range sv.AddedDates {
			day := c.date(d, zone, where+" added")
			added = append(added, day)
			addedAt = append(addedAt, zt.dateInstant(d, day))
		}
		for _, d := range sv.RemovedDates {
			day := c.date(d, zone, where+" removed")
			removed = append(removed, day)
			removedAt = append(removedAt, zt.dateInstant(d, day))
		}
		start, end := c.date(sv.StartDate, zone, where+" start"), c.date(sv.EndDate, zone, where+" end")
		services = append(services, map[string]any{"id": bstr(sv.Id),
			"days":      []any{sv.Monday, sv.Tuesday, sv.Wednesday, sv.Thursday, sv.Friday, sv.Saturday, sv.Sunday},
			"startDate": start, "endDate": end, "added": added, "removed": removed,
			"startAt": zt.dateInstant(sv.StartDate, start), "endAt": zt.dateInstant(sv.EndDate, end), "addedAt": addedAt, "removedAt": removedAt})
	}
	shapes := []any{}
	for _, sh := range s.Shapes {
		pts := []any{}
		for _, p := range sh.Points {
			pts = append(pts, map[string]any{"latitude": math.Float64bits(p.Latitude), "longitude": math.Float64bits(p.Longitude), "distance": bitsOf(p.Distance)})
		}
		shapes = append(shapes, map[string]any{"id": bstr(sh.ID), "points": pts})
	}
	trips := []any{}
	for i, t := range s.Trips {
		where := fmt.Sprintf("trip %d (%s)", i, t.ID)
		m := map[string]any{"id": bstr(t.ID), "headsign": bstr(t.Headsign), "shortName": bstr(t.ShortName), "direction": int(t.DirectionId),
			"blockId": bstr(t.BlockID), "wheelchairAccessible": int(t.WheelchairAccessible), "bikesAllowed": int(t.BikesAllowed)}
		if t.Route == nil || t.Service == nil {
			c.foreign = append(c.foreign, where+": route or service reference is nil")
			m["route"], m["service"] = "nil", "nil"
		} else {
			m["route"] = c.ref("route", idxRoute(s, t.Route), where)
			m["service"] = c.ref("service", idxService(s, t.Service), where)
		}
		if t.Shape != nil {
			m["shape"] = c.ref("shape", idxShape(s, t.Shape), where)
		}
		sts := []any{}
		for k, st := range t.StopTimes {
			sm := map[string]any{"arrival": secs(st.ArrivalTime, c, where), "departure": secs(st.DepartureTime, c, where), "sequence": st.StopSequence,
				"headsign": bstr(st.Headsign), "pickupType": int(st.PickupType), "dropOffType": int(st.DropOffType),
				"continuousPickup": int(st.ContinuousPickup), "continuousDropOff": int(st.ContinuousDropOff),
				"shapeDist": bitsOf(st.ShapeDistanceTraveled), "exactTimes": st.ExactTimes}
			if st.Stop == nil {
				c.foreign = append(c.foreign, fmt.Sprintf("%s stop time %d: stop reference is nil", where, k))
				sm["stop"] = "nil"
			} else {
				sm["stop"] = c.ref("stop", idxStop(s, st.Stop), fmt.Sprintf("%s stop time %d", where, k))
			}
			sts = append(sts, sm)
		}
		m["stopTimes"] = sts
		fqs := []any{}
		for _, f := range t.Frequencies {
			fqs = append(fqs, map[string]any{"startTime": secs(f.StartTime, c, where), "endTime": secs(f.EndTime, c, where),
				"headway": secs(f.Headway, c, where), "exactTimes": int(f.ExactTimes)})
		}
		m["frequencies"] = fqs
		trips = append(trips, m)
	}
	ws := []any{}
	for _, w := range s.Warnings {
		var kind map[string]any
		switch k := w.Kind.(type) {
		case warnings.MissingColumns:
			kind = map[string]any{"kind": "missingColumns", "columns": bstrList(k.Columns)}
		case warnings.AgencyMissingValues:
			kind = map[string]any{"kind": "agencyMissingValues", "agencyId": bstr(k.AgencyID), "columns": bstrList(k.Columns)}
		default:
			// a kind of warning the model does not know (a later addition to the library): outside the comparison with the
			// model; that it describes a row of its file is checked for every warning by C09's oracle
			c.otherWarnings = append(c.otherWarnings, fmt.Sprintf("%T", w.Kind))
			continue
		}
		ws = append(ws, map[string]any{"file": bstr(string(w.File)), "rowNumber": w.RowNumber, "rowContent": bstrList(w.RowContent),
			"header": bstrList(w.HeaderContent), "kind": kind})
	}
	return map[string]any{"agencies": agencies, "routes": routes, "stops": stops, "transfers": transfers, "services": services,
		"trips": trips, "shapes": shapes, "warnings": ws, "zone": bstr(zone)}, c
}

func bstrList(xs []string) []any {
	out := []any{}
	for _, x := range xs {
		out = append(out, bstr(x))
	}
	return out
}

// parseStaticImpl runs ParseStatic on the members; outcome "ok" or "error".
func parseStaticImpl(ms []member, inherit bool, deflate bool) (map[string]any, *gtfs.Static, *staticCanon) {
	s, err := gtfs.ParseStatic(zipOf(ms, deflate), gtfs.ParseStaticOptions{InheritWheelchairBoarding: inherit})
	if err != nil {
		file := ""
		msg := err.Error()
		if i := strings.Index(msg, `"`); i >= 0 {
			if j := strings.Index(msg[i+1:], `"`); j >= 0 {
				file = msg[i+1 : i+1+j]
			}
		}
		return map[string]any{"outcome": "error", "file": bstr(file)}, nil, nil
	}
	cj, c := canonStatic(s)
	return map[string]any{"outcome": "ok", "result": cj}, s, c
}

type nopCloser struct{ io.Reader }

func (nopCloser) Close() error { return nil }

func gcsvNew(data string) (*gcsv.File, error) {
	return gcsv.New("x.txt", nopCloser{strings.NewReader(data)})
}
