package main

import (
	"encoding/json"
	"fmt"
	"os"
	"path/filepath"
	"reflect"
	"time"

	"github.com/jamespfennell/gtfs/journal"
	gtfsrt "github.com/jamespfennell/gtfs/proto"
	"google.golang.org/protobuf/proto"
)

// C19: real directories. Every entry has a kind; good files carry a unique header timestamp (the
// id by which the yielded feeds are recognised).

func goodFeedBytes(ts int64, withTrip bool) []byte {
	v := "2.0"
	u := uint64(ts)
	msg := &gtfsrt.FeedMessage{Header: &gtfsrt.FeedHeader{GtfsRealtimeVersion: &v, Timestamp: &u}}
	if withTrip {
		id := "e1"
		tid := fmt.Sprintf("%06d_A..N", ts%144000)
		route := "A"
		start := "20231115"
		stop := "A01N"
		tm := int64(ts + 600)
		msg.Entity = append(msg.Entity, &gtfsrt.FeedEntity{Id: &id, TripUpdate: &gtfsrt.TripUpdate{
			Trip:           &gtfsrt.TripDescriptor{TripId: &tid, RouteId: &route, StartDate: &start},
			StopTimeUpdate: []*gtfsrt.TripUpdate_StopTimeUpdate{{StopId: &stop, Arrival: &gtfsrt.TripUpdate_StopTimeEvent{Time: &tm}}},
		}})
	}
	b, err := proto.Marshal(msg)
	if err != nil {
		panic(err)
	}
	return b
}

var dirNames = []string{"a", "b", "B", "10", "9", "09", "_x", "~", "feed-001.pb", "feed-002.pb", "feed-010.pb", "Z", "é", "日", "a.b", "a-b", "a b", ".hidden", "z0", "z00", "a[1]", "x*", "q?", "b\\c", "\xff\xfe.pb", "f\xe9t\xe9.pb", "\x80"}

// genWideDir: a directory of 15-60 entries named in order, with runs of 2-12 consecutive (in name order) bad entries
// at the start, in the middle and at the end - sizes at which read-ahead, batching and pre-sized listings show
func genWideDir(r *Rng) map[string]any {
	n := 15 + r.Intn(46)
	entries := []any{}
	bad := []string{"empty", "truncated", "garbage", "subdir", "vanish", "dangling"}
	run := 0
	if r.Bool() {
		run = 2 + r.Intn(11)
	}
	for i := 0; i < n; i++ {
		e := map[string]any{"name": bstr(fmt.Sprintf("f-%03d.pb", i))}
		if run > 0 {
			run--
			e["fileKind"] = r.Pick(bad)
		} else {
			e["fileKind"] = r.Pick([]string{"good", "goodtrip", "goodtrip", "goodlink"})
			e["id"] = 1700000000 + int64(i)*10
			if r.P(1, 5) {
				run = 2 + r.Intn(11)
			}
		}
		entries = append(entries, e)
	}
	return map[string]any{"kind": "dirsrc", "entries": entries}
}

func genDirCase(r *Rng, tier string) map[string]any {
	if r.P(1, 15) {
		return genWideDir(r)
	}
	n := r.Intn(9)
	if r.P(1, 10) {
		n = 0
	}
	perm := r.Perm(len(dirNames))
	entries := []any{}
	var lastGood map[string]any
	for i := 0; i < n && i < len(perm); i++ {
		kinds := []string{"good", "good", "good", "goodtrip", "goodlink", "empty", "truncated", "garbage", "subdir", "vanish", "dangling"}
		k := r.Pick(kinds)
		if r.P(1, 8) {
			k = r.Pick(kinds[5:]) // clusters of bad entries
		}
		e := map[string]any{"name": bstr(dirNames[perm[i]]), "fileKind": k}
		if k == "good" || k == "goodtrip" || k == "goodlink" {
			e["id"] = 1700000000 + int64(r.Intn(100000))*10 + int64(i)
			if lastGood != nil && r.P(1, 4) {
				// a byte-identical copy of an earlier good file: still one file, still yielded once
				e["id"] = lastGood["id"]
				e["fileKind"] = lastGood["fileKind"]
			}
			lastGood = e
		}
		entries = append(entries, e)
	}
	c := map[string]any{"kind": "dirsrc", "entries": entries}
	if r.P(1, 3) {
		// the directory's own name: blanks, punctuation, characters that mean something to pattern matchers, multi-byte
		c["dirName"] = bstr(r.Pick(baseDirNames))
	}
	return c
}

// directory names; each name with a pattern reading has a sibling that the pattern would match (filled with a decoy feed)
var baseDirNames = []string{"archive 2024-01-02", "archive (copy)", "archive[1]", "line[A]", "what?", "feeds*", "a\\b", "é", ".hidden", "a,b", "%41", "{a,b}", "~", "-x"}
var dirDecoys = map[string]string{"archive[1]": "archive1", "line[A]": "lineA", "what?": "whatX", "feeds*": "feedsXYZ", "a\\b": "ab", "{a,b}": "a"}

func materialise(dir string, entries []any, onlyGood bool) (vanish []string, err error) {
	for _, e := range entries {
		name := gs(e, "name")
		p := filepath.Join(dir, name)
		k := gs(e, "fileKind")
		if onlyGood && k != "good" && k != "goodtrip" && k != "goodlink" {
			continue
		}
		switch k {
		case "good":
			err = os.WriteFile(p, goodFeedBytes(gi(e, "id"), false), 0o644)
		case "goodtrip":
			err = os.WriteFile(p, goodFeedBytes(gi(e, "id"), true), 0o644)
		case "goodlink":
			// a symbolic link to a readable, parseable file kept elsewhere: as good as the file itself
			target := filepath.Join(filepath.Dir(dir), "targets-"+filepath.Base(dir))
			os.MkdirAll(target, 0o755)
			tf := filepath.Join(target, fmt.Sprintf("t%d", gi(e, "id")))
			if err = os.WriteFile(tf, goodFeedBytes(gi(e, "id"), true), 0o644); err == nil {
				err = os.Symlink(tf, p)
			}
		case "empty":
			err = os.WriteFile(p, nil, 0o644)
		case "truncated":
			b := goodFeedBytes(1700000001, true)
			err = os.WriteFile(p, b[:len(b)-3], 0o644)
		case "garbage":
			err = os.WriteFile(p, []byte{0xff, 0xff, 0xff, 0x07, 0x00, 0x12}, 0o644)
		case "subdir":
			err = os.Mkdir(p, 0o755)
			if err == nil {
				err = os.WriteFile(filepath.Join(p, "inner"), goodFeedBytes(1, false), 0o644)
			}
		case "vanish":
			err = os.WriteFile(p, goodFeedBytes(1700000002, false), 0o644)
			vanish = append(vanish, p)
		case "dangling":
			err = os.Symlink(filepath.Join(dir, "does-not-exist-target"), p)
		}
		if err != nil {
			return nil, err
		}
	}
	return vanish, nil
}

type dirProp struct{}

func (p *dirProp) Rule() string {
	return "real directories of 0-8 entries (one in fifteen: 15-60 entries named in order with runs of 2-12 consecutive bad entries) with names stressing bytewise order (digits, case, punctuation, multi-byte, dot files, names that are not valid UTF-8), one directory in three itself named with blanks, brackets, wildcard characters, a backslash, braces or multi-byte characters (with a sibling directory such a pattern would match); entry kinds: good feed, good feed with a trip, symbolic link to a good feed kept elsewhere, byte-identical copies of a good feed under other names, empty file, truncated message, garbage bytes, sub-directory, file deleted after listing, dangling symlink; the sequence of Next() results is compared with the model's prediction and the journal over the directory with the journal over its good files alone; distinct = distinct input JSON; non-trivial = at least one good and one bad entry"
}
func (p *dirProp) N(tier string) int {
	if tier == "thorough" {
		return 6000
	}
	return 400
}
func (p *dirProp) Gen(r *Rng, tier string, i int) map[string]any { return genDirCase(r, tier) }

func drain(dir string, vanish []string) ([]int64, int, error) {
	src, err := journal.NewDirectoryGtfsrtSource(dir)
	if err != nil {
		return nil, 0, err
	}
	for _, v := range vanish {
		os.Remove(v)
	}
	var ids []int64
	calls := 0
	for calls < 1000 {
		calls++
		f := src.Next()
		if f == nil {
			break
		}
		ids = append(ids, f.CreatedAt.Unix())
	}
	// after the end it stays ended
	if src.Next() != nil {
		return ids, calls, fmt.Errorf("source yields again after it ended")
	}
	return ids, calls, nil
}

func (p *dirProp) Check(in map[string]any, model json.RawMessage) Verdict {
	var v Verdict
	entries := ga(in, "entries")
	var mr struct {
		Yields []int64 `json:"yields"`
	}
	if err := json.Unmarshal(model, &mr); err != nil {
		v.Disagree = "model reply unreadable"
		return v
	}
	dir, err := os.MkdirTemp("", "verif-c19-")
	if err != nil {
		panic(err)
	}
	defer os.RemoveAll(dir)
	// a directory that does not exist (or is a file) is an error of the constructor, not a crash and not a source
	for _, nd := range []string{filepath.Join(dir, "no-such-dir"), filepath.Join(dir, "a-file")} {
		os.WriteFile(filepath.Join(dir, "a-file"), []byte("x"), 0o644)
		if src, err := journal.NewDirectoryGtfsrtSource(nd); err == nil || src != nil {
			v.Violations = append(v.Violations, Viol{"c19-nodir", "NewDirectoryGtfsrtSource on a path that is not a directory returns a source / no error"})
		}
	}
	os.Remove(filepath.Join(dir, "a-file"))
	allName := "all"
	if has(in, "dirName") {
		allName = unbstr(gs(in, "dirName"))
		v.Tags = append(v.Tags, "dir-name:"+allName)
		if decoy, ok := dirDecoys[allName]; ok {
			os.Mkdir(filepath.Join(dir, decoy), 0o755)
			os.WriteFile(filepath.Join(dir, decoy, "decoy"), goodFeedBytes(42, true), 0o644)
		}
	}
	all := filepath.Join(dir, allName)
	good := filepath.Join(dir, "good")
	os.Mkdir(all, 0o755)
	os.Mkdir(good, 0o755)
	vanish, err := materialise(all, entries, false)
	if err != nil {
		panic(err)
	}
	if _, err := materialise(good, entries, true); err != nil {
		panic(err)
	}
	ids, _, derr := drain(all, vanish)
	if derr != nil {
		v.Violations = append(v.Violations, Viol{"c19-restart", derr.Error()})
	}
	if len(ids) == 0 {
		ids = []int64{}
	}
	if mr.Yields == nil {
		mr.Yields = []int64{}
	}
	if !reflect.DeepEqual(ids, mr.Yields) {
		v.Disagree = fmt.Sprintf("sequence of Next() results: model %v vs impl %v", mr.Yields, ids)
		// the statement itself: each good file exactly once, in name order
		v.Violations = append(v.Violations, Viol{"c19-sequence", fmt.Sprintf("Next() yielded %v; the good files in lexicographic name order are %v", ids, mr.Yields)})
	}
	// journal over the directory = journal over the good files alone
	nGood, nBad := 0, 0
	for _, e := range entries {
		if has(e, "id") {
			nGood++
		} else {
			nBad++
		}
	}
	lo, hi := time.Unix(0, 0), time.Unix(1<<40, 0)
	s1, err1 := journal.NewDirectoryGtfsrtSource(all)
	s2, err2 := journal.NewDirectoryGtfsrtSource(good)
	if err1 != nil || err2 != nil {
		panic("cannot list")
	}
	j1 := journal.BuildJournal(s1, lo, hi)
	j2 := journal.BuildJournal(s2, lo, hi)
	if mustJSON(canonJournal(j1)) != mustJSON(canonJournal(j2)) {
		v.Violations = append(v.Violations, Viol{"c19-journal", "the journal built from the directory differs from the journal built from its good files alone"})
	}
	v.Trivial = nGood == 0 || nBad == 0
	for _, e := range entries {
		v.Tags = append(v.Tags, gs(e, "fileKind"))
	}
	if len(entries) == 0 {
		v.Tags = append(v.Tags, "empty-dir")
	} else if nGood == 0 {
		v.Tags = append(v.Tags, "all-bad")
	}
	return v
}

func (p *dirProp) Fixed() []map[string]any {
	e := func(name, kind string, id int64) map[string]any {
		m := map[string]any{"name": name, "fileKind": kind}
		if id != 0 {
			m["id"] = id
		}
		return m
	}
	return []map[string]any{
		{"kind": "dirsrc", "entries": []any{}},
		{"kind": "dirsrc", "entries": []any{e("a", "garbage", 0), e("b", "subdir", 0)}},
		{"kind": "dirsrc", "entries": []any{e("0bad", "empty", 0), e("1", "goodtrip", 1700000010), e("2bad", "truncated", 0), e("3", "goodtrip", 1700000020), e("4bad", "vanish", 0)}},
		{"kind": "dirsrc", "entries": []any{e("10", "good", 1700000030), e("9", "good", 1700000040), e("B", "good", 1700000050), e("a", "good", 1700000060)}},
	}
}

func init() {
	props["C19"] = func() Prop { return &dirProp{} }
}
