package main

import (
	"fmt"
	"reflect"
	"sort"
	"strconv"
	"time"

	"github.com/jamespfennell/gtfs"
)

// zeroTripKey files the all-default trip descriptor (`trip {}`): a legitimate trip whose identifier is
// the zero TripID. Other id-less identifiers (alert selectors identified by route + direction + start
// time + start date) have no key of their own and are left to the model comparison.
const zeroTripKey = "\x00all-default-descriptor"

func tripKey(id gtfs.TripID) string {
	if id.ID != "" {
		return id.ID
	}
	if id == (gtfs.TripID{}) {
		return zeroTripKey
	}
	return ""
}

// descKey is tripKey on the wire side.
func descKey(d map[string]any) string {
	if d == nil {
		return ""
	}
	if id := gs(d, "tripId"); id != "" {
		return id
	}
	if gs(d, "routeId") == "" && !has(d, "directionId") && !has(d, "startTime") && !has(d, "startDate") && gi(d, "sr") == 0 {
		return zeroTripKey
	}
	return ""
}

// findRtTripByDesc finds the Trips entry whose identifier transcribes every field of the wire descriptor.
func findRtTripByDesc(r *gtfs.Realtime, d map[string]any, loc *time.Location) *gtfs.Trip {
	if loc == nil {
		loc = time.UTC
	}
	for i := range r.Trips {
		if len(checkTripID(r.Trips[i].ID, d, loc, "")) == 0 {
			return &r.Trips[i]
		}
	}
	return nil
}

// tripIDBefore is the documented identifier order written out independently of TripID.Less: id, route,
// direction, then "no start time" before any start time and by start time, the same for the start date,
// then the schedule relationship.
func tripIDBefore(a, b gtfs.TripID) bool {
	if a.ID != b.ID {
		return a.ID < b.ID
	}
	if a.RouteID != b.RouteID {
		return a.RouteID < b.RouteID
	}
	if a.DirectionID != b.DirectionID {
		return a.DirectionID < b.DirectionID
	}
	if a.HasStartTime != b.HasStartTime {
		return !a.HasStartTime
	}
	if a.HasStartTime && a.StartTime != b.StartTime {
		return a.StartTime < b.StartTime
	}
	if a.HasStartDate != b.HasStartDate {
		return !a.HasStartDate
	}
	if a.HasStartDate && !a.StartDate.Equal(b.StartDate) {
		return a.StartDate.Before(b.StartDate)
	}
	return a.ScheduleRelationship < b.ScheduleRelationship
}

func findRtTrip(r *gtfs.Realtime, key string) *gtfs.Trip {
	if key == "" {
		return nil
	}
	for i := range r.Trips {
		if tripKey(r.Trips[i].ID) == key {
			return &r.Trips[i]
		}
	}
	return nil
}

// idDesc returns the vehicle descriptor if it identifies a vehicle: a descriptor that is absent, or present
// with every field absent or empty, identifies nothing (the vehicle is then an id-less one).
func idDesc(d map[string]any) map[string]any {
	if d == nil || vehIDOfDesc(d) == (gtfs.VehicleID{}) {
		return nil
	}
	return d
}

func vehIDOfDesc(d map[string]any) gtfs.VehicleID {
	return gtfs.VehicleID{ID: gs(d, "id"), Label: gs(d, "label"), LicensePlate: gs(d, "licensePlate")}
}

func findRtVehicle(r *gtfs.Realtime, id gtfs.VehicleID) *gtfs.Vehicle {
	for i := range r.Vehicles {
		if r.Vehicles[i].ID != nil && *r.Vehicles[i].ID == id {
			return &r.Vehicles[i]
		}
	}
	return nil
}

func tagList(m map[string]bool) []string {
	var out []string
	for k := range m {
		out = append(out, k)
	}
	sort.Strings(out)
	return out
}

// ---------- C07: uniqueness, order, permutation invariance, own entity wins ----------

func oracleC07(in map[string]any, r *gtfs.Realtime, canon map[string]any) ([]Viol, []string, bool) {
	var viols []Viol
	tags := map[string]bool{}
	for i := 1; i < len(r.Trips); i++ {
		a, b := r.Trips[i-1].ID, r.Trips[i].ID
		if !tripIDBefore(a, b) {
			viols = append(viols, Viol{"c07-sorted", fmt.Sprintf("Trips[%d] and Trips[%d] are not in strictly increasing identifier order (%+v, %+v)", i-1, i, a, b)})
		}
	}
	seenT := map[string]bool{}
	for i := range r.Trips {
		k := mustJSON((&rtCanon{loc: time.UTC}).tripID(r.Trips[i].ID))
		if seenT[k] {
			viols = append(viols, Viol{"c07-dup-trip", "two Trips entries with the same identifier " + k})
		}
		seenT[k] = true
	}
	seenV := map[gtfs.VehicleID]bool{}
	for i := range r.Vehicles {
		if id := r.Vehicles[i].ID; id != nil && *id != (gtfs.VehicleID{}) {
			if seenV[*id] {
				viols = append(viols, Viol{"c07-dup-vehicle", fmt.Sprintf("two Vehicles entries with identifier %+v", *id)})
			}
			seenV[*id] = true
		}
	}
	msg := gm(in, "msg")
	ents := ga(msg, "entities")
	if !gb(in, "conflictFree") {
		tags["any-message"] = true
		return viols, tagList(tags), len(ents) < 2
	}
	tags["conflict-free"] = true
	// own entity wins
	for _, e := range ents {
		if tu := gm(e, "tripUpdate"); tu != nil {
			t := findRtTripByDesc(r, gm(tu, "trip"), zoneOf(in))
			if t == nil {
				viols = append(viols, Viol{"c07-own-missing", "no Trip for the trip update of " + gs(gm(tu, "trip"), "tripId")})
				continue
			}
			if !t.IsEntityInMessage || len(t.StopTimeUpdates) != len(ga(tu, "stus")) {
				viols = append(viols, Viol{"c07-own-entity", fmt.Sprintf("trip %q has an entity of its own with %d stop time updates, the result carries inMessage=%v with %d", t.ID.ID, len(ga(tu, "stus")), t.IsEntityInMessage, len(t.StopTimeUpdates))})
			}
			tags["own-trip-entity"] = true
		}
		if vp := gm(e, "vehicle"); vp != nil && idDesc(gm(vp, "vehicle")) != nil {
			v := findRtVehicle(r, vehIDOfDesc(gm(vp, "vehicle")))
			if v == nil || !v.IsEntityInMessage {
				viols = append(viols, Viol{"c07-own-entity", fmt.Sprintf("vehicle %+v has an entity of its own but the result does not carry it", vehIDOfDesc(gm(vp, "vehicle")))})
			}
		}
	}
	// permutations
	base := normAny(canon).(map[string]any)
	sortVeh := func(v any) []string {
		var out []string
		for _, x := range v.([]any) {
			out = append(out, mustJSON(x))
		}
		sort.Strings(out)
		return out
	}
	alertByID := map[string]string{}
	for _, a := range base["alerts"].([]any) {
		alertByID[a.(map[string]any)["id"].(string)] = mustJSON(a)
	}
	for oi, o := range ga(in, "orders") {
		rp, err := parseImpl(in, o.([]any))
		if err != nil {
			viols = append(viols, Viol{"c07-perm-error", "a permutation of the entities fails to parse: " + err.Error()})
			continue
		}
		cp, _ := canonOf(in, rp)
		np := normAny(cp).(map[string]any)
		if !reflect.DeepEqual(np["trips"], base["trips"]) {
			viols = append(viols, Viol{"c07-perm-trips", fmt.Sprintf("entity order %v changes the trips or their links: %s", o, diff("trips", base["trips"], np["trips"]))})
		}
		if !reflect.DeepEqual(sortVeh(np["vehicles"]), sortVeh(base["vehicles"])) {
			viols = append(viols, Viol{"c07-perm-vehicles", fmt.Sprintf("entity order %v changes the vehicles or their links", o)})
		}
		// alerts keep their relative feed order
		var wantIDs []string
		for _, k := range o.([]any) {
			e := ents[int(toI64(k))]
			if gm(e, "alert") != nil && gm(e, "tripUpdate") == nil && gm(e, "vehicle") == nil {
				wantIDs = append(wantIDs, bstr(gs(e, "id")))
			}
		}
		var gotIDs []string
		for _, a := range np["alerts"].([]any) {
			id := a.(map[string]any)["id"].(string)
			gotIDs = append(gotIDs, id)
			if alertByID[id] != mustJSON(a) {
				viols = append(viols, Viol{"c07-perm-alerts", fmt.Sprintf("entity order %v changes the content of alert %q", o, id)})
			}
		}
		if !reflect.DeepEqual(gotIDs, wantIDs) && !(len(gotIDs) == 0 && len(wantIDs) == 0) {
			viols = append(viols, Viol{"c07-perm-alerts", fmt.Sprintf("entity order %v: alerts come out as %v, feed order is %v", o, gotIDs, wantIDs)})
		}
		tags[fmt.Sprintf("perm-%d", oi)] = true
	}
	return viols, tagList(tags), len(ents) < 2
}

// ---------- C04: links ----------

func oracleC04(in map[string]any, r *gtfs.Realtime, canon map[string]any) ([]Viol, []string, bool) {
	var viols []Viol
	tags := map[string]bool{}
	c := &rtCanon{loc: time.UTC}
	vd := func(v *gtfs.Vehicle) string { return mustJSON(c.vehData(v)) }
	td := func(t *gtfs.Trip) string { return mustJSON(c.tripData(t)) }
	// structure of every link that exists
	for i := range r.Trips {
		t := &r.Trips[i]
		if t.Vehicle == nil {
			continue
		}
		v := t.Vehicle
		if v.Trip == nil || v.Trip.Vehicle != v {
			viols = append(viols, Viol{"c04-not-mutual", fmt.Sprintf("trip %q points at a vehicle whose trip reference does not lead back", t.ID.ID)})
			continue
		}
		if td(v.Trip) != td(t) {
			viols = append(viols, Viol{"c04-content", fmt.Sprintf("trip %q: the trip reached through its vehicle differs in content from the Trips entry", t.ID.ID)})
		}
		found := false
		for j := range r.Vehicles {
			if vd(&r.Vehicles[j]) == vd(v) && r.Vehicles[j].Trip != nil && td(r.Vehicles[j].Trip) == td(t) {
				found = true
			}
		}
		if !found {
			viols = append(viols, Viol{"c04-content", fmt.Sprintf("trip %q: the vehicle it points at has no equal entry (linked to this trip) in Vehicles", t.ID.ID)})
		}
	}
	for j := range r.Vehicles {
		v := &r.Vehicles[j]
		if v.Trip == nil {
			continue
		}
		t := v.Trip
		if t.Vehicle == nil || t.Vehicle.Trip != t {
			viols = append(viols, Viol{"c04-not-mutual", fmt.Sprintf("Vehicles[%d] points at a trip whose vehicle reference does not lead back", j)})
			continue
		}
		if vd(t.Vehicle) != vd(v) {
			viols = append(viols, Viol{"c04-content", fmt.Sprintf("Vehicles[%d]: the vehicle reached through its trip differs in content from the Vehicles entry", j)})
		}
		lt := findRtTrip(r, tripKey(t.ID))
		if lt == nil || td(lt) != td(t) {
			viols = append(viols, Viol{"c04-content", fmt.Sprintf("Vehicles[%d]: the trip it points at differs from the Trips entry", j)})
		}
	}
	if !gb(in, "conflictFree") {
		return viols, []string{"structure-only"}, true
	}
	// which associations the feed states
	assocTrip := map[string]string{} // trip id -> "V:<vehicle id json>" or "noid:<entity index>"
	ents := ga(gm(in, "msg"), "entities")
	for ei, e := range ents {
		if tu := gm(e, "tripUpdate"); tu != nil && idDesc(gm(tu, "vehicle")) != nil {
			assocTrip[descKey(gm(tu, "trip"))] = "V:" + mustJSON(vehIDOfDesc(gm(tu, "vehicle")))
			tags["assoc-by-trip-update"] = true
		} else if tu != nil && tu["vehicle"] != nil {
			// "a trip update carrying a vehicle descriptor": a descriptor that is present but identifies nothing
			// associates the trip with an id-less vehicle of its own
			assocTrip[descKey(gm(tu, "trip"))] = fmt.Sprintf("noid:%d", ei)
			tags["assoc-idless-vehicle-by-trip-update"] = true
		}
		if vp := gm(e, "vehicle"); vp != nil && gm(vp, "trip") != nil {
			if idDesc(gm(vp, "vehicle")) != nil {
				assocTrip[descKey(gm(vp, "trip"))] = "V:" + mustJSON(vehIDOfDesc(gm(vp, "vehicle")))
				tags["assoc-by-vehicle-position"] = true
			} else {
				assocTrip[descKey(gm(vp, "trip"))] = fmt.Sprintf("noid:%d", ei)
				tags["assoc-idless-vehicle"] = true
			}
		}
	}
	linkedVeh := map[string]bool{}
	for i := range r.Trips {
		t := &r.Trips[i]
		want, ok := assocTrip[tripKey(t.ID)]
		if !ok {
			if t.Vehicle != nil {
				viols = append(viols, Viol{"c04-spurious", fmt.Sprintf("trip %q is associated with no vehicle in the feed but has a vehicle reference", t.ID.ID)})
			}
			tags["unassociated-trip"] = true
			continue
		}
		if t.Vehicle == nil {
			viols = append(viols, Viol{"c04-missing", fmt.Sprintf("trip %q is associated with a vehicle in the feed (%s) but its vehicle reference is nil", t.ID.ID, want)})
			continue
		}
		if want[:2] == "V:" {
			got := "V:" + mustJSON(t.Vehicle.GetID())
			if got != want {
				viols = append(viols, Viol{"c04-wrong", fmt.Sprintf("trip %q is linked to vehicle %s, the feed associates it with %s", t.ID.ID, got, want)})
			}
			linkedVeh[want] = true
		} else if t.Vehicle.ID != nil {
			viols = append(viols, Viol{"c04-wrong", fmt.Sprintf("trip %q should be linked to an id-less vehicle", t.ID.ID)})
		}
	}
	for j := range r.Vehicles {
		v := &r.Vehicles[j]
		if v.ID != nil {
			k := "V:" + mustJSON(*v.ID)
			if linkedVeh[k] && v.Trip == nil {
				viols = append(viols, Viol{"c04-missing", fmt.Sprintf("vehicle %s is associated with a trip in the feed but its trip reference is nil", k)})
			}
			if !linkedVeh[k] && v.Trip != nil {
				viols = append(viols, Viol{"c04-spurious", fmt.Sprintf("vehicle %s is associated with no trip in the feed but has a trip reference", k)})
			}
		}
	}
	// id-less vehicle positions carrying a trip must be linked
	nIdlessWithTrip := 0
	for _, e := range ents {
		if vp := gm(e, "vehicle"); vp != nil && gm(vp, "trip") != nil && idDesc(gm(vp, "vehicle")) == nil {
			nIdlessWithTrip++
		}
		if tu := gm(e, "tripUpdate"); tu != nil && tu["vehicle"] != nil && idDesc(gm(tu, "vehicle")) == nil {
			nIdlessWithTrip++ // a trip update whose vehicle descriptor identifies nothing
		}
	}
	got := 0
	for j := range r.Vehicles {
		if r.Vehicles[j].ID == nil && r.Vehicles[j].Trip != nil {
			got++
		}
	}
	if got != nIdlessWithTrip {
		viols = append(viols, Viol{"c04-idless", fmt.Sprintf("%d entities associate a trip with an id-less vehicle, %d id-less Vehicles have a trip reference", nIdlessWithTrip, got)})
	}
	return viols, tagList(tags), len(assocTrip) == 0
}

// ---------- C02: transcription against the wire values ----------

func expectDir(d any, k string) gtfs.DirectionID {
	if !has(d, k) {
		return gtfs.DirectionID_Unspecified
	}
	if gi(d, k) == 0 {
		return gtfs.DirectionID_False
	}
	return gtfs.DirectionID_True
}

func twoDigits(s string) (int, bool) {
	if len(s) != 2 || s[0] < '0' || s[0] > '9' || s[1] < '0' || s[1] > '9' {
		return 0, false
	}
	return int(s[0]-'0')*10 + int(s[1]-'0'), true
}

func checkTripID(id gtfs.TripID, d map[string]any, loc *time.Location, where string) []Viol {
	var v []Viol
	bad := func(f string, a ...any) { v = append(v, Viol{"c02-tripid", where + ": " + fmt.Sprintf(f, a...)}) }
	if id.ID != gs(d, "tripId") || id.RouteID != gs(d, "routeId") {
		bad("id/route %q/%q, wire %q/%q", id.ID, id.RouteID, gs(d, "tripId"), gs(d, "routeId"))
	}
	if id.DirectionID != expectDir(d, "directionId") {
		bad("direction %v, wire %v", id.DirectionID, d["directionId"])
	}
	if int64(id.ScheduleRelationship) != gi(d, "sr") {
		bad("schedule relationship %v, wire %v", id.ScheduleRelationship, d["sr"])
	}
	st := gs(d, "startTime")
	if h, ok1 := twoDigits(safeSub(st, 0, 2)); has(d, "startTime") && len(st) == 8 && st[2] == ':' && st[5] == ':' && ok1 {
		m, ok2 := twoDigits(st[3:5])
		s, ok3 := twoDigits(st[6:8])
		if ok2 && ok3 {
			if !id.HasStartTime || id.StartTime != time.Duration((h*60+m)*60+s)*time.Second {
				bad("start time %v/%v, wire %q", id.HasStartTime, id.StartTime, st)
			}
		}
	} else if !has(d, "startTime") && (id.HasStartTime || id.StartTime != 0) {
		bad("start time fabricated (%v) although absent on the wire", id.StartTime)
	}
	sd := gs(d, "startDate")
	if has(d, "startDate") && len(sd) == 8 {
		_, e1 := strconv.Atoi(sd[:4])
		mo, e2 := strconv.Atoi(sd[4:6])
		da, e3 := strconv.Atoi(sd[6:])
		allDigits := true
		for i := 0; i < 8; i++ {
			if sd[i] < '0' || sd[i] > '9' {
				allDigits = false
			}
		}
		if allDigits && e1 == nil && e2 == nil && e3 == nil {
			if !id.HasStartDate {
				bad("start date %q not surfaced", sd)
			} else if mo >= 1 && mo <= 12 && da >= 1 && da <= 28 {
				t := id.StartDate.In(loc)
				if t.Format("20060102 15:04:05") != sd+" 00:00:00" {
					bad("start date %v is not local midnight of %q in %s", id.StartDate, sd, loc)
				}
			} else if yr, _ := strconv.Atoi(sd[:4]); !id.StartDate.Equal(time.Date(yr, time.Month(mo), da, 0, 0, 0, 0, loc)) {
				// days 29-31 and out-of-range months/days: the civil date after time.Date's normalisation
				bad("start date %v is not the (normalised) date %q in %s", id.StartDate, sd, loc)
			}
		}
	} else if !has(d, "startDate") && (id.HasStartDate || !id.StartDate.IsZero()) {
		bad("start date fabricated although absent on the wire")
	}
	return v
}

func safeSub(s string, a, b int) string {
	if len(s) < b {
		return ""
	}
	return s[a:b]
}

func checkEvent(e *gtfs.StopTimeEvent, w map[string]any, loc *time.Location, where string) []Viol {
	var v []Viol
	if (e == nil) != (w == nil) {
		return []Viol{{"c02-absent", where + ": event presence differs from the wire"}}
	}
	if e == nil {
		return nil
	}
	if (e.Time == nil) != !has(w, "time") || (e.Delay == nil) != !has(w, "delay") || (e.Uncertainty == nil) != !has(w, "uncertainty") {
		v = append(v, Viol{"c02-absent", where + ": a field absent on the wire is present in the result or vice versa"})
		return v
	}
	if e.Time != nil && (e.Time.Unix() != gi(w, "time") || e.Time.Location().String() != loc.String()) {
		v = append(v, Viol{"c02-time", fmt.Sprintf("%s: time %v, wire %d in zone %s", where, e.Time, gi(w, "time"), loc)})
	}
	if e.Delay != nil && *e.Delay != time.Duration(gi(w, "delay"))*time.Second {
		v = append(v, Viol{"c02-delay", fmt.Sprintf("%s: delay %v, wire %d s", where, *e.Delay, gi(w, "delay"))})
	}
	if e.Uncertainty != nil && int64(*e.Uncertainty) != gi(w, "uncertainty") {
		v = append(v, Viol{"c02-uncertainty", where + ": uncertainty differs"})
	}
	return v
}

func oracleC02(in map[string]any, r *gtfs.Realtime, canon map[string]any) ([]Viol, []string, bool) {
	var viols []Viol
	tags := map[string]bool{}
	loc := zoneOf(in)
	if loc == nil {
		loc = time.UTC
	}
	tags["zone:"+gs(in, "zone")] = true
	msg := gm(in, "msg")
	ents := ga(msg, "entities")
	if has(msg, "timestamp") {
		if r.CreatedAt.Unix() != gi(msg, "timestamp") || r.CreatedAt.Location().String() != loc.String() {
			viols = append(viols, Viol{"c02-createdat", fmt.Sprintf("CreatedAt %v, header timestamp %d in %s", r.CreatedAt, gi(msg, "timestamp"), loc)})
		}
	} else if !r.CreatedAt.IsZero() {
		viols = append(viols, Viol{"c02-createdat", "CreatedAt fabricated although the header has no timestamp"})
	}
	// expected trips and vehicles
	wantTrips := map[string]map[string]any{}
	ownTrip := map[string]map[string]any{}
	wantVeh := map[gtfs.VehicleID]bool{}
	ownVeh := map[gtfs.VehicleID]map[string]any{}
	idless := 0
	var alertEnts []any
	for _, e := range ents {
		if tu := gm(e, "tripUpdate"); tu != nil {
			d := gm(tu, "trip")
			wantTrips[descKey(d)] = d
			ownTrip[descKey(d)] = tu
			if vd := idDesc(gm(tu, "vehicle")); vd != nil {
				wantVeh[vehIDOfDesc(vd)] = true
			}
		} else if vp := gm(e, "vehicle"); vp != nil {
			if d := gm(vp, "trip"); d != nil {
				wantTrips[descKey(d)] = d
			}
			if vd := idDesc(gm(vp, "vehicle")); vd != nil {
				wantVeh[vehIDOfDesc(vd)] = true
				ownVeh[vehIDOfDesc(vd)] = vp
			} else {
				idless++
			}
		} else if a := gm(e, "alert"); a != nil {
			alertEnts = append(alertEnts, e)
			for _, s := range ga(a, "informed") {
				if d := gm(s, "trip"); d != nil && gs(d, "tripId") != "" {
					wantTrips[gs(d, "tripId")] = d
				}
			}
		}
	}
	// identifiable alert trips without an id (route+direction+time+date) are counted by the model comparison only
	delete(wantTrips, "")
	delete(ownTrip, "")
	nIDd := 0
	for i := range r.Trips {
		t := &r.Trips[i]
		if tripKey(t.ID) == "" {
			continue
		}
		nIDd++
		d, ok := wantTrips[tripKey(t.ID)]
		if !ok {
			viols = append(viols, Viol{"c02-invented-trip", fmt.Sprintf("trip %q is not mentioned in the message", t.ID.ID)})
			continue
		}
		viols = append(viols, checkTripID(t.ID, d, loc, "trip "+t.ID.ID)...)
		tu, own := ownTrip[tripKey(t.ID)]
		if t.IsEntityInMessage != own {
			viols = append(viols, Viol{"c02-inmessage", fmt.Sprintf("trip %q: inMessage=%v, has an entity of its own: %v", t.ID.ID, t.IsEntityInMessage, own)})
		}
		if own {
			ws := ga(tu, "stus")
			if len(ws) != len(t.StopTimeUpdates) {
				viols = append(viols, Viol{"c02-stus", fmt.Sprintf("trip %q: %d stop time updates, wire %d", t.ID.ID, len(t.StopTimeUpdates), len(ws))})
			} else {
				for k, w := range ws {
					s := &t.StopTimeUpdates[k]
					where := fmt.Sprintf("trip %q update %d", t.ID.ID, k)
					if !reflect.DeepEqual(s.StopID, gsp(w, "stopId")) || (s.StopSequence == nil) != !has(w, "stopSequence") ||
						(s.StopSequence != nil && int64(*s.StopSequence) != gi(w, "stopSequence")) || int64(s.ScheduleRelationship) != gi(w, "sr") {
						viols = append(viols, Viol{"c02-stu", where + ": stop id / sequence / relationship differ from the wire"})
					}
					viols = append(viols, checkEvent(s.Arrival, gm(w, "arrival"), loc, where+" arrival")...)
					viols = append(viols, checkEvent(s.Departure, gm(w, "departure"), loc, where+" departure")...)
				}
				if len(ws) > 0 {
					tags["stop-time-updates"] = true
				}
			}
		} else if len(t.StopTimeUpdates) != 0 {
			viols = append(viols, Viol{"c02-stus", fmt.Sprintf("trip %q has no entity of its own but carries stop time updates", t.ID.ID)})
		}
	}
	if nIDd != len(wantTrips) {
		viols = append(viols, Viol{"c02-trip-count", fmt.Sprintf("%d trips with an id in the result, %d distinct trip descriptors with an id in the message", nIDd, len(wantTrips))})
	}
	nV, nIdless := 0, 0
	for j := range r.Vehicles {
		v := &r.Vehicles[j]
		if v.ID == nil {
			nIdless++
			continue
		}
		nV++
		if !wantVeh[*v.ID] {
			viols = append(viols, Viol{"c02-invented-vehicle", fmt.Sprintf("vehicle %+v is not mentioned in the message", *v.ID)})
			continue
		}
		vp, own := ownVeh[*v.ID]
		if v.IsEntityInMessage != own {
			viols = append(viols, Viol{"c02-inmessage", fmt.Sprintf("vehicle %+v: inMessage=%v, own entity: %v", *v.ID, v.IsEntityInMessage, own)})
		}
		if own {
			if (v.Timestamp == nil) != !has(vp, "timestamp") || (v.Timestamp != nil && (v.Timestamp.Unix() != gi(vp, "timestamp") || v.Timestamp.Location().String() != loc.String())) {
				viols = append(viols, Viol{"c02-vehicle-time", fmt.Sprintf("vehicle %+v: timestamp %v, wire %v", *v.ID, v.Timestamp, vp["timestamp"])})
			}
			if (v.Position == nil) != (gm(vp, "position") == nil) || !reflect.DeepEqual(v.StopID, gsp(vp, "stopId")) ||
				(v.CurrentStopSequence == nil) != !has(vp, "currentStopSequence") || (v.CurrentStatus == nil) != !has(vp, "currentStatus") ||
				(v.OccupancyStatus == nil) != !has(vp, "occupancyStatus") || (v.OccupancyPercentage == nil) != !has(vp, "occupancyPercentage") ||
				int64(v.CongestionLevel) != gi(vp, "congestionLevel") {
				viols = append(viols, Viol{"c02-vehicle-fields", fmt.Sprintf("vehicle %+v: a field's presence or value differs from the wire", *v.ID)})
			}
			tags["own-vehicle"] = true
		} else if v.Position != nil || v.Timestamp != nil || v.StopID != nil {
			viols = append(viols, Viol{"c02-vehicle-fields", fmt.Sprintf("vehicle %+v is only referenced but carries data", *v.ID)})
		}
	}
	if nV != len(wantVeh) || nIdless != idless {
		viols = append(viols, Viol{"c02-vehicle-count", fmt.Sprintf("%d vehicles with id (+%d without) in the result; the message mentions %d (+%d without)", nV, nIdless, len(wantVeh), idless)})
	}
	if len(r.Alerts) != len(alertEnts) {
		viols = append(viols, Viol{"c02-alert-count", fmt.Sprintf("%d alerts, %d alert entities", len(r.Alerts), len(alertEnts))})
	} else {
		for k, e := range alertEnts {
			a, w := r.Alerts[k], gm(e, "alert")
			wc, we := int64(1), int64(8)
			if has(w, "cause") {
				wc = gi(w, "cause")
			}
			if has(w, "effect") {
				we = gi(w, "effect")
			}
			if a.ID != gs(e, "id") || int64(a.Cause) != wc || int64(a.Effect) != we || len(a.ActivePeriods) != len(ga(w, "activePeriods")) ||
				len(a.Header) != len(ga(w, "header")) || len(a.Description) != len(ga(w, "description")) || len(a.URL) != len(ga(w, "url")) {
				viols = append(viols, Viol{"c02-alert", fmt.Sprintf("alert %d (%q) differs from its entity in id, cause, effect or the number of periods/texts", k, a.ID)})
				continue
			}
			for q, p := range ga(w, "activePeriods") {
				ap := a.ActivePeriods[q]
				for _, x := range []struct {
					t *time.Time
					k string
				}{{ap.StartsAt, "start"}, {ap.EndsAt, "end"}} {
					if (x.t == nil) != !has(p, x.k) || (x.t != nil && (x.t.Unix() != gi(p, x.k) || x.t.Location().String() != loc.String())) {
						viols = append(viols, Viol{"c02-alert-period", fmt.Sprintf("alert %q period %d %s: %v, wire %v", a.ID, q, x.k, x.t, p.(map[string]any)[x.k])})
					}
				}
			}
			tags["alert"] = true
		}
	}
	return viols, tagList(tags), len(ents) < 2
}
