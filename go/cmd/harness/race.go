package main

import (
	"crypto/sha256"
	"encoding/json"
	"flag"
	"fmt"
	"os"
	"sync"
	"sync/atomic"
	"time"
	"unicode/utf16"
	"unicode/utf8"

	"github.com/jamespfennell/gtfs"
)

// `harness race` (built with -race): many goroutines parse concurrently over shared input buffers
// and ONE shared options value per extension configuration; every result is compared with the
// result of the same call made alone, and results are hashed / walked from other goroutines.
// Data races are reported by the Go race detector (exit code 66, log in --racelog).

type raceTask struct {
	static  bool
	zip     []byte
	inherit bool
	msg     []byte
	opts    *gtfs.ParseRealtimeOptions
	in      map[string]any
	want    string
	desc    string
}

func canonStaticBytes(z []byte, inherit bool) string {
	s, err := gtfs.ParseStatic(z, gtfs.ParseStaticOptions{InheritWheelchairBoarding: inherit})
	if err != nil {
		return "error"
	}
	cj, _ := canonStatic(s)
	return mustJSON(normAny(cj))
}

func init() {
	extraCmds["race"] = cmdRace
}

func cmdRace(args []string) int {
	fs := flag.NewFlagSet("race", flag.ExitOnError)
	tier := fs.String("tier", "quick", "")
	seed := fs.Uint64("seed", 1, "")
	out := fs.String("out", "", "")
	replays := fs.String("replays", "", "")
	fs.String("prop", "C18", "")
	fs.String("driver", "", "")
	fs.String("known", "", "")
	fs.String("replay", "", "")
	fs.Parse(args)
	realStdout := os.Stdout
	quiet()
	_ = realStdout
	start := time.Now()
	r := NewRng(*seed)
	// a fixed amount of work per goroutine (so that the evidence describes the same run on a loaded and on an idle
	// machine), under a generous wall-clock cap
	iters, dur := 500, 4*time.Minute
	if *tier == "thorough" {
		iters, dur = 25000, 30*time.Minute
	}
	// tasks
	var tasks []*raceTask
	for i := 0; i < 10; i++ {
		f := genFeed(r, feedOpts{messy: i%2 == 1})
		ms := f.members(r, false, nil)
		enc := "plain"
		switch {
		case i >= 8:
			// every table as UTF-16 (little endian) behind its byte-order mark
			enc = "utf-16le+bom"
			for k := range ms {
				if utf8.ValidString(ms[k].data) {
					u := utf16.Encode([]rune(ms[k].data))
					b := []byte{0xFF, 0xFE}
					for _, c := range u {
						b = append(b, byte(c), byte(c>>8))
					}
					ms[k].data = string(b)
				}
			}
		case i >= 6:
			// every table behind a UTF-8 byte-order mark (the decoding layer of the csv package is in use)
			enc = "utf-8+bom"
			for k := range ms {
				ms[k].data = "\xEF\xBB\xBF" + ms[k].data
			}
		}
		z := zipOf(ms, i%2 == 0)
		inh := i%3 == 0
		tasks = append(tasks, &raceTask{static: true, zip: z, inherit: inh, want: canonStaticBytes(z, inh), desc: fmt.Sprintf("ParseStatic feed %d (%s) inherit=%v", i, enc, inh)})
	}
	for cfg := 0; cfg < 25; cfg += 2 {
		ext := extConfig(cfg)
		g := rtGen{}
		if ext != nil && gs(ext, "kind") == "nycttrips" {
			g = rtGen{nyctTrips: true}
		} else if ext != nil {
			g = rtGen{nyctAlerts: true}
		}
		in0 := map[string]any{"zone": "America/New_York", "ext": ext}
		shared := optsOf(in0) // ONE options value (and extension object) for every goroutine
		for k := 0; k < 3; k++ {
			c := g.gencase(r)
			if ext != nil && gs(ext, "kind") == "nyctalerts" {
				ents := ga(gm(c, "msg"), "entities")
				for _, id := range []string{"A27N#EL1", "A27S#EL1", "E01N#EL1"} {
					ents = append(ents, map[string]any{"id": id, "alert": map[string]any{"informed": []any{map[string]any{"stopId": "x"}}}})
				}
				gm(c, "msg")["entities"] = ents
			}
			in := map[string]any{"zone": "America/New_York", "ext": ext, "msg": c["msg"]}
			b := marshalMsg(gm(in, "msg"))
			// the expectation: the same call made alone (with its own fresh options)
			alone, err := gtfs.ParseRealtime(b, optsOf(in0))
			want := "error"
			if err == nil {
				cj, _ := canonOf(in, alone)
				want = mustJSON(normAny(cj))
			}
			tasks = append(tasks, &raceTask{msg: b, opts: shared, in: in, want: want, desc: fmt.Sprintf("ParseRealtime config %d message %d", cfg, k)})
		}
	}
	// a configuration with no extension and a nil zone shares one options value too (the default
	// extension must not be written into it)
	bare := &gtfs.ParseRealtimeOptions{}
	for k := 0; k < 3; k++ {
		c := (&rtGen{}).gencase(r)
		in := map[string]any{"zone": "nil", "msg": c["msg"]}
		b := marshalMsg(gm(in, "msg"))
		alone, _ := gtfs.ParseRealtime(b, &gtfs.ParseRealtimeOptions{})
		cj, _ := canonOf(in, alone)
		tasks = append(tasks, &raceTask{msg: b, opts: bare, in: in, want: mustJSON(normAny(cj)), desc: fmt.Sprintf("ParseRealtime shared zero options message %d", k)})
	}

	var evals, mismatches int64
	var mu sync.Mutex
	var firstMismatch string
	type shared struct {
		rt *gtfs.Realtime
		st *gtfs.Static
	}
	results := make(chan shared, 64)
	stop := time.Now().Add(dur)
	var wg sync.WaitGroup
	for gidx := 0; gidx < 16; gidx++ {
		wg.Add(1)
		go func(gidx int) {
			defer wg.Done()
			lr := NewRng(*seed*1000 + uint64(gidx))
			for it := 0; it < iters && time.Now().Before(stop); it++ {
				t := tasks[lr.Intn(len(tasks))]
				got := ""
				if t.static {
					s, err := gtfs.ParseStatic(t.zip, gtfs.ParseStaticOptions{InheritWheelchairBoarding: t.inherit})
					if err != nil {
						got = "error"
					} else {
						cj, _ := canonStatic(s)
						got = mustJSON(normAny(cj))
						select {
						case results <- shared{st: s}:
						default:
						}
					}
				} else {
					rr, err := gtfs.ParseRealtime(t.msg, t.opts)
					if err != nil {
						got = "error"
					} else {
						cj, _ := canonOf(t.in, rr)
						got = mustJSON(normAny(cj))
						select {
						case results <- shared{rt: rr}:
						default:
						}
					}
				}
				atomic.AddInt64(&evals, 1)
				if got != t.want {
					atomic.AddInt64(&mismatches, 1)
					mu.Lock()
					if firstMismatch == "" {
						var a, b any
						json.Unmarshal([]byte(t.want), &a)
						json.Unmarshal([]byte(got), &b)
						firstMismatch = t.desc + ": " + diff("", a, b)
					}
					mu.Unlock()
				}
				// read a result another goroutine produced
				select {
				case x := <-results:
					if x.rt != nil {
						h := sha256.New()
						for i := range x.rt.Trips {
							x.rt.Trips[i].Hash(h)
						}
						for i := range x.rt.Vehicles {
							x.rt.Vehicles[i].Hash(h)
						}
					}
					if x.st != nil {
						for i := range x.st.Stops {
							x.st.Stops[i].Root()
						}
					}
				default:
				}
			}
		}(gidx)
	}
	wg.Wait()
	sum := Summary{Property: "C18", Tier: *tier, Seed: *seed, Evaluations: int(evals), DistinctNontrivial: len(tasks),
		Rule: "16 goroutines, 500 calls each (thorough: 25 000 each), run ParseStatic on 10 shared archives (two with every table behind a UTF-8 byte-order mark, two in UTF-16 behind its mark) and ParseRealtime on 42 shared messages under 13 extension configurations, each configuration sharing ONE options value and extension object across all goroutines (plus a shared zero-valued options value); every result is compared with the same call made alone, results are hashed and walked from other goroutines; the binary is built with -race; distinct_nontrivial counts the distinct tasks",
		Tags: map[string]int{"tasks": len(tasks), "mismatches": int(mismatches)}, KnownSeen: map[string]int{}, Validated: int(evals - mismatches)}
	for _, t := range tasks[:3] {
		sum.Samples = append(sum.Samples, t.desc)
	}
	if mismatches > 0 {
		rp := writeReplay(*replays, "C18", *seed, 0, "failing-input", map[string]any{"kind": "race", "seed": *seed}, "a call made concurrently returned something else than the same call made alone: "+firstMismatch, "")
		sum.Findings = append(sum.Findings, Finding{Kind: "violation", Sig: "c18-result", What: firstMismatch, Replay: rp})
		sum.ViolatingCases = 1
	}
	sum.WallS = time.Since(start).Seconds()
	b, _ := json.MarshalIndent(sum, "", " ")
	if *out != "" {
		os.WriteFile(*out, b, 0o644)
	}
	return 0
}
