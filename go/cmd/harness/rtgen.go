package main

import (
	"fmt"
	"sync"
	"time"
)

// ---------- generator of decoded feed messages ----------

type rtGen struct {
	conflictFree bool // every trip/vehicle has at most one own entity, one descriptor per trip, functional associations
	nearDup      bool // sometimes two trips of the pool differ in exactly one field of the identifier (absent vs zero-like value)
	nyctTrips    bool // NYCT trip/stop-time extension data and NYCT-format ids
	nyctAlerts   bool // Mercury extension data, elevator ids, lmm: prefixes
	alertsOnly   bool
	zones        []string
	// conflict-free messages may express the association with an id-less vehicle by a trip update whose vehicle
	// descriptor is present but empty (inside C04's quantifier, outside C02's)
	emptyTUVehicle bool
}

var allZones = []string{"nil", "UTC", "fixed:19800", "fixed:-12600", "fixed:3600", "fixed:-18000", "fixed:28800", "America/New_York", "Europe/London", "Asia/Kolkata", "Australia/Lord_Howe"}

var stopPool = []string{"A01N", "A01S", "M11N", "M11S", "M12N", "M16S", "M18X", "M11", "L03", "R20N", "", "635S"}

func genStartTime(r *Rng) string {
	switch r.Intn(8) {
	case 1:
		// boundary values: midnight parses to the zero duration an absent start time also has
		return r.Pick([]string{"00:00:00", "00:00:00", "00:00:01", "00:01:00", "23:59:59", "24:00:00", "99:99:99", "00:00:60"})
	case 0:
		return r.Pick([]string{"1:02:03", "25:61:61", "aa:bb:cc", "", "12:34:56 ", "123:00:00"})
	default:
		return fmt.Sprintf("%02d:%02d:%02d", r.Intn(100), r.Intn(100), r.Intn(100))
	}
}

// dstDays lists, per named zone, the civil dates 1990-2034 on which the zone's UTC offset changes
// (computed from the zone database the implementation itself uses).
var (
	dstDaysOnce sync.Once
	dstDays     []string
)

func dstTransitionDays() []string {
	dstDaysOnce.Do(func() {
		for _, z := range allZones {
			if !(z[0] >= 'A' && z[0] <= 'Z') || z == "UTC" {
				continue
			}
			loc, err := time.LoadLocation(z)
			if err != nil {
				continue
			}
			for y := 1990; y < 2035; y++ {
				t := time.Date(y, 1, 1, 0, 0, 0, 0, loc)
				for t.Year() == y {
					n := time.Date(y, t.Month(), t.Day()+1, 0, 0, 0, 0, loc)
					_, o1 := t.Zone()
					_, o2 := n.Zone()
					if o1 != o2 {
						dstDays = append(dstDays, t.Format("20060102"))
					}
					t = n
				}
			}
		}
	})
	return dstDays
}

func genStartDate(r *Rng, named bool) string {
	if named && r.P(1, 3) {
		// a day on which some generated zone changes its offset (it may or may not be the configured one)
		if ds := dstTransitionDays(); len(ds) > 0 {
			return r.Pick(ds)
		}
	}
	switch r.Intn(10) {
	case 2:
		// boundary dates: the Unix epoch, a leap day, year ends, year 1 (named zones keep to 1990-2034)
		if named {
			return r.Pick([]string{"20240229", "20231231", "20240101", "19900101", "20341231", "20230230"})
		}
		return r.Pick([]string{"19700101", "19691231", "20240229", "20231231", "00010101", "99991231", "20230230", "00000000"})
	case 0:
		return r.Pick([]string{"2024-01-01", "202401", "", "2024010a", "202401011"})
	case 1:
		if !named {
			return fmt.Sprintf("%04d%02d%02d", r.Intn(10000), r.Intn(100), r.Intn(100)) // normalised by time.Date
		}
		return fmt.Sprintf("%04d%02d%02d", 1990+r.Intn(45), r.Intn(14), r.Intn(33))
	default:
		y := 1990 + r.Intn(45)
		if !named && r.P(1, 4) {
			y = r.Intn(10000)
		}
		return fmt.Sprintf("%04d%02d%02d", y, 1+r.Intn(12), 1+r.Intn(28))
	}
}

func numEdge(r *Rng, bits int, signed bool) int64 {
	var max int64 = 1<<uint(bits-1) - 1
	switch r.Intn(7) {
	case 0:
		return 0
	case 1:
		return 1
	case 2:
		if signed {
			return -1
		}
		return 2
	case 3:
		return max
	case 4:
		if signed {
			return -max - 1
		}
		return max
	default:
		if signed {
			return int64(r.U64()%uint64(max)) - max/2
		}
		return int64(r.U64() % uint64(max))
	}
}

func (g *rtGen) tripDesc(r *Rng, k int, named bool) map[string]any {
	d := map[string]any{}
	if k == 0 && !g.nyctTrips && r.P(1, 10) {
		// the all-default descriptor (`trip {}`): a legitimate, if unusual, trip whose identifier is the
		// zero value - the key a missing map entry also yields. At most one per pool (it is one trip).
		if r.P(1, 2) {
			d["sr"] = 0
		}
		return d
	}
	ids := []string{"trip-%d", "T%d", "%06d_A..N", "%06d_GS.S01R", "%06d_1..N03R", "%06d_é..N", "%06d_AB..S"}
	f := r.Pick(ids)
	if g.nyctTrips && r.P(2, 3) {
		f = r.Pick(ids[2:])
	}
	if f[0] == '%' {
		// origin time: anywhere in 000000-599999 (sometimes beyond); the pool index keeps ids distinct
		o := r.Intn(600000)
		if r.P(1, 10) {
			o = 600000 + r.Intn(400000)
		}
		d["tripId"] = bstr(fmt.Sprintf(f, o) + fmt.Sprintf("%d", k))
	} else {
		d["tripId"] = bstr(fmt.Sprintf(f, k))
	}
	if r.P(2, 3) {
		d["routeId"] = bstr(r.Pick([]string{"A", "M", "GS", "1", "", "a", " A", "A ", "R&D", "é", "0"}))
	}
	if r.P(1, 2) {
		d["directionId"] = r.Pick3(0, 1, 7)
	}
	if r.P(1, 2) {
		d["startTime"] = bstr(genStartTime(r))
	}
	if r.P(1, 2) {
		d["startDate"] = bstr(genStartDate(r, named))
	}
	if r.P(1, 3) {
		d["sr"] = r.Intn(4)
	}
	if g.nyctTrips && r.P(3, 4) {
		n := map[string]any{}
		if r.P(3, 4) {
			n["trainId"] = bstr(r.Pick([]string{"06 0123+ PEL/BBR", "1A 1200 X/Y", "", "0B 0001 Z", " ", "é"}))
		}
		if r.P(3, 4) {
			n["isAssigned"] = r.Bool()
		}
		if r.P(3, 4) {
			n["direction"] = 1 + r.Intn(4)
		}
		d["nyct"] = n
	}
	return d
}

func (r *Rng) Pick3(a, b, c int) int { return []int{a, b, c}[r.Intn(3)] }

func (g *rtGen) event(r *Rng, base int64) any {
	if r.P(1, 5) {
		return nil
	}
	m := map[string]any{}
	if r.P(3, 4) {
		if r.P(1, 6) {
			m["time"] = numEdge(r, 64, true)
		} else {
			m["time"] = base + int64(r.Intn(2000)) - 1000
		}
	}
	if r.P(1, 3) {
		m["delay"] = numEdge(r, 32, true)
	}
	if r.P(1, 3) {
		m["uncertainty"] = numEdge(r, 32, true)
	}
	return m
}

func (g *rtGen) stus(r *Rng, base int64) []any {
	n := r.Intn(5)
	bySequence := false
	if r.P(1, 25) {
		// a long run of updates, half of the time identified by stop_sequence only (no stop id anywhere)
		n = 5 + r.Intn(40)
		bySequence = r.Bool()
	}
	out := []any{}
	for i := 0; i < n; i++ {
		s := map[string]any{"arrival": g.event(r, base), "departure": g.event(r, base)}
		if !bySequence && r.P(5, 6) {
			s["stopId"] = bstr(r.Pick(stopPool))
		}
		if r.P(1, 2) {
			s["stopSequence"] = numEdge(r, 32, false)
		}
		if r.P(1, 3) {
			s["sr"] = r.Intn(3)
		}
		if g.nyctTrips && r.P(2, 3) {
			n := map[string]any{}
			if r.P(2, 3) {
				n["scheduledTrack"] = bstr(r.Pick([]string{"1", "A2", "", " ", "0", "é"}))
			}
			if r.P(1, 2) {
				n["actualTrack"] = bstr(r.Pick([]string{"2", "B1", "", " ", "0", "é"}))
			}
			s["nyct"] = n
		}
		out = append(out, s)
	}
	return out
}

var vehPool = []map[string]any{
	{"id": "V1"}, {"id": "V2", "label": "L2"}, {"label": "only-label"}, {"licensePlate": "LP-1"}, {"id": "V1", "label": "other"}, {"id": "10"}, {"id": "9"},
	// vehicles that differ only in a later component of the identifier: the order among them is decided by that component
	{"id": "V2", "label": "L2", "licensePlate": "P2"}, {"id": "V2", "label": "L2", "licensePlate": "P1"}, {"label": "only-label", "licensePlate": "Q"}, {"licensePlate": "LP-0"},
}

// descriptors whose fields are present but empty: they identify nothing, the vehicle is an id-less one
var emptyVehDescs = []map[string]any{{"id": ""}, {"label": ""}, {"id": "", "label": "", "licensePlate": ""}, {"licensePlate": ""}}

func (g *rtGen) vehiclePosition(r *Rng, base int64) map[string]any {
	vp := map[string]any{}
	if r.P(2, 3) {
		p := map[string]any{"latitude": numEdge(r, 32, false), "longitude": numEdge(r, 32, false)}
		for _, k := range []string{"bearing", "speed"} {
			if r.P(1, 2) {
				p[k] = numEdge(r, 32, false)
			}
		}
		if r.P(1, 2) {
			p["odometer"] = numEdge(r, 63, false)
		}
		vp["position"] = p
	}
	if r.P(1, 2) {
		vp["currentStopSequence"] = numEdge(r, 32, false)
	}
	if r.P(1, 2) {
		vp["stopId"] = bstr(r.Pick(stopPool))
	}
	if r.P(1, 2) {
		vp["currentStatus"] = r.Intn(3)
	}
	if r.P(1, 2) {
		if r.P(1, 8) {
			vp["timestamp"] = r.U64()
		} else {
			vp["timestamp"] = base + int64(r.Intn(100))
		}
	}
	if r.P(1, 2) {
		vp["congestionLevel"] = r.Intn(5)
	}
	if r.P(1, 2) {
		vp["occupancyStatus"] = r.Intn(9)
		if r.P(1, 8) {
			vp["occupancyStatus"] = r.Pick3(9, 100, 2147483647) // values outside the enumeration are carried as they are
		}
	}
	if r.P(1, 2) {
		vp["occupancyPercentage"] = numEdge(r, 32, false)
	}
	return vp
}

func translations(r *Rng) any {
	n := r.Intn(3)
	out := []any{}
	for i := 0; i < n; i++ {
		t := map[string]any{"text": bstr(r.Pick([]string{"Delays", "", "Planned work, \"quoted\"", "日本"}))}
		if r.P(1, 2) {
			t["language"] = bstr(r.Pick([]string{"en", "", "en-html"}))
		}
		out = append(out, t)
	}
	return out
}

var sortOrders = []string{":7", ":", "", "MTASBWY:A:19", "MTASBWY:M:2", "MTASBWY:1:3", "x:4", "nocolon", "a:b:", "a:+22", "a:-1", "a:40", "a:99", "a: 5", "a:1", "a:7", "a:15", "a:31"}

func (g *rtGen) selector(r *Rng, trips []map[string]any) map[string]any {
	s := map[string]any{}
	if r.P(1, 4) {
		s["agencyId"] = bstr(r.Pick([]string{"MTA", "", "mta", " MTA", "M&T", "0"}))
	}
	if r.P(1, 3) {
		s["routeId"] = bstr(r.Pick([]string{"A", "M", "B1", "", "a", "A ", "Q44", "é"}))
	}
	if r.P(1, 4) {
		// every value around the known ones (0-7, 11, 12), the gap 8-10, and far values
		if r.P(3, 4) {
			s["routeType"] = r.Intn(15) - 1
		} else {
			s["routeType"] = []int{99, 100, 700, 1700, 2147483647, -2147483648}[r.Intn(6)]
		}
	}
	if r.P(1, 4) {
		s["directionId"] = r.Intn(2)
	}
	if r.P(1, 3) {
		s["stopId"] = bstr(r.Pick(stopPool))
	}
	switch r.Intn(5) {
	case 0: // a known trip, same descriptor
		if len(trips) > 0 {
			s["trip"] = deepCopyJSON(trips[r.Intn(len(trips))])
		}
	case 1, 2: // route-only descriptor (the MTA bus alerts shape)
		d := map[string]any{"routeId": bstr(r.Pick([]string{"B1", "B2", "A", "Q44", "", "a", "A ", "é", "b1"}))}
		if r.P(1, 2) {
			d["directionId"] = r.Intn(2)
		}
		if r.P(1, 4) {
			d["startTime"] = bstr("10:00:00")
		}
		if r.P(1, 4) {
			d["startDate"] = bstr("20240102")
		}
		if r.P(1, 8) {
			d["tripId"] = bstr("")
		}
		s["trip"] = d
	}
	if g.nyctAlerts && r.P(2, 3) {
		s["mercurySortOrder"] = bstr(r.Pick(sortOrders))
	}
	return s
}

var elevatorIDs = []string{"A27N#EL123", "A27S#EL123", "E01N#EL123", "E01S#EL123", "A27N#EL124", "L03#EL5", "L03N#EL5", "R20N#EL77X", "xxA27N#EL9", "A2#EL1", "#EL2", "A27N#EL", "635S#EL700"}

func (g *rtGen) alert(r *Rng, k int, trips []map[string]any, base int64) (string, map[string]any) {
	a := map[string]any{}
	n := r.Intn(3)
	ps := []any{}
	for i := 0; i < n; i++ {
		p := map[string]any{}
		if r.P(2, 3) {
			p["start"] = base + int64(r.Intn(1000))
			if r.P(1, 8) {
				p["start"] = []any{0, 1, r.U64()}[r.Intn(3)]
			}
		}
		if r.P(1, 2) {
			if r.P(1, 10) {
				p["end"] = r.U64()
			} else {
				p["end"] = base + 5000
			}
		}
		ps = append(ps, p)
	}
	a["activePeriods"] = ps
	ns := r.Intn(5)
	sels := []any{}
	for i := 0; i < ns; i++ {
		sels = append(sels, g.selector(r, trips))
	}
	if r.P(1, 6) {
		// an alert naming several trips that have no entity of their own (more trips than entities in a small message)
		for j, m := 0, 2+r.Intn(7); j < m; j++ {
			d := map[string]any{"tripId": bstr(fmt.Sprintf("only-in-alert-%d-%d", k, j))}
			if r.P(1, 3) {
				d["routeId"] = bstr(r.Pick([]string{"A", "B1", "Q44"}))
			}
			sels = append(sels, map[string]any{"trip": d})
		}
	}
	a["informed"] = sels
	if r.P(1, 2) {
		a["cause"] = 1 + r.Intn(12)
		if r.P(1, 8) {
			a["cause"] = r.Pick3(0, 13, 1000)
		}
	}
	if r.P(1, 2) {
		a["effect"] = 1 + r.Intn(11)
		if r.P(1, 8) {
			a["effect"] = r.Pick3(0, 12, 1000)
		}
	}
	for _, k := range []string{"url", "header", "description"} {
		if r.P(1, 2) {
			a[k] = translations(r)
		}
	}
	id := fmt.Sprintf("alert-%d", k)
	if g.nyctAlerts {
		switch r.Intn(4) {
		case 0:
			id = r.Pick(elevatorIDs)
		case 1:
			id = r.Pick([]string{"lmm:planned_work:1", "lmm:alert:22", "lmm:other:3", "lmm:alertA27N#EL5"})
		}
		if r.P(1, 2) {
			a["hasMercuryAlert"] = true
			a["mercuryVariant"] = r.Intn(16)
		}
	}
	return id, a
}

// message builds a message and returns it together with the pool of trip descriptors used.
func (g *rtGen) message(r *Rng, named bool) map[string]any {
	base := int64(1700000000 + r.Intn(100000))
	nTrips, nVeh := r.Intn(6), r.Intn(5)
	// one message in thirty is wide: dozens of trips and vehicles (sizes at which pre-sized slices, slabs and
	// fixed capacities of the parser stop fitting)
	wide := r.P(1, 30)
	if wide {
		nTrips, nVeh = 10+r.Intn(40), len(vehPool)
	}
	var trips []map[string]any
	for i := 0; i < nTrips; i++ {
		trips = append(trips, g.tripDesc(r, i, named))
	}
	if g.nearDup && nTrips >= 2 && r.P(1, 3) {
		// trips[1] := trips[0] with one identifier field toggled between absent and a value whose parsed form is the
		// zero of its type (or the smallest non-zero): two distinct identifiers that an imprecise comparison ties
		d := deepCopyJSON(trips[0]).(map[string]any)
		if _, ok := d["tripId"]; ok {
			toggle := func(k string, v any) {
				if _, has := d[k]; has {
					delete(d, k)
				} else {
					d[k] = v
				}
			}
			switch r.Intn(5) {
			case 0:
				delete(d, "startTime")
				delete(trips[0], "startTime")
				switch r.Intn(3) {
				case 0:
					d["startTime"] = bstr(r.Pick([]string{"00:00:00", "00:00:01"}))
				case 1:
					trips[0]["startTime"] = bstr(r.Pick([]string{"00:00:00", "00:00:01"}))
				default:
					// both present and different: the order between them is by start time
					pair := [][2]string{{"00:00:01", "00:00:02"}, {"10:00:00", "09:00:00"}, {"00:00:00", "23:59:59"}, {"24:00:00", "23:59:59"}}[r.Intn(4)]
					trips[0]["startTime"], d["startTime"] = bstr(pair[0]), bstr(pair[1])
				}
			case 1:
				delete(d, "startDate")
				delete(trips[0], "startDate")
				if r.Bool() {
					d["startDate"] = bstr(r.Pick([]string{"19700101", "00010101", "20240102"}))
				} else {
					pair := [][2]string{{"20240102", "20240103"}, {"20241231", "20240101"}, {"19700101", "19691231"}}[r.Intn(3)]
					trips[0]["startDate"], d["startDate"] = bstr(pair[0]), bstr(pair[1])
				}
			case 2:
				delete(d, "directionId")
				delete(trips[0], "directionId")
				d["directionId"] = r.Intn(2)
			case 3:
				d["sr"] = 1 + r.Intn(3)
				delete(trips[0], "sr")
			default:
				toggle("routeId", bstr("A"))
				if gs(d, "routeId") == gs(trips[0], "routeId") {
					d["routeId"] = bstr("ZZ")
				}
			}
			trips[1] = d
		}
	}
	if g.nyctTrips && nTrips >= 2 && r.P(1, 4) {
		// the same trip_id (and start date) on another route, with an NYCT descriptor of its own: two different
		// trips whose derived fields must each follow their own descriptor
		d := deepCopyJSON(trips[0]).(map[string]any)
		if _, ok := d["tripId"]; ok {
			route := "TW"
			if gs(trips[0], "routeId") == route {
				route = "TX"
			}
			d["routeId"] = bstr(route)
			n := map[string]any{}
			if r.P(3, 4) {
				n["trainId"] = bstr("0T 0001 TWIN/TWIN")
			}
			if r.P(3, 4) {
				n["isAssigned"] = r.Bool()
			}
			if r.P(3, 4) {
				n["direction"] = 1 + r.Intn(4)
			}
			d["nyct"] = n
			trips[1] = d
		}
	}
	vehs := []map[string]any{}
	for _, i := range r.Perm(len(vehPool))[:nVeh] {
		vehs = append(vehs, deepCopyJSON(vehPool[i]).(map[string]any))
	}
	if wide {
		for k := 0; k < nTrips; k++ {
			vehs = append(vehs, map[string]any{"id": bstr(fmt.Sprintf("W%d", k))})
		}
	}
	ents := []any{}
	k := 0
	add := func(e map[string]any) {
		k++
		if _, ok := e["id"]; !ok {
			e["id"] = fmt.Sprintf("e%d", k)
		}
		ents = append(ents, e)
	}
	if !g.alertsOnly {
		if g.conflictFree {
			// pairing trip -> vehicle (partial, injective); -1 = an id-less vehicle position of its own
			pair := map[int]int{}
			usedV := map[int]bool{}
			for i := range trips {
				switch r.Intn(4) {
				case 0:
					if len(vehs) > 0 {
						v := r.Intn(len(vehs))
						if !usedV[v] {
							usedV[v] = true
							pair[i] = v
						}
					}
				case 1:
					pair[i] = -1
				}
			}
			vpTrip := map[int]int{}
			for t, v := range pair {
				if v >= 0 {
					vpTrip[v] = t
				}
			}
			for i, t := range trips {
				v, paired := pair[i]
				hasTU := r.P(3, 4)
				// an id-less vehicle can also come from the trip update itself: a vehicle descriptor that is
				// present but identifies nothing (several of them outgrow any "one per vehicle position" bound)
				viaTU := g.emptyTUVehicle && paired && v == -1 && r.P(1, 3)
				if hasTU || viaTU {
					tu := map[string]any{"trip": deepCopyJSON(t), "stus": g.stus(r, base)}
					if paired && v >= 0 && r.P(2, 3) {
						tu["vehicle"] = deepCopyJSON(vehs[v])
					}
					if viaTU {
						if r.Bool() {
							tu["vehicle"] = map[string]any{}
						} else {
							tu["vehicle"] = deepCopyJSON(emptyVehDescs[r.Intn(len(emptyVehDescs))])
						}
					}
					add(map[string]any{"tripUpdate": tu})
				}
				if paired && v == -1 && !viaTU {
					vp := g.vehiclePosition(r, base)
					vp["trip"] = deepCopyJSON(t)
					if r.P(1, 3) {
						// a descriptor that is present but identifies nothing: still an id-less vehicle of its own
						vp["vehicle"] = deepCopyJSON(emptyVehDescs[r.Intn(len(emptyVehDescs))])
					}
					add(map[string]any{"vehicle": vp})
				}
			}
			for vi, v := range vehs {
				if !r.P(3, 4) {
					continue
				}
				vp := g.vehiclePosition(r, base)
				vp["vehicle"] = deepCopyJSON(v)
				if t, ok := vpTrip[vi]; ok && r.P(2, 3) {
					vp["trip"] = deepCopyJSON(trips[t])
				}
				add(map[string]any{"vehicle": vp})
			}
			if r.P(1, 4) {
				add(map[string]any{"vehicle": g.vehiclePosition(r, base)}) // no descriptor, no trip
			}
			if r.P(1, 6) {
				vp := g.vehiclePosition(r, base)
				vp["vehicle"] = deepCopyJSON(emptyVehDescs[r.Intn(len(emptyVehDescs))])
				add(map[string]any{"vehicle": vp})
			}
		} else {
			n := r.Intn(7)
			for i := 0; i < n; i++ {
				switch r.Intn(3) {
				case 0, 1:
					if len(trips) == 0 {
						continue
					}
					tu := map[string]any{"trip": deepCopyJSON(trips[r.Intn(len(trips))]), "stus": g.stus(r, base)}
					if r.P(1, 2) {
						if len(vehs) > 0 && r.P(3, 4) {
							tu["vehicle"] = deepCopyJSON(vehs[r.Intn(len(vehs))])
						} else if r.Bool() {
							tu["vehicle"] = map[string]any{} // empty descriptor
						} else {
							tu["vehicle"] = deepCopyJSON(emptyVehDescs[r.Intn(len(emptyVehDescs))])
						}
					}
					add(map[string]any{"tripUpdate": tu})
				default:
					vp := g.vehiclePosition(r, base)
					if len(vehs) > 0 && r.P(3, 4) {
						vp["vehicle"] = deepCopyJSON(vehs[r.Intn(len(vehs))])
					} else if r.P(1, 3) {
						vp["vehicle"] = deepCopyJSON(emptyVehDescs[r.Intn(len(emptyVehDescs))])
					}
					if len(trips) > 0 && r.P(1, 2) {
						vp["trip"] = deepCopyJSON(trips[r.Intn(len(trips))])
					}
					add(map[string]any{"vehicle": vp})
				}
			}
		}
	}
	nAlerts := r.Intn(3)
	if g.alertsOnly || g.nyctAlerts {
		nAlerts = 1 + r.Intn(6)
	}
	if g.nyctTrips {
		// the trips extension does not touch descriptors inside alerts: an alert naming an NYCT trip
		// would introduce the un-rewritten descriptor as a second trip, outside C16's statement
		nAlerts = 0
	}
	for i := 0; i < nAlerts; i++ {
		id, a := g.alert(r, i, trips, base)
		add(map[string]any{"id": bstr(id), "alert": a})
	}
	if r.P(1, 10) {
		add(map[string]any{}) // an entity with nothing in it
	}
	// shuffle
	perm := r.Perm(len(ents))
	sh := make([]any, len(ents))
	for i, p := range perm {
		sh[i] = ents[p]
	}
	msg := map[string]any{"entities": sh}
	if r.P(9, 10) {
		if r.P(1, 20) {
			msg["timestamp"] = r.U64()
		} else {
			msg["timestamp"] = base
		}
	}
	return msg
}

func (g *rtGen) gencase(r *Rng) map[string]any {
	zones := g.zones
	if zones == nil {
		zones = allZones
	}
	z := r.Pick(zones)
	named := len(z) > 0 && z[0] >= 'A' && z[0] <= 'Z' && z != "UTC"
	c := map[string]any{"kind": "realtime", "zone": z, "msg": g.message(r, named)}
	if g.nyctTrips {
		c["ext"] = map[string]any{"kind": "nycttrips", "filterStale": r.Bool(), "preserveM": r.Bool()}
	} else if g.nyctAlerts {
		c["ext"] = map[string]any{"kind": "nyctalerts", "policy": r.Pick([]string{"none", "station", "complex"}), "useStationIds": r.Bool(),
			"skipTimetabled": r.Bool(), "addMetadata": r.Bool()}
	}
	return c
}
