package main

import (
	"fmt"
	"math"
	"reflect"
	"sort"
	"strconv"
	"strings"
	"time"

	"github.com/jamespfennell/gtfs"
)

// truthTable reads a table of the case's "truth" section.
type ttable struct {
	header []string
	rows   [][]string
}

func truthOf(in map[string]any, file string) *ttable { return truthOfKey(in, "truth", file) }

func truthOfKey(in map[string]any, key, file string) *ttable {
	t := gm(gm(in, key), file)
	if t == nil {
		return nil
	}
	tt := &ttable{}
	for _, h := range ga(t, "header") {
		tt.header = append(tt.header, unbstr(h.(string)))
	}
	for _, r := range ga(t, "rows") {
		var row []string
		for _, c := range r.([]any) {
			row = append(row, unbstr(c.(string)))
		}
		tt.rows = append(tt.rows, row)
	}
	return tt
}

func (t *ttable) col(name string) int {
	for i, h := range t.header {
		if h == name {
			return i
		}
	}
	return -1
}

func (t *ttable) get(row []string, name string) string {
	i := t.col(name)
	if i < 0 || i >= len(row) {
		return ""
	}
	return row[i]
}

// the GTFS readings the statement names (independent of the library's decoders)
func gtfsSeconds(s string) (int64, bool) {
	s = strings.TrimSpace(s)
	parts := strings.Split(s, ":")
	if len(parts) != 3 {
		return 0, false
	}
	var v [3]int64
	for i, p := range parts {
		n, err := strconv.ParseInt(p, 10, 64)
		if err != nil {
			return 0, false
		}
		v[i] = n
	}
	return (v[0]*60+v[1])*60 + v[2], true
}

func exactFloat(s string) (uint64, bool) {
	f, err := strconv.ParseFloat(strings.TrimSpace(s), 64)
	if err != nil {
		return 0, false
	}
	return math.Float64bits(f), true
}

func digit(s string) int {
	n, err := strconv.Atoi(s)
	if err != nil {
		return -1
	}
	return n
}

type violList struct{ v []Viol }

func (l *violList) add(sig, f string, a ...any) {
	if len(l.v) < 20 {
		l.v = append(l.v, Viol{sig, fmt.Sprintf(f, a...)})
	}
}

// ---------- C01: every valid row is transcribed faithfully; presentation is irrelevant ----------

func checkDate(l *violList, t time.Time, cell, zone, where string) {
	tt := t
	if tt.Format("20060102 15:04:05") != cell+" 00:00:00" {
		l.add("c01-date", "%s: %v is not the start of day %s", where, t, cell)
	}
	if tt.Location().String() != zone {
		l.add("c01-date-zone", "%s: %v is expressed in %s, the first agency's zone is %s", where, t, tt.Location(), zone)
	}
}

func oracleC01(in map[string]any, main implStatic, variants []implStatic) ([]Viol, []string, bool) {
	l := &violList{}
	tags := map[string]bool{}
	if main.s == nil {
		return []Viol{{"c01-error", "a well-formed feed was rejected: " + fmt.Sprint(main.out)}}, nil, false
	}
	// presentation independence
	base := mustJSON(normAny(dropWarnings(main.out)))
	for i, v := range variants {
		if mustJSON(normAny(dropWarnings(v.out))) != base {
			l.add("c01-presentation", "presentation %d of the same tables parses differently: %s", i, diff("", normAny(dropWarnings(main.out)), normAny(dropWarnings(v.out))))
		}
	}
	s := main.s
	// agencies
	ag := truthOf(in, "agency.txt")
	zone := "UTC"
	if len(ag.rows) > 0 {
		if loc, err := time.LoadLocation(ag.get(ag.rows[0], "agency_timezone")); err == nil {
			zone = loc.String()
		}
	}
	if len(s.Agencies) != len(ag.rows) {
		l.add("c01-count", "agency.txt has %d rows, result has %d agencies", len(ag.rows), len(s.Agencies))
	} else {
		for i, row := range ag.rows {
			a := s.Agencies[i]
			want := []string{ag.get(row, "agency_id"), ag.get(row, "agency_name"), ag.get(row, "agency_url"), ag.get(row, "agency_timezone"), ag.get(row, "agency_lang"), ag.get(row, "agency_phone"), ag.get(row, "agency_fare_url"), ag.get(row, "agency_email")}
			got := []string{a.Id, a.Name, a.Url, a.Timezone, a.Language, a.Phone, a.FareUrl, a.Email}
			if !reflect.DeepEqual(got, want) {
				l.add("c01-agency", "agency row %d: %q, file says %q", i, got, want)
			}
		}
	}
	// routes
	rt := truthOf(in, "routes.txt")
	if len(s.Routes) != len(rt.rows) {
		l.add("c01-count", "routes.txt has %d rows, result has %d routes", len(rt.rows), len(s.Routes))
	} else {
		for i, row := range rt.rows {
			r := s.Routes[i]
			wantAgency := rt.get(row, "agency_id")
			if wantAgency == "" && len(ag.rows) == 1 {
				wantAgency = ag.get(ag.rows[0], "agency_id")
			}
			so := rt.get(row, "route_sort_order")
			okSort := (so == "" && r.SortOrder == nil) || (r.SortOrder != nil && strconv.Itoa(int(*r.SortOrder)) == so)
			if r.Id != rt.get(row, "route_id") || r.Agency == nil || r.Agency.Id != wantAgency || r.Color != rt.get(row, "route_color") || r.TextColor != rt.get(row, "route_text_color") ||
				r.ShortName != rt.get(row, "route_short_name") || r.LongName != rt.get(row, "route_long_name") || r.Description != rt.get(row, "route_desc") ||
				int(r.Type) != digit(rt.get(row, "route_type")) || r.Url != rt.get(row, "route_url") || !okSort ||
				int(r.ContinuousPickup) != digit(rt.get(row, "continuous_pickup")) || int(r.ContinuousDropOff) != digit(rt.get(row, "continuous_drop_off")) {
				l.add("c01-route", "route row %d: %+v does not carry the row's values %q", i, r, row)
			}
		}
	}
	// stops
	st := truthOf(in, "stops.txt")
	if len(s.Stops) != len(st.rows) {
		l.add("c01-count", "stops.txt has %d rows, result has %d stops", len(st.rows), len(s.Stops))
	} else {
		for i, row := range st.rows {
			x := s.Stops[i]
			lat, okLat := exactFloat(st.get(row, "stop_lat"))
			lon, okLon := exactFloat(st.get(row, "stop_lon"))
			if !okLat || !okLon || x.Latitude == nil || x.Longitude == nil || math.Float64bits(*x.Latitude) != lat || math.Float64bits(*x.Longitude) != lon {
				l.add("c01-stop-coord", "stop row %d: coordinates %v,%v are not exactly %q,%q", i, x.Latitude, x.Longitude, st.get(row, "stop_lat"), st.get(row, "stop_lon"))
			}
			parent := st.get(row, "parent_station")
			wantType := digit(st.get(row, "location_type"))
			if wantType <= 0 {
				wantType = 0
				if parent != "" {
					wantType = 5 // documented in enums.go: a stop with a parent is a platform
				}
			}
			wb := digit(st.get(row, "wheelchair_boarding"))
			if wb < 0 {
				wb = 0
			}
			parentOK := (parent == "" && x.Parent == nil) || (x.Parent != nil && x.Parent.Id == parent)
			if gb(in, "inherit") {
				wb = int(x.WheelchairBoarding) // inheritance is C10's business
			}
			if x.Id != st.get(row, "stop_id") || x.Code != st.get(row, "stop_code") || x.Name != st.get(row, "stop_name") || x.Description != st.get(row, "stop_desc") ||
				x.ZoneId != st.get(row, "zone_id") || x.Url != st.get(row, "stop_url") || int(x.Type) != wantType || !parentOK || x.Timezone != st.get(row, "stop_timezone") ||
				int(x.WheelchairBoarding) != wb || x.PlatformCode != st.get(row, "platform_code") {
				l.add("c01-stop", "stop row %d: %+v does not carry the row's values %q", i, x, row)
			}
			if x.Parent != nil {
				tags["parent-links"] = true
			}
		}
	}
	// transfers (rows with from = to are the known finding D20 and not generated here)
	tr := truthOf(in, "transfers.txt")
	var distinctRows [][]string
	for _, row := range tr.rows {
		if tr.get(row, "from_stop_id") != tr.get(row, "to_stop_id") {
			distinctRows = append(distinctRows, row)
		}
	}
	if len(s.Transfers) != len(tr.rows) && len(s.Transfers) == len(distinctRows) {
		// "one entity per data row" fails exactly for the rows whose two stops coincide (finding D20)
		l.add("transfer-same-stop-dropped", "transfers.txt has %d rows, result has %d transfers: the %d rows with from_stop_id = to_stop_id yield no Transfer", len(tr.rows), len(s.Transfers), len(tr.rows)-len(distinctRows))
	} else if len(s.Transfers) != len(tr.rows) {
		l.add("c01-count", "transfers.txt has %d rows, result has %d transfers", len(tr.rows), len(s.Transfers))
	} else {
		for i, row := range tr.rows {
			x := s.Transfers[i]
			mt := tr.get(row, "min_transfer_time")
			okMin := (mt == "" && x.MinTransferTime == nil) || (x.MinTransferTime != nil && strconv.Itoa(int(*x.MinTransferTime)) == mt)
			if x.From == nil || x.To == nil || x.From.Id != tr.get(row, "from_stop_id") || x.To.Id != tr.get(row, "to_stop_id") || int(x.Type) != digit(tr.get(row, "transfer_type")) || !okMin {
				l.add("c01-transfer", "transfer row %d: %+v does not carry the row's values %q", i, x, row)
			}
		}
	}
	// services
	cal := truthOf(in, "calendar.txt")
	cd := truthOf(in, "calendar_dates.txt")
	byID := map[string]*gtfs.Service{}
	for i := range s.Services {
		byID[s.Services[i].Id] = &s.Services[i]
	}
	wantIDs := map[string]bool{}
	for _, row := range cal.rows {
		id := cal.get(row, "service_id")
		wantIDs[id] = true
		sv := byID[id]
		if sv == nil {
			l.add("c01-service", "service %q of calendar.txt is missing", id)
			continue
		}
		flags := []bool{sv.Monday, sv.Tuesday, sv.Wednesday, sv.Thursday, sv.Friday, sv.Saturday, sv.Sunday}
		for d, name := range []string{"monday", "tuesday", "wednesday", "thursday", "friday", "saturday", "sunday"} {
			if flags[d] != (cal.get(row, name) == "1") {
				l.add("c01-service", "service %q: %s flag differs from the row", id, name)
			}
		}
		tags["calendar"] = true
	}
	added, removed := map[string][]string{}, map[string][]string{}
	for _, row := range cd.rows {
		id := cd.get(row, "service_id")
		wantIDs[id] = true
		if cd.get(row, "exception_type") == "1" {
			added[id] = append(added[id], cd.get(row, "date"))
		} else {
			removed[id] = append(removed[id], cd.get(row, "date"))
		}
	}
	if len(wantIDs) != len(s.Services) {
		l.add("c01-count", "%d distinct service ids in calendar.txt and calendar_dates.txt, result has %d services", len(wantIDs), len(s.Services))
	}
	for id := range wantIDs {
		sv := byID[id]
		if sv == nil {
			continue
		}
		if len(sv.AddedDates) != len(added[id]) || len(sv.RemovedDates) != len(removed[id]) {
			l.add("c01-service-dates", "service %q: %d added / %d removed dates, the file has %d / %d", id, len(sv.AddedDates), len(sv.RemovedDates), len(added[id]), len(removed[id]))
			continue
		}
		for k, d := range added[id] {
			checkDate(l, sv.AddedDates[k], d, zone, fmt.Sprintf("service %q added date %d", id, k))
		}
		for k, d := range removed[id] {
			checkDate(l, sv.RemovedDates[k], d, zone, fmt.Sprintf("service %q removed date %d", id, k))
		}
		if len(added[id])+len(removed[id]) > 0 {
			tags["exceptions"] = true
		}
	}
	// shapes
	sh := truthOf(in, "shapes.txt")
	type pt struct {
		seq int
		row []string
	}
	groups := map[string][]pt{}
	for _, row := range sh.rows {
		groups[sh.get(row, "shape_id")] = append(groups[sh.get(row, "shape_id")], pt{digit(sh.get(row, "shape_pt_sequence")), row})
	}
	if len(groups) != len(s.Shapes) {
		l.add("c01-count", "%d shapes in shapes.txt, result has %d", len(groups), len(s.Shapes))
	}
	nPts := 0
	for _, shp := range s.Shapes {
		g := groups[shp.ID]
		sort.SliceStable(g, func(i, j int) bool { return g[i].seq < g[j].seq })
		if len(g) != len(shp.Points) {
			l.add("c01-shape", "shape %q: %d points, file has %d rows", shp.ID, len(shp.Points), len(g))
			continue
		}
		for k, p := range g {
			lat, _ := exactFloat(sh.get(p.row, "shape_pt_lat"))
			lon, _ := exactFloat(sh.get(p.row, "shape_pt_lon"))
			dist := sh.get(p.row, "shape_dist_traveled")
			okDist := (dist == "" && shp.Points[k].Distance == nil)
			if d, ok := exactFloat(dist); ok && shp.Points[k].Distance != nil && math.Float64bits(*shp.Points[k].Distance) == d {
				okDist = true
			}
			if math.Float64bits(shp.Points[k].Latitude) != lat || math.Float64bits(shp.Points[k].Longitude) != lon || !okDist {
				l.add("c01-shape", "shape %q point %d does not carry the row's values %q", shp.ID, k, p.row)
			}
			nPts++
		}
	}
	// trips, frequencies, stop times
	tp := truthOf(in, "trips.txt")
	fq := truthOf(in, "frequencies.txt")
	stt := truthOf(in, "stop_times.txt")
	if len(s.Trips) != len(tp.rows) {
		l.add("c01-count", "trips.txt has %d rows, result has %d trips", len(tp.rows), len(s.Trips))
	} else {
		for i, row := range tp.rows {
			t := s.Trips[i]
			dir := map[string]int{"0": 2, "1": 1}[tp.get(row, "direction_id")]
			shape := tp.get(row, "shape_id")
			okShape := (shape == "" && t.Shape == nil) || (t.Shape != nil && t.Shape.ID == shape)
			if t.Route == nil || t.Service == nil || t.Route.Id != tp.get(row, "route_id") || t.Service.Id != tp.get(row, "service_id") || t.ID != tp.get(row, "trip_id") ||
				t.Headsign != tp.get(row, "trip_headsign") || t.ShortName != tp.get(row, "trip_short_name") || int(t.DirectionId) != dir || t.BlockID != tp.get(row, "block_id") ||
				!okShape || int(t.WheelchairAccessible) != digit(tp.get(row, "wheelchair_accessible")) || int(t.BikesAllowed) != digit(tp.get(row, "bikes_allowed")) {
				l.add("c01-trip", "trip row %d: %+v does not carry the row's values %q", i, t.ID, row)
			}
			// frequencies of this trip, in file order
			var wf [][]string
			for _, fr := range fq.rows {
				if fq.get(fr, "trip_id") == t.ID {
					wf = append(wf, fr)
				}
			}
			if len(wf) != len(t.Frequencies) {
				l.add("c01-frequency", "trip %q: %d frequencies, the file has %d rows", t.ID, len(t.Frequencies), len(wf))
			} else {
				for k, fr := range wf {
					a, _ := gtfsSeconds(fq.get(fr, "start_time"))
					b, _ := gtfsSeconds(fq.get(fr, "end_time"))
					f := t.Frequencies[k]
					if f.StartTime != time.Duration(a)*time.Second || f.EndTime != time.Duration(b)*time.Second ||
						f.Headway != time.Duration(digit(fq.get(fr, "headway_secs")))*time.Second || int(f.ExactTimes) != digit(fq.get(fr, "exact_times")) {
						l.add("c01-frequency", "trip %q frequency %d does not carry the row's values %q", t.ID, k, fr)
					}
					tags["frequencies"] = true
				}
			}
			// stop times sorted by sequence
			var ws []pt
			for _, sr := range stt.rows {
				if stt.get(sr, "trip_id") == t.ID {
					ws = append(ws, pt{digit(stt.get(sr, "stop_sequence")), sr})
				}
			}
			sort.SliceStable(ws, func(i, j int) bool { return ws[i].seq < ws[j].seq })
			if len(ws) != len(t.StopTimes) {
				l.add("c01-stop-time", "trip %q: %d stop times, the file has %d rows", t.ID, len(t.StopTimes), len(ws))
				continue
			}
			for k, w := range ws {
				x := t.StopTimes[k]
				a, _ := gtfsSeconds(stt.get(w.row, "arrival_time"))
				d, _ := gtfsSeconds(stt.get(w.row, "departure_time"))
				dist := stt.get(w.row, "shape_dist_traveled")
				okDist := dist == "" && x.ShapeDistanceTraveled == nil
				if b, ok := exactFloat(dist); ok && x.ShapeDistanceTraveled != nil && math.Float64bits(*x.ShapeDistanceTraveled) == b {
					okDist = true
				}
				if x.Stop == nil || x.Stop.Id != stt.get(w.row, "stop_id") || x.ArrivalTime != time.Duration(a)*time.Second || x.DepartureTime != time.Duration(d)*time.Second ||
					x.StopSequence != w.seq || x.Headsign != stt.get(w.row, "stop_headsign") || int(x.PickupType) != digit(stt.get(w.row, "pickup_type")) ||
					int(x.DropOffType) != digit(stt.get(w.row, "drop_off_type")) || int(x.ContinuousPickup) != digit(stt.get(w.row, "continuous_pickup")) ||
					int(x.ContinuousDropOff) != digit(stt.get(w.row, "continuous_drop_off")) || !okDist || x.ExactTimes != (stt.get(w.row, "timepoint") == "1") {
					l.add("c01-stop-time", "trip %q stop time %d: %+v does not carry the row's values %q", t.ID, k, x, w.row)
				}
				if a >= 86400 || d >= 86400 {
					tags["past-24h"] = true
				}
				tags["stop-times"] = true
			}
		}
	}
	nonTrivialFiles := 0
	for _, n := range []int{len(ag.rows), len(rt.rows), len(st.rows), len(tp.rows), len(stt.rows), len(sh.rows), len(cd.rows)} {
		if n >= 2 {
			nonTrivialFiles++
		}
	}
	return l.v, tagList(tags), nonTrivialFiles < 3
}

func dropWarnings(o map[string]any) map[string]any {
	out := map[string]any{"outcome": o["outcome"]}
	if res, ok := o["result"].(map[string]any); ok {
		r := map[string]any{}
		for k, v := range res {
			if k != "warnings" {
				r[k] = v
			}
		}
		out["result"] = r
	}
	if f, ok := o["file"]; ok {
		out["file"] = f
	}
	return out
}
