package main

import (
	"archive/zip"
	"bytes"
	"crypto/sha256"
	"encoding/json"
	"fmt"
	"hash/crc32"
	"os"
	"os/exec"
	"reflect"
	"sort"
	"time"

	"github.com/jamespfennell/gtfs"
	"github.com/jamespfennell/gtfs/journal"
)

// ---------- C03: referential closure, forest ----------

func oracleC03(in map[string]any, main implStatic, variants []implStatic) ([]Viol, []string, bool) {
	l := &violList{}
	tags := map[string]bool{}
	if main.s == nil {
		return nil, []string{"rejected-archive"}, true
	}
	s := main.s
	for _, f := range main.canon.foreign {
		l.add("c03-foreign", "%s", f)
	}
	multi := func(file, keyCol, refCol string) map[string]map[string]bool {
		t := truthOf(in, file)
		out := map[string]map[string]bool{}
		if t == nil {
			return out
		}
		for _, row := range t.rows {
			k := t.get(row, keyCol)
			if out[k] == nil {
				out[k] = map[string]bool{}
			}
			out[k][t.get(row, refCol)] = true
		}
		return out
	}
	routeAgency := multi("routes.txt", "route_id", "agency_id")
	for _, r := range s.Routes {
		if r.Agency == nil {
			continue
		}
		ok := routeAgency[r.Id][r.Agency.Id] || (routeAgency[r.Id][""] && len(s.Agencies) == 1)
		if !ok {
			l.add("c03-wrong-target", "route %q points at agency %q, its rows name %v", r.Id, r.Agency.Id, keysOf(routeAgency[r.Id]))
		}
	}
	stopParent := multi("stops.txt", "stop_id", "parent_station")
	for i := range s.Stops {
		st := &s.Stops[i]
		if st.Parent != nil {
			tags["parent-link"] = true
			if !stopParent[st.Id][st.Parent.Id] {
				l.add("c03-wrong-target", "stop %q points at parent %q, its rows name %v", st.Id, st.Parent.Id, keysOf(stopParent[st.Id]))
			}
		}
		// forest: the walk to the root must end within len(stops) steps
		p, steps := st, 0
		for p.Parent != nil && steps <= len(s.Stops) {
			p = p.Parent
			steps++
		}
		if p.Parent != nil {
			l.add("c03-cycle", "stop %q is its own ancestor: the walk to its root does not end", st.Id)
			continue
		}
		if steps >= 2 {
			tags["depth>=2"] = true
		}
		if st.Root() != p {
			l.add("c03-root", "Root() of stop %q is not the end of its parent chain", st.Id)
		}
	}
	tripRoute := multi("trips.txt", "trip_id", "route_id")
	tripSvc := multi("trips.txt", "trip_id", "service_id")
	tripShape := multi("trips.txt", "trip_id", "shape_id")
	stt := truthOf(in, "stop_times.txt")
	for _, t := range s.Trips {
		if t.Route != nil && !tripRoute[t.ID][t.Route.Id] {
			l.add("c03-wrong-target", "trip %q points at route %q, its rows name %v", t.ID, t.Route.Id, keysOf(tripRoute[t.ID]))
		}
		if t.Service != nil && !tripSvc[t.ID][t.Service.Id] {
			l.add("c03-wrong-target", "trip %q points at service %q, its rows name %v", t.ID, t.Service.Id, keysOf(tripSvc[t.ID]))
		}
		if t.Shape != nil && !tripShape[t.ID][t.Shape.ID] {
			l.add("c03-wrong-target", "trip %q points at shape %q, its rows name %v", t.ID, t.Shape.ID, keysOf(tripShape[t.ID]))
		}
		for _, x := range t.StopTimes {
			if x.Stop == nil || stt == nil {
				continue
			}
			ok := false
			for _, row := range stt.rows {
				if stt.get(row, "trip_id") == t.ID && stt.get(row, "stop_id") == x.Stop.Id {
					ok = true
				}
			}
			if !ok {
				l.add("c03-wrong-target", "a stop time of trip %q points at stop %q which none of its rows names", t.ID, x.Stop.Id)
			}
		}
	}
	tr := truthOf(in, "transfers.txt")
	for _, x := range s.Transfers {
		if x.From == nil || x.To == nil || tr == nil {
			continue
		}
		ok := false
		for _, row := range tr.rows {
			if tr.get(row, "from_stop_id") == x.From.Id && tr.get(row, "to_stop_id") == x.To.Id {
				ok = true
			}
		}
		if !ok {
			l.add("c03-wrong-target", "transfer %q -> %q corresponds to no row", x.From.Id, x.To.Id)
		}
	}
	if len(s.Stops) > 500 {
		tags["many-rows"] = true
	}
	return l.v, tagList(tags), len(s.Stops) < 2
}

func genC03(r *Rng, tier string, i int) map[string]any {
	f := genFeed(r, feedOpts{messy: true, big: i%40 == 7})
	st := f.tables["stops.txt"]
	// cycles: self, mutual, long
	if len(st.rows) >= 4 && r.P(2, 3) {
		pi := 9 // parent_station column
		a, b, c := r.Intn(len(st.rows)), r.Intn(len(st.rows)), r.Intn(len(st.rows))
		switch r.Intn(3) {
		case 0:
			st.rows[a][pi] = st.rows[a][0]
		case 1:
			st.rows[a][pi], st.rows[b][pi] = st.rows[b][0], st.rows[a][0]
		default:
			st.rows[a][pi], st.rows[b][pi], st.rows[c][pi] = st.rows[b][0], st.rows[c][0], st.rows[a][0]
		}
	}
	ringOfParents(r, st)
	if i%7 == 2 {
		renameIDs(r, f)
	}
	return staticCase(f.members(r, false, nil), nil, r.Bool(), map[string]any{"truth": f.truth()})
}

// ringOfParents (one case in three) makes k of the stops name each other as parent in a ring, k from 1 to far beyond
// any plausible hierarchy depth, the rows in file order, reversed or shuffled, with a tail of stops hanging off it.
func ringOfParents(r *Rng, st *table) {
	if !r.P(1, 3) || len(st.rows) < 2 {
		return
	}
	pi := 9
	want := []int{1, 2, 3, 8, 9, 10, 16, 17, 25, 40}[r.Intn(10)]
	for len(st.rows) < want+2 {
		row := append([]string{}, st.rows[0]...)
		row[0] = fmt.Sprintf("RING%d", len(st.rows))
		row[pi] = ""
		st.rows = append(st.rows, row)
	}
	idx := r.Perm(len(st.rows))[:want]
	for j, x := range idx {
		st.rows[x][pi] = st.rows[idx[(j+1)%want]][0]
		if r.P(1, 2) {
			st.rows[x][8] = r.Pick([]string{"0", "1", "2", "3", "4", ""})
		}
	}
	for x := range st.rows {
		if st.rows[x][pi] == "" && r.P(1, 4) {
			st.rows[x][pi] = st.rows[idx[r.Intn(want)]][0] // hangs off the ring
		}
	}
	if r.Bool() {
		for i, j := 0, len(st.rows)-1; i < j; i, j = i+1, j-1 {
			st.rows[i], st.rows[j] = st.rows[j], st.rows[i]
		}
	}
}

// ---------- C05: nothing crashes or hangs ----------

var csvAlphabet = []string{"a", "b", ",", "\"", "\n", "\r", " ", "\xff", "1", ":"}

func randomCSV(r *Rng) string {
	n := r.Intn(40)
	var sb bytes.Buffer
	if r.P(1, 6) {
		sb.WriteString("\xEF\xBB\xBF")
	}
	for i := 0; i < n; i++ {
		sb.WriteString(r.Pick(csvAlphabet))
	}
	return sb.String()
}

func genC05(r *Rng, tier string, i int) map[string]any {
	switch i % 4 {
	case 0: // semantically wrong cells in syntactically valid CSV, files missing, odd headers
		f := genFeed(r, feedOpts{messy: true})
		ringOfParents(r, f.tables["stops.txt"])
		drop := map[string]bool{}
		if r.P(1, 4) {
			drop[r.Pick(staticFiles)] = true
		}
		if r.P(1, 3) {
			// duplicate a header, or drop a required column
			t := f.tables[r.Pick(staticFiles)]
			if r.Bool() {
				t.header[r.Intn(len(t.header))] = t.header[0]
			} else {
				k := r.Intn(len(t.header))
				t.header[k] = "zz_" + t.header[k]
			}
		}
		st := f.tables["stops.txt"]
		if len(st.rows) > 2 && r.Bool() {
			st.rows[0][9], st.rows[1][9] = st.rows[1][0], st.rows[0][0]
		}
		if r.P(1, 4) {
			// a ragged table under a header in which names are repeated or blank (at any position, also the first):
			// rows shorter and longer than the header, fewer distinct names than header cells
			t := f.tables[r.Pick(staticFiles)]
			for k := 0; k < 1+r.Intn(3); k++ {
				i := r.Intn(len(t.header))
				if r.Bool() {
					t.header[i] = ""
				} else {
					t.header[i] = t.header[r.Intn(len(t.header))]
				}
			}
			for ri, row := range t.rows {
				switch r.Intn(4) {
				case 0:
					t.rows[ri] = row[:r.Intn(len(row)+1)]
				case 1:
					t.rows[ri] = append(append([]string{}, row...), "extra")
				}
			}
		}
		return staticCase(f.members(r, false, drop), nil, r.Bool(), nil)
	case 1: // members that are random CSV-ish bytes
		f := genFeed(r, feedOpts{messy: true})
		ms := f.members(r, false, nil)
		k := 1 + r.Intn(3)
		for j := 0; j < k; j++ {
			x := r.Intn(len(ms))
			switch r.Intn(3) {
			case 0:
				ms[x].data = randomCSV(r)
			case 1: // keep the header, garbage rows
				nl := bytes.IndexByte([]byte(ms[x].data), '\n')
				ms[x].data = ms[x].data[:nl+1] + randomCSV(r)
			default: // a short or long record in the middle
				ms[x].data += "a,b\n" + ms[x].data
			}
		}
		return staticCase(ms, nil, r.Bool(), nil)
	case 2: // the archive itself is arbitrary bytes
		n := r.Intn(200)
		b := make([]byte, n)
		for j := range b {
			b[j] = byte(r.U64())
		}
		if r.Bool() {
			z := zipOf([]member{{"agency.txt", "agency_name\nx\n"}}, false)
			copy(b, z[:minInt(len(z), len(b))])
		}
		if r.P(1, 4) {
			// a well-formed archive whose members cannot be opened or read: an unknown compression method, a
			// deflate stream that is garbage, a member whose recorded size or checksum is wrong
			f := genFeed(r, feedOpts{})
			b = brokenZip(r, f.members(r, false, nil))
		}
		return map[string]any{"kind": "none", "what": "zipbytes", "bytes": bstr(string(b))}
	default: // realtime: arbitrary and mutated bytes, every extension configuration
		g := rtGen{nyctTrips: r.Bool(), nyctAlerts: false}
		if r.Bool() {
			g = rtGen{nyctAlerts: true}
		}
		msgs := []any{}
		for j := 0; j < 1+r.Intn(4); j++ {
			c := g.gencase(r)
			b := marshalMsg(gm(c, "msg"))
			switch r.Intn(4) {
			case 0: // as is
			case 1: // bit flips
				for k := 0; k < 1+r.Intn(4) && len(b) > 0; k++ {
					b[r.Intn(len(b))] ^= 1 << uint(r.Intn(8))
				}
			case 2: // truncation
				if len(b) > 0 {
					b = b[:r.Intn(len(b))]
				}
			default: // random
				b = make([]byte, r.Intn(60))
				for k := range b {
					b[k] = byte(r.U64())
				}
			}
			msgs = append(msgs, bstr(string(b)))
		}
		// short and odd trip ids, updates without stop ids
		return map[string]any{"kind": "none", "what": "rtbytes", "msgs": msgs, "extIndex": r.Intn(25)}
	}
}

// the 24 (+ none) configurations of the bundled extensions
func extConfig(i int) map[string]any {
	if i == 0 {
		return nil
	}
	i--
	if i < 4 {
		return map[string]any{"kind": "nycttrips", "filterStale": i&1 == 1, "preserveM": i&2 == 2}
	}
	i -= 4
	pol := []string{"none", "station", "complex"}[i%3]
	i /= 3
	return map[string]any{"kind": "nyctalerts", "policy": pol, "useStationIds": i&1 == 1, "skipTimetabled": i&2 == 2, "addMetadata": i&4 == 4}
}

type c05Prop struct{ st staticProp }

func (p *c05Prop) Rule() string {
	return "four streams: (1) syntactically valid CSV with semantically wrong cells in every column (unknown ids after known ones, non-numeric numbers, blank required cells, duplicate or renamed headers, ragged tables under headers with repeated or blank names, missing files, cyclic parents); (2) members replaced by random CSV-alphabet bytes (quotes, CR, LF, 0xff, BOM), headers followed by garbage, records of the wrong width; (3) arbitrary bytes as the archive; (4) realtime messages as generated, bit-flipped, truncated or random bytes under each of the 25 extension configurations, followed by hashing every trip and vehicle, building a journal from the parsed feeds and exporting it; every accessor (Root, Hash, getters, ExportToCsv) is called on every result; each case runs under a 20 s watchdog; the model predicts the outcome class of the static cases; distinct = distinct input JSON; non-trivial = every case"
}
func (p *c05Prop) N(tier string) int {
	if tier == "thorough" {
		return 400000
	}
	return 6000
}
func (p *c05Prop) Gen(r *Rng, tier string, i int) map[string]any { return genC05(r, tier, i) }

func exerciseStatic(s *gtfs.Static) {
	for i := range s.Stops {
		p, steps := &s.Stops[i], 0
		for p.Parent != nil && steps <= len(s.Stops) {
			p, steps = p.Parent, steps+1
		}
		if p.Parent == nil {
			s.Stops[i].Root()
		} else {
			panic(fmt.Sprintf("hang: Root() of stop %q would not terminate (parent cycle)", s.Stops[i].Id))
		}
	}
	for _, w := range s.Warnings {
		_ = w.Kind.Error()
	}
}

func exerciseRealtime(r *gtfs.Realtime) {
	h := sha256.New()
	for i := range r.Trips {
		r.Trips[i].Hash(h)
		_ = r.Trips[i].GetVehicle()
		for k := range r.Trips[i].StopTimeUpdates {
			_ = r.Trips[i].StopTimeUpdates[k].GetArrival()
			_ = r.Trips[i].StopTimeUpdates[k].GetDeparture()
		}
	}
	for i := range r.Vehicles {
		r.Vehicles[i].Hash(h)
		_ = r.Vehicles[i].GetID()
		_ = r.Vehicles[i].GetTrip()
	}
	var nt *gtfs.Trip
	_ = nt.GetVehicle()
	var nv *gtfs.Vehicle
	_ = nv.GetID()
	_ = nv.GetTrip()
	var nu *gtfs.StopTimeUpdate
	_ = nu.GetArrival()
}

func (p *c05Prop) Check(in map[string]any, model json.RawMessage) Verdict {
	var v Verdict
	switch gs(in, "kind") {
	case "static":
		v = p.st.Check(in, model)
		out, s, _ := parseStaticImpl(membersOf(in["members"]), gb(in, "inherit"), false)
		v.Tags = append(v.Tags, "static:"+fmt.Sprint(out["outcome"]))
		if s != nil {
			exerciseStatic(s)
		}
	default:
		switch gs(in, "what") {
		case "zipbytes":
			s, err := gtfs.ParseStatic([]byte(gs(in, "bytes")), gtfs.ParseStaticOptions{})
			if err == nil && s != nil {
				exerciseStatic(s)
				v.Tags = append(v.Tags, "zipbytes:ok")
			} else {
				v.Tags = append(v.Tags, "zipbytes:error")
			}
		case "rtbytes":
			ext := extConfig(int(gi(in, "extIndex")))
			opts := optsOf(map[string]any{"ext": ext, "zone": "UTC"})
			var feeds []*gtfs.Realtime
			for _, m := range ga(in, "msgs") {
				r, err := gtfs.ParseRealtime([]byte(unbstr(m.(string))), opts)
				if err != nil {
					v.Tags = append(v.Tags, "rt:error")
					continue
				}
				v.Tags = append(v.Tags, "rt:ok")
				exerciseRealtime(r)
				feeds = append(feeds, r)
			}
			j := journal.BuildJournal(&sliceSource{feeds: feeds}, time.Unix(0, 0), time.Unix(1<<40, 0))
			if _, err := j.ExportToCsv(); err != nil {
				v.Violations = append(v.Violations, Viol{"c05-export-error", "ExportToCsv failed: " + err.Error()})
			}
			if len(j.Trips) > 0 {
				v.Tags = append(v.Tags, "journal-nonempty")
			}
		}
	}
	return v
}

func (p *c05Prop) Fixed() []map[string]any {
	// journal histories with odd trip ids and updates lacking stop ids (through the journal model)
	return nil
}

// ---------- C06: pure function of bytes and options ----------

type c06Prop struct {
	st staticProp
	rt rtProp
}

func (p *c06Prop) Rule() string {
	return "static: feeds with 8 services (calendar_dates only and combined) and deep stop hierarchies parsed 6 times in one process, once more after 3 unrelated feeds, and once in a second process; realtime: messages with 8 id-bearing vehicles, an alert with 8 route fallbacks, several elevator groups, parsed 6 times with ONE options/extension object (no extension, NYCT trips, NYCT alerts with each policy), again after 3 unrelated messages with the same object, and once in a second process; content and order of every collection must be identical and the input buffer unchanged (a map-ordered output of 8 entries repeats its first order 6 more times with probability 8^-6 per case); distinct = distinct input JSON; non-trivial = every case"
}
func (p *c06Prop) N(tier string) int {
	if tier == "thorough" {
		return 20000
	}
	return 700
}

func genC06(r *Rng, tier string, i int) map[string]any {
	if i%2 == 0 {
		f := genFeed(r, feedOpts{calendar: true})
		cd := f.tables["calendar_dates.txt"]
		for k := 0; k < 8; k++ {
			cd.rows = append(cd.rows, []string{fmt.Sprintf("X%d", (k*5)%8), "20230704", "1"})
		}
		c := staticCase(f.members(r, false, nil), nil, r.Bool(), nil)
		c["others"] = []any{membersJSON(genFeed(r, feedOpts{}).members(r, false, nil)), membersJSON(genFeed(r, feedOpts{messy: true}).members(r, false, nil))}
		return c
	}
	mode := (i / 2) % 4
	g := rtGen{}
	switch mode {
	case 1:
		g = rtGen{nyctTrips: true}
	case 2, 3:
		g = rtGen{nyctAlerts: true}
	}
	c := g.gencase(r)
	msg := gm(c, "msg")
	ents := ga(msg, "entities")
	// 8 vehicles with ids, an alert with 8 fallback routes, elevator alerts
	for k := 0; k < 8; k++ {
		ents = append(ents, map[string]any{"id": fmt.Sprintf("veh%d", k), "vehicle": map[string]any{"vehicle": map[string]any{"id": fmt.Sprintf("BUS%d", (k*3)%8)}}})
	}
	sels := []any{}
	for k := 0; k < 8; k++ {
		sels = append(sels, map[string]any{"trip": map[string]any{"routeId": fmt.Sprintf("Q%d", (k*5)%8), "directionId": k % 2}})
	}
	ents = append(ents, map[string]any{"id": "fallbacks", "alert": map[string]any{"informed": sels}})
	if mode >= 2 {
		for _, id := range []string{"A27N#EL1", "A27S#EL1", "E01N#EL1", "B10N#EL2", "B10S#EL2"} {
			ents = append(ents, map[string]any{"id": id, "alert": map[string]any{"informed": []any{map[string]any{"stopId": "x"}}}})
		}
	}
	msg["entities"] = ents
	c["others"] = []any{g.gencase(r)["msg"], g.gencase(r)["msg"], g.gencase(r)["msg"]}
	return c
}

func (p *c06Prop) Gen(r *Rng, tier string, i int) map[string]any { return genC06(r, tier, i) }
func (p *c06Prop) Fixed() []map[string]any                       { return nil }

// secondProcess runs `harness canon` on the case and returns its output.
func secondProcess(in map[string]any) (string, error) {
	self, err := os.Executable()
	if err != nil {
		return "", err
	}
	cmd := exec.Command(self, "canon")
	cmd.Stdin = bytes.NewReader([]byte(mustJSON(in)))
	out, err := cmd.Output()
	return string(bytes.TrimSpace(out)), err
}

func canonOnce(in map[string]any) string {
	if gs(in, "kind") == "static" {
		out, _, _ := parseStaticImpl(membersOf(in["members"]), gb(in, "inherit"), false)
		return mustJSON(normAny(out))
	}
	r, err := parseImpl(in, nil)
	if err != nil {
		return "error"
	}
	c, _ := canonOf(in, r)
	return mustJSON(normAny(c))
}

func init() {
	extraCmds["canon"] = func(args []string) int {
		quietKeep := os.Stdout
		quiet()
		var in map[string]any
		dec := json.NewDecoder(os.Stdin)
		dec.UseNumber()
		if err := dec.Decode(&in); err != nil {
			return 2
		}
		fmt.Fprintln(quietKeep, canonOnce(in))
		return 0
	}
}

func (p *c06Prop) Check(in map[string]any, model json.RawMessage) Verdict {
	var v Verdict
	if gs(in, "kind") == "static" {
		v = p.st.Check(in, model)
		ms := membersOf(in["members"])
		zb := zipOf(ms, false)
		before := append([]byte{}, zb...)
		first := ""
		for k := 0; k < 6; k++ {
			s, err := gtfs.ParseStatic(zb, gtfs.ParseStaticOptions{InheritWheelchairBoarding: gb(in, "inherit")})
			cur := "error"
			if err == nil {
				cj, _ := canonStatic(s)
				cur = mustJSON(normAny(map[string]any{"outcome": "ok", "result": cj}))
			}
			if k == 0 {
				first = cur
			} else if cur != first {
				var a, b any
				json.Unmarshal([]byte(first), &a)
				json.Unmarshal([]byte(cur), &b)
				v.Violations = append(v.Violations, Viol{"c06-static-repeat", fmt.Sprintf("parse %d of the same archive differs from the first: %s", k+1, diff("", a, b))})
				break
			}
			if k == 2 {
				for _, o := range ga(in, "others") {
					gtfs.ParseStatic(zipOf(membersOf(o), false), gtfs.ParseStaticOptions{})
				}
			}
		}
		if !bytes.Equal(before, zb) {
			v.Violations = append(v.Violations, Viol{"c06-input-modified", "ParseStatic modified the input bytes"})
		}
		if int(gi(in, "case"))%16 == 0 {
			if sp, err := secondProcess(in); err == nil && sp != first && first != "error" {
				v.Violations = append(v.Violations, Viol{"c06-cross-process", "a second process parses the same archive differently"})
			}
			v.Tags = append(v.Tags, "second-process")
		}
		v.Tags = append(v.Tags, "static")
		return v
	}
	v = p.rt.Check(in, model)
	opts := optsOf(in) // ONE options / extension object for all the parses below
	tzBefore, extBefore := opts.Timezone, opts.Extension
	b := marshalMsg(gm(in, "msg"))
	before := append([]byte{}, b...)
	first := ""
	for k := 0; k < 6; k++ {
		r, err := gtfs.ParseRealtime(b, opts)
		cur := "error"
		if err == nil {
			c, _ := canonOf(in, r)
			cur = mustJSON(normAny(c))
		}
		if k == 0 {
			first = cur
		} else if cur != first {
			var x, y any
			json.Unmarshal([]byte(first), &x)
			json.Unmarshal([]byte(cur), &y)
			v.Violations = append(v.Violations, Viol{"c06-realtime-repeat", fmt.Sprintf("parse %d of the same message with the same options object differs from the first: %s", k+1, diff("", x, y))})
			break
		}
		if k == 2 {
			for _, o := range ga(in, "others") {
				if m, ok := o.(map[string]any); ok {
					gtfs.ParseRealtime(marshalMsg(m), opts)
				}
			}
		}
	}
	if !bytes.Equal(before, b) {
		v.Violations = append(v.Violations, Viol{"c06-input-modified", "ParseRealtime modified the input bytes"})
	}
	if opts.Timezone != tzBefore || (opts.Extension == nil) != (extBefore == nil) {
		v.Violations = append(v.Violations, Viol{"c06-options-modified", "ParseRealtime modified the options"})
	}
	if int(gi(in, "case"))%16 == 1 {
		if sp, err := secondProcess(in); err == nil && sp != first && first != "error" {
			v.Violations = append(v.Violations, Viol{"c06-cross-process", "a second process parses the same message differently"})
		}
		v.Tags = append(v.Tags, "second-process")
	}
	kind := "none"
	if e := gm(in, "ext"); e != nil {
		kind = gs(e, "kind")
	}
	v.Tags = append(v.Tags, "realtime:"+kind)
	return v
}

func init() {
	props["C03"] = func() Prop {
		return &staticProp{id: "C03", nQuick: 1500, nThor: 50000, oracle: oracleC03, gen: genC03,
			rule: "adversarial feeds: dangling and blank references, duplicate ids in every file, self-, mutually and 3-cyclically referencing parent_station values, rows rejected between valid ones, blank required cells, one case in 40 with 600-2100 stop rows (slice re-allocation); every pointer of the result is located by identity in the result's own collections, its target id compared with the ids the referring rows name, and every stop's parent chain walked under a step budget; distinct = distinct input JSON; non-trivial = at least two stops"}
	}
	props["C05"] = func() Prop { return &c05Prop{st: staticProp{id: "C05"}} }
	props["C06"] = func() Prop { return &c06Prop{st: staticProp{id: "C06"}, rt: rtProp{id: "C06"}} }
}

var _ = reflect.DeepEqual
var _ = sort.Strings

// ---------- CSV: the reader model against the library's csv package ----------

type csvProp struct{}

func (p *csvProp) Rule() string {
	return "random byte strings over {a b , \" LF CR space 0xff 1 :} with and without a UTF-8 BOM, read through csv.New / NextRow / Close and through the Lean reader model; header, rows read and error status are compared"
}
func (p *csvProp) N(tier string) int {
	if tier == "thorough" {
		return 300000
	}
	return 20000
}
func (p *csvProp) Gen(r *Rng, tier string, i int) map[string]any {
	return map[string]any{"kind": "csv", "data": bstr(randomCSV(r))}
}
func (p *csvProp) Fixed() []map[string]any { return nil }
func (p *csvProp) Check(in map[string]any, model json.RawMessage) Verdict {
	var v Verdict
	data := gs(in, "data")
	impl := map[string]any{}
	f, err := gcsvNew(data)
	if err != nil {
		impl["ok"] = false
	} else {
		impl["ok"] = true
		impl["header"] = bstrList(f.HeaderContent())
		rows := []any{}
		for f.NextRow() {
			rows = append(rows, bstrList(f.RowContent()))
		}
		impl["rows"] = rows
		impl["bodyError"] = f.Close() != nil
	}
	m, _ := normBytes(model)
	v.Disagree = diff("", m, normAny(impl))
	v.Trivial = len(data) < 3
	return v
}

func init() { props["CSV"] = func() Prop { return &csvProp{} } }

// brokenZip writes a structurally valid archive in which one member is unreadable.
func brokenZip(r *Rng, ms []member) []byte {
	var buf bytes.Buffer
	w := zip.NewWriter(&buf)
	bad := r.Intn(len(ms))
	kind := r.Intn(3)
	for i, m := range ms {
		if i != bad {
			f, _ := w.CreateHeader(&zip.FileHeader{Name: m.name, Method: zip.Store})
			f.Write([]byte(m.data))
			continue
		}
		h := &zip.FileHeader{Name: m.name, UncompressedSize64: uint64(len(m.data)), CompressedSize64: uint64(len(m.data))}
		switch kind {
		case 0:
			h.Method = 99 // no decompressor registered: Open fails
			h.CRC32 = crc32.ChecksumIEEE([]byte(m.data))
		case 1:
			h.Method = zip.Deflate // the bytes are not a deflate stream: Read fails
			h.CRC32 = crc32.ChecksumIEEE([]byte(m.data))
		default:
			h.Method = zip.Store // wrong checksum: the last Read fails
			h.CRC32 = 12345
		}
		f, err := w.CreateRaw(h)
		if err != nil {
			panic(err)
		}
		f.Write([]byte(m.data))
	}
	w.Close()
	return buf.Bytes()
}
