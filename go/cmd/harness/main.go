// Command harness is the correspondence and oracle runner of the verification framework.
//
//	harness run --prop C14 --tier quick --seed 1 --driver <path> --out <summary.json> --replays <dir>
//	harness run --prop C14 --replay <file> ...
//
// For each generated case it asks the Lean model (the driver) for its result, runs the real
// library in-process on the same input, compares the two on the property's projection, and runs
// the property's direct oracle on the implementation.
package main

import (
	"crypto/sha256"
	"encoding/hex"
	"encoding/json"
	"flag"
	"fmt"
	"io"
	"log"
	"os"
	"path/filepath"
	"runtime"
	"sort"
	"strings"
	"sync"
	"time"
)

// Verdict is what checking one case produced.
type Verdict struct {
	Disagree   string   // non-empty: model and implementation differ on the projection (where)
	Violations []Viol   // oracle failures on the implementation
	Trivial    bool     // case is trivial by the property's rule
	Tags       []string // branches / features hit, for the input distribution
}

type Viol struct {
	Sig  string `json:"sig"`  // signature, matched against KNOWN_FINDINGS.jsonl
	What string `json:"what"` // in words
}

// Prop is one property's generator, projection and oracle.
type Prop interface {
	// Rule describes generation, distinctness and non-triviality (for the evidence).
	Rule() string
	// N is the number of generated cases for the tier.
	N(tier string) int
	// Gen builds the i-th case (JSON-able, strings already bstr-encoded). It must include "kind".
	Gen(r *Rng, tier string, i int) map[string]any
	// Check runs the implementation on the case, compares with the model reply and runs the oracle.
	Check(in map[string]any, model json.RawMessage) Verdict
	// Fixed returns hand-written cases that always run first (boundary cases, known-finding probes).
	Fixed() []map[string]any
}

var props = map[string]func() Prop{}

type Known struct {
	Status    string `json:"status"`
	Property  string `json:"property"`
	ID        string `json:"id"`
	Signature string `json:"signature"`
	What      string `json:"what"`
	Commit    string `json:"commit"`
}

type Finding struct {
	Case   int    `json:"case"`
	Sig    string `json:"sig"`
	What   string `json:"what"`
	Replay string `json:"replay"`
	Known  string `json:"known,omitempty"`
	Kind   string `json:"kind"` // "violation" | "disagreement"
}

type Summary struct {
	Property           string         `json:"property"`
	Tier               string         `json:"tier"`
	Seed               uint64         `json:"seed"`
	Evaluations        int            `json:"evaluations"`
	DistinctNontrivial int            `json:"distinct_nontrivial"`
	Rule               string         `json:"rule"`
	Samples            []any          `json:"samples"`
	Tags               map[string]int `json:"tags"`
	Validated          int            `json:"traces_validated_against_impl"`
	Findings           []Finding      `json:"findings"`
	KnownSeen          map[string]int `json:"known_seen"`
	WallS              float64        `json:"wall_s"`
	ViolatingCases     int            `json:"violating_cases"`
	DisagreeingCases   int            `json:"disagreeing_cases"`
	Errors             []string       `json:"errors"`
}

func loadKnown(path, prop string) []Known {
	var out []Known
	b, err := os.ReadFile(path)
	if err != nil {
		return nil
	}
	dec := json.NewDecoder(bytesReader(b))
	for dec.More() {
		var k Known
		if err := dec.Decode(&k); err != nil {
			break
		}
		if k.Status == "known" && (k.Property == prop) {
			out = append(out, k)
		}
	}
	return out
}

func main() {
	if len(os.Args) < 2 {
		fmt.Fprintln(os.Stderr, "usage: harness run|race|list ...")
		os.Exit(2)
	}
	switch os.Args[1] {
	case "run":
		os.Exit(cmdRun(os.Args[2:]))
	case "list":
		names := []string{}
		for k := range props {
			names = append(names, k)
		}
		sort.Strings(names)
		for _, n := range names {
			fmt.Println(n)
		}
	default:
		if f, ok := extraCmds[os.Args[1]]; ok {
			os.Exit(f(os.Args[2:]))
		}
		fmt.Fprintln(os.Stderr, "unknown command", os.Args[1])
		os.Exit(2)
	}
}

var extraCmds = map[string]func([]string) int{}

// quiet discards what the library prints (fmt.Printf / log) while cases run.
func quiet() {
	if dn, err := os.OpenFile(os.DevNull, os.O_WRONLY, 0); err == nil {
		os.Stdout = dn
	}
	log.SetOutput(io.Discard)
}

func cmdRun(args []string) int {
	realStdout := os.Stdout
	quiet()
	defer func() { os.Stdout = realStdout }()
	fs := flag.NewFlagSet("run", flag.ExitOnError)
	propID := fs.String("prop", "", "property id")
	tier := fs.String("tier", "quick", "quick|thorough")
	seed := fs.Uint64("seed", 1, "seed")
	driverPath := fs.String("driver", "", "path of the compiled Lean driver")
	out := fs.String("out", "", "summary file")
	replays := fs.String("replays", "", "directory for replay files")
	replay := fs.String("replay", "", "replay one case from a replay file")
	known := fs.String("known", "", "KNOWN_FINDINGS.jsonl")
	nOverride := fs.Int("n", 0, "override the number of generated cases")
	workers := fs.Int("workers", runtime.NumCPU(), "parallel workers")
	fs.Parse(args)

	mk, ok := props[*propID]
	if !ok {
		fmt.Fprintln(os.Stderr, "unknown property", *propID)
		return 2
	}
	start := time.Now()
	sum := Summary{Property: *propID, Tier: *tier, Seed: *seed, Tags: map[string]int{}, KnownSeen: map[string]int{}}
	p := mk()
	sum.Rule = p.Rule()
	knownList := loadKnown(*known, *propID)

	// the cases: hand-written and systematic ones are held, generated ones are rebuilt on demand from
	// (seed, index) so that a thorough run does not keep hundreds of thousands of inputs in memory
	var pre []map[string]any
	nGen := 0
	if *replay != "" {
		b, err := os.ReadFile(*replay)
		if err != nil {
			fmt.Fprintln(os.Stderr, err)
			return 2
		}
		var rf struct {
			Input map[string]any `json:"input"`
		}
		dec := json.NewDecoder(bytesReader(b))
		dec.UseNumber()
		if err := dec.Decode(&rf); err != nil || rf.Input == nil {
			fmt.Fprintln(os.Stderr, "bad replay file", err)
			return 2
		}
		pre = append(pre, rf.Input)
	} else {
		for _, c := range p.Fixed() {
			pre = append(pre, c)
		}
		if sw, ok := p.(Sweeper); ok {
			pre = append(pre, sw.Sweep(*tier, *seed)...)
		}
		nGen = p.N(*tier)
		if *nOverride > 0 {
			nGen = *nOverride
		}
	}
	nCases := len(pre) + nGen
	caseAt := func(i int) map[string]any {
		var c map[string]any
		if i < len(pre) {
			c = pre[i]
		} else {
			j := i - len(pre)
			c = p.Gen(NewRng(subSeed(*seed, j)), *tier, j)
		}
		c["case"] = i
		return deepCopyJSON(c).(map[string]any)
	}

	// workers, each with its own model process
	type res struct {
		i int
		v Verdict
		e string
		h string
	}
	results := make([]res, nCases)
	var wg sync.WaitGroup
	nw := *workers
	if nw > nCases {
		nw = nCases
	}
	if nw < 1 {
		nw = 1
	}
	drivers := make([]*Driver, nw)
	for w := 0; w < nw; w++ {
		d, err := StartDriver(*driverPath)
		if err != nil {
			fmt.Fprintln(os.Stderr, "cannot start driver:", err)
			return 2
		}
		drivers[w] = d
	}
	next := make(chan int, nCases)
	for i := 0; i < nCases; i++ {
		next <- i
	}
	close(next)
	for w := 0; w < nw; w++ {
		wg.Add(1)
		go func(d *Driver) {
			defer wg.Done()
			for i := range next {
				results[i] = res{i: i}
				c := caseAt(i)
				v, e := runCase(p, d, c)
				if v.Disagree == "" && len(v.Violations) == 0 {
					v = Verdict{Trivial: v.Trivial, Tags: v.Tags} // nothing else is needed of a passing case
				}
				results[i].v, results[i].e, results[i].h = v, e, digest(c)
			}
		}(drivers[w])
	}
	wg.Wait()

	seen := map[string]bool{}
	shrinkDriver := drivers[0]
	nViol, nDis := 0, 0
	for i, r := range results {
		sum.Evaluations++
		if r.e != "" {
			sum.Errors = append(sum.Errors, fmt.Sprintf("case %d: %s", i, r.e))
			continue
		}
		for _, t := range r.v.Tags {
			sum.Tags[t]++
		}
		h := r.h
		if !r.v.Trivial && !seen[h] {
			seen[h] = true
			sum.DistinctNontrivial++
			if len(sum.Samples) < 3 {
				sum.Samples = append(sum.Samples, caseAt(i))
			}
		}
		if r.v.Disagree == "" {
			sum.Validated++
		}
		if r.v.Disagree == "" && len(r.v.Violations) == 0 {
			continue
		}
		// known findings first
		var unknown []Viol
		for _, v := range r.v.Violations {
			matched := ""
			for _, k := range knownList {
				if k.Signature == v.Sig {
					matched = k.ID
				}
			}
			if matched != "" {
				sum.KnownSeen[matched]++
				continue
			}
			unknown = append(unknown, v)
		}
		if len(unknown) == 0 && r.v.Disagree == "" {
			continue
		}
		if len(unknown) > 0 {
			nViol++
			if nViol > 3 {
				continue
			}
		} else {
			nDis++
			if nDis > 2 {
				continue
			}
		}
		// shrink on the first unknown violation's signature, else on "still disagrees"
		in := caseAt(i)
		var f Finding
		if len(unknown) > 0 {
			sig := unknown[0].Sig
			small := shrinkJSON(in, func(c any) bool {
				v, e := runCase(p, shrinkDriver, c.(map[string]any))
				if e != "" {
					return false
				}
				for _, x := range v.Violations {
					if x.Sig == sig {
						return true
					}
				}
				return false
			}, 400).(map[string]any)
			v, _ := runCase(p, shrinkDriver, small)
			what := unknown[0].What
			for _, x := range v.Violations {
				if x.Sig == sig {
					what = x.What
				}
			}
			f = Finding{Case: i, Sig: sig, What: what, Kind: "violation"}
			f.Replay = writeReplay(*replays, *propID, *seed, i, "failing-input", small, what, v.Disagree)
		} else {
			// shrink towards the *same* disagreement (same place in the result, indices aside): a smaller input that
			// merely disagrees somewhere else - e.g. because a derived part of the case was cut away - is not accepted
			where := disagreeSig(r.v.Disagree)
			small := shrinkJSON(in, func(c any) bool {
				v, e := runCase(p, shrinkDriver, c.(map[string]any))
				return e == "" && v.Disagree != "" && disagreeSig(v.Disagree) == where
			}, 400).(map[string]any)
			v, _ := runCase(p, shrinkDriver, small)
			f = Finding{Case: i, Sig: "correspondence", What: v.Disagree, Kind: "disagreement"}
			f.Replay = writeReplay(*replays, *propID, *seed, i, "no-failing-input-found", small,
				"model and implementation disagree on the property's projection; the property's oracle holds on the implementation for this input", v.Disagree)
		}
		sum.Findings = append(sum.Findings, f)
	}
	for _, d := range drivers {
		d.Close()
	}
	sum.ViolatingCases, sum.DisagreeingCases = nViol, nDis
	sum.WallS = time.Since(start).Seconds()
	if len(sum.Samples) == 0 && nCases > 0 {
		sum.Samples = append(sum.Samples, caseAt(0))
	}
	b, _ := json.MarshalIndent(sum, "", " ")
	if *out != "" {
		os.WriteFile(*out, b, 0o644)
	} else {
		fmt.Fprintln(realStdout, string(b))
	}
	if len(sum.Errors) > 0 {
		fmt.Fprintln(os.Stderr, "errors:", sum.Errors[0])
	}
	return 0
}

// runCase asks the model, then runs the implementation side under recover.
// Sweeper adds a systematic (seed-offset or exhaustive) family of cases to a run.
type Sweeper interface {
	Sweep(tier string, seed uint64) []map[string]any
}

// Preparer lets a property complete the input sent to the model with what the implementation
// produced upstream of the function under scrutiny (e.g. the journal handed to ExportToCsv).
type Preparer interface {
	Prepare(in map[string]any) map[string]any
}

func runCase(p Prop, d *Driver, in map[string]any) (v Verdict, errStr string) {
	if pp, ok := p.(Preparer); ok {
		func() {
			defer func() { recover() }()
			in = deepCopyJSON(pp.Prepare(in)).(map[string]any)
		}()
	}
	addZoneTable(in)
	model, err := d.Ask(in)
	if err != nil {
		return Verdict{}, err.Error()
	}
	// the implementation side runs under recover and a watchdog: a panic or a hang is an outcome
	type res struct {
		v Verdict
	}
	done := make(chan res, 1)
	go func() {
		defer func() {
			if r := recover(); r != nil {
				buf := make([]byte, 4096)
				n := runtime.Stack(buf, false)
				sig := "panic"
				msg := fmt.Sprint(r)
				if len(msg) >= 5 && msg[:5] == "hang:" {
					sig = "hang"
				}
				done <- res{Verdict{Violations: []Viol{{Sig: sig, What: fmt.Sprintf("the library panicked: %v\n%s", r, buf[:n])}}}}
			}
		}()
		done <- res{p.Check(in, model)}
	}()
	select {
	case r := <-done:
		return r.v, ""
	case <-time.After(20 * time.Second):
		return Verdict{Violations: []Viol{{Sig: "hang", What: "the call did not return within 20 s"}}}, ""
	}
}

// disagreeSig: the place of a disagreement with the indices removed ("variant[].result.trips[].stopTimes[].arrival").
func disagreeSig(d string) string {
	if i := strings.Index(d, ": "); i >= 0 {
		d = d[:i]
	}
	var sb strings.Builder
	for _, c := range d {
		if c < '0' || c > '9' {
			sb.WriteRune(c)
		}
	}
	return sb.String()
}

func digest(v any) string {
	m := map[string]any{}
	for k, x := range v.(map[string]any) {
		if k == "case" || k == "seed" {
			continue
		}
		m[k] = x
	}
	h := sha256.Sum256([]byte(mustJSON(m)))
	return hex.EncodeToString(h[:8])
}

func writeReplay(dir, prop string, seed uint64, i int, kind string, input map[string]any, what, disagree string) string {
	if dir == "" {
		return ""
	}
	os.MkdirAll(dir, 0o755)
	path := filepath.Join(dir, fmt.Sprintf("%s-%d-%d.json", prop, seed, i))
	rf := map[string]any{
		"property": prop, "kind": kind, "input": input, "oracle": what, "correspondence": disagree,
		"replay_cmd": fmt.Sprintf("./check %s --replay %s", prop, path),
	}
	b, _ := json.MarshalIndent(rf, "", " ")
	os.WriteFile(path, b, 0o644)
	return path
}
