package main

// splitmix64: every random choice of a run derives from one seed; each case has its own sub-seed.
type Rng struct{ s uint64 }

func NewRng(seed uint64) *Rng { return &Rng{s: seed} }

func (r *Rng) U64() uint64 {
	r.s += 0x9e3779b97f4a7c15
	z := r.s
	z = (z ^ (z >> 30)) * 0xbf58476d1ce4e5b9
	z = (z ^ (z >> 27)) * 0x94d049bb133111eb
	return z ^ (z >> 31)
}

// Intn returns a number in [0, n).
func (r *Rng) Intn(n int) int {
	if n <= 0 {
		return 0
	}
	return int(r.U64() % uint64(n))
}

// Range returns a number in [lo, hi].
func (r *Rng) Range(lo, hi int) int { return lo + r.Intn(hi-lo+1) }

func (r *Rng) Bool() bool { return r.U64()&1 == 1 }

// P returns true with probability num/den.
func (r *Rng) P(num, den int) bool { return r.Intn(den) < num }

func (r *Rng) Pick(xs []string) string { return xs[r.Intn(len(xs))] }

func (r *Rng) Perm(n int) []int {
	p := make([]int, n)
	for i := range p {
		p[i] = i
	}
	for i := n - 1; i > 0; i-- {
		j := r.Intn(i + 1)
		p[i], p[j] = p[j], p[i]
	}
	return p
}

func subSeed(seed uint64, i int) uint64 {
	r := NewRng(seed ^ (uint64(i)+1)*0xd1342543de82ef95)
	return r.U64()
}
