package main

import (
	"fmt"
	"reflect"
	"sort"
	"strings"
	"time"
	"unicode/utf8"

	"github.com/jamespfennell/gtfs"
)

// ---------- C12: alert informed entities ----------

func validHMS(s string) bool {
	if len(s) != 8 || s[2] != ':' || s[5] != ':' {
		return false
	}
	for _, i := range []int{0, 1, 3, 4, 6, 7} {
		if s[i] < '0' || s[i] > '9' {
			return false
		}
	}
	return true
}

func validYMD(s string) bool {
	if len(s) != 8 {
		return false
	}
	for i := 0; i < 8; i++ {
		if s[i] < '0' || s[i] > '9' {
			return false
		}
	}
	return true
}

func descIdentifies(d map[string]any) bool {
	if d == nil {
		return false
	}
	if gs(d, "tripId") != "" {
		return true
	}
	return gs(d, "routeId") != "" && has(d, "directionId") && has(d, "startTime") && validHMS(gs(d, "startTime")) && has(d, "startDate") && validYMD(gs(d, "startDate"))
}

var knownRouteTypes = map[int64]bool{0: true, 1: true, 2: true, 3: true, 4: true, 5: true, 6: true, 7: true, 11: true, 12: true}

func tripIDIdentifies(t *gtfs.TripID) bool {
	return t != nil && (t.ID != "" || (t.RouteID != "" && t.DirectionID != gtfs.DirectionID_Unspecified && t.HasStartTime && t.HasStartDate))
}

func oracleC12(in map[string]any, r *gtfs.Realtime, canon map[string]any) ([]Viol, []string, bool) {
	var viols []Viol
	tags := map[string]bool{}
	c := &rtCanon{loc: time.UTC}
	tripKeys := map[string]bool{}
	for i := range r.Trips {
		tripKeys[mustJSON(c.tripID(r.Trips[i].ID))] = true
	}
	var alertEnts []any
	for _, e := range ga(gm(in, "msg"), "entities") {
		if gm(e, "alert") != nil && gm(e, "tripUpdate") == nil && gm(e, "vehicle") == nil {
			alertEnts = append(alertEnts, e)
		}
	}
	if len(alertEnts) != len(r.Alerts) {
		return []Viol{{"c12-count", fmt.Sprintf("%d alerts for %d alert entities", len(r.Alerts), len(alertEnts))}}, nil, true
	}
	nontrivial := false
	for k, e := range alertEnts {
		a := r.Alerts[k]
		sels := ga(gm(e, "alert"), "informed")
		// what every result entity must satisfy
		for q, ie := range a.InformedEntities {
			if !(ie.AgencyID != nil || ie.RouteID != nil || ie.RouteType != gtfs.RouteType_Unknown || ie.StopID != nil || tripIDIdentifies(ie.TripID)) {
				viols = append(viols, Viol{"c12-informs-nothing", fmt.Sprintf("alert %q entity %d informs nothing", a.ID, q)})
			}
			if ie.TripID != nil {
				if !tripIDIdentifies(ie.TripID) {
					viols = append(viols, Viol{"c12-tripid-not-identifying", fmt.Sprintf("alert %q entity %d carries a trip identifier that does not determine a trip: %+v", a.ID, q, *ie.TripID)})
				} else if !tripKeys[mustJSON(c.tripID(*ie.TripID))] {
					viols = append(viols, Viol{"c12-trip-not-in-trips", fmt.Sprintf("alert %q entity %d names a trip that is not in Trips: %+v", a.ID, q, *ie.TripID)})
				}
			}
		}
		// the selectors that must be represented, in order
		type want struct {
			agency, route, stop *string
			rtype               gtfs.RouteType
			dir                 gtfs.DirectionID
			trip                map[string]any
		}
		var wants []want
		explicitRoutes := map[string]bool{}
		fromTrips := map[string]map[gtfs.DirectionID]bool{}
		for _, s := range sels {
			d := gm(s, "trip")
			ident := descIdentifies(d)
			if d != nil && !ident && gs(d, "routeId") != "" {
				rt := gs(d, "routeId")
				if fromTrips[rt] == nil {
					fromTrips[rt] = map[gtfs.DirectionID]bool{}
				}
				dir := expectDir(d, "directionId")
				if dir == gtfs.DirectionID_Unspecified {
					fromTrips[rt][gtfs.DirectionID_False], fromTrips[rt][gtfs.DirectionID_True] = true, true
					tags["fallback-no-direction"] = true
				} else {
					fromTrips[rt][dir] = true
					tags["fallback-direction"] = true
				}
			}
			if has(s, "routeId") {
				explicitRoutes[gs(s, "routeId")] = true
			}
			rtype := gtfs.RouteType_Unknown
			if has(s, "routeType") && knownRouteTypes[gi(s, "routeType")] {
				rtype = gtfs.RouteType(gi(s, "routeType"))
			}
			if !(has(s, "agencyId") || has(s, "routeId") || rtype != gtfs.RouteType_Unknown || has(s, "stopId") || ident) {
				tags["selector-dropped"] = true
				continue
			}
			w := want{agency: gsp(s, "agencyId"), route: gsp(s, "routeId"), stop: gsp(s, "stopId"), rtype: rtype, dir: expectDir(s, "directionId")}
			if ident {
				w.trip = d
				tags["identifiable-trip"] = true
			}
			wants = append(wants, w)
		}
		if len(sels) > 0 {
			nontrivial = true
		}
		if len(a.InformedEntities) < len(wants) {
			viols = append(viols, Viol{"c12-selector-lost", fmt.Sprintf("alert %q: %d selectors name something, only %d informed entities", a.ID, len(wants), len(a.InformedEntities))})
			continue
		}
		for q, w := range wants {
			ie := a.InformedEntities[q]
			ok := reflect.DeepEqual(ie.AgencyID, w.agency) && reflect.DeepEqual(ie.RouteID, w.route) && reflect.DeepEqual(ie.StopID, w.stop) &&
				ie.RouteType == w.rtype && ie.DirectionID == w.dir && (ie.TripID != nil) == (w.trip != nil)
			if ok && w.trip != nil {
				ok = ie.TripID.ID == gs(w.trip, "tripId") && ie.TripID.RouteID == gs(w.trip, "routeId") && ie.TripID.DirectionID == expectDir(w.trip, "directionId")
			}
			if !ok {
				viols = append(viols, Viol{"c12-selector-values", fmt.Sprintf("alert %q: selector %d is not represented, in order, by an entity with exactly its values (got %+v)", a.ID, q, ie)})
			}
		}
		// the route fallbacks
		wantFallback := map[string]gtfs.DirectionID{}
		for rt, dirs := range fromTrips {
			if explicitRoutes[rt] {
				tags["fallback-suppressed-by-explicit-route"] = true
				continue
			}
			d := gtfs.DirectionID_Unspecified
			if !(dirs[gtfs.DirectionID_False] && dirs[gtfs.DirectionID_True]) {
				if dirs[gtfs.DirectionID_False] {
					d = gtfs.DirectionID_False
				} else {
					d = gtfs.DirectionID_True
				}
			}
			wantFallback[rt] = d
		}
		gotFallback := map[string]gtfs.DirectionID{}
		for _, ie := range a.InformedEntities[len(wants):] {
			if ie.RouteID == nil || ie.AgencyID != nil || ie.StopID != nil || ie.TripID != nil || ie.RouteType != gtfs.RouteType_Unknown {
				viols = append(viols, Viol{"c12-invented", fmt.Sprintf("alert %q has an informed entity that no selector accounts for: %+v", a.ID, ie)})
				continue
			}
			if _, dup := gotFallback[*ie.RouteID]; dup {
				viols = append(viols, Viol{"c12-fallback-dup", fmt.Sprintf("alert %q informs route %q twice through trip descriptors", a.ID, *ie.RouteID)})
			}
			gotFallback[*ie.RouteID] = ie.DirectionID
		}
		if !reflect.DeepEqual(gotFallback, wantFallback) && !(len(gotFallback) == 0 && len(wantFallback) == 0) {
			viols = append(viols, Viol{"c12-fallback", fmt.Sprintf("alert %q: routes informed through trip descriptors are %v, expected %v", a.ID, gotFallback, wantFallback)})
		}
		if len(wantFallback) > 1 {
			tags["several-fallback-routes"] = true
		}
	}
	return viols, tagList(tags), !nontrivial
}

// ---------- C16: NYCT trips extension ----------

func isAlnumByte(b byte) bool {
	return (b >= '0' && b <= '9') || (b >= 'A' && b <= 'Z') || (b >= 'a' && b <= 'z')
}

// nyctOrigin returns the six origin digits when id has the NYCT format
// dddddd '_' one or two alphanumerics, two characters, S or N, alphanumerics.
func nyctOrigin(id string) (int, bool) {
	if len(id) < 7 || id[6] != '_' {
		return 0, false
	}
	n := 0
	for i := 0; i < 6; i++ {
		if id[i] < '0' || id[i] > '9' {
			return 0, false
		}
		n = n*10 + int(id[i]-'0')
	}
	rest := id[7:]
	tail := func(s string) bool {
		for k := 0; k < 2; k++ {
			if s == "" || s[0] == '\n' {
				return false
			}
			_, w := utf8.DecodeRuneInString(s)
			s = s[w:]
		}
		if s == "" || (s[0] != 'S' && s[0] != 'N') {
			return false
		}
		for i := 1; i < len(s); i++ {
			if !isAlnumByte(s[i]) {
				return false
			}
		}
		return true
	}
	if len(rest) >= 1 && isAlnumByte(rest[0]) {
		if len(rest) >= 2 && isAlnumByte(rest[1]) && tail(rest[2:]) {
			return n, true
		}
		if tail(rest[1:]) {
			return n, true
		}
	}
	return 0, false
}

func swapMStop(s string) string {
	if len(s) != 4 {
		return s
	}
	switch s[:3] {
	case "M11", "M12", "M13", "M14", "M16", "M18":
		if s[3] == 'N' {
			return s[:3] + "S"
		}
		if s[3] == 'S' {
			return s[:3] + "N"
		}
	}
	return s
}

func hasNyct(e any) bool {
	if tu := gm(e, "tripUpdate"); tu != nil {
		if gm(gm(tu, "trip"), "nyct") != nil {
			return true
		}
		for _, s := range ga(tu, "stus") {
			if gm(s, "nyct") != nil {
				return true
			}
		}
	}
	if vp := gm(e, "vehicle"); vp != nil && gm(gm(vp, "trip"), "nyct") != nil {
		return true
	}
	return false
}

func oracleC16(in map[string]any, r *gtfs.Realtime, canon map[string]any) ([]Viol, []string, bool) {
	var viols []Viol
	tags := map[string]bool{}
	ext := gm(in, "ext")
	filter, preserve := gb(ext, "filterStale"), gb(ext, "preserveM")
	msg := gm(in, "msg")
	ts := uint64(0)
	if has(msg, "timestamp") {
		ts = uint64(gi(msg, "timestamp"))
	}
	ents := ga(msg, "entities")
	checkDesc := func(where string, d map[string]any, t *gtfs.Trip) {
		n := gm(d, "nyct")
		dir := int64(1)
		if has(n, "direction") {
			dir = gi(n, "direction")
		}
		if dir == 1 && t.ID.DirectionID != gtfs.DirectionID_False {
			viols = append(viols, Viol{"c16-direction", where + ": NORTH must give direction False"})
		}
		if dir == 3 && t.ID.DirectionID != gtfs.DirectionID_True {
			viols = append(viols, Viol{"c16-direction", where + ": SOUTH must give direction True"})
		}
		if o, ok := nyctOrigin(gs(d, "tripId")); ok && o < 600000 {
			want := time.Duration(o*6/10) * time.Second
			if !t.ID.HasStartTime || t.ID.StartTime != want {
				viols = append(viols, Viol{"c16-start-time", fmt.Sprintf("%s: origin time %06d must give start time %v, got %v (has=%v)", where, o, want, t.ID.StartTime, t.ID.HasStartTime)})
			}
			tags["origin-time"] = true
		}
		if gb(n, "isAssigned") {
			tags["assigned"] = true
			if t.Vehicle == nil || t.Vehicle.GetID().ID != gs(n, "trainId") {
				viols = append(viols, Viol{"c16-vehicle", fmt.Sprintf("%s: assigned trip must be linked to a vehicle whose id is the train id %q", where, gs(n, "trainId"))})
			}
		}
	}
	// a trip is found by trip id and route (the same trip id may run on two routes; the extension never rewrites either)
	findTrip := func(d map[string]any) *gtfs.Trip {
		if descKey(d) == "" {
			return nil
		}
		for i := range r.Trips {
			if tripKey(r.Trips[i].ID) == descKey(d) && r.Trips[i].ID.RouteID == gs(d, "routeId") {
				return &r.Trips[i]
			}
		}
		return nil
	}
	for _, e := range ents {
		if tu := gm(e, "tripUpdate"); tu != nil {
			d := gm(tu, "trip")
			n := gm(d, "nyct")
			id := gs(d, "tripId")
			t := findTrip(d)
			if n != nil {
				tags["nyct-trip-update"] = true
				stus := ga(tu, "stus")
				first := int64(0)
				if len(stus) > 0 {
					first = gi(gm(stus[0], "departure"), "time")
					if first == 0 {
						first = gi(gm(stus[0], "arrival"), "time")
					}
				}
				stale := !gb(n, "isAssigned") && (len(stus) == 0 || first == 0 || first < int64(ts))
				if len(stus) > 0 && first != 0 {
					if first == int64(ts) {
						tags["first-stop-at-feed-time"] = true
					}
				}
				if filter && stale {
					tags["dropped-stale"] = true
					if t != nil && t.IsEntityInMessage {
						viols = append(viols, Viol{"c16-stale-kept", fmt.Sprintf("trip %q is unassigned and its first stop time (%d) is missing or before the feed time %d, but it was not dropped", id, first, ts)})
					}
					continue
				}
				if t == nil || !t.IsEntityInMessage {
					viols = append(viols, Viol{"c16-dropped", fmt.Sprintf("trip %q was dropped although it is not a stale unassigned trip (filter=%v assigned=%v first=%d feed=%d)", id, filter, gb(n, "isAssigned"), first, ts)})
					continue
				}
				checkDesc("trip "+id, d, t)
			}
			if t != nil && t.IsEntityInMessage && len(t.StopTimeUpdates) == len(ga(tu, "stus")) {
				for k, s := range ga(tu, "stus") {
					var want *string
					if ns := gm(s, "nyct"); ns != nil {
						want = gsp(ns, "actualTrack")
						if want == nil {
							want = gsp(ns, "scheduledTrack")
						}
						tags["track"] = true
					}
					if !reflect.DeepEqual(t.StopTimeUpdates[k].NyctTrack, want) {
						viols = append(viols, Viol{"c16-track", fmt.Sprintf("trip %q update %d: track must be the actual track when present, else the scheduled one", id, k)})
					}
					// the M train platform swap
					wid := gs(s, "stopId")
					wantStop := wid
					if gs(d, "routeId") == "M" && !preserve {
						wantStop = swapMStop(wid)
						if wantStop != wid {
							tags["m-swap"] = true
						}
					}
					got := ""
					if t.StopTimeUpdates[k].StopID != nil {
						got = *t.StopTimeUpdates[k].StopID
					}
					if got != wantStop {
						viols = append(viols, Viol{"c16-mswap", fmt.Sprintf("trip %q (route %q, preserve=%v) update %d: stop id %q on the wire must become %q, got %q", id, gs(d, "routeId"), preserve, k, wid, wantStop, got)})
					}
				}
			}
		}
		if vp := gm(e, "vehicle"); vp != nil && gm(e, "tripUpdate") == nil {
			d := gm(vp, "trip")
			if gm(d, "nyct") != nil {
				tags["nyct-vehicle-position"] = true
				if t := findTrip(d); t != nil && !t.IsEntityInMessage {
					checkDesc("vehicle position for trip "+gs(d, "tripId"), d, t)
				}
			}
		}
	}
	// transparency: the entities without NYCT data parse as with no extension (after the M swap)
	var plain []any
	for _, e := range ents {
		if !hasNyct(e) {
			pe := deepCopyJSON(e).(map[string]any)
			if tu := gm(pe, "tripUpdate"); tu != nil && gs(gm(tu, "trip"), "routeId") == "M" && !preserve {
				for _, s := range ga(tu, "stus") {
					if has(s, "stopId") {
						s.(map[string]any)["stopId"] = bstr(swapMStop(gs(s, "stopId")))
					}
				}
			}
			plain = append(plain, pe)
		}
	}
	if len(plain) > 0 {
		tags["plain-entities"] = true
		orig := []any{}
		for _, e := range ents {
			if !hasNyct(e) {
				orig = append(orig, e)
			}
		}
		with := map[string]any{"zone": in["zone"], "ext": in["ext"], "msg": map[string]any{"timestamp": msg["timestamp"], "entities": orig}}
		without := map[string]any{"zone": in["zone"], "msg": map[string]any{"timestamp": msg["timestamp"], "entities": plain}}
		r1, e1 := parseImpl(with, nil)
		r2, e2 := parseImpl(without, nil)
		if e1 != nil || e2 != nil {
			viols = append(viols, Viol{"c16-transparent", "parse error on the plain entities"})
		} else {
			c1, _ := canonOf(with, r1)
			c2, _ := canonOf(without, r2)
			if d := diff("", normAny(c2), normAny(c1)); d != "" {
				viols = append(viols, Viol{"c16-transparent", "entities without NYCT data do not parse as with no extension (modulo the M swap): " + strings.Replace(d, "model", "no-extension", 1)})
			}
			// the swap is its own inverse: swapping the already swapped ids gives the original back
			for _, e := range plain {
				if tu := gm(e, "tripUpdate"); tu != nil {
					for _, s := range ga(tu, "stus") {
						if swapMStop(swapMStop(gs(s, "stopId"))) != gs(s, "stopId") {
							viols = append(viols, Viol{"c16-involution", "swap is not an involution on " + gs(s, "stopId")})
						}
					}
				}
			}
		}
	}
	return viols, tagList(tags), len(ents) < 1
}

// ---------- C17: NYCT alerts extension ----------

var docPriorityToEffect = map[int64]int64{1: 1, 2: 2, 3: 2, 4: 2, 5: 6, 6: 6, 7: 6, 8: 6, 9: 5, 10: 6, 11: 6, 12: 6, 13: 6, 14: 6, 15: 2, 16: 6, 17: 6, 18: 6,
	19: 3, 20: 3, 21: 6, 22: 6, 23: 6, 24: 6, 25: 2, 26: 6, 27: 3, 28: 6, 29: 6, 30: 3, 31: 6, 32: 6, 33: 6, 34: 6, 35: 6, 36: 6, 37: 2, 38: 6, 39: 1, 40: 1}

func elevatorParts(id string) (station, suffix, elev string, ok bool) {
	for p := 0; p+3 <= len(id); p++ {
		if !(isAlnumByte(id[p]) && isAlnumByte(id[p+1]) && isAlnumByte(id[p+2])) {
			continue
		}
		rest := id[p+3:]
		if len(rest) >= 4 && (rest[0] == 'S' || rest[0] == 'N') && rest[1:4] == "#EL" {
			station, suffix, elev = id[p:p+3], rest[:1], rest[4:]
			ok = true
		} else if strings.HasPrefix(rest, "#EL") {
			station, suffix, elev = id[p:p+3], "", rest[3:]
			ok = true
		}
		if ok {
			if i := strings.IndexByte(elev, '\n'); i >= 0 {
				elev = elev[:i]
			}
			return
		}
	}
	return
}

func priorityOfSel(s any) (int64, bool) {
	if !has(s, "mercurySortOrder") {
		return 0, false
	}
	so := gs(s, "mercurySortOrder")
	i := strings.LastIndex(so, ":")
	if i < 0 {
		return 0, false
	}
	rest := so[i+1:]
	if rest == "" {
		return 0, false
	}
	sign := int64(1)
	if rest[0] == '+' || rest[0] == '-' {
		if rest[0] == '-' {
			sign = -1
		}
		rest = rest[1:]
	}
	if rest == "" {
		return 0, false
	}
	var n int64
	for i := 0; i < len(rest); i++ {
		if rest[i] < '0' || rest[i] > '9' {
			return 0, false
		}
		n = n*10 + int64(rest[i]-'0')
	}
	return sign * n, true
}

func oracleC17(in map[string]any, r *gtfs.Realtime, canon map[string]any) ([]Viol, []string, bool) {
	var viols []Viol
	tags := map[string]bool{}
	ext := gm(in, "ext")
	policy, station, skip, meta := gs(ext, "policy"), gb(ext, "useStationIds"), gb(ext, "skipTimetabled"), gb(ext, "addMetadata")
	tags["policy:"+policy] = true
	type expected struct {
		id       string
		elevator bool
		stops    map[string]bool
		ent      any
		idx      int // position among the alert entities of the message
	}
	var want []*expected
	groups := map[string]*expected{}
	alertIdx := -1
	for _, e := range ga(gm(in, "msg"), "entities") {
		a := gm(e, "alert")
		if a == nil || gm(e, "tripUpdate") != nil || gm(e, "vehicle") != nil {
			continue
		}
		id := gs(e, "id")
		alertIdx++
		if st, suf, el, ok := elevatorParts(id); ok {
			tags["elevator"] = true
			var key string
			switch policy {
			case "station":
				key = st + "#EL" + el
			case "complex":
				key = "elevator:EL" + el
			default:
				key = st + suf + "#EL" + el
			}
			stop := st + suf
			if station {
				stop = st
			}
			g := groups[key]
			if g == nil {
				g = &expected{id: key, elevator: true, stops: map[string]bool{}, ent: e}
				groups[key] = g
				want = append(want, g)
			} else {
				tags["elevator-merged"] = true
			}
			g.stops[stop] = true
			continue
		}
		// timetabled no-service alerts
		dropped := false
		if skip {
			for _, s := range ga(a, "informed") {
				if p, ok := priorityOfSel(s); ok && (p == 2 || p == 3 || p == 4) {
					dropped = true
				}
			}
		}
		if dropped {
			tags["skipped-timetabled"] = true
			continue
		}
		want = append(want, &expected{id: id, ent: e, idx: alertIdx})
	}
	if len(want) != len(r.Alerts) {
		var ids []string
		for _, a := range r.Alerts {
			ids = append(ids, a.ID)
		}
		var wids []string
		for _, w := range want {
			wids = append(wids, w.id)
		}
		return []Viol{{"c17-alerts", fmt.Sprintf("output alerts %q, expected (one per elevator group at its first member's position, timetabled no-service dropped iff requested) %q", ids, wids)}}, tagList(tags), false
	}
	// reference parse without extension, for pass-through
	noext := map[string]any{"zone": in["zone"], "msg": in["msg"]}
	r0, _ := parseImpl(noext, nil)
	var alerts0 []gtfs.Alert
	if r0 != nil {
		alerts0 = r0.Alerts
	}
	for k, w := range want {
		a := r.Alerts[k]
		if a.ID != w.id {
			viols = append(viols, Viol{"c17-id", fmt.Sprintf("alert %d has id %q, expected %q", k, a.ID, w.id)})
			continue
		}
		wa := gm(w.ent, "alert")
		if w.elevator {
			if int(a.Cause) != 9 || int(a.Effect) != 11 {
				viols = append(viols, Viol{"c17-elevator-cause-effect", fmt.Sprintf("elevator alert %q must have cause maintenance and effect accessibility issue, has %v/%v", a.ID, a.Cause, a.Effect)})
			}
			got := map[string]bool{}
			for _, ie := range a.InformedEntities {
				if ie.StopID == nil || ie.AgencyID != nil || ie.RouteID != nil || ie.TripID != nil {
					viols = append(viols, Viol{"c17-elevator-entity", fmt.Sprintf("elevator alert %q has an informed entity that is not a stop", a.ID)})
					continue
				}
				if got[*ie.StopID] {
					viols = append(viols, Viol{"c17-elevator-dup-stop", fmt.Sprintf("elevator alert %q informs stop %q twice", a.ID, *ie.StopID)})
				}
				got[*ie.StopID] = true
			}
			if !reflect.DeepEqual(got, w.stops) {
				viols = append(viols, Viol{"c17-elevator-stops", fmt.Sprintf("elevator alert %q informs %v, the group's members are at %v", a.ID, keysOf(got), keysOf(w.stops))})
			}
			continue
		}
		// cause from the id prefix
		wc := int64(1)
		if has(wa, "cause") {
			wc = gi(wa, "cause")
		}
		if strings.HasPrefix(w.id, "lmm:planned_work") {
			wc = 9
			tags["prefix-planned-work"] = true
		} else if strings.HasPrefix(w.id, "lmm:alert") {
			wc = 3
			tags["prefix-alert"] = true
		}
		if int64(a.Cause) != wc {
			viols = append(viols, Viol{"c17-cause", fmt.Sprintf("alert %q: cause %v, expected %d", a.ID, a.Cause, wc)})
		}
		we := int64(8)
		if has(wa, "effect") {
			we = gi(wa, "effect")
		}
		anyNyct := gb(wa, "hasMercuryAlert") || strings.HasPrefix(w.id, "lmm:")
		for _, s := range ga(wa, "informed") {
			if has(s, "mercurySortOrder") {
				anyNyct = true
			}
			if p, ok := priorityOfSel(s); ok {
				if eff, ok := docPriorityToEffect[p]; ok {
					we = eff
					tags["effect-from-priority"] = true
				}
			}
		}
		if int64(a.Effect) != we {
			viols = append(viols, Viol{"c17-effect", fmt.Sprintf("alert %q: effect %v, the Mercury priorities determine %d", a.ID, a.Effect, we)})
		}
		nMeta := 0
		for _, t := range a.Description {
			if t.Language == "github.com/jamespfennell/gtfs/extensions/nyctalerts/Metadata" {
				nMeta++
			}
		}
		wantMeta := 0
		if meta && gb(wa, "hasMercuryAlert") {
			wantMeta = 1
			tags["metadata"] = true
		}
		if nMeta != wantMeta || len(a.Description) != len(ga(wa, "description"))+wantMeta {
			viols = append(viols, Viol{"c17-metadata", fmt.Sprintf("alert %q: %d metadata texts among %d descriptions, expected %d among %d", a.ID, nMeta, len(a.Description), wantMeta, len(ga(wa, "description"))+wantMeta)})
		}
		if !anyNyct {
			tags["plain-alert"] = true
			c := &rtCanon{loc: time.UTC}
			if w.idx < len(alerts0) {
				a0 := alerts0[w.idx]
				x := c.result(&gtfs.Realtime{Alerts: []gtfs.Alert{a}})
				y := c.result(&gtfs.Realtime{Alerts: []gtfs.Alert{a0}})
				if mustJSON(x["alerts"]) != mustJSON(y["alerts"]) {
					viols = append(viols, Viol{"c17-passthrough", fmt.Sprintf("alert %q carries no NYCT data and no elevator id but is not passed through unchanged", a.ID)})
				}
			}
		}
	}
	sort.Strings(nil)
	return viols, tagList(tags), len(want) == 0
}
