package main

import (
	"bytes"
	"encoding/csv"
	"encoding/json"
	"fmt"
	"reflect"
	"sort"
	"strconv"
	"time"

	"github.com/jamespfennell/gtfs"
	"github.com/jamespfennell/gtfs/journal"
)

// ---------- building real inputs from a journal case ----------

type sliceSource struct {
	feeds []*gtfs.Realtime
	i     int
}

func (s *sliceSource) Next() *gtfs.Realtime {
	if s.i >= len(s.feeds) {
		return nil
	}
	f := s.feeds[s.i]
	s.i++
	return f
}

func dirFromNat(d int64) gtfs.DirectionID { return gtfs.DirectionID(d) }

func buildRtFeed(f any) *gtfs.Realtime {
	rt := &gtfs.Realtime{CreatedAt: time.Unix(gi(f, "createdAt"), 0).UTC()}
	for _, t := range ga(f, "trips") {
		trip := gtfs.Trip{
			ID: gtfs.TripID{
				ID: gs(t, "id"), RouteID: gs(t, "route"), DirectionID: dirFromNat(gi(t, "dir")),
				HasStartDate: true, StartDate: time.Unix(gi(t, "startDate"), 0).UTC(),
				HasStartTime: true, StartTime: time.Duration(gi(t, "startTime")) * time.Second,
			},
			IsEntityInMessage: true,
		}
		if has(t, "vehicle") {
			id := gs(t, "vehicle")
			v := &gtfs.Vehicle{}
			if id != "" || gb(t, "vehicleEmptyID") {
				v.ID = &gtfs.VehicleID{ID: id}
			}
			trip.Vehicle = v
		}
		for _, u := range ga(t, "stus") {
			stu := gtfs.StopTimeUpdate{StopID: gsp(u, "stop"), NyctTrack: gsp(u, "track")}
			if p := gip(u, "arr"); p != nil {
				tt := time.Unix(*p, 0).UTC()
				stu.Arrival = &gtfs.StopTimeEvent{Time: &tt}
			} else if gb(u, "arrEventNoTime") {
				stu.Arrival = &gtfs.StopTimeEvent{}
			}
			if p := gip(u, "dep"); p != nil {
				tt := time.Unix(*p, 0).UTC()
				stu.Departure = &gtfs.StopTimeEvent{Time: &tt}
			}
			trip.StopTimeUpdates = append(trip.StopTimeUpdates, stu)
		}
		rt.Trips = append(rt.Trips, trip)
	}
	return rt
}

func unixPtr(t *time.Time) any {
	if t == nil {
		return nil
	}
	return t.Unix()
}

func canonJournal(j *journal.Journal) []any {
	out := []any{}
	for _, t := range j.Trips {
		sts := []any{}
		for _, s := range t.StopTimes {
			sts = append(sts, map[string]any{
				"stop": bstr(s.StopID), "arr": unixPtr(s.ArrivalTime), "dep": unixPtr(s.DepartureTime),
				"track": bstrPtr(s.Track), "lastObs": s.LastObserved.Unix(), "past": unixPtr(s.MarkedPast),
			})
		}
		out = append(out, map[string]any{
			"uid": bstr(t.TripUID), "tripId": bstr(t.TripID), "route": bstr(t.RouteID), "dir": int(t.DirectionID),
			"start": t.StartTime.Unix(), "vehicle": bstr(t.VehicleID), "assigned": t.IsAssigned, "sts": sts,
			"lastObs": t.LastObserved.Unix(), "past": unixPtr(t.MarkedPast), "numUpdates": t.NumUpdates,
			"numChanges": t.NumScheduleChanges, "numRewrites": t.NumScheduleRewrites,
		})
	}
	return out
}

func buildJournalImpl(feeds []any, lo, hi int64) *journal.Journal {
	src := &sliceSource{}
	for _, f := range feeds {
		src.feeds = append(src.feeds, buildRtFeed(f))
	}
	return journal.BuildJournal(src, time.Unix(lo, 0).UTC(), time.Unix(hi, 0).UTC())
}

// ---------- generator ----------

var stopAlphabet = []string{"A", "B", "C", "D", "E", "F", "G01N", "M11N"}

// characters that mean something to HTML, URLs, templates or shells but are ordinary in a CSV cell
var oddTexts = []string{"A+B", "R&D", "it's", "<x>", "a b", "50%", "{{.}}", "a;b", "tab\there", "é/ü", "=1+1", "#", "\\"}

func genStus(r *Rng, stops []string) []any {
	out := []any{}
	for _, s := range stops {
		u := map[string]any{"stop": bstr(s)}
		if r.P(3, 4) {
			u["arr"] = 1700000000 + r.Intn(5000)
		} else if r.P(1, 4) {
			u["arrEventNoTime"] = true
		}
		if r.P(3, 4) {
			u["dep"] = 1700000000 + r.Intn(5000)
		}
		if r.P(1, 25) {
			// instants that are a zero of something: the Unix epoch, the second before it, the zero time.Time
			k := r.Pick([]string{"arr", "dep"})
			u[k] = specialInstants[r.Intn(len(specialInstants))]
			delete(u, "arrEventNoTime")
		}
		if r.P(1, 3) {
			u["track"] = bstr(r.Pick([]string{"1", "2", "A1", ""}))
			if r.P(1, 6) {
				u["track"] = bstr(r.Pick(oddTexts))
			}
		}
		out = append(out, u)
	}
	return out
}

// the Unix epoch, the second before it, and the zero time.Time (what a feed without header timestamp is created at)
var specialInstants = []int64{0, -1, -62135596800}

type jtrip struct {
	id         string
	route      string
	dir        int
	startDate  int64
	startTime  int64
	stops      []string
	pos        int
	assignFrom int
	vehicle    string
}

func genJournalCase(r *Rng, tier string, odd bool) map[string]any {
	nTrips := r.Range(1, 4)
	nFeeds := r.Range(1, 10)
	if tier == "thorough" {
		nFeeds = r.Range(1, 14)
	}
	// one history in thirty is wide: many trips, long stop lists, many feeds (sizes at which pre-sized slices of
	// the journal builder re-allocate)
	wide := r.P(1, 30)
	if wide {
		nTrips, nFeeds = r.Range(5, 12), r.Range(10, 30)
	}
	suffixes := []string{"_A..N", "_A..S01R", "_1..N03R", "_GS.N", "", "X", "_A+B", "_R&D..N", "_it's", "_<x>", "_a b"}
	trips := make([]*jtrip, nTrips)
	for i := range trips {
		t := &jtrip{}
		t.id = fmt.Sprintf("%06d", r.Intn(144000)) + r.Pick(suffixes)
		if odd && r.P(1, 3) {
			t.id = r.Pick([]string{"", "ab", "12345", "123456", "héllo", "日本", "0123456"})
		}
		if i > 0 && r.P(1, 4) {
			// same suffix and start as the previous trip, different origin-time prefix: same UID
			t.id = fmt.Sprintf("%06d", r.Intn(144000)) + trips[i-1].id[minInt(6, len(trips[i-1].id)):]
			t.startDate, t.startTime = trips[i-1].startDate, trips[i-1].startTime
		} else {
			t.startDate = []int64{1700006400, 1700092800}[r.Intn(2)]
			t.startTime = []int64{0, 3600, 90000}[r.Intn(3)]
		}
		t.route = r.Pick([]string{"A", "1", "GS", "M", "A+", "R&D", "<1>"})
		t.dir = r.Intn(3)
		n := r.Range(2, 6)
		if wide {
			n = r.Range(8, 40)
		}
		for k := 0; k < n; k++ {
			t.stops = append(t.stops, r.Pick(stopAlphabet[:6]))
			if r.P(1, 12) {
				t.stops[len(t.stops)-1] = r.Pick(oddTexts)
			}
		}
		t.assignFrom = r.Intn(nFeeds + 2)
		if r.P(1, 6) {
			t.assignFrom = 1 << 30
		}
		t.vehicle = r.Pick([]string{"V1", "V2", "0A 1234", ""})
		trips[i] = t
	}
	feeds := []any{}
	now := int64(1700000000)
	for f := 0; f < nFeeds; f++ {
		switch r.Intn(8) {
		case 0:
		case 1:
			now -= 10
		default:
			now += int64(30 * r.Range(1, 3))
		}
		ft := []any{}
		order := r.Perm(nTrips)
		for _, ti := range order {
			t := trips[ti]
			if !r.P(4, 5) {
				continue
			}
			// progress operators
			switch r.Intn(10) {
			case 0, 1, 2:
				if t.pos < len(t.stops) {
					t.pos++
				}
			case 3:
				if t.pos+1 < len(t.stops) {
					t.pos += 2
				}
			case 4: // reroute the tail
				k := t.pos + r.Intn(len(t.stops)-t.pos+1)
				t.stops = append(append([]string{}, t.stops[:k]...), r.Pick(stopAlphabet), r.Pick(stopAlphabet))
			case 5: // extend
				t.stops = append(t.stops, r.Pick(stopAlphabet))
			case 6: // duplicate a stop further on
				if t.pos < len(t.stops) {
					t.stops = append(t.stops, t.stops[t.pos])
				}
			case 7: // go back (a stop re-appears in front)
				if t.pos > 0 {
					t.pos--
				}
			}
			cur := t.stops[minInt(t.pos, len(t.stops)):]
			if r.P(1, 12) {
				cur = nil
			}
			jt := map[string]any{
				"id": bstr(t.id), "route": bstr(t.route), "dir": t.dir, "startDate": t.startDate, "startTime": t.startTime,
				"stus": genStus(r, cur),
			}
			if odd && r.P(1, 4) && len(cur) > 0 {
				// a stop time update without stop id
				delete(jt["stus"].([]any)[r.Intn(len(cur))].(map[string]any), "stop")
			}
			if f >= t.assignFrom && !r.P(1, 6) {
				jt["vehicle"] = bstr(t.vehicle)
			}
			ft = append(ft, jt)
		}
		created := now
		if r.P(1, 15) {
			created = specialInstants[r.Intn(len(specialInstants))]
		}
		feeds = append(feeds, map[string]any{"createdAt": created, "trips": ft})
	}
	big := int64(1) << 50
	windows := []any{[]any{-big, big}}
	starts := []int64{1700006400, 1700006400 + 3600, 1700092800, 1700092800 + 90000}
	a, b := starts[r.Intn(4)], starts[r.Intn(4)]
	if a > b {
		a, b = b, a
	}
	windows = append(windows, []any{a, b}, []any{a + 1, b - 1 + int64(r.Intn(2))})
	c := map[string]any{"kind": "journal", "feeds": feeds, "windows": windows}
	if r.P(1, 5) {
		c["exportEdit"] = 1 + r.Intn(5) // C20 only: the exported journal is the built one edited by hand
	}
	return c
}

func minInt(a, b int) int {
	if a < b {
		return a
	}
	return b
}

// ---------- the implementation side of a journal case ----------

type journalRun struct {
	prefixes [][]*journal.Journal // [prefix][window]
	canon    []any
	tripsCsv string
	stCsv    string
	exportOK bool
	mutated  bool
	exported *journal.Journal // the journal ExportToCsv was given (the built one, possibly edited by hand: see exportEdit)
}

func runJournalImpl(in map[string]any) journalRun {
	feeds := ga(in, "feeds")
	windows := ga(in, "windows")
	var jr journalRun
	jr.canon = []any{}
	for i := range feeds {
		var row []*journal.Journal
		var crow []any
		for _, w := range windows {
			ww := w.([]any)
			j := buildJournalImpl(feeds[:i+1], toI64(ww[0]), toI64(ww[1]))
			row = append(row, j)
			crow = append(crow, canonJournal(j))
		}
		jr.prefixes = append(jr.prefixes, row)
		jr.canon = append(jr.canon, crow)
	}
	full := &journal.Journal{}
	if len(feeds) > 0 && len(windows) > 0 {
		full = jr.prefixes[len(feeds)-1][0]
	} else if len(windows) > 0 {
		ww := windows[0].([]any)
		full = buildJournalImpl(nil, toI64(ww[0]), toI64(ww[1]))
	}
	// "all journals": a journal need not come out of BuildJournal. exportEdit edits a copy of the built one by hand
	// (empty UIDs and ids, tracks pointing at the empty string, negative and very large counters) before the export.
	full = editedForExport(full, gi(in, "exportEdit"))
	jr.exported = full
	before := mustJSON(canonJournal(full))
	exp, err := full.ExportToCsv()
	if err == nil {
		jr.exportOK = true
		jr.tripsCsv = string(exp.TripsCsv)
		jr.stCsv = string(exp.StopTimesCsv)
	}
	jr.mutated = before != mustJSON(canonJournal(full))
	return jr
}

// editedForExport returns the journal itself for edit 0 and an edited deep copy otherwise.
func editedForExport(j *journal.Journal, edit int64) *journal.Journal {
	if edit == 0 || j == nil {
		return j
	}
	c := &journal.Journal{}
	for _, t := range j.Trips {
		t2 := t
		t2.StopTimes = append([]journal.StopTime(nil), t.StopTimes...)
		c.Trips = append(c.Trips, t2)
	}
	empty := ""
	for i := range c.Trips {
		t := &c.Trips[i]
		switch edit {
		case 1: // the first trip has an empty UID
			if i == 0 {
				t.TripUID = ""
			}
		case 2: // every identifier of every trip is empty
			t.TripUID, t.TripID, t.RouteID, t.VehicleID = "", "", "", ""
			for k := range t.StopTimes {
				t.StopTimes[k].StopID = ""
			}
		case 3: // every other trip has an empty UID
			if i%2 == 1 {
				t.TripUID = ""
			}
		case 4: // counters no builder produces
			t.NumUpdates, t.NumScheduleChanges, t.NumScheduleRewrites = -1, 1<<40, -(1 << 31)
		case 5: // tracks present but empty, empty stop ids
			for k := range t.StopTimes {
				t.StopTimes[k].Track = &empty
				if k%2 == 0 {
					t.StopTimes[k].StopID = ""
				}
			}
		}
	}
	return c
}

func journalProjection(jr journalRun) map[string]any {
	return map[string]any{"prefixes": jr.canon, "tripsCsv": bstr(jr.tripsCsv), "stopTimesCsv": bstr(jr.stCsv)}
}

func suffixOf(id string) string {
	if len(id) < 6 {
		return ""
	}
	return id[6:]
}

// ---------- C14 oracle: stop-time lists across every prefix ----------

type evKind int

const (
	evApplied evKind = iota
	evIgnored
)

type tripEvent struct {
	kind evKind
	trip any
}

// replay of the assignment bookkeeping only (which updates are applied), per UID
func eventsPerFeed(feeds []any) []map[string][]tripEvent {
	assigned := map[string]bool{}
	var out []map[string][]tripEvent
	for _, f := range feeds {
		evs := map[string][]tripEvent{}
		for _, t := range ga(f, "trips") {
			uid := fmt.Sprintf("%d%s", gi(t, "startDate")+gi(t, "startTime"), suffixOf(gs(t, "id")))
			hasV := has(t, "vehicle")
			if assigned[uid] && !hasV {
				evs[uid] = append(evs[uid], tripEvent{evIgnored, t})
				continue
			}
			if hasV {
				assigned[uid] = true
			}
			evs[uid] = append(evs[uid], tripEvent{evApplied, t})
		}
		out = append(out, evs)
	}
	return out
}

func stEqual(a, b journal.StopTime) bool {
	return reflect.DeepEqual(canonST(a), canonST(b))
}

func canonST(s journal.StopTime) map[string]any {
	return map[string]any{"stop": s.StopID, "arr": unixPtr(s.ArrivalTime), "dep": unixPtr(s.DepartureTime),
		"track": bstrPtr(s.Track), "lastObs": s.LastObserved.Unix(), "past": unixPtr(s.MarkedPast)}
}

func findTrip(j *journal.Journal, uid string) *journal.Trip {
	for i := range j.Trips {
		if j.Trips[i].TripUID == uid {
			return &j.Trips[i]
		}
	}
	return nil
}

func oracleC14(in map[string]any, jr journalRun) ([]Viol, []string) {
	var viols []Viol
	tags := map[string]bool{}
	feeds := ga(in, "feeds")
	evs := eventsPerFeed(feeds)
	active := map[string]bool{}
	for i, f := range feeds {
		t := gi(f, "createdAt")
		cur := jr.prefixes[i][0]
		var prev *journal.Journal
		if i > 0 {
			prev = jr.prefixes[i-1][0]
		}
		newActive := map[string]bool{}
		for uid := range evs[i] {
			newActive[uid] = true
		}
		// every uid observable now
		for k := range cur.Trips {
			nt := &cur.Trips[k]
			uid := nt.TripUID
			var old []journal.StopTime
			oldKnown := false
			if prev != nil {
				if ot := findTrip(prev, uid); ot != nil {
					old, oldKnown = ot.StopTimes, true
				}
			}
			es := evs[i][uid]
			var applied []tripEvent
			for _, e := range es {
				if e.kind == evApplied {
					applied = append(applied, e)
				}
			}
			switch {
			case len(applied) == 1:
				tags["applied"] = true
				us := ga(applied[0].trip, "stus")
				if len(nt.StopTimes) < len(us) {
					viols = append(viols, Viol{"c14-suffix", fmt.Sprintf("feed %d trip %s: list shorter than the update", i, uid)})
					continue
				}
				pre := nt.StopTimes[:len(nt.StopTimes)-len(us)]
				suf := nt.StopTimes[len(pre):]
				for q, u := range us {
					want := journal.StopTime{StopID: gs(u, "stop"), Track: gsp(u, "track"), LastObserved: time.Unix(t, 0).UTC()}
					if p := gip(u, "arr"); p != nil {
						tt := time.Unix(*p, 0).UTC()
						want.ArrivalTime = &tt
					}
					if p := gip(u, "dep"); p != nil {
						tt := time.Unix(*p, 0).UTC()
						want.DepartureTime = &tt
					}
					if !stEqual(suf[q], want) {
						viols = append(viols, Viol{"c14-suffix", fmt.Sprintf("feed %d trip %s: entry %d from the end of the list is %v, the update says %v", i, uid, len(us)-q, canonST(suf[q]), canonST(want))})
					}
				}
				if !oldKnown {
					if len(pre) != 0 && i == 0 {
						viols = append(viols, Viol{"c14-prefix", fmt.Sprintf("feed %d trip %s: entries before the update in a new trip", i, uid)})
					}
					continue
				}
				if len(pre) > len(old) {
					viols = append(viols, Viol{"c14-prefix", fmt.Sprintf("feed %d trip %s: %d entries precede the update but only %d existed", i, uid, len(pre), len(old))})
					continue
				}
				if len(pre) > 0 {
					tags["kept-past"] = true
				}
				if len(pre) < len(old)-len(us) || len(pre)+len(us) < len(old) {
					tags["trimmed"] = true
				}
				for q := range pre {
					want := old[q]
					if want.MarkedPast == nil {
						tt := time.Unix(t, 0).UTC()
						want.MarkedPast = &tt
					}
					if !stEqual(pre[q], want) {
						viols = append(viols, Viol{"c14-prefix", fmt.Sprintf("feed %d trip %s: earlier entry %d changed: was %v now %v (expected %v)", i, uid, q, canonST(old[q]), canonST(pre[q]), canonST(want))})
					}
				}
				if len(us) > 0 {
					first := gs(us[0], "stop")
					for q := range old {
						if old[q].StopID == first {
							tags["first-stop-known"] = true
							if len(pre) < q {
								viols = append(viols, Viol{"c14-dropped", fmt.Sprintf("feed %d trip %s: first updated stop %q was at index %d but only %d earlier entries survive", i, uid, first, q, len(pre))})
							}
							break
						}
					}
				}
			case len(applied) > 1:
				tags["multi-applied"] = true
			case len(es) == 0 && oldKnown && active[uid]:
				tags["vanished"] = true
				if len(nt.StopTimes) != len(old) {
					viols = append(viols, Viol{"c14-absent", fmt.Sprintf("feed %d trip %s: absent trip changed length", i, uid)})
					continue
				}
				for q := range old {
					want := old[q]
					if want.MarkedPast == nil {
						tt := time.Unix(t, 0).UTC()
						want.MarkedPast = &tt
					}
					if !stEqual(nt.StopTimes[q], want) {
						viols = append(viols, Viol{"c14-absent", fmt.Sprintf("feed %d trip %s: absent trip entry %d is %v expected %v", i, uid, q, canonST(nt.StopTimes[q]), canonST(want))})
					}
				}
			case oldKnown:
				tags["unchanged"] = true
				if len(es) > 0 {
					tags["ignored-unassigned-update"] = true
				}
				if !reflect.DeepEqual(canonJournal(&journal.Journal{Trips: []journal.Trip{{StopTimes: old}}}), canonJournal(&journal.Journal{Trips: []journal.Trip{{StopTimes: nt.StopTimes}}})) {
					viols = append(viols, Viol{"c14-unchanged", fmt.Sprintf("feed %d trip %s: stop times changed without an applied update", i, uid)})
				}
			}
			// T4: everything before the unmarked tail is marked
			seenUnmarked := false
			for q := range nt.StopTimes {
				if nt.StopTimes[q].MarkedPast == nil {
					seenUnmarked = true
				} else if seenUnmarked {
					viols = append(viols, Viol{"c14-shape", fmt.Sprintf("feed %d trip %s: a marked entry (%d) follows an unmarked one", i, uid, q)})
					break
				}
			}
		}
		active = newActive
	}
	var tl []string
	for k := range tags {
		tl = append(tl, k)
	}
	sort.Strings(tl)
	return viols, tl
}

// ---------- C15 oracle: selection, order, accounting ----------

type acct struct {
	assigned    bool
	numApplied  int
	lastApplied int64
	markedPast  *int64
	last        any
	start       int64
}

func oracleC15(in map[string]any, jr journalRun) ([]Viol, []string) {
	var viols []Viol
	tags := map[string]bool{}
	feeds := ga(in, "feeds")
	windows := ga(in, "windows")
	recs := map[string]*acct{}
	pairs := map[string]map[string]bool{} // uid -> set of "(start, suffix)" that produced it
	active := map[string]bool{}
	for i, f := range feeds {
		t := gi(f, "createdAt")
		newActive := map[string]bool{}
		for _, tr := range ga(f, "trips") {
			start := gi(tr, "startDate") + gi(tr, "startTime")
			suf := suffixOf(gs(tr, "id"))
			uid := fmt.Sprintf("%d%s", start, suf)
			if pairs[uid] == nil {
				pairs[uid] = map[string]bool{}
			}
			pairs[uid][fmt.Sprintf("%d|%s", start, suf)] = true
			r := recs[uid]
			if r == nil {
				r = &acct{}
				recs[uid] = r
			}
			newActive[uid] = true
			hasV := has(tr, "vehicle")
			if r.assigned && !hasV {
				tags["ignored"] = true
				continue
			}
			r.assigned = r.assigned || hasV
			r.numApplied++
			r.lastApplied = t
			r.markedPast = nil
			r.last = tr
			r.start = start
		}
		for uid := range active {
			if !newActive[uid] {
				r := recs[uid]
				if r.markedPast == nil {
					tt := t
					r.markedPast = &tt
					tags["marked-past"] = true
				}
			}
		}
		active = newActive
		for wi, w := range windows {
			ww := w.([]any)
			lo, hi := toI64(ww[0]), toI64(ww[1])
			j := jr.prefixes[i][wi]
			// expected uids
			var want []string
			for uid, r := range recs {
				if r.assigned && r.start >= lo && r.start <= hi {
					want = append(want, uid)
				}
			}
			sort.Strings(want)
			var got []string
			for k := range j.Trips {
				got = append(got, j.Trips[k].TripUID)
			}
			for k := 1; k < len(got); k++ {
				if !(got[k-1] < got[k]) {
					viols = append(viols, Viol{"c15-order", fmt.Sprintf("prefix %d window %d: UIDs not strictly increasing: %q then %q", i, wi, got[k-1], got[k])})
				}
			}
			if !reflect.DeepEqual(got, want) && !(len(got) == 0 && len(want) == 0) {
				viols = append(viols, Viol{"c15-selection", fmt.Sprintf("prefix %d window [%d,%d]: journal holds %q, expected exactly the assigned trips in the window %q", i, lo, hi, got, want)})
				continue
			}
			if len(want) > 0 {
				tags["nonempty"] = true
			}
			if len(want) < len(recs) {
				tags["filtered"] = true
			}
			for k := range j.Trips {
				jt := &j.Trips[k]
				r := recs[jt.TripUID]
				if len(pairs[jt.TripUID]) > 1 {
					// two distinct (start, suffix) pairs share one UID
					digit := false
					for p := range pairs[jt.TripUID] {
						var s int64
						var suf string
						fmt.Sscanf(p, "%d|", &s)
						suf = p[len(strconv.FormatInt(s, 10))+1:]
						if len(suf) > 0 && suf[0] >= '0' && suf[0] <= '9' {
							digit = true
						}
					}
					sig := "uid-collision-other"
					if digit {
						sig = "uid-collision-digit-leading-suffix"
					}
					viols = append(viols, Viol{sig, fmt.Sprintf("distinct (start, suffix) pairs %v share the UID %q: one journal entry for two trips", keysOf(pairs[jt.TripUID]), jt.TripUID)})
					continue
				}
				lt := r.last
				veh := ""
				if has(lt, "vehicle") {
					veh = gs(lt, "vehicle")
				}
				if jt.TripID != gs(lt, "id") || jt.RouteID != gs(lt, "route") || int64(jt.DirectionID) != gi(lt, "dir") || jt.StartTime.Unix() != r.start || jt.VehicleID != veh {
					viols = append(viols, Viol{"c15-identity", fmt.Sprintf("prefix %d trip %s: identifier fields (%q,%q,%d,%d,%q) are not those of the last applied update (%q,%q,%d,%d,%q)", i, jt.TripUID, jt.TripID, jt.RouteID, jt.DirectionID, jt.StartTime.Unix(), jt.VehicleID, gs(lt, "id"), gs(lt, "route"), gi(lt, "dir"), r.start, veh)})
				}
				if jt.NumUpdates != r.numApplied {
					viols = append(viols, Viol{"c15-count", fmt.Sprintf("prefix %d trip %s: NumUpdates %d, applied updates %d", i, jt.TripUID, jt.NumUpdates, r.numApplied)})
				}
				if jt.LastObserved.Unix() != r.lastApplied {
					viols = append(viols, Viol{"c15-lastobs", fmt.Sprintf("prefix %d trip %s: LastObserved %d, last applied update at %d", i, jt.TripUID, jt.LastObserved.Unix(), r.lastApplied)})
				}
				if !reflect.DeepEqual(unixPtr(jt.MarkedPast), i64ptrAny(r.markedPast)) {
					viols = append(viols, Viol{"c15-markedpast", fmt.Sprintf("prefix %d trip %s: MarkedPast %v, expected %v", i, jt.TripUID, unixPtr(jt.MarkedPast), i64ptrAny(r.markedPast))})
				}
				if jt.MarkedPast != nil {
					for q := range jt.StopTimes {
						if jt.StopTimes[q].MarkedPast == nil {
							viols = append(viols, Viol{"c15-tripmark", fmt.Sprintf("prefix %d trip %s: trip is marked past but stop %d is not", i, jt.TripUID, q)})
						}
					}
				}
			}
		}
	}
	var tl []string
	for k := range tags {
		tl = append(tl, k)
	}
	sort.Strings(tl)
	return viols, tl
}

func keysOf(m map[string]bool) []string {
	var out []string
	for k := range m {
		out = append(out, k)
	}
	sort.Strings(out)
	return out
}

func i64ptrAny(p *int64) any {
	if p == nil {
		return nil
	}
	return *p
}

// ---------- C20 oracle: read the export back ----------

func hasMeta(s string) bool {
	for i := 0; i < len(s); i++ {
		switch s[i] {
		case ',', '"', '\r', '\n':
			return true
		}
	}
	return false
}

func journalMetaFree(j *journal.Journal) bool {
	for _, t := range j.Trips {
		if hasMeta(t.TripUID) || hasMeta(t.TripID) || hasMeta(t.RouteID) || hasMeta(t.VehicleID) {
			return false
		}
		for _, s := range t.StopTimes {
			if hasMeta(s.StopID) || (s.Track != nil && hasMeta(*s.Track)) {
				return false
			}
		}
	}
	return true
}

func optUnixStr(t *time.Time) string {
	if t == nil {
		return ""
	}
	return strconv.FormatInt(t.Unix(), 10)
}

func oracleC20(in map[string]any, jr journalRun) ([]Viol, []string) {
	var viols []Viol
	tags := []string{}
	if len(jr.prefixes) == 0 {
		return nil, []string{"empty-history"}
	}
	j := jr.prefixes[len(jr.prefixes)-1][0]
	if jr.exported != nil {
		j = jr.exported
	}
	if !jr.exportOK {
		return []Viol{{"c20-error", "ExportToCsv returned an error"}}, nil
	}
	if jr.mutated {
		viols = append(viols, Viol{"c20-mutated", "ExportToCsv modified the journal"})
	}
	if !journalMetaFree(j) {
		return viols, []string{"has-metacharacters(out of scope)"}
	}
	readBack := func(name, data string, nCols int) [][]string {
		if data == "" {
			viols = append(viols, Viol{"c20-parse", name + ": empty output (no header)"})
			return nil
		}
		rd := csv.NewReader(bytes.NewReader([]byte(data)))
		recs, err := rd.ReadAll()
		if err != nil {
			viols = append(viols, Viol{"c20-parse", fmt.Sprintf("%s does not parse as CSV: %v", name, err)})
			return nil
		}
		return recs
	}
	col := func(hdr []string, name string) int {
		for i, h := range hdr {
			if h == name {
				return i
			}
		}
		return -1
	}
	trips := readBack("trips", jr.tripsCsv, 11)
	if trips != nil {
		// a row whose cells are all empty is written as a blank line, which CSV readers skip;
		// trips always have a start time so this cannot happen for trips
		if len(trips) != 1+len(j.Trips) {
			viols = append(viols, Viol{"c20-rows", fmt.Sprintf("trips table has %d data rows for %d journal trips", len(trips)-1, len(j.Trips))})
		} else {
			h := trips[0]
			for k, t := range j.Trips {
				row := trips[1+k]
				dir := ""
				if t.DirectionID == gtfs.DirectionID_False {
					dir = "0"
				} else if t.DirectionID == gtfs.DirectionID_True {
					dir = "1"
				}
				want := map[string]string{
					"trip_uid": t.TripUID, "trip_id": t.TripID, "route_id": t.RouteID, "direction_id": dir,
					"start_time": strconv.FormatInt(t.StartTime.Unix(), 10), "vehicle_id": t.VehicleID,
					"last_observed": strconv.FormatInt(t.LastObserved.Unix(), 10), "marked_past": optUnixStr(t.MarkedPast),
					"num_updates": strconv.Itoa(t.NumUpdates), "num_schedule_changes": strconv.Itoa(t.NumScheduleChanges),
					"num_schedule_rewrites": strconv.Itoa(t.NumScheduleRewrites),
				}
				for name, w := range want {
					c := col(h, name)
					if c < 0 || c >= len(row) || row[c] != w {
						got := "<missing column>"
						if c >= 0 && c < len(row) {
							got = row[c]
						}
						viols = append(viols, Viol{"c20-cell", fmt.Sprintf("trips row %d column %s reads %q, journal value %q", k+1, name, got, w)})
					}
				}
			}
		}
	}
	nST := 0
	for _, t := range j.Trips {
		nST += len(t.StopTimes)
	}
	sts := readBack("stop_times", jr.stCsv, 7)
	if sts != nil {
		if len(sts) != 1+nST {
			viols = append(viols, Viol{"c20-rows", fmt.Sprintf("stop_times table has %d data rows for %d journal stop times", len(sts)-1, nST)})
		} else {
			h := sts[0]
			k := 0
			for _, t := range j.Trips {
				for _, s := range t.StopTimes {
					k++
					row := sts[k]
					tr := ""
					if s.Track != nil {
						tr = *s.Track
					}
					want := map[string]string{
						"trip_uid": t.TripUID, "stop_id": s.StopID, "track": tr, "arrival_time": optUnixStr(s.ArrivalTime),
						"departure_time": optUnixStr(s.DepartureTime), "last_observed": strconv.FormatInt(s.LastObserved.Unix(), 10),
						"marked_past": optUnixStr(s.MarkedPast),
					}
					for name, w := range want {
						c := col(h, name)
						if c < 0 || c >= len(row) || row[c] != w {
							got := "<missing column>"
							if c >= 0 && c < len(row) {
								got = row[c]
							}
							viols = append(viols, Viol{"c20-cell", fmt.Sprintf("stop_times row %d column %s reads %q, journal value %q", k, name, got, w)})
						}
					}
				}
			}
		}
	}
	if len(j.Trips) > 0 {
		tags = append(tags, "trips>0")
	}
	if nST > 0 {
		tags = append(tags, "stoptimes>0")
	}
	return viols, tags
}

// ---------- the three journal properties ----------

type journalProp struct {
	id     string
	oracle func(map[string]any, journalRun) ([]Viol, []string)
	odd    bool
}

func (p *journalProp) Rule() string {
	return "histories of 1-10 (thorough: 1-14) feeds over 1-4 trips produced by progress operators (advance, skip, reroute tail, extend, duplicate stop, step back, empty update, vanish/reappear, gain/lose vehicle, shared UID), non-monotone feed times included; one case in five uses trip ids shorter than the six-byte origin-time prefix, empty, exactly six bytes long or multi-byte; ids, routes, stops and tracks occasionally carry characters special to HTML, URLs or templates; every prefix of the history and three windows are compared with the model and checked by the oracle; distinct = distinct input JSON; non-trivial = at least 2 feeds and at least one journal entry in the widest window"
}

func (p *journalProp) N(tier string) int {
	if tier == "thorough" {
		return 60000
	}
	return 4000
}

func (p *journalProp) Gen(r *Rng, tier string, i int) map[string]any {
	return genJournalCase(r, tier, p.odd && i%5 == 0)
}

// Prepare (C20 only): the journal ExportToCsv is given is the implementation's own.
func (p *journalProp) Prepare(in map[string]any) map[string]any {
	if p.id != "C20" {
		return in
	}
	out := map[string]any{}
	for k, v := range in {
		out[k] = v
	}
	jr := runJournalImpl(in)
	var j []any
	if jr.exported != nil {
		j = canonJournal(jr.exported)
	} else if n := len(jr.prefixes); n > 0 {
		j = canonJournal(jr.prefixes[n-1][0])
	} else {
		j = []any{}
	}
	out["journal"] = j
	out["kind"] = "export"
	return out
}

// projection restricts both sides to what the property's theorems speak about, so that a
// divergence elsewhere in the journal does not alarm this property.
func (p *journalProp) projection(v any) any {
	m, _ := v.(map[string]any)
	if m == nil {
		return v
	}
	switch p.id {
	case "C20":
		return map[string]any{"tripsCsv": m["tripsCsv"], "stopTimesCsv": m["stopTimesCsv"]}
	}
	var prefixes []any
	pf, _ := m["prefixes"].([]any)
	for _, row := range pf {
		var nrow []any
		r, _ := row.([]any)
		for _, jn := range r {
			trips, _ := jn.([]any)
			if p.id == "C14" {
				// stop-time lists by UID
				byUID := map[string]any{}
				for _, t := range trips {
					tm := t.(map[string]any)
					byUID[fmt.Sprint(tm["uid"])] = tm["sts"]
				}
				nrow = append(nrow, byUID)
			} else {
				// trip-level accounting, without the stop-time lists
				var nt []any
				for _, t := range trips {
					tm := map[string]any{}
					for k, x := range t.(map[string]any) {
						if k != "sts" {
							tm[k] = x
						}
					}
					nt = append(nt, tm)
				}
				nrow = append(nrow, nt)
			}
		}
		prefixes = append(prefixes, nrow)
	}
	return map[string]any{"prefixes": prefixes}
}

func (p *journalProp) Check(in map[string]any, model json.RawMessage) Verdict {
	var v Verdict
	jr := runJournalImpl(in)
	m, err := normBytes(model)
	if err != nil {
		v.Disagree = "model reply unreadable: " + err.Error()
		return v
	}
	mp, ip := p.projection(m), p.projection(normAny(journalProjection(jr)))
	if p.id == "C14" {
		// compare the lists of the trips both sides hold (which trips are present is C15's business)
		mpf, _ := mp.(map[string]any)["prefixes"].([]any)
		ipf, _ := ip.(map[string]any)["prefixes"].([]any)
		for i := range mpf {
			if i >= len(ipf) {
				break
			}
			mr, _ := mpf[i].([]any)
			ir, _ := ipf[i].([]any)
			for w := range mr {
				if w >= len(ir) {
					break
				}
				mm, _ := mr[w].(map[string]any)
				im, _ := ir[w].(map[string]any)
				for uid, msts := range mm {
					if ists, ok := im[uid]; ok && v.Disagree == "" {
						v.Disagree = diff(fmt.Sprintf(".prefixes[%d][%d][%s].sts", i, w, uid), normAny(msts), normAny(ists))
					}
				}
			}
		}
	} else {
		v.Disagree = diff("", normAny(mp), normAny(ip))
	}
	vi, tags := p.oracle(in, jr)
	v.Violations = vi
	v.Tags = tags
	nf := len(ga(in, "feeds"))
	v.Trivial = nf < 2 || len(jr.prefixes) == 0 || len(jr.prefixes[nf-1][0].Trips) == 0
	return v
}

func jcase(feeds []any, windows []any) map[string]any {
	return map[string]any{"kind": "journal", "feeds": feeds, "windows": windows}
}

func (p *journalProp) Fixed() []map[string]any {
	big := int64(1) << 50
	w := []any{[]any{-big, big}}
	mkTrip := func(id string, sd, st int64, veh any, stops ...string) map[string]any {
		us := []any{}
		for _, s := range stops {
			us = append(us, map[string]any{"stop": s, "arr": 1700000100})
		}
		t := map[string]any{"id": id, "route": "A", "dir": 2, "startDate": sd, "startTime": st, "stus": us}
		if veh != nil {
			t["vehicle"] = veh
		}
		return t
	}
	out := []map[string]any{
		jcase(nil, w),
		jcase([]any{map[string]any{"createdAt": 10, "trips": []any{}}}, w),
		// the suite's scenario shape: A B C, then B C, then C D, then gone
		jcase([]any{
			map[string]any{"createdAt": 100, "trips": []any{mkTrip("000100_A..N", 1000, 60, "V", "A", "B", "C")}},
			map[string]any{"createdAt": 200, "trips": []any{mkTrip("000100_A..N", 1000, 60, "V", "B", "C")}},
			map[string]any{"createdAt": 300, "trips": []any{mkTrip("000100_A..N", 1000, 60, nil, "C", "D")}},
			map[string]any{"createdAt": 400, "trips": []any{}},
			map[string]any{"createdAt": 500, "trips": []any{mkTrip("000100_A..N", 1000, 60, "V", "D")}},
		}, []any{[]any{-big, big}, []any{1060, 1060}, []any{1061, 2000}}),
	}
	if p.id == "C15" {
		// probe of the known finding D17: "%d%s" is ambiguous when the suffix starts with a digit
		out = append(out, jcase([]any{
			map[string]any{"createdAt": 100, "trips": []any{
				mkTrip("0000005", 100, 0, "V1", "A"),
				mkTrip("000000", 1005, 0, "V2", "B"),
			}},
		}, w))
	}
	return out
}

func init() {
	props["C14"] = func() Prop { return &journalProp{id: "C14", oracle: oracleC14, odd: true} }
	props["C15"] = func() Prop { return &journalProp{id: "C15", oracle: oracleC15, odd: true} }
	props["C20"] = func() Prop { return &journalProp{id: "C20", oracle: oracleC20, odd: true} }
}
