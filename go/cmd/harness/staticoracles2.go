package main

import (
	"fmt"
	"reflect"
	"sort"
	"strconv"
	"time"

	"github.com/jamespfennell/gtfs"
)

// ---------- C08: output order ----------

func oracleC08(in map[string]any, main implStatic, variants []implStatic) ([]Viol, []string, bool) {
	l := &violList{}
	tags := map[string]bool{}
	if main.s == nil {
		return []Viol{{"c08-error", "a well-formed feed was rejected"}}, nil, false
	}
	base := mustJSON(normAny(dropWarnings(main.out)))
	for i, v := range variants {
		if mustJSON(normAny(dropWarnings(v.out))) != base {
			l.add("c08-row-order", "row order %d of stop_times.txt / shapes.txt changes the result: %s", i, diff("", normAny(dropWarnings(main.out)), normAny(dropWarnings(v.out))))
		}
	}
	s := main.s
	multi := 0
	for _, t := range s.Trips {
		for k := 1; k < len(t.StopTimes); k++ {
			if !(t.StopTimes[k-1].StopSequence < t.StopTimes[k].StopSequence) {
				l.add("c08-stop-times-sorted", "trip %q: stop_sequence %d precedes %d", t.ID, t.StopTimes[k-1].StopSequence, t.StopTimes[k].StopSequence)
			}
			if t.StopTimes[k-1].StopSequence < 10 && t.StopTimes[k].StopSequence >= 10 {
				tags["9-vs-10"] = true
			}
		}
		if len(t.StopTimes) >= 2 {
			multi++
		}
	}
	if multi >= 2 {
		tags["two-trips-with-stop-times"] = true
	}
	for k := 1; k < len(s.Shapes); k++ {
		if !(s.Shapes[k-1].ID < s.Shapes[k].ID) {
			l.add("c08-shapes-sorted", "shape %q precedes %q", s.Shapes[k-1].ID, s.Shapes[k].ID)
		}
	}
	// shape points ascending: compare with the rows' sequence numbers
	sh := truthOf(in, "shapes.txt")
	for _, shp := range s.Shapes {
		var seqs []int
		for _, row := range sh.rows {
			if sh.get(row, "shape_id") == shp.ID {
				seqs = append(seqs, digit(sh.get(row, "shape_pt_sequence")))
			}
		}
		sorted := append([]int{}, seqs...)
		sort.Ints(sorted)
		for k, q := range sorted {
			for _, row := range sh.rows {
				if sh.get(row, "shape_id") == shp.ID && digit(sh.get(row, "shape_pt_sequence")) == q && k < len(shp.Points) {
					lat, _ := exactFloat(sh.get(row, "shape_pt_lat"))
					if lat != mathBits(shp.Points[k].Latitude) {
						l.add("c08-shape-points-sorted", "shape %q: point %d is not the row with the %d-th smallest sequence", shp.ID, k, k)
					}
				}
			}
		}
	}
	// the other collections keep file order
	ids := func(file, col string) []string {
		t := truthOf(in, file)
		var out []string
		for _, row := range t.rows {
			out = append(out, t.get(row, col))
		}
		return out
	}
	var got []string
	for _, a := range s.Agencies {
		got = append(got, a.Id)
	}
	if !reflect.DeepEqual(got, ids("agency.txt", "agency_id")) {
		l.add("c08-file-order", "agencies %q are not in file order %q", got, ids("agency.txt", "agency_id"))
	}
	got = nil
	for _, a := range s.Routes {
		got = append(got, a.Id)
	}
	if !reflect.DeepEqual(got, ids("routes.txt", "route_id")) {
		l.add("c08-file-order", "routes %q are not in file order", got)
	}
	got = nil
	for _, a := range s.Stops {
		got = append(got, a.Id)
	}
	if !reflect.DeepEqual(got, ids("stops.txt", "stop_id")) {
		l.add("c08-file-order", "stops are not in file order")
	}
	got = nil
	for _, a := range s.Trips {
		got = append(got, a.ID)
	}
	if !reflect.DeepEqual(got, ids("trips.txt", "trip_id")) {
		l.add("c08-file-order", "trips %q are not in file order", got)
	}
	got = nil
	for _, a := range s.Transfers {
		got = append(got, a.From.Id+">"+a.To.Id)
	}
	tr := truthOf(in, "transfers.txt")
	var wantTr []string
	for _, row := range tr.rows {
		wantTr = append(wantTr, tr.get(row, "from_stop_id")+">"+tr.get(row, "to_stop_id"))
	}
	if !reflect.DeepEqual(got, wantTr) && !(len(got) == 0 && len(wantTr) == 0) {
		l.add("c08-file-order", "transfers %q are not in file order %q", got, wantTr)
	}
	// frequencies of a trip and added/removed dates of a service keep file order: covered by C01's
	// per-row comparison, re-checked here on counts only
	return l.v, tagList(tags), multi < 2
}

func mathBits(f float64) uint64 {
	b, _ := exactFloat(strconv.FormatFloat(f, 'g', -1, 64))
	return b
}

// ---------- C09: rejected rows are inert; warnings describe the offending row ----------

func oracleC09(in map[string]any, main implStatic, variants []implStatic) ([]Viol, []string, bool) {
	l := &violList{}
	tags := map[string]bool{}
	if main.s == nil || len(variants) == 0 || variants[0].s == nil {
		return []Viol{{"c09-error", "feed rejected: " + fmt.Sprint(main.out["outcome"], main.out["file"])}}, nil, false
	}
	a, b := normAny(dropWarnings(main.out)), normAny(dropWarnings(variants[0].out))
	if mustJSON(a) != mustJSON(b) {
		l.add("c09-not-inert", "the inserted invalid rows change the result: %s", diff("", b, a))
	}
	inserted := ga(in, "inserted")
	for _, x := range inserted {
		tags["cause:"+gs(x, "cause")] = true
		tags["file:"+gs(x, "file")] = true
	}
	// a feed without offending rows gives no warning of a kind the model does not know (those are outside the
	// comparison with the model; the warnings the model knows are compared there)
	if variants[0].canon != nil && len(variants[0].canon.otherWarnings) > 0 {
		l.add("c09-warning-without-offence", "the feed without the inserted rows has no offending row, yet it is given %d warning(s) of kind %s", len(variants[0].canon.otherWarnings), variants[0].canon.otherWarnings[0])
	}
	// warnings of the run with bad rows that the clean run does not have must each describe an inserted row
	clean := map[string]bool{}
	for _, w := range variants[0].s.Warnings {
		clean[fmt.Sprint(w.File, w.RowNumber, w.RowContent)] = true
	}
	for _, w := range main.s.Warnings {
		if clean[fmt.Sprint(w.File, w.RowNumber, w.RowContent)] && len(inserted) == 0 {
			continue
		}
		if w.RowNumber == 0 {
			continue
		}
		t := truthOf(in, string(w.File))
		if t == nil {
			l.add("c09-warning", "warning names file %q which is not in the feed", w.File)
			continue
		}
		// the rows of the file with the bad rows: "rowsWithBad"
		rows := gm(gm(in, "withBad"), string(w.File))
		var want []string
		arr := ga(rows, "rows")
		if w.RowNumber >= 1 && w.RowNumber <= len(arr) {
			for _, c := range arr[w.RowNumber-1].([]any) {
				want = append(want, unbstr(c.(string)))
			}
		}
		var hdr []string
		for _, h := range ga(rows, "header") {
			hdr = append(hdr, unbstr(h.(string)))
		}
		if !reflect.DeepEqual([]string(w.RowContent), want) {
			l.add("c09-warning-row", "warning for %s row %d carries %q, that row is %q", w.File, w.RowNumber, w.RowContent, want)
		}
		if !reflect.DeepEqual([]string(w.HeaderContent), hdr) {
			l.add("c09-warning-header", "warning for %s row %d carries header %q, the header is %q", w.File, w.RowNumber, w.HeaderContent, hdr)
		}
		tags["warning-checked"] = true
	}
	// every inserted agency row with a missing value must be reported
	for _, x := range inserted {
		if gs(x, "file") == "agency.txt" {
			found := false
			for _, w := range main.s.Warnings {
				if string(w.File) == "agency.txt" && int64(w.RowNumber) == gi(x, "rowNumber") {
					found = true
				}
			}
			if !found {
				l.add("c09-warning-missing", "no warning for the rejected agency row %d", gi(x, "rowNumber"))
			}
		}
	}
	return l.v, tagList(tags), len(inserted) == 0
}

// ---------- C10: blank = absent = default; fill-in; inheritance ----------

type defaultCol struct {
	file, col string
}

var defaultCols = []defaultCol{
	{"routes.txt", "route_color"}, {"routes.txt", "route_text_color"}, {"routes.txt", "continuous_pickup"}, {"routes.txt", "continuous_drop_off"},
	{"stop_times.txt", "pickup_type"}, {"stop_times.txt", "drop_off_type"}, {"stop_times.txt", "continuous_pickup"}, {"stop_times.txt", "continuous_drop_off"},
	{"stop_times.txt", "timepoint"}, {"transfers.txt", "transfer_type"}, {"frequencies.txt", "exact_times"}, {"trips.txt", "direction_id"},
	{"trips.txt", "wheelchair_accessible"}, {"trips.txt", "bikes_allowed"}, {"stops.txt", "wheelchair_boarding"}, {"stops.txt", "location_type"},
}

func oracleC10(in map[string]any, main implStatic, variants []implStatic) ([]Viol, []string, bool) {
	l := &violList{}
	tags := map[string]bool{}
	if main.s == nil {
		return []Viol{{"c10-error", "feed rejected"}}, nil, false
	}
	// main: chosen columns present with blank cells; variants[0]: the columns absent; variants[1]: mixture
	if len(variants) >= 1 {
		a, b := normAny(dropWarnings(main.out)), normAny(dropWarnings(variants[0].out))
		if mustJSON(a) != mustJSON(b) {
			l.add("c10-blank-vs-absent", "leaving the cells blank and omitting the columns give different results: %s", diff("", b, a))
		}
	}
	blanked := map[string]bool{}
	for _, c := range ga(in, "blanked") {
		blanked[unbstr(c.(string))] = true
		tags["col:"+unbstr(c.(string))] = true
	}
	s := main.s
	chk := func(cond bool, col string, f string, a ...any) {
		if blanked[col] && !cond {
			l.add("c10-default", f, a...)
		}
	}
	for _, r := range s.Routes {
		chk(r.Color == "FFFFFF", "routes.txt/route_color", "route %q: blank route_color gives %q, the default is FFFFFF", r.Id, r.Color)
		chk(r.TextColor == "000000", "routes.txt/route_text_color", "route %q: blank route_text_color gives %q, the default is 000000", r.Id, r.TextColor)
		chk(r.ContinuousPickup == gtfs.PickupDropOffPolicy_No, "routes.txt/continuous_pickup", "route %q: blank continuous_pickup gives %v, the default is no continuous pickup", r.Id, r.ContinuousPickup)
		chk(r.ContinuousDropOff == gtfs.PickupDropOffPolicy_No, "routes.txt/continuous_drop_off", "route %q: blank continuous_drop_off gives %v", r.Id, r.ContinuousDropOff)
	}
	for _, t := range s.Trips {
		chk(t.DirectionId == gtfs.DirectionID_Unspecified, "trips.txt/direction_id", "trip %q: blank direction_id gives %v", t.ID, t.DirectionId)
		chk(t.WheelchairAccessible == gtfs.WheelchairBoarding_NotSpecified, "trips.txt/wheelchair_accessible", "trip %q: blank wheelchair_accessible gives %v", t.ID, t.WheelchairAccessible)
		chk(t.BikesAllowed == gtfs.BikesAllowed_NotSpecified, "trips.txt/bikes_allowed", "trip %q: blank bikes_allowed gives %v", t.ID, t.BikesAllowed)
		for _, st := range t.StopTimes {
			chk(st.PickupType == gtfs.PickupDropOffPolicy_Yes, "stop_times.txt/pickup_type", "trip %q: blank pickup_type gives %v, the default is regular pickup", t.ID, st.PickupType)
			chk(st.DropOffType == gtfs.PickupDropOffPolicy_Yes, "stop_times.txt/drop_off_type", "trip %q: blank drop_off_type gives %v, the default is regular drop off", t.ID, st.DropOffType)
			chk(st.ContinuousPickup == gtfs.PickupDropOffPolicy_No, "stop_times.txt/continuous_pickup", "trip %q: blank continuous_pickup gives %v", t.ID, st.ContinuousPickup)
			chk(st.ContinuousDropOff == gtfs.PickupDropOffPolicy_No, "stop_times.txt/continuous_drop_off", "trip %q: blank continuous_drop_off gives %v", t.ID, st.ContinuousDropOff)
			chk(st.ExactTimes, "stop_times.txt/timepoint", "trip %q: blank timepoint gives approximate times, the default is exact", t.ID)
		}
		for _, f := range t.Frequencies {
			chk(f.ExactTimes == gtfs.FrequencyBased, "frequencies.txt/exact_times", "trip %q: blank exact_times gives %v", t.ID, f.ExactTimes)
		}
	}
	for _, t := range s.Transfers {
		chk(t.Type == gtfs.TransferType_Recommended, "transfers.txt/transfer_type", "blank transfer_type gives %v", t.Type)
	}
	for _, st := range s.Stops {
		if !gb(in, "inherit") {
			chk(st.WheelchairBoarding == gtfs.WheelchairBoarding_NotSpecified, "stops.txt/wheelchair_boarding", "stop %q: blank wheelchair_boarding gives %v", st.Id, st.WheelchairBoarding)
		}
		chk(st.Type == gtfs.StopType_Stop || (st.Type == gtfs.StopType_Platform), "stops.txt/location_type", "stop %q: blank location_type gives %v", st.Id, st.Type)
	}
	// mixture: the rows that are blank take the default, the others their value – compare with the
	// all-explicit parse row by row through the model comparison; here: one-sided arrival/departure
	stt := truthOf(in, "stop_times.txt")
	if stt != nil {
		for _, t := range s.Trips {
			for _, st := range t.StopTimes {
				for _, row := range stt.rows {
					if stt.get(row, "trip_id") == t.ID && digit(stt.get(row, "stop_sequence")) == st.StopSequence {
						a, okA := gtfsSeconds(stt.get(row, "arrival_time"))
						d, okD := gtfsSeconds(stt.get(row, "departure_time"))
						if okA && !okD {
							tags["arrival-only"] = true
							if st.ArrivalTime != time.Duration(a)*time.Second || st.DepartureTime != st.ArrivalTime {
								l.add("c10-fill-in", "trip %q seq %d: only arrival %q is given, result has arrival %v departure %v", t.ID, st.StopSequence, stt.get(row, "arrival_time"), st.ArrivalTime, st.DepartureTime)
							}
						}
						if okA && okD {
							// "nothing else": when both times are given neither is touched - also when one of them is midnight,
							// whose duration is the zero a missing time would have
							tags["both-times"] = true
							if a == 0 || d == 0 {
								tags["both-times-one-midnight"] = true
							}
							if st.ArrivalTime != time.Duration(a)*time.Second || st.DepartureTime != time.Duration(d)*time.Second {
								l.add("c10-fill-in", "trip %q seq %d: arrival %q and departure %q are both given, result has arrival %v departure %v", t.ID, st.StopSequence, stt.get(row, "arrival_time"), stt.get(row, "departure_time"), st.ArrivalTime, st.DepartureTime)
							}
						}
						if okD && !okA {
							tags["departure-only"] = true
							if st.DepartureTime != time.Duration(d)*time.Second || st.ArrivalTime != st.DepartureTime {
								l.add("c10-fill-in", "trip %q seq %d: only departure %q is given, result has arrival %v departure %v", t.ID, st.StopSequence, stt.get(row, "departure_time"), st.ArrivalTime, st.DepartureTime)
							}
						}
					}
				}
			}
		}
	}
	// mixture, cell by cell: in a row where some of the policy cells of stop_times.txt are blank and others are not,
	// each blank cell takes its own default and each written cell its own value
	if mt := truthOfKey(in, "mixedTruth", "stop_times.txt"); mt != nil && len(variants) >= 2 && variants[1].s != nil {
		policy := func(cell string, dflt gtfs.PickupDropOffPolicy) (gtfs.PickupDropOffPolicy, bool) {
			switch cell {
			case "":
				return dflt, true
			case "0":
				return gtfs.PickupDropOffPolicy_Yes, true
			case "1":
				return gtfs.PickupDropOffPolicy_No, true
			case "2":
				return gtfs.PickupDropOffPolicy_PhoneAgency, true
			case "3":
				return gtfs.PickupDropOffPolicy_CoordinateWithDriver, true
			}
			return 0, false
		}
		for _, t := range variants[1].s.Trips {
			for _, st := range t.StopTimes {
				var hit []string
				n := 0
				for _, row := range mt.rows {
					if mt.get(row, "trip_id") == t.ID && digit(mt.get(row, "stop_sequence")) == st.StopSequence {
						hit = row
						n++
					}
				}
				if n != 1 {
					continue
				}
				cells := []string{mt.get(hit, "pickup_type"), mt.get(hit, "drop_off_type"), mt.get(hit, "continuous_pickup"), mt.get(hit, "continuous_drop_off")}
				got := []gtfs.PickupDropOffPolicy{st.PickupType, st.DropOffType, st.ContinuousPickup, st.ContinuousDropOff}
				dflt := []gtfs.PickupDropOffPolicy{gtfs.PickupDropOffPolicy_Yes, gtfs.PickupDropOffPolicy_Yes, gtfs.PickupDropOffPolicy_No, gtfs.PickupDropOffPolicy_No}
				names := []string{"pickup_type", "drop_off_type", "continuous_pickup", "continuous_drop_off"}
				nBlank := 0
				for k := range cells {
					if cells[k] == "" {
						nBlank++
					}
					if want, ok := policy(cells[k], dflt[k]); ok && mt.col(names[k]) >= 0 && got[k] != want {
						l.add("c10-cell", "trip %q seq %d: %s is written %q (blank = default), the result has %v", t.ID, st.StopSequence, names[k], cells[k], got[k])
					}
				}
				if tp := mt.get(hit, "timepoint"); mt.col("timepoint") >= 0 && (tp == "" || tp == "0" || tp == "1") && st.ExactTimes != (tp != "0") {
					l.add("c10-cell", "trip %q seq %d: timepoint is written %q (blank = exact), the result has exact=%v", t.ID, st.StopSequence, tp, st.ExactTimes)
				}
				if nBlank > 0 && nBlank < len(cells) {
					tags["row-with-blank-and-written-policy-cells"] = true
				}
			}
		}
	}
	// inheritance: the other option value changes nothing but unspecified wheelchair boarding of
	// stops whose parent is a station
	other, so, _ := parseStaticImpl(membersOf(in["members"]), !gb(in, "inherit"), gb(in, "deflate"))
	if so != nil {
		on, off := main.s, so
		if !gb(in, "inherit") {
			on, off = so, main.s
		}
		if len(on.Stops) == len(off.Stops) {
			for i := range on.Stops {
				a, b := on.Stops[i], off.Stops[i]
				want := b.WheelchairBoarding
				if b.Parent != nil && b.Parent.Type == gtfs.StopType_Station && b.WheelchairBoarding == gtfs.WheelchairBoarding_NotSpecified {
					want = on.Stops[idxStop(off, b.Parent)].WheelchairBoarding
					tags["inherits"] = true
				}
				if a.WheelchairBoarding != want {
					l.add("c10-inherit", "stop %q: with inheritance wheelchair boarding is %v, expected %v (own %v)", a.Id, a.WheelchairBoarding, want, b.WheelchairBoarding)
				}
			}
		}
		// nothing else changes
		x := normAny(dropWarnings(main.out)).(map[string]any)
		y := normAny(dropWarnings(other)).(map[string]any)
		stripWB := func(m map[string]any) {
			res, _ := m["result"].(map[string]any)
			for _, st := range asList(res["stops"]) {
				delete(st.(map[string]any), "wheelchairBoarding")
			}
		}
		stripWB(x)
		stripWB(y)
		if mustJSON(x) != mustJSON(y) {
			l.add("c10-inherit-scope", "the inheritance option changes something other than stops' wheelchair boarding: %s", diff("", x, y))
		}
	}
	return l.v, tagList(tags), len(blanked) == 0 && !gb(in, "oneSided")
}

// ---------- C11: services ----------

func oracleC11(in map[string]any, main implStatic, variants []implStatic) ([]Viol, []string, bool) {
	l := &violList{}
	tags := map[string]bool{}
	if main.s == nil {
		return []Viol{{"c11-error", "feed rejected"}}, nil, false
	}
	validDate := func(s string) bool {
		_, err := time.Parse("20060102", s)
		return err == nil
	}
	ag := truthOf(in, "agency.txt")
	zone := "UTC"
	if len(main.s.Agencies) > 0 {
		if loc, err := time.LoadLocation(main.s.Agencies[0].Timezone); err == nil {
			zone = loc.String()
		}
	}
	_ = ag
	type exp struct {
		flags          [7]bool
		hasCal         bool
		start, end     string
		added, removed []string
	}
	want := map[string]*exp{}
	cal := truthOf(in, "calendar.txt")
	days := []string{"monday", "tuesday", "wednesday", "thursday", "friday", "saturday", "sunday"}
	if cal != nil {
		for _, row := range cal.rows {
			id := cal.get(row, "service_id")
			ok := id != "" && validDate(cal.get(row, "start_date")) && validDate(cal.get(row, "end_date"))
			for _, d := range days {
				if cal.get(row, d) == "" {
					ok = false
				}
			}
			if !ok {
				tags["invalid-calendar-row"] = true
				continue
			}
			e := &exp{hasCal: true, start: cal.get(row, "start_date"), end: cal.get(row, "end_date")}
			for i, d := range days {
				e.flags[i] = cal.get(row, d) == "1"
			}
			want[id] = e
		}
	}
	cd := truthOf(in, "calendar_dates.txt")
	if cd != nil {
		for _, row := range cd.rows {
			id, date, ty := cd.get(row, "service_id"), cd.get(row, "date"), cd.get(row, "exception_type")
			if id == "" || !validDate(date) || (ty != "1" && ty != "2") {
				tags["invalid-exception-row"] = true
				continue
			}
			e := want[id]
			if e == nil {
				e = &exp{start: date, end: date}
				want[id] = e
				tags["calendar-dates-only-service"] = true
			}
			if date < e.start {
				e.start = date
				tags["exception-before-range"] = true
			}
			if date > e.end {
				e.end = date
				tags["exception-after-range"] = true
			}
			if ty == "1" {
				e.added = append(e.added, date)
			} else {
				e.removed = append(e.removed, date)
			}
		}
	}
	seen := map[string]bool{}
	for _, sv := range main.s.Services {
		if seen[sv.Id] {
			l.add("c11-duplicate", "two services with id %q", sv.Id)
		}
		seen[sv.Id] = true
		e := want[sv.Id]
		if e == nil {
			l.add("c11-invented", "service %q appears in no valid calendar or exception row", sv.Id)
			continue
		}
		flags := [7]bool{sv.Monday, sv.Tuesday, sv.Wednesday, sv.Thursday, sv.Friday, sv.Saturday, sv.Sunday}
		if flags != e.flags {
			l.add("c11-flags", "service %q: weekday flags %v, expected %v", sv.Id, flags, e.flags)
		}
		fmtD := func(t time.Time) string { return t.Format("20060102") }
		chkMid := func(t time.Time, what string) {
			if t.Format("15:04:05") != "00:00:00" || t.Location().String() != zone {
				l.add("c11-midnight", "service %q %s %v is not midnight in %s", sv.Id, what, t, zone)
			}
		}
		chkMid(sv.StartDate, "start")
		chkMid(sv.EndDate, "end")
		if fmtD(sv.StartDate) != e.start || fmtD(sv.EndDate) != e.end {
			l.add("c11-range", "service %q: range %s-%s, expected %s-%s (calendar range extended to cover the exception dates)", sv.Id, fmtD(sv.StartDate), fmtD(sv.EndDate), e.start, e.end)
		}
		var ga_, gr []string
		for _, d := range sv.AddedDates {
			ga_ = append(ga_, fmtD(d))
			chkMid(d, "added date")
			if d.Before(sv.StartDate) || d.After(sv.EndDate) {
				l.add("c11-cover", "service %q: added date %s outside %s-%s", sv.Id, fmtD(d), fmtD(sv.StartDate), fmtD(sv.EndDate))
			}
		}
		for _, d := range sv.RemovedDates {
			gr = append(gr, fmtD(d))
			chkMid(d, "removed date")
			if d.Before(sv.StartDate) || d.After(sv.EndDate) {
				l.add("c11-cover", "service %q: removed date %s outside %s-%s", sv.Id, fmtD(d), fmtD(sv.StartDate), fmtD(sv.EndDate))
			}
		}
		if !reflect.DeepEqual(ga_, e.added) && !(len(ga_) == 0 && len(e.added) == 0) {
			l.add("c11-added", "service %q: added dates %v, the type-1 exception rows in file order are %v", sv.Id, ga_, e.added)
		}
		if !reflect.DeepEqual(gr, e.removed) && !(len(gr) == 0 && len(e.removed) == 0) {
			l.add("c11-removed", "service %q: removed dates %v, the type-2 exception rows in file order are %v", sv.Id, gr, e.removed)
		}
	}
	for id := range want {
		if !seen[id] {
			l.add("c11-missing", "service %q appears in a valid row but not in the result", id)
		}
	}
	tags["zone:"+zone] = true
	return l.v, tagList(tags), len(want) < 2
}
