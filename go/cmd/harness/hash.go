package main

import (
	"encoding/json"
	"fmt"
	"hash"
	"math"
	"strings"
	"time"

	"github.com/jamespfennell/gtfs"
)

// recorder is a hash.Hash that records the byte stream written to it.
type recorder struct{ b []byte }

func (r *recorder) Write(p []byte) (int, error) { r.b = append(r.b, p...); return len(p), nil }
func (r *recorder) Sum(b []byte) []byte         { return append(b, r.b...) }
func (r *recorder) Reset()                      { r.b = nil }
func (r *recorder) Size() int                   { return 0 }
func (r *recorder) BlockSize() int              { return 1 }

var _ hash.Hash = &recorder{}

// ----- data-field view of a trip / vehicle (what DriverHash decodes), unsigned representations -----

func u64(i int64) uint64 { return uint64(i) }
func b01(b bool) int {
	if b {
		return 1
	}
	return 0
}

func eventData(e *gtfs.StopTimeEvent) any {
	if e == nil {
		return nil
	}
	m := map[string]any{}
	if e.Time != nil {
		m["time"] = u64(e.Time.Unix())
	}
	if e.Delay != nil {
		m["delay"] = u64(int64(*e.Delay))
	}
	if e.Uncertainty != nil {
		m["uncertainty"] = uint32(*e.Uncertainty)
	}
	return m
}

func tripData(t *gtfs.Trip) map[string]any {
	stus := []any{}
	for i := range t.StopTimeUpdates {
		s := &t.StopTimeUpdates[i]
		m := map[string]any{"sr": uint32(s.ScheduleRelationship), "stopId": bstrPtr(s.StopID), "track": bstrPtr(s.NyctTrack),
			"arrival": eventData(s.Arrival), "departure": eventData(s.Departure)}
		if s.StopSequence != nil {
			m["stopSequence"] = *s.StopSequence
		}
		stus = append(stus, m)
	}
	return map[string]any{
		"id": bstr(t.ID.ID), "routeId": bstr(t.ID.RouteID), "dir": int(t.ID.DirectionID), "hasStartDate": b01(t.ID.HasStartDate),
		"startDate": u64(t.ID.StartDate.Unix()), "hasStartTime": b01(t.ID.HasStartTime), "startTime": u64(int64(t.ID.StartTime)),
		"sr": uint32(t.ID.ScheduleRelationship), "stus": stus,
	}
}

func vehicleData(v *gtfs.Vehicle) map[string]any {
	m := map[string]any{"congestionLevel": uint32(v.CongestionLevel), "stopId": bstrPtr(v.StopID)}
	if v.ID != nil {
		m["id"] = map[string]any{"id": bstr(v.ID.ID), "label": bstr(v.ID.Label), "licensePlate": bstr(v.ID.LicensePlate)}
	}
	if v.Trip != nil {
		m["trip"] = tripData(v.Trip)
	}
	if p := v.Position; p != nil {
		pm := map[string]any{}
		if p.Latitude != nil {
			pm["latitude"] = math.Float32bits(*p.Latitude)
		}
		if p.Longitude != nil {
			pm["longitude"] = math.Float32bits(*p.Longitude)
		}
		if p.Bearing != nil {
			pm["bearing"] = math.Float32bits(*p.Bearing)
		}
		if p.Odometer != nil {
			pm["odometer"] = math.Float64bits(*p.Odometer)
		}
		if p.Speed != nil {
			pm["speed"] = math.Float32bits(*p.Speed)
		}
		m["position"] = pm
	}
	if v.CurrentStopSequence != nil {
		m["currentStopSequence"] = *v.CurrentStopSequence
	}
	if v.CurrentStatus != nil {
		m["currentStatus"] = uint32(*v.CurrentStatus)
	}
	if v.Timestamp != nil {
		m["timestamp"] = u64(v.Timestamp.Unix())
	}
	if v.OccupancyStatus != nil {
		m["occupancyStatus"] = uint32(*v.OccupancyStatus)
	}
	if v.OccupancyPercentage != nil {
		m["occupancyPercentage"] = *v.OccupancyPercentage
	}
	return m
}

// ----- rebuilding gtfs values from the data view (so that replays and shrinking work) -----

func tripFromData(d any, variant int) *gtfs.Trip {
	loc := time.UTC
	if variant&1 == 1 {
		loc = time.FixedZone("X", 5*3600+1800)
	}
	t := &gtfs.Trip{ID: gtfs.TripID{
		ID: gs(d, "id"), RouteID: gs(d, "routeId"), DirectionID: gtfs.DirectionID(gi(d, "dir")),
		HasStartDate: gi(d, "hasStartDate") != 0, StartDate: time.Unix(gi(d, "startDate"), 0).In(loc),
		HasStartTime: gi(d, "hasStartTime") != 0, StartTime: time.Duration(gi(d, "startTime")),
		ScheduleRelationship: gtfs.TripScheduleRelationship(gi(d, "sr")),
	}}
	if variant&2 == 2 {
		t.IsEntityInMessage = true
		t.Vehicle = &gtfs.Vehicle{ID: &gtfs.VehicleID{ID: "back-reference"}}
	}
	ev := func(e map[string]any) *gtfs.StopTimeEvent {
		if e == nil {
			return nil
		}
		out := &gtfs.StopTimeEvent{}
		if p := gip(e, "time"); p != nil {
			tt := time.Unix(*p, 0).In(loc)
			out.Time = &tt
		}
		if p := gip(e, "delay"); p != nil {
			dd := time.Duration(*p)
			out.Delay = &dd
		}
		if p := gip(e, "uncertainty"); p != nil {
			u := int32(uint32(*p))
			out.Uncertainty = &u
		}
		return out
	}
	for _, s := range ga(d, "stus") {
		stu := gtfs.StopTimeUpdate{StopID: gsp(s, "stopId"), NyctTrack: gsp(s, "track"),
			ScheduleRelationship: gtfs.StopTimeUpdateScheduleRelationship(gi(s, "sr")),
			Arrival:              ev(gm(s, "arrival")), Departure: ev(gm(s, "departure"))}
		if p := gip(s, "stopSequence"); p != nil {
			u := uint32(*p)
			stu.StopSequence = &u
		}
		t.StopTimeUpdates = append(t.StopTimeUpdates, stu)
	}
	return t
}

func vehicleFromData(d any, variant int) *gtfs.Vehicle {
	loc := time.UTC
	if variant&1 == 1 {
		loc = time.FixedZone("Y", -3*3600)
	}
	v := &gtfs.Vehicle{CongestionLevel: gtfs.CongestionLevel(gi(d, "congestionLevel")), StopID: gsp(d, "stopId")}
	if variant&2 == 2 {
		v.IsEntityInMessage = true
	}
	if id := gm(d, "id"); id != nil {
		v.ID = &gtfs.VehicleID{ID: gs(id, "id"), Label: gs(id, "label"), LicensePlate: gs(id, "licensePlate")}
	}
	if t := gm(d, "trip"); t != nil {
		v.Trip = tripFromData(t, variant)
	}
	if p := gm(d, "position"); p != nil {
		pos := &gtfs.Position{}
		f32 := func(k string) *float32 {
			if x := gip(p, k); x != nil {
				f := math.Float32frombits(uint32(*x))
				return &f
			}
			return nil
		}
		pos.Latitude, pos.Longitude, pos.Bearing, pos.Speed = f32("latitude"), f32("longitude"), f32("bearing"), f32("speed")
		if x := gip(p, "odometer"); x != nil {
			f := math.Float64frombits(uint64(*x))
			pos.Odometer = &f
		}
		v.Position = pos
	}
	if p := gip(d, "currentStopSequence"); p != nil {
		u := uint32(*p)
		v.CurrentStopSequence = &u
	}
	if p := gip(d, "currentStatus"); p != nil {
		u := gtfs.CurrentStatus(int32(uint32(*p)))
		v.CurrentStatus = &u
	}
	if p := gip(d, "timestamp"); p != nil {
		tt := time.Unix(*p, 0).In(loc)
		v.Timestamp = &tt
	}
	if p := gip(d, "occupancyStatus"); p != nil {
		u := gtfs.OccupancyStatus(int32(uint32(*p)))
		v.OccupancyStatus = &u
	}
	if p := gip(d, "occupancyPercentage"); p != nil {
		u := uint32(*p)
		v.OccupancyPercentage = &u
	}
	return v
}

func implStream(side any, variant int) string {
	r := &recorder{}
	if t := gm(side, "trip"); t != nil {
		tripFromData(t, variant).Hash(r)
	} else if v := gm(side, "vehicle"); v != nil {
		vehicleFromData(v, variant).Hash(r)
	}
	return string(r.b)
}

// ----- generator -----

var hashStrings = append([]string{"", "a", "ab", "abc", "b", "bc", "c", "L03N", "0", "\x00", "é", "123456_A..N"}, longHashStrings()...)

// pickHashString: the empty string one time in six, a short string mostly, a long one one time in eight
func pickHashString(r *Rng) string {
	switch {
	case r.P(1, 6):
		return ""
	case r.P(1, 8):
		return hashStrings[12+r.Intn(len(hashStrings)-12)]
	}
	return hashStrings[r.Intn(12)]
}

// strings longer than any fixed-size staging buffer is likely to be (127 to 1100 bytes, also multi-byte)
func longHashStrings() []string {
	var out []string
	for _, n := range []int{127, 128, 129, 200, 255, 256, 257, 300, 561, 1100} {
		b := make([]byte, n)
		for i := range b {
			b[i] = byte('a' + (i*7+n)%26)
		}
		out = append(out, string(b))
	}
	out = append(out, strings.Repeat("é", 201))
	return out
}

func genNum(r *Rng, bits int) uint64 {
	switch r.Intn(6) {
	case 0:
		return 0
	case 1:
		return 1
	case 2:
		if bits == 64 {
			return math.MaxUint64
		}
		return (1 << uint(bits)) - 1
	case 3:
		return 1 << uint(bits-1)
	default:
		if bits == 64 {
			return r.U64()
		}
		return r.U64() % (1 << uint(bits))
	}
}

func genEventData(r *Rng) any {
	if r.P(1, 4) {
		return nil
	}
	m := map[string]any{}
	if r.P(2, 3) {
		m["time"] = genNum(r, 64)
	}
	if r.P(1, 2) {
		m["delay"] = genNum(r, 64)
	}
	if r.P(1, 2) {
		m["uncertainty"] = genNum(r, 32)
	}
	return m
}

func genTripData(r *Rng) map[string]any {
	n := r.Intn(4)
	if r.P(1, 6) {
		n = 4 + r.Intn(12) // long enough for any fixed-size staging buffer to wrap several times
	}
	stus := []any{}
	for i := 0; i < n; i++ {
		m := map[string]any{"sr": genNum(r, 32) % 4, "arrival": genEventData(r), "departure": genEventData(r)}
		if r.P(2, 3) {
			m["stopId"] = bstr(pickHashString(r))
		}
		if r.P(1, 3) {
			m["track"] = bstr(pickHashString(r))
		}
		if r.P(1, 2) {
			m["stopSequence"] = genNum(r, 32)
		}
		stus = append(stus, m)
	}
	return map[string]any{
		"id": bstr(pickHashString(r)), "routeId": bstr(pickHashString(r)), "dir": r.Intn(3), "hasStartDate": r.Intn(2),
		"startDate": genNum(r, 64), "hasStartTime": r.Intn(2), "startTime": genNum(r, 64), "sr": genNum(r, 32) % 5, "stus": stus,
	}
}

func genVehicleData(r *Rng) map[string]any {
	m := map[string]any{"congestionLevel": genNum(r, 32) % 5}
	if r.P(2, 3) {
		m["id"] = map[string]any{"id": bstr(pickHashString(r)), "label": bstr(pickHashString(r)), "licensePlate": bstr(pickHashString(r))}
	}
	if r.P(1, 2) {
		m["trip"] = genTripData(r)
	}
	if r.P(1, 2) {
		p := map[string]any{}
		for _, k := range []string{"latitude", "longitude", "bearing", "speed"} {
			if r.P(1, 2) {
				p[k] = genNum(r, 32)
			}
		}
		if r.P(1, 2) {
			p["odometer"] = genNum(r, 64)
		}
		m["position"] = p
	}
	for _, k := range []string{"currentStopSequence", "currentStatus", "occupancyStatus", "occupancyPercentage"} {
		if r.P(1, 2) {
			m[k] = genNum(r, 32)
		}
	}
	if r.P(1, 2) {
		m["stopId"] = bstr(pickHashString(r))
	}
	if r.P(1, 2) {
		m["timestamp"] = genNum(r, 64)
	}
	return m
}

// leafPaths lists the paths of all leaves and optional members, for single-field mutation
type leaf struct {
	path []pathElem
}

func collectLeaves(v any, prefix []pathElem, out *[]leaf) {
	switch t := v.(type) {
	case map[string]any:
		for k, x := range t {
			collectLeaves(x, append(append([]pathElem{}, prefix...), pathElem{key: k}), out)
		}
	case []any:
		for i, x := range t {
			collectLeaves(x, append(append([]pathElem{}, prefix...), pathElem{idx: i}), out)
		}
		*out = append(*out, leaf{append([]pathElem{}, prefix...)})
	default:
		*out = append(*out, leaf{append([]pathElem{}, prefix...)})
	}
}

// mutateOne returns a copy of d differing from it in exactly one data field (or in the number of updates).
func mutateOne(r *Rng, d map[string]any) (map[string]any, string) {
	c := deepCopyJSON(d).(map[string]any)
	switch r.Intn(9) {
	case 0: // string boundary shift between id and routeId
		id, rt := gs(c, "id"), gs(c, "routeId")
		if tr := gm(c, "trip"); tr == nil && (id == "") != (rt == "") && r.Bool() {
			// one of two adjacent plain strings is empty: the other one moves over
			if _, ok := c["routeId"]; ok {
				c["id"], c["routeId"] = bstr(rt), bstr(id)
				return c, "swap-with-empty"
			}
		}
		if vid := gm(c, "id"); vid != nil {
			a, b2, p3 := gs(vid, "id"), gs(vid, "label"), gs(vid, "licensePlate")
			if !(a == b2 && b2 == p3) {
				vid["id"], vid["label"], vid["licensePlate"] = bstr(p3), bstr(a), bstr(b2)
				return c, "rotate-vehicle-id-strings"
			}
		}
		if tr := gm(c, "trip"); tr != nil {
			id, rt = gs(tr, "id"), gs(tr, "routeId")
			if len(rt) > 0 {
				tr["id"], tr["routeId"] = bstr(id+rt[:1]), bstr(rt[1:])
				return c, "boundary"
			}
		} else if _, ok := c["routeId"]; ok && len(rt) > 0 {
			c["id"], c["routeId"] = bstr(id+rt[:1]), bstr(rt[1:])
			return c, "boundary"
		}
	case 1: // number of updates
		if stus, ok := c["stus"].([]any); ok {
			if len(stus) > 0 && r.Bool() {
				c["stus"] = stus[:len(stus)-1]
			} else {
				c["stus"] = append(stus, map[string]any{"sr": 0})
			}
			return c, "count"
		}
	case 2: // presence swap: an optional number moves to an absent optional sibling, value unchanged
		var evs []map[string]any
		var walk func(v any)
		walk = func(v any) {
			switch t := v.(type) {
			case map[string]any:
				for _, k := range []string{"arrival", "departure"} {
					if e, ok := t[k].(map[string]any); ok {
						evs = append(evs, e)
					}
				}
				for _, x := range t {
					walk(x)
				}
			case []any:
				for _, x := range t {
					walk(x)
				}
			}
		}
		walk(c)
		for _, i := range r.Perm(len(evs)) {
			e := evs[i]
			_, hasT := e["time"]
			_, hasD := e["delay"]
			if hasT != hasD {
				if hasT {
					e["delay"] = e["time"]
					delete(e, "time")
				} else {
					e["time"] = e["delay"]
					delete(e, "delay")
				}
				return c, "presence-swap"
			}
		}
	case 3: // the last byte of one string (same length)
		var leaves []leaf
		collectLeaves(c, nil, &leaves)
		for _, i := range r.Perm(len(leaves)) {
			l := leaves[i]
			if len(l.path) == 0 || l.path[len(l.path)-1].key == "" {
				continue
			}
			var parent any = c
			for _, e := range l.path[:len(l.path)-1] {
				if e.key != "" {
					parent = parent.(map[string]any)[e.key]
				} else {
					parent = parent.([]any)[e.idx]
				}
			}
			pm, ok := parent.(map[string]any)
			if !ok {
				continue
			}
			if x, ok := pm[l.path[len(l.path)-1].key].(string); ok && len(x) > 0 {
				b := []byte(unbstr(x))
				if len(b) == 0 {
					continue
				}
				b[len(b)-1] ^= 1
				pm[l.path[len(l.path)-1].key] = bstr(string(b))
				return c, "string-tail"
			}
		}
	}
	var leaves []leaf
	collectLeaves(c, nil, &leaves)
	for try := 0; try < 20; try++ {
		l := leaves[r.Intn(len(leaves))]
		if len(l.path) == 0 {
			continue
		}
		parentPath, last := l.path[:len(l.path)-1], l.path[len(l.path)-1]
		var parent any = c
		for _, e := range parentPath {
			if e.key != "" {
				parent = parent.(map[string]any)[e.key]
			} else {
				parent = parent.([]any)[e.idx]
			}
		}
		pm, ok := parent.(map[string]any)
		if !ok || last.key == "" {
			continue
		}
		cur := pm[last.key]
		switch x := cur.(type) {
		case nil:
			continue
		case string:
			optional := last.key == "stopId" || last.key == "track"
			if optional && r.P(1, 3) {
				delete(pm, last.key) // present (possibly empty) -> nil
				return c, "nil-vs-value"
			}
			pm[last.key] = x + "x"
			return c, "string"
		case json.Number:
			n := toI64(x)
			optional := !(last.key == "dir" || last.key == "hasStartDate" || last.key == "startDate" || last.key == "hasStartTime" ||
				last.key == "startTime" || last.key == "sr" || last.key == "congestionLevel")
			if optional && r.P(1, 3) {
				delete(pm, last.key)
				if n == 0 {
					return c, "nil-vs-zero"
				}
				return c, "nil-vs-value"
			}
			if last.key == "hasStartDate" || last.key == "hasStartTime" {
				pm[last.key] = 1 - n
			} else if last.key == "dir" {
				pm[last.key] = (n + 1) % 3
			} else {
				pm[last.key] = uint64(n) ^ 1
			}
			return c, "number"
		}
	}
	return nil, ""
}

// ----- the property -----

type hashProp struct{}

func (p *hashProp) Rule() string {
	return "random trips and vehicles over small string pools and numeric edge values (0, 1, max, sign bit, random), every optional field independently present or absent; two thirds of the cases are pairs: a value and a copy differing in exactly one data field (string boundary shift, update count, nil-vs-zero, nil-vs-value, one number, one string, the last byte of one string) or in which a number moves from one optional field of an event to its absent sibling (time <-> delay) or an equal-data copy presented differently (other time zone, in-message flag, vehicle back-reference); on every value, each string in turn has its last byte changed and the hash input must change; distinct = distinct input JSON; non-trivial = vehicle, or trip with at least one update, or a pair"
}

func (p *hashProp) N(tier string) int {
	if tier == "thorough" {
		return 400000
	}
	return 20000
}

func (p *hashProp) Gen(r *Rng, tier string, i int) map[string]any {
	var side map[string]any
	if r.Bool() {
		side = map[string]any{"trip": genTripData(r)}
	} else {
		side = map[string]any{"vehicle": genVehicleData(r)}
	}
	c := map[string]any{"kind": "hash", "a": side}
	switch r.Intn(3) {
	case 0:
	case 1:
		c["b"] = deepCopyJSON(side)
		c["bVariant"] = 1 + r.Intn(3)
		c["expect"] = "equal"
	default:
		key := "trip"
		if _, ok := side["vehicle"]; ok {
			key = "vehicle"
		}
		m, what := mutateOne(r, normStrings(side[key].(map[string]any)))
		if m != nil {
			c["b"] = map[string]any{key: m}
			c["expect"] = "differ:" + what
		}
	}
	return c
}

// normStrings round-trips through JSON so that numbers are json.Number (as mutateOne expects)
func normStrings(m map[string]any) map[string]any { return deepCopyJSON(m).(map[string]any) }

func (p *hashProp) Check(in map[string]any, model json.RawMessage) Verdict {
	var v Verdict
	var mr struct {
		A     string `json:"a"`
		B     string `json:"b"`
		Equal bool   `json:"equal"`
	}
	if err := json.Unmarshal(model, &mr); err != nil {
		v.Disagree = "model reply unreadable"
		return v
	}
	a := in["a"]
	sa := implStream(a, 0)
	if unbstr(mr.A) != sa {
		v.Disagree = fmt.Sprintf("stream of a: model %x vs impl %x", unbstr(mr.A), sa)
	}
	// determinism
	if implStream(a, 0) != sa {
		v.Violations = append(v.Violations, Viol{"c13-nondeterministic", "hashing the same value twice wrote different streams"})
	}
	_, isVeh := a.(map[string]any)["vehicle"]
	v.Trivial = !isVeh && len(ga(gm(a, "trip"), "stus")) == 0 && !has(in, "b")
	if isVeh {
		v.Tags = append(v.Tags, "vehicle")
	} else {
		v.Tags = append(v.Tags, "trip")
	}
	// sweep over every string of the value: flipping the last byte of any one of them must change the hash input
	// (wherever that string happens to fall in the implementation's staging of the stream)
	{
		var leaves []leaf
		norm := deepCopyJSON(a)
		collectLeaves(norm, nil, &leaves)
		swept := 0
		for _, l := range leaves {
			if len(l.path) == 0 || l.path[len(l.path)-1].key == "" {
				continue
			}
			c := deepCopyJSON(norm)
			var parent any = c
			for _, e := range l.path[:len(l.path)-1] {
				if e.key != "" {
					parent = parent.(map[string]any)[e.key]
				} else {
					parent = parent.([]any)[e.idx]
				}
			}
			pm, ok := parent.(map[string]any)
			if !ok {
				continue
			}
			key := l.path[len(l.path)-1].key
			x, ok := pm[key].(string)
			if !ok || len(unbstr(x)) == 0 {
				continue
			}
			b := []byte(unbstr(x))
			b[len(b)-1] ^= 1
			pm[key] = bstr(string(b))
			swept++
			if implStream(c, 0) == sa {
				v.Violations = append(v.Violations, Viol{"c13-collision", fmt.Sprintf("changing the last byte of %s (%q) leaves the hash input unchanged", key, unbstr(x))})
				break
			}
		}
		if swept >= 8 {
			v.Tags = append(v.Tags, "string-tail-sweep>=8")
		}
	}
	if has(in, "b") {
		b := in["b"]
		variant := int(gi(in, "bVariant"))
		sb := implStream(b, variant)
		if unbstr(mr.B) != implStream(b, 0) && v.Disagree == "" {
			v.Disagree = fmt.Sprintf("stream of b: model %x vs impl %x", unbstr(mr.B), implStream(b, 0))
		}
		sameData := mustJSON(normAny(a)) == mustJSON(normAny(b))
		exp := gs(in, "expect")
		v.Tags = append(v.Tags, "pair:"+exp)
		if sameData && sa != sb {
			v.Violations = append(v.Violations, Viol{"c13-equal-data-different-hash", fmt.Sprintf("equal data fields (variant %d: time zone / in-message flag / back-reference differ) but different hash input", variant)})
		}
		if !sameData && sa == sb {
			v.Violations = append(v.Violations, Viol{"c13-collision", fmt.Sprintf("values differing in a data field (%s) receive the same hash input", exp)})
		}
		if mr.Equal != (sa == sb) && v.Disagree == "" && variant == 0 {
			v.Disagree = "equality of the two streams: model and implementation differ"
		}
	}
	return v
}

func (p *hashProp) Fixed() []map[string]any {
	mk := func(id, route string) map[string]any {
		return map[string]any{"trip": map[string]any{"id": id, "routeId": route, "dir": 0, "hasStartDate": 0, "startDate": 0, "hasStartTime": 0, "startTime": 0, "sr": 0, "stus": []any{}}}
	}
	zero := map[string]any{"trip": map[string]any{"id": "t", "routeId": "", "dir": 0, "hasStartDate": 0, "startDate": 0, "hasStartTime": 0, "startTime": 0, "sr": 0,
		"stus": []any{map[string]any{"sr": 0, "stopSequence": 0, "arrival": map[string]any{"time": 0, "delay": 0, "uncertainty": 0}}}}}
	nilv := map[string]any{"trip": map[string]any{"id": "t", "routeId": "", "dir": 0, "hasStartDate": 0, "startDate": 0, "hasStartTime": 0, "startTime": 0, "sr": 0,
		"stus": []any{map[string]any{"sr": 0, "arrival": map[string]any{}}}}}
	return []map[string]any{
		{"kind": "hash", "a": mk("ab", "c"), "b": mk("a", "bc"), "expect": "differ:boundary"},
		{"kind": "hash", "a": zero, "b": nilv, "expect": "differ:nil-vs-zero"},
		{"kind": "hash", "a": zero, "b": deepCopyJSON(zero), "bVariant": 3, "expect": "equal"},
	}
}

func init() {
	props["C13"] = func() Prop { return &hashProp{} }
}
