package main

import (
	"encoding/json"
	"fmt"
	"sort"
	"strconv"

	"github.com/jamespfennell/gtfs"
)

// staticProp: shared shell of the static properties.
type staticProp struct {
	id     string
	rule   string
	nQuick int
	nThor  int
	gen    func(r *Rng, tier string, i int) map[string]any
	// oracle sees the implementation's outcome for the main members and for each variant
	oracle func(in map[string]any, main implStatic, variants []implStatic) ([]Viol, []string, bool)
	fixed  func() []map[string]any
}

type implStatic struct {
	out   map[string]any // {"outcome":..., "result":...}
	s     *gtfs.Static
	canon *staticCanon
}

func (p *staticProp) Rule() string { return p.rule }
func (p *staticProp) N(tier string) int {
	if tier == "thorough" {
		return p.nThor
	}
	return p.nQuick
}
func (p *staticProp) Gen(r *Rng, tier string, i int) map[string]any { return p.gen(r, tier, i) }
func (p *staticProp) Fixed() []map[string]any {
	if p.fixed != nil {
		return p.fixed()
	}
	return nil
}

// project restricts an outcome to what the property's theorems speak about.
func (p *staticProp) project(o any) any {
	m, _ := o.(map[string]any)
	if m == nil {
		return o
	}
	res, _ := m["result"].(map[string]any)
	if res == nil {
		if p.id == "C05" {
			return map[string]any{"outcome": m["outcome"]}
		}
		return m
	}
	out := map[string]any{}
	for k, v := range res {
		out[k] = v
	}
	if sv, _ := out["services"].([]any); len(sv) == 0 {
		delete(out, "zone") // the zone is only observable through service dates
	}
	switch p.id {
	case "C05":
		return map[string]any{"outcome": m["outcome"]}
	case "C09", "C06":
	case "C11":
		// the services as a set keyed by id (their order is C06's business), each trip with its service's id
		svs := asList(out["services"])
		sorted := append([]any{}, svs...)
		sort.SliceStable(sorted, func(i, j int) bool {
			return fmt.Sprint(sorted[i].(map[string]any)["id"]) < fmt.Sprint(sorted[j].(map[string]any)["id"])
		})
		tr := []any{}
		for _, t := range asList(out["trips"]) {
			tm, _ := t.(map[string]any)
			sid := any(nil)
			if k, err := strconv.Atoi(fmt.Sprint(tm["service"])); err == nil && k < len(svs) {
				sid = svs[k].(map[string]any)["id"]
			}
			tr = append(tr, map[string]any{"id": tm["id"], "service": sid})
		}
		out = map[string]any{"services": sorted, "zone": out["zone"], "trips": tr}
	default:
		delete(out, "warnings")
	}
	return map[string]any{"outcome": m["outcome"], "result": out}
}

func asList(v any) []any {
	l, _ := v.([]any)
	return l
}

func (p *staticProp) Check(in map[string]any, model json.RawMessage) Verdict {
	var v Verdict
	var mr struct {
		Main     json.RawMessage   `json:"main"`
		Variants []json.RawMessage `json:"variants"`
	}
	if err := json.Unmarshal(model, &mr); err != nil {
		v.Disagree = "model reply unreadable"
		return v
	}
	// "decimal numbers exactly": the bits reported for the decimal cells of the case passed the model's certificate
	if n, failed := floatCertOf(model); len(failed) > 0 {
		v.Disagree = fmt.Sprintf("float certificate: the conversion of cell %q is not the correctly rounded binary64 value", failed[0])
		return v
	} else if n > 0 {
		v.Tags = append(v.Tags, "floats-certified")
	}
	inherit := gb(in, "inherit")
	deflate := gb(in, "deflate")
	run := func(ms []member) implStatic {
		out, s, c := parseStaticImpl(ms, inherit, deflate)
		return implStatic{out, s, c}
	}
	main := run(membersOf(in["members"]))
	var variants []implStatic
	for _, vm := range asList(in["variants"]) {
		variants = append(variants, run(membersOf(vm)))
	}
	cmp := func(where string, mraw json.RawMessage, im implStatic) {
		if v.Disagree != "" {
			return
		}
		m, err := normBytes(mraw)
		if err != nil {
			v.Disagree = where + ": model result unreadable"
			return
		}
		v.Disagree = diff(where, normAny(p.project(m)), normAny(p.project(normAny(im.out))))
	}
	cmp("main", mr.Main, main)
	for i := range variants {
		if i < len(mr.Variants) {
			cmp(fmt.Sprintf("variant[%d]", i), mr.Variants[i], variants[i])
		}
	}
	// what every static property relies on: references are elements of the result's own collections
	for _, im := range append([]implStatic{main}, variants...) {
		if im.canon != nil {
			for _, f := range im.canon.foreign {
				if p.id == "C03" || p.id == "C01" {
					v.Violations = append(v.Violations, Viol{"c03-foreign", f})
				}
			}
			for _, b := range im.canon.badTime {
				if p.id == "C01" || p.id == "C11" {
					v.Violations = append(v.Violations, Viol{"static-time", b})
				}
			}
		}
	}
	if p.oracle != nil {
		vi, tags, trivial := p.oracle(in, main, variants)
		v.Violations = append(v.Violations, vi...)
		v.Tags = tags
		v.Trivial = trivial
	}
	v.Tags = append(v.Tags, "outcome:"+fmt.Sprint(main.out["outcome"]))
	if main.s != nil {
		if len(main.s.Trips) > 0 {
			v.Tags = append(v.Tags, "has-trips")
		}
		n := 0
		for _, t := range main.s.Trips {
			n += len(t.StopTimes)
		}
		if n > 0 {
			v.Tags = append(v.Tags, "has-stop-times")
		}
		if len(main.s.Services) > 0 {
			v.Tags = append(v.Tags, "has-services")
		}
		if len(main.s.Warnings) > 0 {
			v.Tags = append(v.Tags, "has-warnings")
		}
		for _, st := range main.s.Stops {
			if st.Parent != nil {
				v.Tags = append(v.Tags, "has-parent-links")
				break
			}
		}
	}
	return v
}

func init() {
	props["C01"] = func() Prop {
		return &staticProp{id: "C01", nQuick: 1500, nThor: 60000, oracle: oracleC01,
			rule: "well-formed feeds (1-3 agencies incl. second zones and unknown zones, up to 5 routes, 12 stops in hierarchies, calendar and calendar_dates mixes, up to 3 shapes with unordered points, 7 trips with interleaved unordered stop times, frequencies, transfers; every optional default-bearing field explicit; one case in five with every identifier replaced by an unusual but legal one (blanks inside and around, case and blank twins, number/boolean/null look-alikes, CSV metacharacters, multi-byte, 240 bytes long); values stressing decoding: hours past 24, many fractional digits, negative and exponent decimals, padded numbers, commas/quotes/line feeds/multi-byte text) rendered under two independent presentations (column permutation, unknown extra columns, forced and mixed quoting, LF/CRLF/mixed, BOM, missing final newline, member order, extra members, store/deflate) plus the plain one; the result is compared with the model, across presentations, and field by field with the generated cells; distinct = distinct input JSON; non-trivial = at least 2 rows in at least 3 files",
			gen: func(r *Rng, tier string, i int) map[string]any {
				f := genFeed(r, feedOpts{})
				if i%5 == 3 {
					renameIDs(r, f) // ids verbatim: unusual but legal identifiers
				}
				return staticCase(f.members(r, true, nil), [][]member{f.members(r, true, nil), f.members(r, false, nil)}, false,
					map[string]any{"deflate": r.Bool(), "truth": f.truth()})
			},
			fixed: func() []map[string]any {
				// probe of the known finding D20: a transfer whose two stops coincide yields no entity
				r := NewRng(20)
				f := genFeed(r, feedOpts{})
				tr := f.tables["transfers.txt"]
				tr.rows = append([][]string{{"S0", "S0", "2", "120"}}, tr.rows...)
				return []map[string]any{staticCase(f.members(r, false, nil), nil, false, map[string]any{"truth": f.truth()})}
			}}
	}
	props["ST"] = func() Prop {
		return &staticProp{id: "ST", rule: "model validation", nQuick: 1500, nThor: 20000, gen: func(r *Rng, tier string, i int) map[string]any {
			f := genFeed(r, feedOpts{messy: i%2 == 1})
			return staticCase(f.members(r, true, nil), [][]member{f.members(r, false, nil)}, r.Bool(), map[string]any{"deflate": r.Bool()})
		}}
	}
}

// ---------- generators of the remaining static properties ----------

func shuffledRows(r *Rng, rows [][]string, mode int) [][]string {
	out := make([][]string, len(rows))
	copy(out, rows)
	switch mode {
	case 0: // reverse
		for i, j := 0, len(out)-1; i < j; i, j = i+1, j-1 {
			out[i], out[j] = out[j], out[i]
		}
	case 1: // riffle: odd positions first
		var a, b [][]string
		for i, x := range out {
			if i%2 == 0 {
				a = append(a, x)
			} else {
				b = append(b, x)
			}
		}
		out = append(b, a...)
	default:
		for i := len(out) - 1; i > 0; i-- {
			j := r.Intn(i + 1)
			out[i], out[j] = out[j], out[i]
		}
	}
	return out
}

func genC08(r *Rng, tier string, i int) map[string]any {
	f := genFeed(r, feedOpts{edgeSeq: true})
	if i%6 == 4 {
		renameIDs(r, f)
	}
	var variants [][]member
	for mode := 0; mode < 3; mode++ {
		g := f.clone()
		g.tables["stop_times.txt"].rows = shuffledRows(r, g.tables["stop_times.txt"].rows, mode)
		g.tables["shapes.txt"].rows = shuffledRows(r, g.tables["shapes.txt"].rows, (mode+1)%3)
		variants = append(variants, g.members(r, false, nil))
	}
	return staticCase(f.members(r, false, nil), variants, false, map[string]any{"truth": f.truth()})
}

type badRow struct {
	cause string
	cells map[string]string // column -> value; other columns take the value of a valid template row
}

func badRowsFor(file string, k int) []badRow {
	id := fmt.Sprintf("BAD%d", k)
	switch file {
	case "agency.txt":
		return []badRow{{"blank-required", map[string]string{"agency_id": id, "agency_name": ""}}, {"blank-required", map[string]string{"agency_id": id, "agency_url": ""}},
			{"blank-required", map[string]string{"agency_id": id, "agency_timezone": ""}}}
	case "routes.txt":
		return []badRow{{"blank-required", map[string]string{"route_id": ""}}, {"blank-required", map[string]string{"route_id": id, "route_type": ""}},
			{"unknown-reference", map[string]string{"route_id": id, "agency_id": "NOPE"}}}
	case "stops.txt":
		return []badRow{{"blank-required", map[string]string{"stop_id": "", "parent_station": "S0"}}, {"blank-required", map[string]string{"stop_id": "", "parent_station": "S1", "wheelchair_boarding": "1"}}}
	case "transfers.txt":
		return []badRow{{"blank-required", map[string]string{"from_stop_id": ""}}, {"blank-required", map[string]string{"to_stop_id": ""}},
			{"unknown-reference", map[string]string{"from_stop_id": "NOPE"}}, {"unknown-reference", map[string]string{"to_stop_id": "NOPE"}}}
	case "calendar.txt":
		return []badRow{{"blank-required", map[string]string{"service_id": ""}}, {"unparseable-date", map[string]string{"service_id": id, "start_date": "2023-01-01"}},
			{"unparseable-date", map[string]string{"service_id": "SV0", "end_date": "20230231"}}, {"blank-required", map[string]string{"service_id": "SV0", "monday": ""}}}
	case "calendar_dates.txt":
		return []badRow{{"blank-required", map[string]string{"service_id": ""}}, {"unparseable-date", map[string]string{"service_id": "SV0", "date": "20231301"}},
			{"unparseable-date", map[string]string{"service_id": id, "date": ""}}, {"blank-required", map[string]string{"service_id": "SV0", "date": "19990101", "exception_type": ""}},
			{"unknown-exception-type", map[string]string{"service_id": id, "date": "20230505", "exception_type": "3"}}, {"unknown-exception-type", map[string]string{"service_id": "SV0", "date": "19990102", "exception_type": "0"}}}
	case "shapes.txt":
		return []badRow{{"blank-required", map[string]string{"shape_id": ""}}, {"unparseable-number", map[string]string{"shape_pt_lat": "north"}},
			{"unparseable-number", map[string]string{"shape_pt_lon": "1e999"}}, {"unparseable-number", map[string]string{"shape_pt_sequence": "1.5"}}, {"blank-required", map[string]string{"shape_pt_sequence": ""}},
			// integer-shaped but outside int32: rejected, not wrapped around
			{"number-out-of-range", map[string]string{"shape_pt_sequence": "4294967296"}}, {"number-out-of-range", map[string]string{"shape_pt_sequence": "4294967298"}},
			{"number-out-of-range", map[string]string{"shape_pt_sequence": "2147483648"}}, {"number-out-of-range", map[string]string{"shape_pt_sequence": "-2147483649"}},
			{"number-out-of-range", map[string]string{"shape_pt_sequence": "99999999999999999999"}}}
	case "trips.txt":
		return []badRow{{"blank-required", map[string]string{"trip_id": ""}}, {"blank-required", map[string]string{"trip_id": id, "route_id": ""}},
			{"unknown-reference", map[string]string{"trip_id": id, "route_id": "NOPE"}}, {"unknown-reference", map[string]string{"trip_id": id, "service_id": "NOPE"}}}
	case "frequencies.txt":
		return []badRow{{"blank-required", map[string]string{"trip_id": ""}}, {"unknown-reference", map[string]string{"trip_id": "NOPE"}},
			{"unparseable-number", map[string]string{"headway_secs": "x"}}, {"unparseable-time", map[string]string{"start_time": "1:2:3:4"}}, {"blank-required", map[string]string{"end_time": ""}},
			{"unparseable-time", map[string]string{"end_time": "25:xx:00"}}, {"unparseable-time", map[string]string{"end_time": "soon"}}, {"unparseable-time", map[string]string{"start_time": "-1:00:00"}},
			{"number-out-of-range", map[string]string{"headway_secs": "4294967596"}}, {"number-out-of-range", map[string]string{"headway_secs": "2147483648"}},
			{"number-out-of-range", map[string]string{"headway_secs": "-2147483649"}}}
	case "stop_times.txt":
		return []badRow{{"blank-required", map[string]string{"stop_id": ""}}, {"blank-required", map[string]string{"trip_id": ""}}, {"unknown-reference", map[string]string{"trip_id": "NOPE"}},
			{"unknown-reference", map[string]string{"stop_id": "NOPE"}}, {"unparseable-number", map[string]string{"stop_sequence": "x"}}, {"blank-required", map[string]string{"stop_sequence": ""}},
			{"unparseable-time", map[string]string{"arrival_time": "", "departure_time": "soon"}}}
	}
	return nil
}

var templateRows = map[string][]string{
	"agency.txt":    {"AGX", "Agency X", "http://x", "UTC", "en", "", "", ""},
	"routes.txt":    {"RX", "AG0", "x", "X", "", "3", "", "FFFFFF", "000000", "1", "1", "1"},
	"stops.txt":     {"SX", "", "X", "", "", "1.0", "2.0", "", "0", "", "", "0", ""},
	"transfers.txt": {"S0", "S1", "0", "60"}, "calendar.txt": {"SVX", "1", "1", "1", "1", "1", "0", "0", "20230101", "20231231"},
	"calendar_dates.txt": {"SV0", "20230704", "1"}, "shapes.txt": {"SH0", "1.0", "2.0", "50", ""},
	"trips.txt": {"R0", "SV0", "TX", "", "", "0", "", "", "0", "0"}, "frequencies.txt": {"T0", "06:00:00", "07:00:00", "600", "0"},
	"stop_times.txt": {"T0", "08:00:00", "08:00:30", "S0", "77", "", "0", "0", "1", "1", "", "1"},
}

func genC09(r *Rng, tier string, i int) map[string]any {
	f := genFeed(r, feedOpts{})
	g := f.clone()
	inserted := []any{}
	nBad := 1 + r.Intn(5)
	for k := 0; k < nBad; k++ {
		file := r.Pick(staticFiles)
		cands := badRowsFor(file, k)
		if len(cands) == 0 {
			continue
		}
		b := cands[r.Intn(len(cands))]
		t := g.tables[file]
		row := append([]string{}, templateRows[file]...)
		for len(row) < len(t.header) {
			row = append(row, "")
		}
		for col, val := range b.cells {
			for ci, h := range t.header {
				if h == col {
					row[ci] = val
				}
			}
		}
		pos := r.Intn(len(t.rows) + 1)
		switch r.Intn(4) {
		case 0:
			pos = 0
		case 1:
			pos = len(t.rows)
		}
		if file != "agency.txt" && len(t.rows) > 0 && r.Bool() {
			// a rejected twin of a neighbouring valid row (same owner, same keys, a sequence number at, below or above
			// the neighbour's) instead of the free-standing template row: whatever per-trip, per-shape or per-id
			// bookkeeping the parser keeps sees a row that looks like it belongs
			nb := t.rows[minInt(pos, len(t.rows)-1)]
			if pos > 0 && r.Bool() {
				nb = t.rows[pos-1]
			}
			row = append([]string{}, nb...)
			for ci, h := range t.header {
				if h == "stop_sequence" || h == "shape_pt_sequence" {
					if q, err := strconv.Atoi(row[ci]); err == nil {
						row[ci] = fmt.Sprintf("%d", []int{q, 0, maxInt(0, q-1-r.Intn(5)), q + 1 + r.Intn(5), 1000}[r.Intn(5)])
					}
				}
			}
			for col, val := range b.cells {
				for ci, h := range t.header {
					if h == col {
						row[ci] = val
					}
				}
			}
		}
		// "any number of such rows": a run of 1-3 copies of the same rejected row, consecutively
		run := 1
		if r.P(1, 2) {
			run = 2 + r.Intn(2)
		}
		for q := 0; q < run; q++ {
			t.rows = append(t.rows[:pos], append([][]string{append([]string{}, row...)}, t.rows[pos:]...)...)
		}
		inserted = append(inserted, map[string]any{"file": file, "cause": b.cause, "at": pos, "run": run})
	}
	// a trip whose rows are in order but for ONE descent, and a rejected row of that trip exactly at the descent, with a
	// sequence number at or below its successor's: the only hint that the trip needs sorting passes through a rejected row
	if r.P(1, 3) {
		stt := g.tables["stop_times.txt"]
		ft := f.tables["stop_times.txt"]
		byTrip := map[string][]int{}
		for i, row := range stt.rows {
			byTrip[row[0]] = append(byTrip[row[0]], i)
		}
		var cands []string
		for id, idx := range byTrip {
			if len(idx) >= 3 && len(idx) == len(byTripRows(ft, id)) {
				cands = append(cands, id)
			}
		}
		sort.Strings(cands)
		if len(cands) > 0 {
			id := cands[r.Intn(len(cands))]
			idx := byTrip[id]
			rows := make([][]string, len(idx))
			for k, i := range idx {
				rows[k] = stt.rows[i]
			}
			sort.Slice(rows, func(a, b int) bool { return atoiOr(rows[a][4], 0) < atoiOr(rows[b][4], 0) })
			// largest first, the rest ascending
			rot := append([][]string{rows[len(rows)-1]}, rows[:len(rows)-1]...)
			for k, i := range idx {
				stt.rows[i] = rot[k]
			}
			// the same arrangement in the feed without the rejected row
			fidx := byTripRows(ft, id)
			for k, i := range fidx {
				ft.rows[i] = append([]string{}, rot[k]...)
			}
			bad := append([]string{}, rot[1]...)
			bad[3] = r.Pick([]string{"", "NOPE"})
			bad[4] = r.Pick([]string{"0", rot[1][4]})
			pos := idx[0] + 1
			stt.rows = append(stt.rows[:pos], append([][]string{bad}, stt.rows[pos:]...)...)
			inserted = append(inserted, map[string]any{"file": "stop_times.txt", "cause": "rejected-row-at-the-only-descent", "at": pos, "run": 1})
		}
	}
	// the orphaned rows of a rejected trip: a trips.txt row that is rejected (unknown route) and several
	// stop_times / frequencies rows that name it, placed after rows of a valid trip
	if r.P(1, 3) {
		tp, stt, fq := g.tables["trips.txt"], g.tables["stop_times.txt"], g.tables["frequencies.txt"]
		row := append([]string{}, templateRows["trips.txt"]...)
		row[0], row[2] = "NOPE", "TORPHAN"
		tp.rows = append(tp.rows, row)
		pos := r.Intn(len(stt.rows) + 1)
		n := 2 + r.Intn(3)
		for q := 0; q < n; q++ {
			sr := append([]string{}, templateRows["stop_times.txt"]...)
			sr[0], sr[4] = "TORPHAN", fmt.Sprintf("%d", 70+q)
			stt.rows = append(stt.rows[:pos], append([][]string{sr}, stt.rows[pos:]...)...)
		}
		fr := append([]string{}, templateRows["frequencies.txt"]...)
		fr[0] = "TORPHAN"
		fq.rows = append(fq.rows, fr, append([]string{}, fr...))
		inserted = append(inserted, map[string]any{"file": "stop_times.txt", "cause": "orphaned-rows-of-rejected-trip", "at": pos, "run": n})
	}
	// row numbers of the inserted agency rows (after all insertions)
	for _, x := range inserted {
		m := x.(map[string]any)
		if m["file"] == "agency.txt" {
			for ri, row := range g.tables["agency.txt"].rows {
				if row[0] != "" && len(row[0]) >= 3 && row[0][:3] == "BAD" {
					m["rowNumber"] = ri + 1
					_ = row
				}
			}
		}
	}
	return staticCase(g.members(r, false, nil), [][]member{f.members(r, false, nil)}, r.Bool(),
		map[string]any{"truth": f.truth(), "withBad": g.truth(), "inserted": inserted})
}

func genC10(r *Rng, tier string, i int) map[string]any {
	f := genFeed(r, feedOpts{})
	// make sure the one-sided fill-in occurs: blank one of arrival/departure in some rows
	oneSided := r.P(1, 2)
	if oneSided {
		t := f.tables["stop_times.txt"]
		for _, row := range t.rows {
			switch r.Intn(3) {
			case 0:
				row[1] = ""
			case 1:
				row[2] = ""
			}
		}
	}
	n := 1 + r.Intn(4)
	chosen := map[string]bool{}
	for k := 0; k < n; k++ {
		c := defaultCols[r.Intn(len(defaultCols))]
		chosen[c.file+"/"+c.col] = true
	}
	if r.P(1, 3) {
		// all default-bearing columns of one file together (blank and non-blank cells then stand side by side in one row)
		file := defaultCols[r.Intn(len(defaultCols))].file
		for _, c := range defaultCols {
			if c.file == file {
				chosen[c.file+"/"+c.col] = true
			}
		}
	}
	scattered := r.Bool() // the mixture blanks cells independently instead of every other row
	blank, absent, mixed := f.clone(), f.clone(), f.clone()
	var blanked []any
	for key := range chosen {
		blanked = append(blanked, bstr(key))
		var file, col string
		for _, c := range defaultCols {
			if c.file+"/"+c.col == key {
				file, col = c.file, c.col
			}
		}
		for _, g := range []*feed{blank, absent, mixed} {
			t := g.tables[file]
			ci := -1
			for x, h := range t.header {
				if h == col {
					ci = x
				}
			}
			if ci < 0 {
				continue
			}
			switch g {
			case blank:
				for _, row := range t.rows {
					row[ci] = ""
				}
			case mixed:
				for ri, row := range t.rows {
					if (!scattered && ri%2 == 0) || (scattered && r.Bool()) {
						row[ci] = ""
					}
				}
			case absent:
				t.header = append(append([]string{}, t.header[:ci]...), t.header[ci+1:]...)
				for ri, row := range t.rows {
					t.rows[ri] = append(append([]string{}, row[:ci]...), row[ci+1:]...)
				}
			}
		}
	}
	return staticCase(blank.members(r, false, nil), [][]member{absent.members(r, false, nil), mixed.members(r, false, nil)}, r.Bool(),
		map[string]any{"truth": blank.truth(), "mixedTruth": mixed.truth(), "blanked": blanked, "oneSided": oneSided})
}

func genC11(r *Rng, tier string, i int) map[string]any {
	f := genFeed(r, feedOpts{calendar: true, messy: i%3 == 2})
	// more exception rows, around the calendar range
	cd := f.tables["calendar_dates.txt"]
	ids := []string{"SV0", "SV1", "SV2", "SVNEW"}
	for k := 0; k < r.Intn(6); k++ {
		cd.rows = append(cd.rows, []string{r.Pick(ids), r.Pick([]string{"20230101", "20230228", "20230301", "20230615", "20230930", "20231001", "20251231", "20240229", "20230312", "20231105", "20230326", "20231029", "20230402"}), r.Pick([]string{"1", "2", "2", "1", "3"})})
	}
	for i := len(cd.rows) - 1; i > 0; i-- {
		j := r.Intn(i + 1)
		cd.rows[i], cd.rows[j] = cd.rows[j], cd.rows[i]
	}
	drop := map[string]bool{}
	if cal := f.tables["calendar.txt"]; cal != nil && len(cal.rows) > 0 && r.P(1, 5) {
		// a service id that occurs in two calendar.txt rows (identical, or with other flags and range): still one service
		row := append([]string{}, cal.rows[r.Intn(len(cal.rows))]...)
		if r.Bool() {
			for ci, h := range cal.header {
				switch h {
				case "monday", "tuesday", "wednesday", "thursday", "friday", "saturday", "sunday":
					row[ci] = r.Pick([]string{"0", "1"})
				case "start_date":
					row[ci] = "20230105"
				case "end_date":
					row[ci] = "20230910"
				}
			}
		}
		pos := r.Intn(len(cal.rows) + 1)
		cal.rows = append(cal.rows[:pos], append([][]string{row}, cal.rows[pos:]...)...)
	}
	switch r.Intn(5) {
	case 0:
		drop["calendar.txt"] = true
	case 1:
		drop["calendar_dates.txt"] = true
	}
	tr := f.truth()
	for k := range drop {
		delete(tr, k)
	}
	return staticCase(f.members(r, r.Bool(), drop), nil, false, map[string]any{"truth": tr})
}

func init() {
	props["C08"] = func() Prop {
		return &staticProp{id: "C08", nQuick: 1500, nThor: 60000, oracle: oracleC08, gen: genC08,
			rule: "well-formed feeds (as C01) with interleaved, unordered stop times over several trips and unordered shape points over several shapes, sequence numbers crossing 9/10 and, for shape points, at and beyond the edge of the 32-bit range (2147483647 kept, larger and negative-overflow values skipped, none may wrap into the order); the rows of stop_times.txt and shapes.txt are additionally presented reversed, riffled and randomly permuted; all four parses must agree, sequences must ascend, shapes be ordered by id, every other collection keep file order; distinct = distinct input JSON; non-trivial = at least two trips with at least two stop times"}
	}
	props["C09"] = func() Prop {
		return &staticProp{id: "C09", nQuick: 1500, nThor: 60000, oracle: oracleC09, gen: genC09,
			rule: "well-formed feeds (as C01) into which 1-5 invalid rows are inserted at the beginning, the end or a random position of random files; causes per file: a required value blank, a required number / time / date unparseable (also integer-shaped numbers just outside and far outside the int32 range), a required reference naming an id that does not exist (a rejected stops.txt row carries a parent_station, rejected calendar rows name existing services); the parse with the rows must equal the parse without them except for warnings, and each warning must carry its row's file, number, cells and header; distinct = distinct input JSON; non-trivial = at least one inserted row"}
	}
	props["C10"] = func() Prop {
		return &staticProp{id: "C10", nQuick: 1500, nThor: 60000, oracle: oracleC10, gen: genC10,
			rule: "well-formed feeds (as C01) in which 1-4 of the 16 default-bearing optional columns are spelled three ways: present with blank cells, absent, and present with every other cell blank or with cells blanked independently (one case in three takes all such columns of one file together); one-sided arrival/departure rows in half of the cases; both values of the wheelchair-boarding inheritance option; distinct = distinct input JSON; non-trivial = at least one column or one-sided rows"}
	}
	props["C11"] = func() Prop {
		return &staticProp{id: "C11", nQuick: 2000, nThor: 80000, oracle: oracleC11, gen: genC11,
			rule: "feeds with calendar-only, calendar_dates-only and combined services, calendar ranges of several shapes (one day, end before start, across a year end and a leap day, ending on days on which a generated zone changes its offset), exception rows before / inside / after the calendar range (also on offset-change days) in shuffled order, unknown exception types, invalid dates, a service id in two calendar.txt rows (one case in five), one third of the cases with messy rows; calendar.txt or calendar_dates.txt absent in 2 of 5 cases; agency zones from {New_York, London, Kolkata, UTC, Lord_Howe, unknown}; distinct = distinct input JSON; non-trivial = at least two services"}
	}
}

func maxInt(a, b int) int {
	if a > b {
		return a
	}
	return b
}

// byTripRows: the positions of a trip's rows in stop_times.txt
func byTripRows(t *table, id string) []int {
	var out []int
	for i, row := range t.rows {
		if row[0] == id {
			out = append(out, i)
		}
	}
	return out
}

func atoiOr(s string, d int) int {
	n, err := strconv.Atoi(s)
	if err != nil {
		return d
	}
	return n
}
