package main

import (
	"bufio"
	"encoding/json"
	"fmt"
	"io"
	"os/exec"
	"sync"
)

// Driver is one running instance of the compiled Lean model (`lake exe driver`): one JSON line
// in, one JSON line out.
type Driver struct {
	cmd *exec.Cmd
	in  io.WriteCloser
	out *bufio.Reader
	mu  sync.Mutex
}

func StartDriver(path string) (*Driver, error) {
	cmd := exec.Command(path)
	in, err := cmd.StdinPipe()
	if err != nil {
		return nil, err
	}
	out, err := cmd.StdoutPipe()
	if err != nil {
		return nil, err
	}
	if err := cmd.Start(); err != nil {
		return nil, err
	}
	return &Driver{cmd: cmd, in: in, out: bufio.NewReaderSize(out, 1<<20)}, nil
}

type driverReply struct {
	Case   json.RawMessage `json:"case"`
	Result json.RawMessage `json:"result"`
	Error  string          `json:"error"`
}

// Ask sends one input and returns the model's result.
func (d *Driver) Ask(input any) (json.RawMessage, error) {
	d.mu.Lock()
	defer d.mu.Unlock()
	b, err := json.Marshal(input)
	if err != nil {
		return nil, err
	}
	b = append(b, '\n')
	if _, err := d.in.Write(b); err != nil {
		return nil, fmt.Errorf("driver write: %w", err)
	}
	line, err := d.out.ReadBytes('\n')
	if err != nil {
		return nil, fmt.Errorf("driver read: %w", err)
	}
	var r driverReply
	if err := json.Unmarshal(line, &r); err != nil {
		return nil, fmt.Errorf("driver reply: %w: %s", err, string(line))
	}
	if r.Error != "" {
		return nil, fmt.Errorf("model error: %s", r.Error)
	}
	return r.Result, nil
}

func (d *Driver) Close() {
	d.in.Close()
	d.cmd.Wait()
}
