package main

import (
	"bytes"
	"encoding/json"
	"fmt"
	"sort"
	"strings"
	"time"
)

// bstr encodes a Go byte string as a JSON-safe string whose code points are the byte values.
func bstr(s string) string {
	ascii := true
	for i := 0; i < len(s); i++ {
		if s[i] >= 0x80 {
			ascii = false
			break
		}
	}
	if ascii {
		return s
	}
	rs := make([]rune, len(s))
	for i := 0; i < len(s); i++ {
		rs[i] = rune(s[i])
	}
	return string(rs)
}

// unbstr is the inverse of bstr.
func unbstr(s string) string {
	b := make([]byte, 0, len(s))
	for _, r := range s {
		b = append(b, byte(r))
	}
	return string(b)
}

func bstrPtr(s *string) any {
	if s == nil {
		return nil
	}
	return bstr(*s)
}

// norm decodes JSON with exact numbers and drops null members, so that "absent" and "null" agree.
func normBytes(b []byte) (any, error) {
	dec := json.NewDecoder(bytes.NewReader(b))
	dec.UseNumber()
	var v any
	if err := dec.Decode(&v); err != nil {
		return nil, err
	}
	return normVal(v), nil
}

func normAny(v any) any {
	b, err := json.Marshal(v)
	if err != nil {
		panic(err)
	}
	n, err := normBytes(b)
	if err != nil {
		panic(err)
	}
	return n
}

func normVal(v any) any {
	switch t := v.(type) {
	case map[string]any:
		out := map[string]any{}
		for k, x := range t {
			if x == nil {
				continue
			}
			out[k] = normVal(x)
		}
		return out
	case []any:
		out := make([]any, len(t))
		for i, x := range t {
			out[i] = normVal(x)
		}
		return out
	case json.Number:
		return t.String()
	default:
		return v
	}
}

// diff returns "" when a and b (normalised values) are equal, else the path and the two values
// at the first difference.
func diff(path string, a, b any) string {
	switch x := a.(type) {
	case map[string]any:
		y, ok := b.(map[string]any)
		if !ok {
			return fmt.Sprintf("%s: model %s vs impl %s", path, short(a), short(b))
		}
		keys := map[string]bool{}
		for k := range x {
			keys[k] = true
		}
		for k := range y {
			keys[k] = true
		}
		ks := make([]string, 0, len(keys))
		for k := range keys {
			ks = append(ks, k)
		}
		sort.Strings(ks)
		for _, k := range ks {
			xv, xo := x[k]
			yv, yo := y[k]
			if !xo || !yo {
				return fmt.Sprintf("%s.%s: model %s vs impl %s", path, k, short(xv), short(yv))
			}
			if d := diff(path+"."+k, xv, yv); d != "" {
				return d
			}
		}
		return ""
	case []any:
		y, ok := b.([]any)
		if !ok {
			return fmt.Sprintf("%s: model %s vs impl %s", path, short(a), short(b))
		}
		if len(x) != len(y) {
			return fmt.Sprintf("%s: length model %d vs impl %d: %s vs %s", path, len(x), len(y), short(a), short(b))
		}
		for i := range x {
			if d := diff(fmt.Sprintf("%s[%d]", path, i), x[i], y[i]); d != "" {
				return d
			}
		}
		return ""
	default:
		if a != b {
			return fmt.Sprintf("%s: model %s vs impl %s", path, short(a), short(b))
		}
		return ""
	}
}

func short(v any) string {
	b, _ := json.Marshal(v)
	s := string(b)
	if len(s) > 300 {
		s = s[:300] + "…"
	}
	return s
}

func mustJSON(v any) string {
	b, err := json.Marshal(v)
	if err != nil {
		panic(err)
	}
	return string(b)
}

func deepCopyJSON(v any) any {
	var out any
	dec := json.NewDecoder(strings.NewReader(mustJSON(v)))
	dec.UseNumber()
	if err := dec.Decode(&out); err != nil {
		panic(err)
	}
	return out
}

// shrinkJSON tries to make `in` smaller while `bad` stays true: removes array elements (whole chunks first -
// halves, quarters, ... - then single elements, deepest arrays first). Budgeted by the number of trials and by
// wall-clock time (a large failing case must not hold a check up for minutes).
func shrinkJSON(in any, bad func(any) bool, budget int) any {
	cur := deepCopyJSON(in)
	deadline := time.Now().Add(90 * time.Second)
	changed := true
	for changed && budget > 0 && time.Now().Before(deadline) {
		changed = false
		paths := arrayPaths(cur, nil)
		for _, p := range paths {
			if len(p) > 0 && (p[0].key == "floats" || p[0].key == "zones" || p[0].key == "zoneTable" || p[0].key == "orders") {
				continue // derived parts of a case (what the library calls return for its cells, entity orders): not shrunk
			}
			arr, ok := getPath(cur, p).([]any)
			if !ok {
				continue
			}
			for chunk := len(arr) / 2; chunk >= 1; chunk /= 2 {
				for i := len(arr) - chunk; i >= 0 && budget > 0 && time.Now().Before(deadline); i -= chunk {
					arr, ok = getPath(cur, p).([]any)
					if !ok || i+chunk > len(arr) {
						continue
					}
					cand := deepCopyJSON(cur)
					a := getPath(cand, p).([]any)
					na := append(append([]any{}, a[:i]...), a[i+chunk:]...)
					setPath(&cand, p, na)
					budget--
					if bad(cand) {
						cur = cand
						changed = true
					}
				}
			}
		}
	}
	return cur
}

type pathElem struct {
	key string
	idx int
}

func arrayPaths(v any, prefix []pathElem) [][]pathElem {
	var out [][]pathElem
	switch t := v.(type) {
	case map[string]any:
		keys := make([]string, 0, len(t))
		for k := range t {
			keys = append(keys, k)
		}
		sort.Strings(keys)
		for _, k := range keys {
			out = append(out, arrayPaths(t[k], append(append([]pathElem{}, prefix...), pathElem{key: k}))...)
		}
	case []any:
		for i, x := range t {
			out = append(out, arrayPaths(x, append(append([]pathElem{}, prefix...), pathElem{idx: i, key: ""}))...)
		}
		out = append(out, append([]pathElem{}, prefix...))
	}
	return out
}

func getPath(v any, p []pathElem) any {
	for _, e := range p {
		if e.key != "" {
			m, ok := v.(map[string]any)
			if !ok {
				return []any{}
			}
			v = m[e.key]
		} else {
			a, ok := v.([]any)
			if !ok || e.idx >= len(a) {
				return []any{}
			}
			v = a[e.idx]
		}
	}
	if v == nil {
		return []any{}
	}
	if _, ok := v.([]any); !ok {
		return []any{}
	}
	return v
}

func setPath(root *any, p []pathElem, val any) {
	if len(p) == 0 {
		*root = val
		return
	}
	v := *root
	for i, e := range p {
		last := i == len(p)-1
		if e.key != "" {
			m := v.(map[string]any)
			if last {
				m[e.key] = val
				return
			}
			v = m[e.key]
		} else {
			a := v.([]any)
			if last {
				a[e.idx] = val
				return
			}
			v = a[e.idx]
		}
	}
}
