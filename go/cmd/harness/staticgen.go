package main

import (
	"fmt"
	"strings"
)

// ---------- generator of GTFS static feeds as tables of cells ----------

type feed struct {
	tables map[string]*table
}

var staticFiles = []string{"agency.txt", "routes.txt", "stops.txt", "transfers.txt", "calendar.txt", "calendar_dates.txt", "shapes.txt", "trips.txt", "frequencies.txt", "stop_times.txt"}

var tzPool = []string{"America/New_York", "Europe/London", "Asia/Kolkata", "UTC", "Australia/Lord_Howe", "", "Mars/Phobos"}

var textPool = []string{"Main St", "A, B", `say "hi"`, "Zürich HB", "line1\nline2", " padded ", "", "x", "東京", "a;b", "'q'"}

func decimalString(r *Rng) string {
	if r.P(1, 6) {
		// 15 to 19 significant digits in plain notation, as a %.17g dump of a coordinate writes them: beyond what a
		// 53-bit significand holds, so that a conversion in two rounding steps shows
		n := 13 + r.Intn(5)
		b := make([]byte, n)
		for i := range b {
			b[i] = byte('0' + r.Intn(10))
		}
		return fmt.Sprintf("%s%d.%s", r.Pick([]string{"", "-"}), r.Intn(180), string(b))
	}
	switch r.Intn(8) {
	case 0:
		return fmt.Sprintf("-%d.%06d", r.Intn(180), r.Intn(1000000))
	case 1:
		return fmt.Sprintf(" %d.%d ", r.Intn(90), r.Intn(100000))
	case 2:
		return fmt.Sprintf("%d", r.Intn(90))
	case 3:
		return "40.7127837000000012345678"
	case 4:
		return fmt.Sprintf("%d.%de-2", r.Intn(9000), r.Intn(100))
	case 5:
		return "0.1"
	default:
		return fmt.Sprintf("%d.%07d", r.Intn(90), r.Intn(10000000))
	}
}

func gtfsTimeString(r *Rng) (string, int) {
	h, m, s := r.Intn(30), r.Intn(60), r.Intn(60)
	if r.P(1, 6) {
		// boundary values: midnight is a valid time whose duration is zero, the value a missing time also has
		e := [][3]int{{0, 0, 0}, {0, 0, 0}, {0, 0, 1}, {24, 0, 0}, {23, 59, 59}, {0, 1, 0}, {1, 0, 0}}[r.Intn(7)]
		h, m, s = e[0], e[1], e[2]
	}
	switch r.Intn(6) {
	case 0:
		return fmt.Sprintf("%d:%02d:%02d", h, m, s), (h*60+m)*60 + s
	case 1:
		if h != 0 {
			h = 24 + r.Intn(30)
		}
		return fmt.Sprintf("%d:%02d:%02d", h, m, s), (h*60+m)*60 + s
	case 2:
		return fmt.Sprintf(" %02d:%02d:%02d", h, m, s), (h*60+m)*60 + s
	default:
		return fmt.Sprintf("%02d:%02d:%02d", h, m, s), (h*60+m)*60 + s
	}
}

func dateString(r *Rng, base int) string {
	y := 2020 + r.Intn(8)
	return fmt.Sprintf("%04d%02d%02d", y, 1+(base+r.Intn(12))%12, 1+r.Intn(28))
}

type feedOpts struct {
	messy    bool // dangling references, blanks in required cells, duplicate ids, bad numbers
	calendar bool // calendar-heavy
	big      bool
	edgeSeq  bool // shape points with sequence numbers at and beyond the edge of the int32 range (rows the decoder skips)
}

func genFeed(r *Rng, o feedOpts) *feed {
	f := &feed{tables: map[string]*table{}}
	// one feed in thirty is wide: dozens of trips, long stop-time lists, shapes of hundreds of points, many exception
	// rows - sizes at which capacity guesses, fixed-size blocks and pre-sized slices of the parser stop fitting
	wide := r.P(1, 30)
	add := func(name string, hdr []string) *table {
		t := &table{name: name, header: hdr}
		f.tables[name] = t
		return t
	}
	pickText := func() string { return r.Pick(textPool) }
	mess := func(v string, alts ...string) string {
		if o.messy && r.P(1, 7) {
			return r.Pick(alts)
		}
		return v
	}
	// agencies
	ag := add("agency.txt", []string{"agency_id", "agency_name", "agency_url", "agency_timezone", "agency_lang", "agency_phone", "agency_fare_url", "agency_email"})
	nAg := 1 + r.Intn(3)
	var agIDs []string
	for i := 0; i < nAg; i++ {
		id := fmt.Sprintf("AG%d", i)
		agIDs = append(agIDs, id)
		tz := r.Pick(tzPool[:5])
		if r.P(1, 8) {
			tz = "Mars/Phobos" // present but unknown: dates fall back to UTC
		}
		if o.messy && r.P(1, 8) {
			tz = ""
		}
		ag.rows = append(ag.rows, []string{mess(id, "", agIDs[0]), mess("Agency "+pickText(), ""), mess("http://a.example/"+id, ""), mess(tz, ""), "en", pickText(), "", pickText()})
	}
	// routes
	rt := add("routes.txt", []string{"route_id", "agency_id", "route_short_name", "route_long_name", "route_desc", "route_type", "route_url", "route_color", "route_text_color", "route_sort_order", "continuous_pickup", "continuous_drop_off"})
	nR := 1 + r.Intn(5)
	var routeIDs []string
	for i := 0; i < nR; i++ {
		id := fmt.Sprintf("R%d", i)
		routeIDs = append(routeIDs, id)
		agency := r.Pick(agIDs)
		if nAg == 1 && r.P(1, 3) {
			agency = ""
		}
		rt.rows = append(rt.rows, []string{mess(id, "", routeIDs[0]), mess(agency, "NOPE", ""), fmt.Sprintf("%d", i), pickText(), pickText(),
			mess(r.Pick([]string{"0", "1", "2", "3", "4", "5", "6", "7", "11", "12"}), "", "99", "x"), "http://r/" + id,
			r.Pick([]string{"FFFFFF", "00AA11", "0039A6"}), r.Pick([]string{"000000", "FFFFFF"}), mess(fmt.Sprintf("%d", r.Intn(1000)), "", "-5", "abc", "99999999999"),
			r.Pick([]string{"0", "1", "2", "3"}), r.Pick([]string{"0", "1", "2", "3"})})
	}
	// stops
	st := add("stops.txt", []string{"stop_id", "stop_code", "stop_name", "stop_desc", "zone_id", "stop_lat", "stop_lon", "stop_url", "location_type", "parent_station", "stop_timezone", "wheelchair_boarding", "platform_code"})
	nS := 2 + r.Intn(10)
	if o.big {
		nS = 600 + r.Intn(1500)
	}
	var stopIDs []string
	for i := 0; i < nS; i++ {
		stopIDs = append(stopIDs, fmt.Sprintf("S%d", i))
	}
	for i := 0; i < nS; i++ {
		parent := ""
		lt := r.Pick([]string{"0", "", "0", "2", "3", "4"})
		if i%3 == 0 {
			lt = "1" // stations
		} else if r.P(1, 2) {
			// parent: the station of the group, or (deeper hierarchies) any earlier stop
			if r.P(3, 4) || i == 0 {
				parent = stopIDs[(i/3)*3]
			} else {
				parent = stopIDs[r.Intn(i)]
			}
		}
		if o.messy && r.P(1, 6) {
			parent = r.Pick([]string{stopIDs[i], "NOPE", r.Pick(stopIDs)})
		}
		st.rows = append(st.rows, []string{mess(stopIDs[i], "", stopIDs[0]), fmt.Sprintf("c%d", i), pickText(), pickText(), "z1",
			mess(decimalString(r), "", "abc", "1e999"), mess(decimalString(r), "", "north"), "", lt, parent, r.Pick([]string{"", "America/Chicago"}),
			r.Pick([]string{"0", "1", "2", ""}), r.Pick([]string{"", "1", "B"})})
	}
	// transfers
	tr := add("transfers.txt", []string{"from_stop_id", "to_stop_id", "transfer_type", "min_transfer_time"})
	for i := 0; i < r.Intn(5); i++ {
		a, b := r.Pick(stopIDs), r.Pick(stopIDs)
		if a == b && !o.messy {
			continue
		}
		tr.rows = append(tr.rows, []string{mess(a, "", "NOPE"), mess(b, "", "NOPE"), r.Pick([]string{"0", "1", "2", "3"}), mess(fmt.Sprintf("%d", r.Intn(900)), "", "x", "3000000000")})
	}
	// calendar + calendar_dates
	cal := add("calendar.txt", []string{"service_id", "monday", "tuesday", "wednesday", "thursday", "friday", "saturday", "sunday", "start_date", "end_date"})
	cd := add("calendar_dates.txt", []string{"service_id", "date", "exception_type"})
	nSv := 1 + r.Intn(4)
	var svcIDs []string
	for i := 0; i < nSv; i++ {
		id := fmt.Sprintf("SV%d", i)
		svcIDs = append(svcIDs, id)
		inCal := r.P(2, 3)
		if inCal {
			row := []string{mess(id, "")}
			for d := 0; d < 7; d++ {
				row = append(row, r.Pick([]string{"0", "1"}))
			}
			// ranges: the usual one, one-day ranges, ranges ending before they start, ranges over a year end and a leap
			// day, and ranges whose ends are days on which a generated zone changes its offset
			rg := [][2]string{{"20230301", "20230930"}, {"20230301", "20230930"}, {"20230615", "20230615"}, {"20230930", "20230301"},
				{"20231215", "20240115"}, {"20240201", "20240229"}, {"20230312", "20231105"}, {"20230326", "20231029"}, {"20230402", "20231001"},
				{"19700101", "20380119"}}[r.Intn(10)]
			row = append(row, mess(rg[0], "", "2023-03-01", "20231301"), mess(rg[1], "", "20230231"))
			cal.rows = append(cal.rows, row)
		}
		nEx := r.Intn(4)
		if wide {
			nEx = 10 + r.Intn(60)
		}
		if !inCal && nEx == 0 {
			nEx = 1
		}
		for k := 0; k < nEx; k++ {
			date := r.Pick([]string{"20230101", "20230401", "20230615", "20231231", "20240229", "20230312", "20231105", "20230326", "20231029", "20230402", "20231001", dateString(r, k)})
			cd.rows = append(cd.rows, []string{mess(id, ""), mess(date, "", "20230931", "x"), mess(r.Pick([]string{"1", "2"}), "3", "")})
		}
	}
	if o.calendar {
		// exception rows of different services interleaved
		for i := len(cd.rows) - 1; i > 0; i-- {
			j := r.Intn(i + 1)
			cd.rows[i], cd.rows[j] = cd.rows[j], cd.rows[i]
		}
	}
	// shapes
	sh := add("shapes.txt", []string{"shape_id", "shape_pt_lat", "shape_pt_lon", "shape_pt_sequence", "shape_dist_traveled"})
	nSh := r.Intn(4)
	var shapeIDs []string
	for i := 0; i < nSh; i++ {
		id := fmt.Sprintf("SH%d", (i*7)%10)
		shapeIDs = append(shapeIDs, id)
		n := 1 + r.Intn(5)
		if wide {
			n = 40 + r.Intn(300)
		}
		seqs := r.Perm(n + 3)[:n]
		for _, q := range seqs {
			sh.rows = append(sh.rows, []string{id, mess(decimalString(r), "", "x"), mess(decimalString(r), ""), mess(fmt.Sprintf("%d", q*3+1), "", "1.5"), r.Pick([]string{"", "1.5", "0"})})
		}
		if (o.messy || o.edgeSeq) && r.P(1, 4) {
			// sequence numbers at and beyond the edge of the 32-bit range: 2147483647 is the largest the decoder takes,
			// the others are unparseable values (the row is skipped); none may wrap around into the order
			for _, big := range []string{"2147483647", "2147483648", "3000000000", "4294967295", "4294967296", "-1", "-2147483648"}[r.Intn(3):] {
				if r.Bool() {
					sh.rows = append(sh.rows, []string{id, decimalString(r), decimalString(r), big, ""})
				}
			}
		}
	}
	// trips
	tp := add("trips.txt", []string{"route_id", "service_id", "trip_id", "trip_headsign", "trip_short_name", "direction_id", "block_id", "shape_id", "wheelchair_accessible", "bikes_allowed"})
	nT := 1 + r.Intn(7)
	if wide {
		nT = 15 + r.Intn(25)
	}
	var tripIDs []string
	for i := 0; i < nT; i++ {
		id := fmt.Sprintf("T%d", i)
		tripIDs = append(tripIDs, id)
		shape := ""
		if len(shapeIDs) > 0 && r.P(1, 2) {
			shape = r.Pick(shapeIDs)
		}
		tp.rows = append(tp.rows, []string{mess(r.Pick(routeIDs), "", "NOPE"), mess(r.Pick(svcIDs), "", "NOPE"), mess(id, "", tripIDs[0]), pickText(), "", r.Pick([]string{"0", "1"}),
			"b1", mess(shape, "NOPE"), r.Pick([]string{"0", "1", "2"}), r.Pick([]string{"0", "1", "2"})})
	}
	// frequencies
	fq := add("frequencies.txt", []string{"trip_id", "start_time", "end_time", "headway_secs", "exact_times"})
	for i := 0; i < r.Intn(4); i++ {
		a, _ := gtfsTimeString(r)
		b, _ := gtfsTimeString(r)
		fq.rows = append(fq.rows, []string{mess(r.Pick(tripIDs), "", "NOPE"), mess(a, "", "x"), mess(b, ""), mess(fmt.Sprintf("%d", 60*(1+r.Intn(30))), "", "x"), r.Pick([]string{"0", "1"})})
	}
	// stop_times
	stt := add("stop_times.txt", []string{"trip_id", "arrival_time", "departure_time", "stop_id", "stop_sequence", "stop_headsign", "pickup_type", "drop_off_type", "continuous_pickup", "continuous_drop_off", "shape_dist_traveled", "timepoint"})
	for _, t := range tripIDs {
		n := r.Intn(6)
		if wide {
			n = 8 + r.Intn(40)
		}
		seqs := r.Perm(n + 4)[:n]
		for _, q := range seqs {
			a, _ := gtfsTimeString(r)
			d, _ := gtfsTimeString(r)
			seq := fmt.Sprintf("%d", q)
			if r.P(1, 3) {
				seq = fmt.Sprintf("%d", q+9) // so that 9 vs 10 style comparisons occur
			}
			if wide {
				seq = fmt.Sprintf("%d", q*20+r.Intn(20)) // distinct within the trip
			}
			stt.rows = append(stt.rows, []string{mess(t, "", "NOPE"), mess(a, "", "bad"), mess(d, ""), mess(r.Pick(stopIDs), "", "NOPE"), mess(seq, "", "x"), pickText(),
				r.Pick([]string{"0", "1", "2", "3"}), r.Pick([]string{"0", "1", "2", "3"}), r.Pick([]string{"0", "1", "2", "3"}), r.Pick([]string{"0", "1", "2", "3"}),
				r.Pick([]string{"", "12.5"}), r.Pick([]string{"0", "1"})})
		}
	}
	// interleave the stop times of different trips
	if len(stt.rows) > 1 && r.P(1, 2) {
		for i := len(stt.rows) - 1; i > 0; i-- {
			j := r.Intn(i + 1)
			stt.rows[i], stt.rows[j] = stt.rows[j], stt.rows[i]
		}
	}
	return f
}

func clonePres(t *table, r *Rng) *presentation {
	p := &presentation{}
	n := len(t.header)
	if r.P(1, 2) {
		k := r.Intn(3)
		for i := 0; i < k; i++ {
			p.extraCols = append(p.extraCols, fmt.Sprintf("x_col_%d", i))
		}
		n += k
	}
	if r.P(2, 3) {
		p.colPerm = r.Perm(n)
	}
	p.quoteAll = r.P(1, 5)
	if r.P(1, 2) {
		p.quoteSome = 1
	}
	p.crlf = r.P(1, 4)
	if r.P(1, 4) {
		p.crlfMixed = 1
	}
	p.bom = r.P(1, 4)
	p.noFinalNL = r.P(1, 4)
	return p
}

// members renders the feed; pres == false gives the plain presentation.
func (f *feed) members(r *Rng, pres bool, drop map[string]bool) []member {
	var ms []member
	for _, name := range staticFiles {
		t := f.tables[name]
		if t == nil || drop[name] {
			continue
		}
		var p *presentation
		if pres {
			p = clonePres(t, r)
			// a text with CR cannot be presented with CRLF conversion inside quotes unchanged; values are CR-free
		}
		ms = append(ms, member{name, t.render(p, r)})
	}
	if pres {
		if r.P(1, 2) {
			ms = append(ms, member{"notes.txt", "free text, \"not\" csv\n"}, member{"feed_info.txt", "feed_publisher_name\nx\n"})
		}
		perm := r.Perm(len(ms))
		sh := make([]member, len(ms))
		for i, k := range perm {
			sh[i] = ms[k]
		}
		ms = sh
	}
	return ms
}

func (f *feed) clone() *feed {
	g := &feed{tables: map[string]*table{}}
	for k, t := range f.tables {
		nt := &table{name: t.name, header: append([]string{}, t.header...)}
		for _, row := range t.rows {
			nt.rows = append(nt.rows, append([]string{}, row...))
		}
		g.tables[k] = nt
	}
	return g
}

func (f *feed) truth() map[string]any {
	out := map[string]any{}
	for k, t := range f.tables {
		rows := []any{}
		for _, row := range t.rows {
			rows = append(rows, bstrList(row))
		}
		out[k] = map[string]any{"header": bstrList(t.header), "rows": rows}
	}
	return out
}

func staticCase(main []member, variants [][]member, inherit bool, extra map[string]any) map[string]any {
	all := [][]member{main}
	all = append(all, variants...)
	floats, zones := envFor(all...)
	vs := []any{}
	for _, v := range variants {
		vs = append(vs, membersJSON(v))
	}
	c := map[string]any{"kind": "static", "members": membersJSON(main), "variants": vs, "floats": floats, "zones": zones, "inherit": inherit}
	for k, v := range extra {
		c[k] = v
	}
	return c
}

var _ = strings.TrimSpace

// ---------- identifiers that are unusual but legal ----------

// idColumns: which columns hold identifiers of which kind.
var idColumns = map[string]map[string]string{
	"agency.txt":         {"agency_id": "agency"},
	"routes.txt":         {"route_id": "route", "agency_id": "agency"},
	"stops.txt":          {"stop_id": "stop", "parent_station": "stop"},
	"transfers.txt":      {"from_stop_id": "stop", "to_stop_id": "stop"},
	"calendar.txt":       {"service_id": "service"},
	"calendar_dates.txt": {"service_id": "service"},
	"shapes.txt":         {"shape_id": "shape"},
	"trips.txt":          {"route_id": "route", "service_id": "service", "trip_id": "trip", "shape_id": "shape"},
	"frequencies.txt":    {"trip_id": "trip"},
	"stop_times.txt":     {"trip_id": "trip", "stop_id": "stop"},
}

// oddIDs are identifiers a feed may legally use: with inner, leading and trailing blanks, differing only in case or
// in a blank, looking like numbers, booleans or nulls, containing the CSV metacharacters (the writer quotes them),
// multi-byte, long.
var oddIDs = []string{"a b", " lead", "trail ", "s0", "S0", "S0 ", "0", "00", "-1", "1e3", "NULL", "nil", "true", "ü", "日本/駅", "a,b", `q"q`, "x;y", "'", "#", "%41",
	"<id>", "a&b", "id+1", "\\n", "tab\tid", strings.Repeat("long", 60), "..", "*", "A", "a"}

// renameIDs maps every identifier of the feed, kind by kind and injectively, to an unusual one (blank stays blank,
// so do the values that deliberately name nothing).
func renameIDs(r *Rng, f *feed) {
	maps := map[string]map[string]string{}
	used := map[string]map[string]bool{}
	perm := r.Perm(len(oddIDs))
	next := map[string]int{}
	for file, cols := range idColumns {
		t := f.tables[file]
		if t == nil {
			continue
		}
		for ci, h := range t.header {
			kind, ok := cols[h]
			if !ok {
				continue
			}
			if maps[kind] == nil {
				maps[kind], used[kind] = map[string]string{}, map[string]bool{}
			}
			for _, row := range t.rows {
				v := row[ci]
				if v == "" || v == "NOPE" {
					continue
				}
				if _, ok := maps[kind][v]; !ok {
					nv := oddIDs[perm[next[kind]%len(perm)]]
					if next[kind] >= len(perm) {
						nv = fmt.Sprintf("%s~%d", nv, next[kind])
					}
					next[kind]++
					maps[kind][v] = nv
				}
			}
		}
	}
	for file, cols := range idColumns {
		t := f.tables[file]
		if t == nil {
			continue
		}
		for ci, h := range t.header {
			kind, ok := cols[h]
			if !ok {
				continue
			}
			for _, row := range t.rows {
				if nv, ok := maps[kind][row[ci]]; ok {
					row[ci] = nv
				}
			}
		}
	}
}
