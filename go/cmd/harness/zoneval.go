package main

import (
	"encoding/json"
	"fmt"
	"time"
)

// ZON: the model of time.Date's look-ups (lean/GtfsVerif/Model/Zone.lean) against the time package itself, over zone
// tables exported from the tz database: every civil day of the covered range in the thorough tier, a sample that
// contains every offset-change day and its neighbours in the quick tier. Zones with transitions at local midnight, a
// skipped calendar day, negative daylight saving and quarter-hour offsets are in the pool.

var zonValZones = []string{"America/New_York", "Europe/London", "Asia/Kolkata", "Australia/Lord_Howe", "America/Havana", "America/Sao_Paulo",
	"Pacific/Apia", "Africa/Casablanca", "Asia/Kathmandu", "Pacific/Chatham", "America/St_Johns", "Asia/Tehran", "Africa/Cairo", "America/Santiago",
	"Antarctica/Troll", "Europe/Dublin", "Asia/Gaza", "America/Asuncion", "Pacific/Kiritimati", "UTC"}

type zonProp struct{}

func (p *zonProp) Rule() string {
	return "20 zones of the tz database (transitions at local midnight: Havana, Sao Paulo, Santiago, Asuncion, Gaza, Cairo, Tehran; a skipped calendar day: Apia, Kiritimati; negative daylight saving: Dublin, Casablanca; half- and quarter-hour offsets; a two-hour jump: Troll): the zone's table is exported by walking Time.ZoneBounds and the model's instant for a civil day is compared with time.Date(y, m, d, 0,0,0,0, loc).Unix(); quick: every offset-change day of 1985-2040 with its two neighbours plus 300 random days per zone; thorough: every day of 1985-2040"
}
func (p *zonProp) N(tier string) int { return len(zonValZones) }
func (p *zonProp) Gen(r *Rng, tier string, i int) map[string]any {
	name := zonValZones[i%len(zonValZones)]
	loc, err := time.LoadLocation(name)
	if err != nil {
		return map[string]any{"kind": "zone", "zoneName": name, "table": zoneTabOf(time.UTC).json(), "days": []any{}}
	}
	zt := zoneTabOf(loc)
	lo := time.Date(1985, 1, 1, 0, 0, 0, 0, time.UTC).Unix() / 86400
	hi := time.Date(2040, 12, 31, 0, 0, 0, 0, time.UTC).Unix() / 86400
	days := []any{}
	if tier == "thorough" {
		for d := lo; d <= hi; d++ {
			days = append(days, d)
		}
	} else {
		for _, tr := range zt.trans {
			d := tr[0] / 86400
			for k := int64(-2); k <= 2; k++ {
				if d+k >= lo && d+k <= hi {
					days = append(days, d+k)
				}
			}
		}
		for k := 0; k < 300; k++ {
			days = append(days, lo+int64(r.Intn(int(hi-lo))))
		}
	}
	return map[string]any{"kind": "zone", "zoneName": name, "table": zt.json(), "days": days}
}
func (p *zonProp) Fixed() []map[string]any { return nil }
func (p *zonProp) Check(in map[string]any, model json.RawMessage) Verdict {
	var v Verdict
	var mr struct {
		Instants []*int64 `json:"instants"`
		Settled  []bool   `json:"settled"`
	}
	if err := json.Unmarshal(model, &mr); err != nil {
		v.Disagree = "model reply unreadable"
		return v
	}
	days := ga(in, "days")
	if len(mr.Instants) != len(days) {
		v.Disagree = "model reply has the wrong length"
		return v
	}
	loc, err := time.LoadLocation(gs(in, "zoneName"))
	if err != nil {
		return v
	}
	unsettled := 0
	for i, d := range days {
		day := toI64(d)
		t0 := time.Unix(day*86400, 0).UTC()
		got := time.Date(t0.Year(), t0.Month(), t0.Day(), 0, 0, 0, 0, loc)
		if mr.Instants[i] == nil {
			v.Disagree = fmt.Sprintf("%s day %d: the model gives no instant inside the exported range", gs(in, "zoneName"), day)
			return v
		}
		if *mr.Instants[i] != got.Unix() {
			v.Disagree = fmt.Sprintf("%s %s: time.Date gives %d, the model %d", gs(in, "zoneName"), t0.Format("2006-01-02"), got.Unix(), *mr.Instants[i])
			return v
		}
		// the model's Settled must say exactly when the instant reads 00:00:00 of that day on the zone's clock
		h, m, s := got.Clock()
		y2, m2, d2 := got.Date()
		isMidnight := h == 0 && m == 0 && s == 0 && y2 == t0.Year() && m2 == t0.Month() && d2 == t0.Day()
		if i < len(mr.Settled) && mr.Settled[i] != isMidnight {
			v.Disagree = fmt.Sprintf("%s %s: Settled = %v in the model, the instant reads %s", gs(in, "zoneName"), t0.Format("2006-01-02"), mr.Settled[i], got.Format("2006-01-02 15:04:05"))
			return v
		}
		if !isMidnight {
			unsettled++
		}
	}
	v.Tags = append(v.Tags, "zone:"+gs(in, "zoneName"))
	if unsettled > 0 {
		v.Tags = append(v.Tags, "zone-with-days-without-midnight")
	}
	return v
}

func init() { props["ZON"] = func() Prop { return &zonProp{} } }
