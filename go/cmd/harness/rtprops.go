package main

import (
	"encoding/json"
	"fmt"
	"sort"

	"github.com/jamespfennell/gtfs"
)

// rtProp is the shared shell of the realtime properties: generator settings + oracle.
type rtProp struct {
	id     string
	gen    rtGen
	rule   string
	nQuick int
	nThor  int
	orders int // number of entity permutations per case (C07)
	oracle func(in map[string]any, r *gtfs.Realtime, canon map[string]any) ([]Viol, []string, bool)
	fixed  func() []map[string]any
}

func (p *rtProp) Rule() string { return p.rule }
func (p *rtProp) N(tier string) int {
	if tier == "thorough" {
		return p.nThor
	}
	return p.nQuick
}
func (p *rtProp) Gen(r *Rng, tier string, i int) map[string]any {
	c := p.withFlag(p.gen.gencase(r))
	if p.orders > 0 {
		n := len(ga(gm(c, "msg"), "entities"))
		orders := []any{}
		rev := make([]any, n)
		for k := 0; k < n; k++ {
			rev[k] = n - 1 - k
		}
		orders = append(orders, rev)
		for k := 1; k < p.orders; k++ {
			pm := r.Perm(n)
			o := make([]any, n)
			for q, x := range pm {
				o[q] = x
			}
			orders = append(orders, o)
		}
		c["orders"] = orders
	}
	return c
}

// Sweep (C16): every origin time 000000-599999 in the thorough tier, one in eight (offset by the
// seed) in the quick tier.
func (p *rtProp) Sweep(tier string, seed uint64) []map[string]any {
	if p.id != "C16" {
		return nil
	}
	var out []map[string]any
	stride, off := 8, int(seed%8)
	if tier == "thorough" {
		stride, off = 1, 0
	}
	for o := off; o < 600000; o += stride {
		out = append(out, map[string]any{"kind": "realtime", "zone": "UTC", "conflictFree": true, "sweep": true,
			"ext": map[string]any{"kind": "nycttrips", "filterStale": false, "preserveM": false},
			"msg": map[string]any{"entities": []any{map[string]any{"id": "e", "tripUpdate": map[string]any{
				"trip": map[string]any{"tripId": fmt.Sprintf("%06d_A..N", o), "nyct": map[string]any{"isAssigned": false}}}}}}})
	}
	return out
}

func (p *rtProp) Fixed() []map[string]any {
	if p.fixed != nil {
		return p.fixed()
	}
	return nil
}

func (p *rtProp) Check(in map[string]any, model json.RawMessage) Verdict {
	var v Verdict
	var mr struct {
		Result json.RawMessage   `json:"result"`
		Perms  []json.RawMessage `json:"perms"`
	}
	if err := json.Unmarshal(model, &mr); err != nil {
		v.Disagree = "model reply unreadable"
		return v
	}
	res, err := parseImpl(in, nil)
	if err != nil {
		v.Violations = append(v.Violations, Viol{"rt-error", "ParseRealtime returned an error on a well-formed message: " + err.Error()})
		return v
	}
	canon, bad := canonOf(in, res)
	if p.id == "C02" || len(p.id) > 2 && p.id[:2] == "RT" {
		// presentation of instants (configured zone, local midnight, whole seconds) is C02's statement; the
		// other realtime properties hold or fail independently of it
		for _, b := range bad {
			v.Violations = append(v.Violations, Viol{"rt-zone", b})
		}
	}
	m, err := normBytes(mr.Result)
	if err != nil {
		v.Disagree = "model result unreadable"
		return v
	}
	// no property states in which order Vehicles come out (only that the order is the same every time, which C06
	// observes by repetition): they are compared as a multiset, so that a different but fixed order is not an alarm
	v.Disagree = diff("", vehiclesAsMultiset(m), vehiclesAsMultiset(normAny(canon)))
	for i, o := range ga(in, "orders") {
		if v.Disagree != "" || i >= len(mr.Perms) {
			break
		}
		rp, err := parseImpl(in, o.([]any))
		if err != nil {
			continue
		}
		cp, _ := canonOf(in, rp)
		mp, _ := normBytes(mr.Perms[i])
		if d := diff(fmt.Sprintf("perm[%d]", i), vehiclesAsMultiset(mp), vehiclesAsMultiset(normAny(cp))); d != "" {
			v.Disagree = d
		}
	}
	if p.oracle != nil {
		vi, tags, trivial := p.oracle(in, res, canon)
		v.Violations = append(v.Violations, vi...)
		v.Tags = tags
		v.Trivial = trivial
	}
	return v
}

// vehiclesAsMultiset returns the result with its "vehicles" array sorted by canonical text.
func vehiclesAsMultiset(res any) any {
	m, ok := res.(map[string]any)
	if !ok {
		return res
	}
	vs, ok := m["vehicles"].([]any)
	if !ok {
		return res
	}
	out := map[string]any{}
	for k, x := range m {
		out[k] = x
	}
	sorted := append([]any{}, vs...)
	sort.SliceStable(sorted, func(i, j int) bool { return mustJSON(sorted[i]) < mustJSON(sorted[j]) })
	out["vehicles"] = sorted
	return out
}

func (p *rtProp) withFlag(c map[string]any) map[string]any {
	if p.gen.conflictFree {
		c["conflictFree"] = true
	}
	return c
}

func init() {
	props["RT"] = func() Prop {
		return &rtProp{id: "RT", gen: rtGen{}, rule: "model validation only", nQuick: 3000, nThor: 30000, orders: 2}
	}
	props["RTCF"] = func() Prop {
		return &rtProp{id: "RTCF", gen: rtGen{conflictFree: true}, rule: "model validation only", nQuick: 3000, nThor: 30000, orders: 2}
	}
	props["RTNT"] = func() Prop {
		return &rtProp{id: "RTNT", gen: rtGen{nyctTrips: true}, rule: "model validation only", nQuick: 3000, nThor: 30000}
	}
	props["RTNA"] = func() Prop {
		return &rtProp{id: "RTNA", gen: rtGen{nyctAlerts: true, alertsOnly: true}, rule: "model validation only", nQuick: 3000, nThor: 30000}
	}
	props["C02"] = func() Prop {
		return &rtProp{id: "C02", gen: rtGen{conflictFree: true}, nQuick: 8000, nThor: 300000, oracle: oracleC02,
			rule: "conflict-free messages over pools of up to 6 trip descriptors (distinct trip ids; NYCT-format, plain and multi-byte ids) and 5 vehicle descriptors (id, label only, licence plate only), a trip<->vehicle pairing expressed by the trip update, the vehicle position or both, id-less vehicle positions, alerts; every optional field independently present or absent; numeric edge values (0, +-1, int32/int64 extremes, uint64 above 2^63); start times/dates valid, normalisable (month 13, day 0) and malformed; 8 zones (nil, UTC, two fixed offsets, New_York, London, Kolkata, Lord_Howe; named zones with dates 1990-2034); every field of the result is compared with the model and with the wire values; distinct = distinct input JSON; non-trivial = at least 2 entities"}
	}
	props["C04"] = func() Prop {
		return &rtProp{id: "C04", gen: rtGen{conflictFree: true, emptyTUVehicle: true}, nQuick: 8000, nThor: 300000, oracle: oracleC04, orders: 2,
			rule: "conflict-free messages as for C02 (each trip associated with at most one vehicle and vice versa; association by trip update only, vehicle position only, or both; vehicle with id, label only, licence plate only, no descriptor, or a descriptor on the trip update that is present but empty; alerts naming several trips that have no entity of their own), entities shuffled, plus 2 further entity orders per case; the oracle walks Trip.Vehicle / Vehicle.Trip pointers (mutual, content equal to the list entries, nil exactly when unassociated); distinct = distinct input JSON; non-trivial = at least one association"}
	}
	props["C12"] = func() Prop {
		return &rtProp{id: "C12", gen: rtGen{alertsOnly: false}, nQuick: 10000, nThor: 400000, oracle: oracleC12,
			rule:  "alerts with 0-4 selectors each over every presence combination of agency / route / route type (known and unknown) / direction / stop / trip descriptor (a known trip of the message, a route-only descriptor with or without direction, start time, start date, empty trip id), several routes and both directions per alert, explicit route selectors colliding with descriptor routes; the fixed cases enumerate all 2^10 presence patterns of a single selector; distinct = distinct input JSON; non-trivial = an alert with at least one selector",
			fixed: fixedC12}
	}
	props["C16"] = func() Prop {
		return &rtProp{id: "C16", gen: rtGen{conflictFree: true, nyctTrips: true, zones: []string{"nil", "UTC", "America/New_York"}}, nQuick: 8000, nThor: 200000, oracle: oracleC16,
			rule:  "conflict-free messages mixing NYCT-extended and plain entities: NYCT trip descriptors with every presence combination of train id / is_assigned / direction (NORTH, EAST, SOUTH, WEST), NYCT-format ids (one and two character routes, multi-byte characters in the wildcard positions) and plain ids, stop time updates with scheduled/actual track presence patterns and stop ids at the M-train stations (N, S and other suffixes), first-stop times around the feed timestamp; all four option combinations; the thorough tier additionally runs every origin time 000000-599999; distinct = distinct input JSON; non-trivial = at least one entity",
			fixed: fixedC16}
	}
	props["C17"] = func() Prop {
		return &rtProp{id: "C17", gen: rtGen{nyctAlerts: true, alertsOnly: true}, nQuick: 8000, nThor: 200000, oracle: oracleC17,
			rule:  "alert feeds of 1-6 alerts: elevator ids (platform N/S, station only, shared elevators across stations, ids with a prefix before the station, malformed near-misses), lmm:planned_work / lmm:alert / other prefixes, Mercury sort orders with every priority 1-40 and out-of-table, signed and malformed values, MercuryAlert extension present or not; 3 deduplication policies x station-id flag x skip flag x metadata flag; distinct = distinct input JSON; non-trivial = at least one output alert",
			fixed: fixedC17}
	}
	props["C07"] = func() Prop {
		return &c07Prop{}
	}
}

// c07Prop alternates conflict-free cases (permutation invariance, own entity wins) with arbitrary
// messages (uniqueness and sortedness for all messages).
type c07Prop struct{ cf, any rtProp }

func (p *c07Prop) init() {
	if p.cf.oracle == nil {
		p.cf = rtProp{id: "C07", gen: rtGen{conflictFree: true, nearDup: true}, oracle: oracleC07, orders: 5}
		p.any = rtProp{id: "C07", gen: rtGen{nearDup: true}, oracle: oracleC07}
	}
}
func (p *c07Prop) Rule() string {
	return "two streams: (a) conflict-free messages (as C02) parsed in their own order, reversed and in 4 random entity orders - trips, links and vehicles (as a multiset) must not change, alerts keep feed order, own entities win; (b) arbitrary messages with conflicting duplicates (several own entities per trip/vehicle, empty vehicle descriptors, changing associations) - Trips strictly sorted by identifier and free of duplicates, Vehicles free of duplicate ids; in both streams one case in three has two trips whose identifiers differ in exactly one field (absent vs 00:00:00, absent vs a date, unspecified vs a direction, ...); distinct = distinct input JSON; non-trivial = at least 2 entities"
}
func (p *c07Prop) N(tier string) int {
	if tier == "thorough" {
		return 200000
	}
	return 6000
}
func (p *c07Prop) Gen(r *Rng, tier string, i int) map[string]any {
	p.init()
	if i%3 == 2 {
		return p.any.Gen(r, tier, i)
	}
	return p.cf.withFlag(p.cf.Gen(r, tier, i))
}
func (p *c07Prop) Check(in map[string]any, model json.RawMessage) Verdict {
	p.init()
	return p.cf.Check(in, model)
}
func (p *c07Prop) Fixed() []map[string]any { return nil }

// every presence pattern of a single selector (2^10)
func fixedC12() []map[string]any {
	var out []map[string]any
	for mask := 0; mask < 1024; mask++ {
		s := map[string]any{}
		d := map[string]any{}
		bit := func(i int) bool { return mask&(1<<uint(i)) != 0 }
		if bit(0) {
			s["agencyId"] = "MTA"
		}
		if bit(1) {
			s["routeId"] = "A"
		}
		if bit(2) {
			s["routeType"] = 1
		}
		if bit(3) {
			s["directionId"] = 1
		}
		if bit(4) {
			s["stopId"] = "A01N"
		}
		if bit(5) {
			d["tripId"] = "t1"
		}
		if bit(6) {
			d["routeId"] = "B"
		}
		if bit(7) {
			d["directionId"] = 0
		}
		if bit(8) {
			d["startTime"] = "10:00:00"
		}
		if bit(9) {
			d["startDate"] = "20240102"
		}
		if mask>>5 != 0 {
			s["trip"] = d
		}
		out = append(out, map[string]any{"kind": "realtime", "zone": "UTC", "msg": map[string]any{"timestamp": 1700000000,
			"entities": []any{map[string]any{"id": "a", "alert": map[string]any{"informed": []any{s}}}}}})
	}
	return out
}

// boundary cases of the stale filter, and the M swap
func fixedC16() []map[string]any {
	var out []map[string]any
	for _, first := range []int64{0, 1699999999, 1700000000, 1700000001} {
		for _, assigned := range []bool{false, true} {
			for _, useArr := range []bool{false, true} {
				ev := map[string]any{"time": first}
				stu := map[string]any{"stopId": "M11N", "departure": ev}
				if useArr {
					stu = map[string]any{"stopId": "M11N", "arrival": ev}
				}
				if first == 0 {
					stu = map[string]any{"stopId": "M11N"}
				}
				for _, filter := range []bool{false, true} {
					out = append(out, map[string]any{"kind": "realtime", "zone": "UTC", "conflictFree": true,
						"ext": map[string]any{"kind": "nycttrips", "filterStale": filter, "preserveM": false},
						"msg": map[string]any{"timestamp": 1700000000, "entities": []any{map[string]any{"id": "e", "tripUpdate": map[string]any{
							"trip": map[string]any{"tripId": "123450_M..N", "routeId": "M", "nyct": map[string]any{"trainId": "0M 1234", "isAssigned": assigned, "direction": 3}},
							"stus": []any{stu, map[string]any{"stopId": "M18X"}, map[string]any{"stopId": "M16S"}}}}}}})
				}
			}
		}
	}
	return out
}

func fixedC17() []map[string]any {
	var out []map[string]any
	ids := []string{"A27N#EL123", "E01S#EL123", "A27S#EL123", "E01N#EL123", "L03#EL5", "lmm:planned_work:1"}
	ents := []any{}
	for _, id := range ids {
		ents = append(ents, map[string]any{"id": id, "alert": map[string]any{"informed": []any{map[string]any{"stopId": "zzz", "mercurySortOrder": "a:40"}}, "hasMercuryAlert": true}})
	}
	for _, pol := range []string{"none", "station", "complex"} {
		for _, st := range []bool{false, true} {
			out = append(out, map[string]any{"kind": "realtime", "zone": "UTC", "ext": map[string]any{"kind": "nyctalerts", "policy": pol, "useStationIds": st, "skipTimetabled": true, "addMetadata": true},
				"msg": map[string]any{"timestamp": 1700000000, "entities": ents}})
		}
	}
	// every priority, in and out of the table
	for p := -1; p <= 42; p++ {
		out = append(out, map[string]any{"kind": "realtime", "zone": "UTC", "ext": map[string]any{"kind": "nyctalerts", "policy": "none", "skipTimetabled": p%2 == 0},
			"msg": map[string]any{"entities": []any{map[string]any{"id": fmt.Sprintf("x%d", p), "alert": map[string]any{"effect": 4, "informed": []any{
				map[string]any{"routeId": "A", "mercurySortOrder": fmt.Sprintf("MTASBWY:A:%d", p)}}}}}}})
	}
	return out
}
