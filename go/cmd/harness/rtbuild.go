package main

import (
	"fmt"
	"math"
	"strings"
	"time"
	_ "time/tzdata"

	"github.com/jamespfennell/gtfs"
	"github.com/jamespfennell/gtfs/extensions"
	"github.com/jamespfennell/gtfs/extensions/nyctalerts"
	"github.com/jamespfennell/gtfs/extensions/nycttrips"
	gtfsrt "github.com/jamespfennell/gtfs/proto"
	"google.golang.org/protobuf/proto"
)

// ---------- JSON case -> protobuf message ----------

func u32p(v any, k string) *uint32 {
	if p := gip(v, k); p != nil {
		u := uint32(*p)
		return &u
	}
	return nil
}
func i32p(v any, k string) *int32 {
	if p := gip(v, k); p != nil {
		u := int32(*p)
		return &u
	}
	return nil
}
func u64p(v any, k string) *uint64 {
	if p := gip(v, k); p != nil {
		u := uint64(*p)
		return &u
	}
	return nil
}
func f32bits(v any, k string) *float32 {
	if p := gip(v, k); p != nil {
		f := math.Float32frombits(uint32(*p))
		return &f
	}
	return nil
}
func f64bits(v any, k string) *float64 {
	if p := gip(v, k); p != nil {
		f := math.Float64frombits(uint64(*p))
		return &f
	}
	return nil
}

func pbTripDesc(d map[string]any) *gtfsrt.TripDescriptor {
	if d == nil {
		return nil
	}
	t := &gtfsrt.TripDescriptor{TripId: gsp(d, "tripId"), RouteId: gsp(d, "routeId"), DirectionId: u32p(d, "directionId"),
		StartTime: gsp(d, "startTime"), StartDate: gsp(d, "startDate")}
	if p := gip(d, "sr"); p != nil {
		e := gtfsrt.TripDescriptor_ScheduleRelationship(*p)
		t.ScheduleRelationship = &e
	}
	if n := gm(d, "nyct"); n != nil {
		nd := &gtfsrt.NyctTripDescriptor{TrainId: gsp(n, "trainId")}
		if has(n, "isAssigned") {
			b := gb(n, "isAssigned")
			nd.IsAssigned = &b
		}
		if p := gip(n, "direction"); p != nil {
			e := gtfsrt.NyctTripDescriptor_Direction(*p)
			nd.Direction = &e
		}
		proto.SetExtension(t, gtfsrt.E_NyctTripDescriptor, nd)
	}
	return t
}

func pbVehDesc(d map[string]any) *gtfsrt.VehicleDescriptor {
	if d == nil {
		return nil
	}
	return &gtfsrt.VehicleDescriptor{Id: gsp(d, "id"), Label: gsp(d, "label"), LicensePlate: gsp(d, "licensePlate")}
}

func pbEvent(d map[string]any) *gtfsrt.TripUpdate_StopTimeEvent {
	if d == nil {
		return nil
	}
	return &gtfsrt.TripUpdate_StopTimeEvent{Delay: i32p(d, "delay"), Time: gip(d, "time"), Uncertainty: i32p(d, "uncertainty")}
}

func pbTranslated(v any, k string) *gtfsrt.TranslatedString {
	if !has(v, k) {
		return nil
	}
	ts := &gtfsrt.TranslatedString{}
	for _, t := range ga(v, k) {
		text := gs(t, "text")
		ts.Translation = append(ts.Translation, &gtfsrt.TranslatedString_Translation{Text: &text, Language: gsp(t, "language")})
	}
	return ts
}

func pbMessage(m map[string]any) *gtfsrt.FeedMessage {
	ver := "2.0"
	msg := &gtfsrt.FeedMessage{Header: &gtfsrt.FeedHeader{GtfsRealtimeVersion: &ver, Timestamp: u64p(m, "timestamp")}}
	for _, e := range ga(m, "entities") {
		id := gs(e, "id")
		ent := &gtfsrt.FeedEntity{Id: &id}
		if tu := gm(e, "tripUpdate"); tu != nil {
			t := &gtfsrt.TripUpdate{Trip: pbTripDesc(gm(tu, "trip")), Vehicle: pbVehDesc(gm(tu, "vehicle"))}
			for _, s := range ga(tu, "stus") {
				stu := &gtfsrt.TripUpdate_StopTimeUpdate{StopSequence: u32p(s, "stopSequence"), StopId: gsp(s, "stopId"),
					Arrival: pbEvent(gm(s, "arrival")), Departure: pbEvent(gm(s, "departure"))}
				if p := gip(s, "sr"); p != nil {
					x := gtfsrt.TripUpdate_StopTimeUpdate_ScheduleRelationship(*p)
					stu.ScheduleRelationship = &x
				}
				if n := gm(s, "nyct"); n != nil {
					proto.SetExtension(stu, gtfsrt.E_NyctStopTimeUpdate, &gtfsrt.NyctStopTimeUpdate{ScheduledTrack: gsp(n, "scheduledTrack"), ActualTrack: gsp(n, "actualTrack")})
				}
				t.StopTimeUpdate = append(t.StopTimeUpdate, stu)
			}
			ent.TripUpdate = t
		}
		if vp := gm(e, "vehicle"); vp != nil {
			v := &gtfsrt.VehiclePosition{Trip: pbTripDesc(gm(vp, "trip")), Vehicle: pbVehDesc(gm(vp, "vehicle")),
				CurrentStopSequence: u32p(vp, "currentStopSequence"), StopId: gsp(vp, "stopId"), Timestamp: u64p(vp, "timestamp"),
				OccupancyPercentage: u32p(vp, "occupancyPercentage")}
			if p := gm(vp, "position"); p != nil {
				v.Position = &gtfsrt.Position{Latitude: f32bits(p, "latitude"), Longitude: f32bits(p, "longitude"), Bearing: f32bits(p, "bearing"),
					Odometer: f64bits(p, "odometer"), Speed: f32bits(p, "speed")}
			}
			if p := gip(vp, "currentStatus"); p != nil {
				x := gtfsrt.VehiclePosition_VehicleStopStatus(*p)
				v.CurrentStatus = &x
			}
			if p := gip(vp, "congestionLevel"); p != nil {
				x := gtfsrt.VehiclePosition_CongestionLevel(*p)
				v.CongestionLevel = &x
			}
			if p := gip(vp, "occupancyStatus"); p != nil {
				x := gtfsrt.VehiclePosition_OccupancyStatus(*p)
				v.OccupancyStatus = &x
			}
			ent.Vehicle = v
		}
		if a := gm(e, "alert"); a != nil {
			al := &gtfsrt.Alert{Url: pbTranslated(a, "url"), HeaderText: pbTranslated(a, "header"), DescriptionText: pbTranslated(a, "description")}
			for _, r := range ga(a, "activePeriods") {
				al.ActivePeriod = append(al.ActivePeriod, &gtfsrt.TimeRange{Start: u64p(r, "start"), End: u64p(r, "end")})
			}
			for _, s := range ga(a, "informed") {
				sel := &gtfsrt.EntitySelector{AgencyId: gsp(s, "agencyId"), RouteId: gsp(s, "routeId"), RouteType: i32p(s, "routeType"),
					Trip: pbTripDesc(gm(s, "trip")), StopId: gsp(s, "stopId"), DirectionId: u32p(s, "directionId")}
				if has(s, "mercurySortOrder") {
					so := gs(s, "mercurySortOrder")
					proto.SetExtension(sel, gtfsrt.E_MercuryEntitySelector, &gtfsrt.MercuryEntitySelector{SortOrder: &so})
				}
				al.InformedEntity = append(al.InformedEntity, sel)
			}
			if p := gip(a, "cause"); p != nil {
				x := gtfsrt.Alert_Cause(*p)
				al.Cause = &x
			}
			if p := gip(a, "effect"); p != nil {
				x := gtfsrt.Alert_Effect(*p)
				al.Effect = &x
			}
			if gb(a, "hasMercuryAlert") {
				c, u, ty := uint64(1700000000), uint64(1700000500), "Delays"
				ma := &gtfsrt.MercuryAlert{CreatedAt: &c, UpdatedAt: &u, AlertType: &ty}
				// the optional parts of the Mercury alert in every presence pattern (their content is
				// opaque to the model: it only ends up in the metadata text)
				mv := gi(a, "mercuryVariant")
				switch mv % 4 {
				case 1:
					ma.HumanReadableActivePeriod = &gtfsrt.TranslatedString{} // present, no translation
				case 2:
					t := "Mon - Fri"
					ma.HumanReadableActivePeriod = &gtfsrt.TranslatedString{Translation: []*gtfsrt.TranslatedString_Translation{{Text: &t}}}
				case 3:
					t, t2, l := "a", "b", "en"
					ma.HumanReadableActivePeriod = &gtfsrt.TranslatedString{Translation: []*gtfsrt.TranslatedString_Translation{{Text: &t, Language: &l}, {Text: &t2}}}
				}
				if (mv/4)%2 == 1 {
					d := uint64(3600)
					ma.DisplayBeforeActive = &d
				}
				if (mv/8)%2 == 1 {
					ma.ServicePlanNumber = []string{"1", "2"}
					cl := "clone"
					ma.CloneId = &cl
				}
				proto.SetExtension(al, gtfsrt.E_MercuryAlert, ma)
			}
			ent.Alert = al
		}
		msg.Entity = append(msg.Entity, ent)
	}
	return msg
}

func marshalMsg(m map[string]any) []byte {
	b, err := proto.Marshal(pbMessage(m))
	if err != nil {
		panic(fmt.Sprintf("cannot marshal generated message: %v", err))
	}
	return b
}

// ---------- options ----------

func zoneOf(in map[string]any) *time.Location {
	z := gs(in, "zone")
	switch {
	case z == "" || z == "nil":
		return nil
	case z == "UTC":
		return time.UTC
	case strings.HasPrefix(z, "fixed:"):
		var secs int
		fmt.Sscanf(z[6:], "%d", &secs)
		// the name of a fixed zone is the caller's choice: several offsets share one name, so that a
		// zone is never identified by its name alone
		name := "LCL"
		switch secs {
		case 3600, -18000:
			name = ""
		case 28800:
			name = z
		}
		return time.FixedZone(name, secs)
	default:
		loc, err := time.LoadLocation(z)
		if err != nil {
			panic("zone database missing: " + z)
		}
		return loc
	}
}

func extOf(in map[string]any) extensions.Extension {
	e := gm(in, "ext")
	if e == nil {
		return nil
	}
	switch gs(e, "kind") {
	case "nycttrips":
		return nycttrips.Extension(nycttrips.ExtensionOpts{FilterStaleUnassignedTrips: gb(e, "filterStale"), PreserveMTrainPlatformsInBushwick: gb(e, "preserveM")})
	case "nyctalerts":
		pol := map[string]nyctalerts.ElevatorAlertsDeduplicationPolicy{"none": nyctalerts.NoDeduplication, "station": nyctalerts.DeduplicateInStation,
			"complex": nyctalerts.DeduplicateInComplex}[gs(e, "policy")]
		return nyctalerts.Extension(nyctalerts.ExtensionOpts{ElevatorAlertsDeduplicationPolicy: pol, ElevatorAlertsInformUsingStationIDs: gb(e, "useStationIds"),
			SkipTimetabledNoServiceAlerts: gb(e, "skipTimetabled"), AddNyctMetadata: gb(e, "addMetadata")})
	}
	return nil
}

func optsOf(in map[string]any) *gtfs.ParseRealtimeOptions {
	return &gtfs.ParseRealtimeOptions{Timezone: zoneOf(in), Extension: extOf(in)}
}

// ---------- result -> canonical JSON (the shape DriverRealtime prints) ----------

type rtCanon struct {
	loc *time.Location // the zone every time must be expressed in
	bad []string       // observations that contradict "same instant in the configured zone"
	zt  *zoneTab       // when the case carries the zone's table: print the instant of every start date (the model predicts it)
}

// sameZone: t is expressed in the configured zone (same name, and the same offset and abbreviation at that instant;
// pointer identity is not demanded)
func (c *rtCanon) sameZone(t time.Time) bool {
	n1, o1 := t.Zone()
	n2, o2 := t.In(c.loc).Zone()
	return t.Location().String() == c.loc.String() && n1 == n2 && o1 == o2
}

func (c *rtCanon) unix(t time.Time) int64 {
	if !c.sameZone(t) && !t.IsZero() {
		c.bad = append(c.bad, fmt.Sprintf("time %v is expressed in %s, not in the configured zone %s", t, t.Location(), c.loc))
	}
	return t.Unix()
}

func (c *rtCanon) unixp(t *time.Time) any {
	if t == nil {
		return nil
	}
	return c.unix(*t)
}

func civilDays(y int, m time.Month, d int) int64 {
	return time.Date(y, m, d, 0, 0, 0, 0, time.UTC).Unix() / 86400
}

func (c *rtCanon) tripID(id gtfs.TripID) map[string]any {
	m := map[string]any{"id": bstr(id.ID), "route": bstr(id.RouteID), "dir": int(id.DirectionID), "hasStartTime": id.HasStartTime,
		"startTime": int64(id.StartTime / time.Second), "hasStartDate": id.HasStartDate, "startDate": 0, "sr": int(id.ScheduleRelationship)}
	if c.zt != nil {
		m["startDateUnix"] = nil
	}
	if id.StartTime%time.Second != 0 {
		c.bad = append(c.bad, "start time is not a whole number of seconds")
	}
	if id.HasStartDate {
		t := id.StartDate
		if !c.sameZone(t) {
			c.bad = append(c.bad, fmt.Sprintf("start date %v is expressed in %s, not in the configured zone %s", t, t.Location(), c.loc))
		}
		t = t.In(c.loc)
		y, mo, d := t.Date()
		h, mi, s := t.Clock()
		if h != 0 || mi != 0 || s != 0 || t.Nanosecond() != 0 {
			c.bad = append(c.bad, fmt.Sprintf("start date %v is not local midnight", t))
		}
		m["startDate"] = civilDays(y, mo, d)
		if c.zt != nil {
			m["startDateUnix"] = c.zt.dateInstant(id.StartDate, civilDays(y, mo, d))
		}
	} else if !id.StartDate.IsZero() {
		c.bad = append(c.bad, "start date fabricated although absent")
	}
	return m
}

func (c *rtCanon) event(e *gtfs.StopTimeEvent) any {
	if e == nil {
		return nil
	}
	m := map[string]any{"time": c.unixp(e.Time)}
	if e.Delay != nil {
		m["delay"] = int64(*e.Delay / time.Second)
		if *e.Delay%time.Second != 0 {
			c.bad = append(c.bad, "delay is not a whole number of seconds")
		}
	}
	if e.Uncertainty != nil {
		m["uncertainty"] = *e.Uncertainty
	}
	return m
}

func (c *rtCanon) tripData(t *gtfs.Trip) map[string]any {
	stus := []any{}
	for i := range t.StopTimeUpdates {
		s := &t.StopTimeUpdates[i]
		m := map[string]any{"stopId": bstrPtr(s.StopID), "arrival": c.event(s.Arrival), "departure": c.event(s.Departure),
			"track": bstrPtr(s.NyctTrack), "sr": int(s.ScheduleRelationship)}
		if s.StopSequence != nil {
			m["stopSequence"] = *s.StopSequence
		}
		stus = append(stus, m)
	}
	return map[string]any{"id": c.tripID(t.ID), "stus": stus, "inMessage": t.IsEntityInMessage}
}

func (c *rtCanon) vehData(v *gtfs.Vehicle) map[string]any {
	m := map[string]any{"stopId": bstrPtr(v.StopID), "timestamp": c.unixp(v.Timestamp), "congestionLevel": int(v.CongestionLevel), "inMessage": v.IsEntityInMessage}
	if v.ID != nil {
		m["id"] = map[string]any{"id": bstr(v.ID.ID), "label": bstr(v.ID.Label), "licensePlate": bstr(v.ID.LicensePlate)}
	}
	if p := v.Position; p != nil {
		pm := map[string]any{}
		if p.Latitude != nil {
			pm["latitude"] = math.Float32bits(*p.Latitude)
		}
		if p.Longitude != nil {
			pm["longitude"] = math.Float32bits(*p.Longitude)
		}
		if p.Bearing != nil {
			pm["bearing"] = math.Float32bits(*p.Bearing)
		}
		if p.Odometer != nil {
			pm["odometer"] = math.Float64bits(*p.Odometer)
		}
		if p.Speed != nil {
			pm["speed"] = math.Float32bits(*p.Speed)
		}
		m["position"] = pm
	}
	if v.CurrentStopSequence != nil {
		m["currentStopSequence"] = *v.CurrentStopSequence
	}
	if v.CurrentStatus != nil {
		m["currentStatus"] = int(*v.CurrentStatus)
	}
	if v.OccupancyStatus != nil {
		m["occupancyStatus"] = int(*v.OccupancyStatus)
	}
	if v.OccupancyPercentage != nil {
		m["occupancyPercentage"] = *v.OccupancyPercentage
	}
	return m
}

func (c *rtCanon) texts(ts []gtfs.AlertText) []any {
	out := []any{}
	for _, t := range ts {
		text := t.Text
		if t.Language == nyctalerts.MetadataLanguage {
			text = "<<METADATA>>"
		}
		out = append(out, map[string]any{"text": bstr(text), "language": bstr(t.Language)})
	}
	return out
}

func (c *rtCanon) result(r *gtfs.Realtime) map[string]any {
	trips := []any{}
	for i := range r.Trips {
		t := &r.Trips[i]
		m := map[string]any{"data": c.tripData(t)}
		if t.Vehicle != nil {
			m["vehicle"] = c.vehData(t.Vehicle)
		}
		trips = append(trips, m)
	}
	vehs := []any{}
	for i := range r.Vehicles {
		v := &r.Vehicles[i]
		m := map[string]any{"data": c.vehData(v)}
		if v.Trip != nil {
			m["trip"] = c.tripData(v.Trip)
		}
		vehs = append(vehs, m)
	}
	alerts := []any{}
	for _, a := range r.Alerts {
		aps := []any{}
		for _, p := range a.ActivePeriods {
			aps = append(aps, map[string]any{"start": c.unixp(p.StartsAt), "end": c.unixp(p.EndsAt)})
		}
		inf := []any{}
		for _, e := range a.InformedEntities {
			m := map[string]any{"agencyId": bstrPtr(e.AgencyID), "routeId": bstrPtr(e.RouteID), "routeType": int(e.RouteType), "dir": int(e.DirectionID),
				"stopId": bstrPtr(e.StopID)}
			if e.TripID != nil {
				m["tripId"] = c.tripID(*e.TripID)
			}
			inf = append(inf, m)
		}
		alerts = append(alerts, map[string]any{"id": bstr(a.ID), "cause": int(a.Cause), "effect": int(a.Effect), "activePeriods": aps, "informed": inf,
			"header": c.texts(a.Header), "description": c.texts(a.Description), "url": c.texts(a.URL)})
	}
	created := r.CreatedAt.Unix()
	if !r.CreatedAt.IsZero() {
		created = c.unix(r.CreatedAt)
	}
	return map[string]any{"createdAt": created, "trips": trips, "vehicles": vehs, "alerts": alerts}
}

// parseImpl runs the real parser on the case's message (entities optionally permuted).
func parseImpl(in map[string]any, order []any) (*gtfs.Realtime, error) {
	msg := gm(in, "msg")
	if order != nil {
		ents := ga(msg, "entities")
		perm := []any{}
		for _, i := range order {
			k := int(toI64(i))
			if k < len(ents) {
				perm = append(perm, ents[k])
			}
		}
		msg = map[string]any{"timestamp": msg["timestamp"], "entities": perm}
	}
	return gtfs.ParseRealtime(marshalMsg(msg), optsOf(in))
}

func canonOf(in map[string]any, r *gtfs.Realtime) (map[string]any, []string) {
	loc := zoneOf(in)
	if loc == nil {
		loc = time.UTC
	}
	c := &rtCanon{loc: loc}
	if in["zoneTable"] != nil {
		c.zt = zoneTabOf(loc)
	}
	return c.result(r), c.bad
}
