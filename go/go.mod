module verifharness

go 1.18

require (
	github.com/jamespfennell/gtfs v0.0.0
	google.golang.org/protobuf v1.27.1
)

require golang.org/x/text v0.9.0 // indirect

replace github.com/jamespfennell/gtfs => /repo
