#!/bin/sh
# Builds the framework from files on disk only (offline): the Lean project (model, theorems, driver)
# and the Go tools. ./check rebuilds whatever depends on /repo on every run.
set -e
cd "$(dirname "$0")"
export GOFLAGS=-mod=mod GOPROXY=off GOSUMDB=off GOTOOLCHAIN=local
mkdir -p build replays evidence
cp "${VERIF_REPO:-/repo}/go.sum" go/go.sum
(cd go && go build -tags verif -o ../build/harness ./cmd/harness)
(cd goext && go build -o ../build/extract .)
(cd lean && lake build GtfsVerif driver)
echo setup done
