#!/bin/sh
# Builds the framework from files on disk only (offline): the Go tools, the facts regenerated from the repository's
# current working tree, the Lean project (model, theorems, driver). ./check rebuilds whatever depends on /repo on every run.
set -e
cd "$(dirname "$0")"
export GOFLAGS=-mod=mod GOPROXY=off GOSUMDB=off GOTOOLCHAIN=local
mkdir -p build replays evidence
cp "${VERIF_REPO:-/repo}/go.sum" go/go.sum
(cd go && go build -tags verif -o ../build/harness ./cmd/harness)
(cd goext && go build -o ../build/extract .)
./regen.sh
# the driver must build; the theorem modules are built here to warm the cache - a module that no longer checks against
# the repository's current facts is reported by the check of its property, not by the set-up
(cd lean && lake build driver)
(cd lean && lake build GtfsVerif) || echo "setup: some theorem modules do not build against the current facts (their checks will report it)"
echo setup done
