import Protocol
import GtfsVerif.Model.Realtime
open Lean Gtfs Gtfs.Proto
namespace Gtfs.DRt
open Gtfs.Rt

def nyctTdOf (j : Json) : R NyctTripDesc := do
  return { trainId := ← getOpt asStr j "trainId", isAssigned := ← getOpt asBool j "isAssigned", direction := ← getOpt asInt j "direction" }

def tripDescOf (j : Json) : R TripDesc := do
  return { tripId := ← getOpt asStr j "tripId", routeId := ← getOpt asStr j "routeId", directionId := ← getOpt asNat j "directionId",
           startTime := ← getOpt asStr j "startTime", startDate := ← getOpt asStr j "startDate", sr := ← getOpt asInt j "sr",
           nyct := ← getOpt nyctTdOf j "nyct" }

def vehDescOf (j : Json) : R VehDesc := do
  return { id := ← getOpt asStr j "id", label := ← getOpt asStr j "label", licensePlate := ← getOpt asStr j "licensePlate" }

def eventOf (j : Json) : R StEvent := do
  return { delay := ← getOpt asInt j "delay", time := ← getOpt asInt j "time", uncertainty := ← getOpt asInt j "uncertainty" }

def nyctStuOf (j : Json) : R NyctStu := do
  return { scheduledTrack := ← getOpt asStr j "scheduledTrack", actualTrack := ← getOpt asStr j "actualTrack" }

def stuOf (j : Json) : R StuMsg := do
  return { stopSequence := ← getOpt asNat j "stopSequence", stopId := ← getOpt asStr j "stopId", arrival := ← getOpt eventOf j "arrival",
           departure := ← getOpt eventOf j "departure", sr := ← getOpt asInt j "sr", nyct := ← getOpt nyctStuOf j "nyct" }

def tuOf (j : Json) : R TripUpdateMsg := do
  return { trip := ← getOpt tripDescOf j "trip", vehicle := ← getOpt vehDescOf j "vehicle", stus := ← getList stuOf j "stus" }

def posOf (j : Json) : R PositionMsg := do
  return { latitude := ← getOpt asNat j "latitude", longitude := ← getOpt asNat j "longitude", bearing := ← getOpt asNat j "bearing",
           odometer := ← getOpt asNat j "odometer", speed := ← getOpt asNat j "speed" }

def vpOf (j : Json) : R VehiclePosMsg := do
  return { trip := ← getOpt tripDescOf j "trip", vehicle := ← getOpt vehDescOf j "vehicle", position := ← getOpt posOf j "position",
           currentStopSequence := ← getOpt asNat j "currentStopSequence", stopId := ← getOpt asStr j "stopId",
           currentStatus := ← getOpt asInt j "currentStatus", timestamp := ← getOpt asNat j "timestamp",
           congestionLevel := ← getOpt asInt j "congestionLevel", occupancyStatus := ← getOpt asInt j "occupancyStatus",
           occupancyPercentage := ← getOpt asNat j "occupancyPercentage" }

def rangeOf (j : Json) : R TimeRange := do
  return { start := ← getOpt asNat j "start", stop := ← getOpt asNat j "end" }

def translationOf (j : Json) : R Translation := do
  return { text := ← getStrD j "text" [], language := ← getOpt asStr j "language" }

def selOf (j : Json) : R EntitySel := do
  return { agencyId := ← getOpt asStr j "agencyId", routeId := ← getOpt asStr j "routeId", routeType := ← getOpt asInt j "routeType",
           trip := ← getOpt tripDescOf j "trip", stopId := ← getOpt asStr j "stopId", directionId := ← getOpt asNat j "directionId",
           mercurySortOrder := ← getOpt asStr j "mercurySortOrder" }

def alertOf (j : Json) : R AlertMsg := do
  return { activePeriods := ← getList rangeOf j "activePeriods", informed := ← getList selOf j "informed",
           cause := ← getOpt asInt j "cause", effect := ← getOpt asInt j "effect",
           url := ← getOpt (asList translationOf) j "url", header := ← getOpt (asList translationOf) j "header",
           description := ← getOpt (asList translationOf) j "description", hasMercuryAlert := ← getBoolD j "hasMercuryAlert" false }

def entityOf (j : Json) : R Entity := do
  return { id := ← getStrD j "id" [], tripUpdate := ← getOpt tuOf j "tripUpdate", vehicle := ← getOpt vpOf j "vehicle",
           alert := ← getOpt alertOf j "alert" }

def msgOf (j : Json) : R Msg := do
  return { timestamp := ← getOpt asNat j "timestamp", entities := ← getList entityOf j "entities" }

def extOf (j : Option Json) : R Ext := do
  match j with
  | none => return .noExt
  | some e =>
    let kind ← e.getObjValAs? String "kind"
    match kind with
    | "nycttrips" => return .trips { filterStale := ← getBoolD e "filterStale" false, preserveM := ← getBoolD e "preserveM" false }
    | "nyctalerts" =>
      let pol ← e.getObjValAs? String "policy"
      let policy ← match pol with
        | "station" => pure DedupPolicy.station
        | "complex" => pure DedupPolicy.complex
        | "none" => pure DedupPolicy.none
        | p => throw s!"policy {p}"
      return .alerts { policy := policy, useStationIds := ← getBoolD e "useStationIds" false,
                       skipTimetabled := ← getBoolD e "skipTimetabled" false, addMetadata := ← getBoolD e "addMetadata" false }
    | "none" => return .noExt
    | k => throw s!"extension {k}"

/-! results -/

/-- with the configured zone's table: also the instant at which the start date is surfaced -/
def tripIdJ (zt : Option Zone.Table) (t : TripID) : Json :=
  jObj ([("id", jStr t.id), ("route", jStr t.route), ("dir", jInt t.dir), ("hasStartTime", jBool t.hasStartTime),
        ("startTime", jInt t.startTime), ("hasStartDate", jBool t.hasStartDate), ("startDate", jInt t.startDate), ("sr", jInt t.sr)] ++
       (match zt with
        | none => []
        | some z => [("startDateUnix", jOpt jInt (if t.hasStartDate then z.instant t.startDate else none))]))

def vehIdJ (v : VehicleID) : Json := jObj [("id", jStr v.id), ("label", jStr v.label), ("licensePlate", jStr v.licensePlate)]

def eventJ (e : EventOut) : Json := jObj [("time", jOpt jInt e.time), ("delay", jOpt jInt e.delay), ("uncertainty", jOpt jInt e.uncertainty)]

def stuJ (s : StuOut) : Json :=
  jObj [("stopSequence", jOpt jNat s.stopSequence), ("stopId", jOpt jStr s.stopId), ("arrival", jOpt eventJ s.arrival),
        ("departure", jOpt eventJ s.departure), ("track", jOpt jStr s.track), ("sr", jInt s.sr)]

def posJ (p : PositionMsg) : Json :=
  jObj [("latitude", jOpt jNat p.latitude), ("longitude", jOpt jNat p.longitude), ("bearing", jOpt jNat p.bearing),
        ("odometer", jOpt jNat p.odometer), ("speed", jOpt jNat p.speed)]

def vehDataJ (v : VehData) : Json :=
  jObj [("id", jOpt vehIdJ v.id), ("position", jOpt posJ v.position), ("currentStopSequence", jOpt jNat v.currentStopSequence),
        ("stopId", jOpt jStr v.stopId), ("currentStatus", jOpt jInt v.currentStatus), ("timestamp", jOpt jInt v.timestamp),
        ("congestionLevel", jInt v.congestionLevel), ("occupancyStatus", jOpt jInt v.occupancyStatus),
        ("occupancyPercentage", jOpt jNat v.occupancyPercentage), ("inMessage", jBool v.inMessage)]

def tripDataJ (zt : Option Zone.Table) (t : TripData) : Json :=
  jObj [("id", tripIdJ zt t.id), ("stus", jList stuJ t.stus), ("inMessage", jBool t.inMessage)]

def tripOutJ (zt : Option Zone.Table) (t : TripOut) : Json := jObj [("data", tripDataJ zt t.data), ("vehicle", jOpt vehDataJ t.vehicle)]
def vehOutJ (zt : Option Zone.Table) (v : VehicleOut) : Json := jObj [("data", vehDataJ v.data), ("trip", jOpt (tripDataJ zt) v.trip)]

def informedJ (zt : Option Zone.Table) (e : InformedOut) : Json :=
  jObj [("agencyId", jOpt jStr e.agencyId), ("routeId", jOpt jStr e.routeId), ("routeType", jInt e.routeType), ("dir", jInt e.dir),
        ("tripId", jOpt (tripIdJ zt) e.tripId), ("stopId", jOpt jStr e.stopId)]

def textJ (t : Str × Str) : Json := jObj [("text", jStr t.1), ("language", jStr t.2)]

def alertJ (zt : Option Zone.Table) (a : AlertOut) : Json :=
  jObj [("id", jStr a.id), ("cause", jInt a.cause), ("effect", jInt a.effect),
        ("activePeriods", jList (fun p => jObj [("start", jOpt jInt p.1), ("end", jOpt jInt p.2)]) a.activePeriods),
        ("informed", jList (informedJ zt) a.informed), ("header", jList textJ a.header), ("description", jList textJ a.description),
        ("url", jList textJ a.url)]

def resultJ (zt : Option Zone.Table) (r : Result) : Json :=
  jObj [("createdAt", jInt r.createdAt), ("trips", jList (tripOutJ zt) r.trips), ("vehicles", jList (vehOutJ zt) r.vehicles),
        ("alerts", jList (alertJ zt) r.alerts)]

def permute {α} (l : List α) (p : List Nat) : List α := p.filterMap fun i => l[i]?

/-- input: {"msg":…, "ext":…, "orders":[[perm]…]} → result, and the result for each permuted entity order -/
def handle (j : Json) : R Json := do
  let m ← msgOf (← field j "msg")
  let ext ← extOf (fieldOpt j "ext")
  let orders ← getList (asList asNat) j "orders"
  let zt ← getOpt tableOf j "zoneTable"
  let perms := orders.map fun p => resultJ zt (parse ext { m with entities := permute m.entities p })
  return jObj [("result", resultJ zt (parse ext m)), ("perms", Json.arr perms.toArray)]

end Gtfs.DRt
