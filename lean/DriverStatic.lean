import Protocol
import GtfsVerif.Model.Static
import GtfsVerif.Model.Float
open Lean Gtfs Gtfs.Proto
namespace Gtfs.DStatic
open Gtfs.Static

def agencyJ (a : Agency) : Json :=
  jObj [("id", jStr a.id), ("name", jStr a.name), ("url", jStr a.url), ("timezone", jStr a.timezone), ("language", jStr a.language),
        ("phone", jStr a.phone), ("fareUrl", jStr a.fareUrl), ("email", jStr a.email)]

def routeJ (r : Route) : Json :=
  jObj [("id", jStr r.id), ("agency", jNat r.agency), ("color", jStr r.color), ("textColor", jStr r.textColor),
        ("shortName", jStr r.shortName), ("longName", jStr r.longName), ("description", jStr r.description), ("type", jInt r.type),
        ("url", jStr r.url), ("sortOrder", jOpt jInt r.sortOrder), ("continuousPickup", jInt r.continuousPickup),
        ("continuousDropOff", jInt r.continuousDropOff)]

def stopJ (s : Stop) : Json :=
  jObj [("id", jStr s.id), ("code", jStr s.code), ("name", jStr s.name), ("description", jStr s.description), ("zoneId", jStr s.zoneId),
        ("longitude", jOpt jNat s.longitude), ("latitude", jOpt jNat s.latitude), ("url", jStr s.url), ("type", jInt s.type),
        ("parent", jOpt jNat s.parent), ("timezone", jStr s.timezone), ("wheelchairBoarding", jInt s.wheelchairBoarding),
        ("platformCode", jStr s.platformCode)]

def transferJ (t : Transfer) : Json :=
  jObj [("from", jNat t.fromStop), ("to", jNat t.toStop), ("type", jInt t.type), ("minTransferTime", jOpt jInt t.minTransferTime)]

/-- dates as civil day numbers and as the instants at which they are surfaced in the feed's zone -/
def serviceJ (zt : Zone.Table) (s : Service) : Json :=
  jObj [("id", jStr s.id), ("days", jList jBool [s.monday, s.tuesday, s.wednesday, s.thursday, s.friday, s.saturday, s.sunday]),
        ("startDate", jInt s.startDate), ("endDate", jInt s.endDate), ("added", jList jInt s.added), ("removed", jList jInt s.removed),
        ("startAt", jOpt jInt (zt.instant s.startDate)), ("endAt", jOpt jInt (zt.instant s.endDate)),
        ("addedAt", jList (fun d => jOpt jInt (zt.instant d)) s.added), ("removedAt", jList (fun d => jOpt jInt (zt.instant d)) s.removed)]

def pointJ (p : ShapePoint) : Json :=
  jObj [("latitude", jNat p.latitude), ("longitude", jNat p.longitude), ("distance", jOpt jNat p.distance)]

def shapeJ (s : Shape) : Json := jObj [("id", jStr s.id), ("points", jList pointJ s.points)]

def freqJ (f : Frequency) : Json :=
  jObj [("startTime", jInt f.startTime), ("endTime", jInt f.endTime), ("headway", jInt f.headway), ("exactTimes", jInt f.exactTimes)]

def stopTimeJ (s : StopTime) : Json :=
  jObj [("stop", jNat s.stop), ("arrival", jInt s.arrival), ("departure", jInt s.departure), ("sequence", jInt s.sequence),
        ("headsign", jStr s.headsign), ("pickupType", jInt s.pickupType), ("dropOffType", jInt s.dropOffType),
        ("continuousPickup", jInt s.continuousPickup), ("continuousDropOff", jInt s.continuousDropOff),
        ("shapeDist", jOpt jNat s.shapeDist), ("exactTimes", jBool s.exactTimes)]

def tripJ (t : Trip) : Json :=
  jObj [("route", jNat t.route), ("service", jNat t.service), ("id", jStr t.id), ("headsign", jStr t.headsign),
        ("shortName", jStr t.shortName), ("direction", jInt t.direction), ("blockId", jStr t.blockId),
        ("wheelchairAccessible", jInt t.wheelchairAccessible), ("bikesAllowed", jInt t.bikesAllowed),
        ("stopTimes", jList stopTimeJ t.stopTimes), ("shape", jOpt jNat t.shape), ("frequencies", jList freqJ t.frequencies)]

def warningJ (w : Warning) : Json :=
  let kind := match w.kind with
    | .missingColumns cols => jObj [("kind", Json.str "missingColumns"), ("columns", jList jStr cols)]
    | .agencyMissingValues id cols => jObj [("kind", Json.str "agencyMissingValues"), ("agencyId", jStr id), ("columns", jList jStr cols)]
  jObj [("file", jStr w.file), ("rowNumber", jNat w.rowNumber), ("rowContent", jList jStr w.rowContent),
        ("header", jList jStr w.header), ("kind", kind)]

abbrev Tables := List (Str × Zone.Table)

def tableFor (ts : Tables) (zone : Str) : Zone.Table := ((ts.find? (fun p => p.1 == zone)).map (·.2)).getD {}

def resultJ (ts : Tables) (r : Result) : Json :=
  jObj [("agencies", jList agencyJ r.agencies), ("routes", jList routeJ r.routes), ("stops", jList stopJ r.stops),
        ("transfers", jList transferJ r.transfers), ("services", jList (serviceJ (tableFor ts r.zone)) r.services), ("trips", jList tripJ r.trips),
        ("shapes", jList shapeJ r.shapes), ("warnings", jList warningJ r.warnings), ("zone", jStr r.zone)]

def outcomeJ (ts : Tables) : Outcome → Json
  | .ok r => jObj [("outcome", Json.str "ok"), ("result", resultJ ts r)]
  | .error f => jObj [("outcome", Json.str "error"), ("file", jStr f)]

def envOf (j : Json) : R Env := do
  let floats ← getList (fun e => do pure (← getStr e "cell", ← getOpt asNat e "bits")) j "floats"
  let zones ← getList (fun e => do pure (← getStr e "tz", ← getOpt asStr e "resolved")) j "zones"
  return { floatOf := fun c => (floats.find? (fun p => p.1 == c)).bind (·.2),
           zoneOf := fun z => (zones.find? (fun p => p.1 == z)).bind (·.2),
           inherit := ← getBoolD j "inherit" false }

def membersOf (j : Json) (key : String) : R (List (Str × Str)) :=
  getList (fun e => do pure (← getStr e "name", ← getStr e "data")) j key

/-- input: members (+ optional alternative member lists "variants"), floats, zones, inherit -/
def handle (j : Json) : R Json := do
  let env ← envOf j
  let members ← membersOf j "members"
  let variants ← getList (fun v => asList (fun e => do pure (← getStr e "name", ← getStr e "data")) v) j "variants"
  -- every float the harness reports for a cell is certified against the cell's exact decimal value
  let floats ← getList (fun e => do pure (← getStr e "cell", ← getOpt asNat e "bits")) j "floats"
  let certs := floats.filterMap fun (c, b) => (Float.certify c b).map fun ok => (c, ok)
  let failed := (certs.filter fun p => !p.2).map (·.1)
  let entries ← getList (fun e => do pure (← getOpt asStr e "resolved", ← getOpt tableOf e "table")) j "zones"
  let ts : Tables := entries.filterMap fun e => match e with | (some n, some t) => some (n, t) | _ => none
  return jObj [("main", outcomeJ ts (parse env members)), ("variants", jList (fun ms => outcomeJ ts (parse env ms)) variants),
               ("floatCert", jObj [("checked", jNat certs.length), ("failed", jList jStr failed)])]

/-- the CSV reader alone (validation of the reader model against encoding/csv) -/
def handleCsv (j : Json) : R Json := do
  let data ← getStr j "data"
  match Csv.readFile data with
  | none => return jObj [("ok", jBool false)]
  | some f => return jObj [("ok", jBool true), ("header", jList jStr f.header), ("rows", jList (jList jStr) f.rows), ("bodyError", jBool f.bodyError)]

/-- the float certificate alone (validation against strconv.ParseFloat, with negative controls) -/
def handleFloat (j : Json) : R Json := do
  let cells ← getList (fun e => do pure (← getStr e "cell", ← getOpt asNat e "bits")) j "cells"
  return jObj [("results", jList (fun (c, b) => jOpt jBool (Float.certify c b)) cells)]

/-- the model of `time.Date` alone (validation against the time package over exported zone tables) -/
def handleZone (j : Json) : R Json := do
  let t ← tableOf (← field j "table")
  let days ← getList asInt j "days"
  return jObj [("instants", jList (fun d => jOpt jInt (t.instant d)) days),
               ("settled", jList (fun d => jBool (decide (Zone.Settled t.zone d))) days)]

end Gtfs.DStatic
