import Protocol
import DriverJournal
import DriverHash
import DriverRealtime
import DriverStatic
open Lean Gtfs Gtfs.Proto

def dispatch (j : Json) : R Json := do
  let kind ← j.getObjValAs? String "kind"
  match kind with
  | "journal" => DJournal.handle j
  | "hash" => DHash.handle j
  | "realtime" => DRt.handle j
  | "static" => DStatic.handle j
  | "none" => pure (jObj [])
  | "csv" => DStatic.handleCsv j
  | "float" => DStatic.handleFloat j
  | "zone" => DStatic.handleZone j
  | "dirsrc" => DJournal.handleDir j
  | "export" => DJournal.handleExport j
  | k => throw s!"unknown kind {k}"

partial def loop (hin hout : IO.FS.Stream) : IO Unit := do
  let line ← hin.getLine
  if line.isEmpty then return ()
  let out := match Json.parse line with
    | .error e => jObj [("error", Json.str s!"json: {e}")]
    | .ok j =>
      let case := (j.getObjVal? "case").toOption.getD Json.null
      match dispatch j with
      | .ok r => jObj [("case", case), ("result", r)]
      | .error e => jObj [("case", case), ("error", Json.str e)]
  hout.putStrLn out.compress
  hout.flush
  loop hin hout

def main : IO Unit := do loop (← IO.getStdin) (← IO.getStdout)
