import Protocol
import GtfsVerif.Model.Journal
open Lean Gtfs Gtfs.Proto
namespace Gtfs.DJournal
open Gtfs.Journal

def stuOfJson (j : Json) : R Stu := do
  return { stop := ← getOpt asStr j "stop", arr := ← getOpt asInt j "arr", dep := ← getOpt asInt j "dep",
           track := ← getOpt asStr j "track" }

def rtTripOfJson (j : Json) : R RtTrip := do
  return { id := ← getStr j "id", route := ← getStrD j "route" [], dir := ← getNatD j "dir" 0,
           startDate := ← getIntD j "startDate" 0, startTime := ← getIntD j "startTime" 0,
           vehicle := ← getOpt asStr j "vehicle", stus := ← getList stuOfJson j "stus" }

def feedOfJson (j : Json) : R Feed := do
  return { createdAt := ← getInt j "createdAt", trips := ← getList rtTripOfJson j "trips" }

def stToJson (s : ST) : Json :=
  jObj [("stop", jStr s.stop), ("arr", jOpt jInt s.arr), ("dep", jOpt jInt s.dep), ("track", jOpt jStr s.track),
        ("lastObs", jInt s.lastObs), ("past", jOpt jInt s.past)]

def tripToJson (t : Trip) : Json :=
  jObj [("uid", jStr t.uid), ("tripId", jStr t.tripId), ("route", jStr t.route), ("dir", jNat t.dir),
        ("start", jInt t.start), ("vehicle", jStr t.vehicle), ("assigned", jBool t.assigned),
        ("sts", jList stToJson t.sts), ("lastObs", jInt t.lastObs), ("past", jOpt jInt t.past),
        ("numUpdates", jInt t.numUpdates), ("numChanges", jInt t.numChanges), ("numRewrites", jInt t.numRewrites)]

def windowOfJson (j : Json) : R (Int × Int) := do
  match ← asList asInt j with
  | [a, b] => return (a, b)
  | _ => throw "window"

/-- journal after every prefix of the history, for every window; plus the two CSV exports of the
    full history under the first window -/
def handle (j : Json) : R Json := do
  let feeds ← getList feedOfJson j "feeds"
  let windows ← getList windowOfJson j "windows"
  let prefixes := (List.range feeds.length).map fun i => feeds.take (i + 1)
  let js := prefixes.map fun p =>
    let s := run p
    jList (fun w => jList tripToJson (select s w.1 w.2)) windows
  let full := match windows with
    | w :: _ => build feeds w.1 w.2
    | [] => []
  return jObj [("prefixes", Json.arr js.toArray), ("tripsCsv", jStr (tripsCsv full)),
               ("stopTimesCsv", jStr (stopTimesCsv full))]

def stOfJson (j : Json) : R ST := do
  return { stop := ← getStrD j "stop" [], arr := ← getOpt asInt j "arr", dep := ← getOpt asInt j "dep", track := ← getOpt asStr j "track",
           lastObs := ← getIntD j "lastObs" 0, past := ← getOpt asInt j "past" }

def tripOfJson (j : Json) : R Trip := do
  return { uid := ← getStrD j "uid" [], tripId := ← getStrD j "tripId" [], route := ← getStrD j "route" [], dir := ← getNatD j "dir" 0,
           start := ← getIntD j "start" 0, vehicle := ← getStrD j "vehicle" [], assigned := ← getBoolD j "assigned" false,
           sts := ← getList stOfJson j "sts", lastObs := ← getIntD j "lastObs" 0, past := ← getOpt asInt j "past",
           numUpdates := ← getIntD j "numUpdates" 0, numChanges := ← getIntD j "numChanges" 0, numRewrites := ← getIntD j "numRewrites" 0 }

/-- export: the journal is given (it is the implementation's own), the model renders it -/
def handleExport (j : Json) : R Json := do
  let jn ← getList tripOfJson j "journal"
  return jObj [("tripsCsv", jStr (tripsCsv jn)), ("stopTimesCsv", jStr (stopTimesCsv jn))]

/-- directory source: names with the id (a feed's createdAt) each yields, null when unreadable or
    unparseable; the model predicts the sequence of ids `Next` yields -/
def handleDir (j : Json) : R Json := do
  let entries ← getList (fun e => do
    let n ← getStr e "name"
    let id ← getOpt asInt e "id"
    pure (n, id)) j "entries"
  let names := entries.map (·.1)
  let read : Str → Option Int := fun n => (entries.find? (fun e => e.1 == n)).bind (·.2)
  let out := dirSource sortNames names read some
  return jObj [("yields", jList jInt out), ("order", jList jStr (sortNames names))]

end Gtfs.DJournal
