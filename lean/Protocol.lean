import Lean.Data.Json
import GtfsVerif.Model.Basic
import GtfsVerif.Model.Zone
/-! JSON-lines protocol helpers for the driver. Byte strings travel as JSON strings whose code
    points are the byte values (Latin-1 style), so every byte string is representable. -/
open Lean
namespace Gtfs.Proto

def strOfString (s : String) : Str := s.toList.map (fun c => c.toNat.toUInt8)
def stringOfStr (s : Str) : String := String.ofList (s.map (fun b => Char.ofNat b.toNat))

def jStr (s : Str) : Json := Json.str (stringOfStr s)
def jInt (i : Int) : Json := toJson i
def jNat (n : Nat) : Json := toJson n
def jBool (b : Bool) : Json := Json.bool b
def jOpt {α} (f : α → Json) : Option α → Json
  | none => Json.null
  | some a => f a
def jList {α} (f : α → Json) (l : List α) : Json := Json.arr (l.map f).toArray
def jObj (kvs : List (String × Json)) : Json := Json.mkObj kvs

abbrev R := Except String

def field (j : Json) (k : String) : R Json := j.getObjVal? k
/-- absent key and JSON null both mean "absent" -/
def fieldOpt (j : Json) (k : String) : Option Json :=
  match j.getObjVal? k with
  | .ok v => if v.isNull then none else some v
  | .error _ => none

def asStr (j : Json) : R Str := do return strOfString (← j.getStr?)
def asInt (j : Json) : R Int := j.getInt?
def asNat (j : Json) : R Nat := j.getNat?
def asBool (j : Json) : R Bool := j.getBool?
def asList {α} (f : Json → R α) (j : Json) : R (List α) := do
  let a ← j.getArr?
  a.toList.mapM f

def getStr (j : Json) (k : String) : R Str := do asStr (← field j k)
def getInt (j : Json) (k : String) : R Int := do asInt (← field j k)
def getNat (j : Json) (k : String) : R Nat := do asNat (← field j k)
def getBool (j : Json) (k : String) : R Bool := do asBool (← field j k)
def getBoolD (j : Json) (k : String) (d : Bool) : R Bool :=
  match fieldOpt j k with | none => pure d | some v => asBool v
def getNatD (j : Json) (k : String) (d : Nat) : R Nat :=
  match fieldOpt j k with | none => pure d | some v => asNat v
def getIntD (j : Json) (k : String) (d : Int) : R Int :=
  match fieldOpt j k with | none => pure d | some v => asInt v
def getStrD (j : Json) (k : String) (d : Str) : R Str :=
  match fieldOpt j k with | none => pure d | some v => asStr v
def getList {α} (f : Json → R α) (j : Json) (k : String) : R (List α) :=
  match fieldOpt j k with | none => pure [] | some v => asList f v
def getOpt {α} (f : Json → R α) (j : Json) (k : String) : R (Option α) :=
  match fieldOpt j k with | none => pure none | some v => do return some (← f v)

/-- {"first":o, "trans":[[instant, offset]…], "loDay":…, "hiDay":…} -/
def tableOf (j : Json) : R Zone.Table := do
  let pair (e : Json) : R (Int × Int) := do
    match ← asList asInt e with
    | [a, b] => pure (a, b)
    | _ => throw "zone transition: expected [instant, offset]"
  return { zone := { first := ← getIntD j "first" 0, trans := ← getList pair j "trans" },
           loDay := ← getOpt asInt j "loDay", hiDay := ← getOpt asInt j "hiDay" }

end Gtfs.Proto
