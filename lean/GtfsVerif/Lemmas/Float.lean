import GtfsVerif.Model.Float
namespace Gtfs.Float

theorem nearest_zero (neg : Bool) (e : Int) (bits : Option Nat) :
    nearest { neg := neg, mant := 0, exp10 := e } bits = (bits == some (if neg then 2 ^ 63 else 0)) := by
  simp [nearest]

theorem sign_eq {x y : Nat} (h : (x % 2 == 1) = (y % 2 == 1)) : x % 2 = y % 2 := by
  rcases Nat.mod_two_eq_zero_or_one x with hx | hx <;> rcases Nat.mod_two_eq_zero_or_one y with hy | hy <;>
    simp [hx, hy] at h ⊢

/-- the fields `decode` reads determine the 64 bits -/
theorem decode_injective (b1 b2 : Nat) (h1 : b1 < 2 ^ 64) (h2 : b2 < 2 ^ 64) (v : Bin)
    (e1 : decode b1 = some v) (e2 : decode b2 = some v) : b1 = b2 := by
  unfold decode at e1 e2
  simp only [] at e1 e2
  split at e1
  · simp at e1
  · split at e2
    · simp at e2
    · split at e1 <;> split at e2 <;> simp only [Option.some.injEq] at e1 e2 <;> subst e1 <;>
        simp only [Bin.mk.injEq] at e2 <;> obtain ⟨hs, hm, he, hb⟩ := e2 <;> have hs' := sign_eq hs <;>
        simp only [Nat.reducePow] at * <;> omega

end Gtfs.Float

namespace Gtfs.Float

/-- what `cmpDecBin` compares: `n·10^e` against `m·2^k`, both scaled by `10^(-e)⁺ · 2^(-k)⁺` to naturals -/
theorem cmpDecBin_lt (n : Nat) (e : Int) (m : Nat) (k : Int) :
    cmpDecBin n e m k = .lt ↔ n * 10 ^ e.toNat * 2 ^ (-k).toNat < m * 10 ^ (-e).toNat * 2 ^ k.toNat := by
  simp [cmpDecBin, Nat.compare_eq_lt]

theorem cmpDecBin_gt (n : Nat) (e : Int) (m : Nat) (k : Int) :
    cmpDecBin n e m k = .gt ↔ m * 10 ^ (-e).toNat * 2 ^ k.toNat < n * 10 ^ e.toNat * 2 ^ (-k).toNat := by
  simp [cmpDecBin, Nat.compare_eq_gt]

theorem cmpDecBin_eq (n : Nat) (e : Int) (m : Nat) (k : Int) :
    cmpDecBin n e m k = .eq ↔ n * 10 ^ e.toNat * 2 ^ (-k).toNat = m * 10 ^ (-e).toNat * 2 ^ k.toNat := by
  simp [cmpDecBin]

/-- **within half a unit in the last place, ties to even**: bits the certificate accepts for a non-zero
    decimal in the computed range decode to `±M·2^E` with the decimal's sign, the decimal not above the
    midpoint to the successor `(2M+1)·2^(E-1)` and – away from zero and from the lower edge of a binade – not
    below the midpoint to the predecessor `(2M-1)·2^(E-1)`; on either midpoint only when `M` is even -/
theorem nearest_window (d : Dec) (b : Nat) (v : Bin) (hm : d.mant ≠ 0)
    (hr1 : ¬ ((decLen d.mant : Int) + d.exp10 > 311)) (hr2 : ¬ ((decLen d.mant : Int) + d.exp10 < -330))
    (hd : decode b = some v) (h : nearest d (some b) = true) :
    v.neg = d.neg ∧
    (cmpDecBin d.mant d.exp10 (2 * v.mant + 1) (v.exp2 - 1) = .lt ∨
      (cmpDecBin d.mant d.exp10 (2 * v.mant + 1) (v.exp2 - 1) = .eq ∧ v.mant % 2 = 0)) ∧
    (v.mant ≠ 0 → ¬ (v.mant = 2 ^ 52 ∧ v.biased > 1) →
      (cmpDecBin d.mant d.exp10 (2 * v.mant - 1) (v.exp2 - 1) = .gt ∨
        (cmpDecBin d.mant d.exp10 (2 * v.mant - 1) (v.exp2 - 1) = .eq ∧ v.mant % 2 = 0))) := by
  unfold nearest at h
  simp only [hm, if_false, hr1, hr2, hd, Bool.and_eq_true, beq_iff_eq, Bool.or_eq_true] at h
  obtain ⟨⟨hs, _⟩, hhi, hlo⟩ := h
  refine ⟨hs, ?_, ?_⟩
  · rcases hhi with h1 | ⟨h1, h2⟩
    · exact Or.inl h1
    · exact Or.inr ⟨h1, h2⟩
  · intro hz hb
    have hb' : ¬ (v.mant = 2 ^ 52 ∧ v.biased > 1) := hb
    simp only [hz, if_false] at hlo
    have hc : ¬ (decide (v.mant = 2 ^ 52) = true ∧ decide (v.biased > 1) = true) := by
      intro ⟨h1, h2⟩
      exact hb' ⟨of_decide_eq_true h1, of_decide_eq_true h2⟩
    simp only [hc, if_false] at hlo
    rcases hlo with h1 | ⟨h1, h2⟩
    · exact Or.inl h1
    · exact Or.inr ⟨h1, h2⟩

end Gtfs.Float
