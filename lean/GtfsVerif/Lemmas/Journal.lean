import GtfsVerif.Model.Journal
/-! Helper lemmas about the journal model (used by Props/C14, C15, C20). -/
namespace Gtfs.Journal

/-! ### stop-time level -/

theorem updateSts_cons (sts : List ST) (u0 : Stu) (us : List Stu) (t : Int) :
    updateSts sts (u0 :: us) t
      = (sts.take (firstIdx (stopOf u0) sts)).map (ST.markPast t) ++ (u0 :: us).map (mk t) := by
  simp only [updateSts, List.append_assoc]
  rw [← List.map_append, List.take_append_drop]

def AllPast (l : List ST) : Prop := ∀ s ∈ l, s.past ≠ none

theorem markPast_past (t : Int) (s : ST) : (s.markPast t).past ≠ none := by
  unfold ST.markPast; split <;> simp_all

theorem markPast_of_past (t : Int) (s : ST) (h : s.past ≠ none) : s.markPast t = s := by
  unfold ST.markPast; split <;> simp_all

theorem markPast_of_unmarked (t : Int) (s : ST) (h : s.past = none) : s.markPast t = { s with past := some t } := by
  unfold ST.markPast; split <;> simp_all

theorem allPast_map_markPast (t : Int) (l : List ST) : AllPast (l.map (ST.markPast t)) := by
  intro s hs
  obtain ⟨a, _, rfl⟩ := List.mem_map.mp hs
  exact markPast_past t a

theorem firstIdx_of_split (x : Str) (pre post : List ST) (s : ST) (hs : s.stop = x)
    (hpre : ∀ p ∈ pre, p.stop ≠ x) : firstIdx x (pre ++ s :: post) = pre.length := by
  unfold firstIdx
  have : List.findIdx? (fun s => s.stop == x) (pre ++ s :: post) = some pre.length := by
    rw [List.findIdx?_eq_some_iff_getElem]
    refine ⟨by simp, by simp [hs], ?_⟩
    intro j hj
    have := hpre (pre[j]) (List.getElem_mem _)
    simp [List.getElem_append_left hj, this]
  simp [this]

/-! ### per-UID view of `stepFeed` (the refinement lemma: the journal is a product of
    independent per-trip state machines) -/

def uidOfTrip (u : RtTrip) : Str := uidOf (u.startDate + u.startTime) u.id

/-- what the updates of one feed that carry UID `k` do to that UID's entry -/
def applyUpdates (t : Int) (o : Option Trip) (us : List RtTrip) : Option Trip :=
  us.foldl (fun o u => some ((o.getD newTrip).update u t)) o

theorem foldl_stepTrip_lookup (t : Int) (k : Str) (us : List RtTrip) (m : List (Str × Trip)) (a : List Str) :
    alookup k (us.foldl (stepTrip t) (m, a)).1
      = applyUpdates t (alookup k m) (us.filter fun u => uidOfTrip u == k) := by
  induction us generalizing m a with
  | nil => simp [applyUpdates]
  | cons u us ih =>
    simp only [List.foldl_cons, stepTrip]
    rw [ih]
    by_cases h : uidOfTrip u == k
    · have hk : uidOfTrip u = k := by simpa using h
      simp only [List.filter_cons, h, if_true, applyUpdates, List.foldl_cons]
      have : uidOf (u.startDate + u.startTime) u.id = k := hk
      rw [this, alookup_aset_same]
    · have hk : uidOfTrip u ≠ k := by simpa using h
      simp only [List.filter_cons, h]
      have : uidOf (u.startDate + u.startTime) u.id ≠ k := hk
      rw [alookup_aset_other _ _ _ _ this]
      rfl

theorem foldl_stepTrip_active (t : Int) (us : List RtTrip) (m : List (Str × Trip)) (a : List Str) :
    (us.foldl (stepTrip t) (m, a)).2 = a ++ us.map uidOfTrip := by
  induction us generalizing m a with
  | nil => simp
  | cons u us ih =>
    simp only [List.foldl_cons, stepTrip]
    rw [ih]
    simp [uidOfTrip]

theorem alookup_map_cond (k : Str) (c : Str → Bool) (g : Trip → Trip) (m : List (Str × Trip)) :
    alookup k (m.map fun p => if c p.1 then (p.1, g p.2) else p)
      = (alookup k m).map (fun tr => if c k then g tr else tr) := by
  induction m with
  | nil => simp [alookup]
  | cons p r ih =>
    obtain ⟨k', v⟩ := p
    by_cases h : k' == k
    · have hk : k' = k := by simpa using h
      subst hk
      by_cases hc : c k' <;> simp [alookup, hc]
    · by_cases hc : c k' <;> simp [alookup, hc, h, ih]

/-- **Per-UID closed form of one feed.** -/
theorem stepFeed_lookup (s : State) (f : Feed) (k : Str) :
    alookup k (stepFeed s f).trips
      = (applyUpdates f.createdAt (alookup k s.trips) (f.trips.filter fun u => uidOfTrip u == k)).map
          (fun tr => if s.active.contains k && !(f.trips.map uidOfTrip).contains k
                     then tr.markPast f.createdAt else tr) := by
  unfold stepFeed
  simp only
  rw [alookup_map_cond k (fun x => s.active.contains x && !(f.trips.foldl (stepTrip f.createdAt) (s.trips, [])).2.contains x)
        (fun tr => tr.markPast f.createdAt)]
  rw [foldl_stepTrip_lookup, foldl_stepTrip_active]
  simp

theorem stepFeed_active (s : State) (f : Feed) : (stepFeed s f).active = f.trips.map uidOfTrip := by
  unfold stepFeed
  simp [foldl_stepTrip_active]

end Gtfs.Journal

namespace Gtfs.Journal

/-! ### invariants of BuildJournal's state: keys distinct, each entry's UID is its key -/

theorem nodup_akeys_aset {α} (k : Str) (v : α) (m : List (Str × α)) (h : (akeys m).Nodup) :
    (akeys (aset k v m)).Nodup := by
  rw [akeys_aset]
  split
  · exact h
  · rename_i hk
    rw [List.nodup_append]
    refine ⟨h, by simp, ?_⟩
    intro a ha b hb
    simp only [List.mem_singleton] at hb
    subst hb
    intro hab; subst hab; exact hk ha

theorem foldl_stepTrip_nodup (t : Int) (us : List RtTrip) (m : List (Str × Trip)) (a : List Str)
    (h : (akeys m).Nodup) : (akeys (us.foldl (stepTrip t) (m, a)).1).Nodup := by
  induction us generalizing m a with
  | nil => simpa using h
  | cons u us ih =>
    simp only [List.foldl_cons, stepTrip]
    exact ih _ _ (nodup_akeys_aset _ _ _ h)

theorem stepFeed_nodup (s : State) (f : Feed) (h : (akeys s.trips).Nodup) : (akeys (stepFeed s f).trips).Nodup := by
  unfold stepFeed
  simp only
  have := foldl_stepTrip_nodup f.createdAt f.trips s.trips [] h
  have hk : ∀ (m : List (Str × Trip)) (g : Str × Trip → Str × Trip), (∀ p, (g p).1 = p.1) → akeys (m.map g) = akeys m := by
    intro m g hg
    simp only [akeys, List.map_map]
    congr 1
    funext p
    exact hg p
  rw [hk]
  · exact this
  · intro p; split <;> rfl

theorem run_nodup (fs : List Feed) : (akeys (run fs).trips).Nodup := by
  suffices H : ∀ s : State, (akeys s.trips).Nodup → (akeys (fs.foldl stepFeed s).trips).Nodup from
    H {} (by simp [akeys])
  induction fs with
  | nil => intro s h; simpa using h
  | cons f fs ih => intro s h; exact ih _ (stepFeed_nodup s f h)

theorem mem_iff_alookup {α} (m : List (Str × α)) (h : (akeys m).Nodup) (k : Str) (v : α) :
    (k, v) ∈ m ↔ alookup k m = some v := by
  induction m with
  | nil => simp [alookup]
  | cons p r ih =>
    obtain ⟨k', v'⟩ := p
    simp only [akeys, List.map_cons, List.nodup_cons] at h
    by_cases hk : k' == k
    · have hk' : k' = k := by simpa using hk
      subst hk'
      simp only [alookup, hk, if_true, List.mem_cons, Prod.mk.injEq, true_and, Option.some.injEq]
      constructor
      · rintro (h1 | h1)
        · exact h1.symm
        · exact absurd (List.mem_map.mpr ⟨(k', v), h1, rfl⟩) h.1
      · intro h1; exact Or.inl h1.symm
    · have hk' : ¬ k' = k := by simpa using hk
      have hk'' : ¬ k = k' := fun e => hk' e.symm
      simp only [alookup, hk, Bool.false_eq_true, if_false, List.mem_cons, Prod.mk.injEq, hk'', false_and, false_or]
      exact ih h.2

theorem update_uid (tr : Trip) (u : RtTrip) (t : Int) (k : Str) (hu : uidOfTrip u = k)
    (htr : tr.uid = k ∨ tr.assigned = false) : (tr.update u t).uid = k := by
  unfold Trip.update
  split
  · rename_i h
    rcases htr with h1 | h1
    · exact h1
    · simp [h1] at h
  · exact hu

theorem applyUpdates_uid (t : Int) (k : Str) (us : List RtTrip) (hus : ∀ u ∈ us, uidOfTrip u = k)
    (o : Option Trip) (ho : ∀ tr, o = some tr → tr.uid = k) :
    ∀ tr, applyUpdates t o us = some tr → tr.uid = k := by
  induction us generalizing o with
  | nil => simpa [applyUpdates] using ho
  | cons u us ih =>
    intro tr htr
    simp only [applyUpdates, List.foldl_cons] at htr
    refine ih (fun x hx => hus x (by simp [hx])) _ ?_ tr htr
    intro tr' h'
    cases h'
    apply update_uid _ _ _ _ (hus u (by simp))
    cases o with
    | none => right; rfl
    | some x => left; exact ho x rfl

theorem stepFeed_uid (s : State) (f : Feed) (h : ∀ k tr, alookup k s.trips = some tr → tr.uid = k) :
    ∀ k tr, alookup k (stepFeed s f).trips = some tr → tr.uid = k := by
  intro k tr hk
  rw [stepFeed_lookup] at hk
  obtain ⟨tr0, h0, rfl⟩ := Option.map_eq_some_iff.mp hk
  have := applyUpdates_uid f.createdAt k _ (by
    intro u hu
    have := (List.mem_filter.mp hu).2
    simpa using this) (alookup k s.trips) (h k) tr0 h0
  split
  · simpa [Trip.markPast] using this
  · exact this

theorem run_uid (fs : List Feed) : ∀ k tr, alookup k (run fs).trips = some tr → tr.uid = k := by
  suffices H : ∀ s : State, (∀ k tr, alookup k s.trips = some tr → tr.uid = k) →
      ∀ k tr, alookup k (fs.foldl stepFeed s).trips = some tr → tr.uid = k from
    H {} (by intro k tr h; simp [alookup] at h)
  induction fs with
  | nil => intro s h; simpa using h
  | cons f fs ih => intro s h; exact ih _ (stepFeed_uid s f h)

end Gtfs.Journal
