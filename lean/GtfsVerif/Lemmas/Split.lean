import GtfsVerif.Model.Basic
/-! Splitting a byte string at a separator, and its inverse `join` (used for the CSV read-back of
    the export, C20). -/
namespace Gtfs

/-- pieces between separators: `"a,b" ↦ ["a","b"]`, `"" ↦ [""]` -/
def splitOn (sep : UInt8) : Str → List Str
  | [] => [[]]
  | c :: cs =>
    if c = sep then [] :: splitOn sep cs
    else match splitOn sep cs with
      | [] => [[c]]
      | h :: t => (c :: h) :: t

def joinSep (sep : UInt8) : List Str → Str
  | [] => []
  | [a] => a
  | a :: b :: r => a ++ sep :: joinSep sep (b :: r)

theorem splitOn_ne_nil (sep : UInt8) (s : Str) : splitOn sep s ≠ [] := by
  induction s with
  | nil => simp [splitOn]
  | cons c cs ih =>
    simp only [splitOn]
    split
    · simp
    · split <;> simp

theorem splitOn_free (sep : UInt8) (s : Str) (h : sep ∉ s) : splitOn sep s = [s] := by
  induction s with
  | nil => rfl
  | cons c cs ih =>
    have hc : c ≠ sep := fun e => h (by simp [e])
    have hcs : sep ∉ cs := fun e => h (by simp [e])
    simp [splitOn, hc, ih hcs]

theorem splitOn_append_sep (sep : UInt8) (a rest : Str) (h : sep ∉ a) :
    splitOn sep (a ++ sep :: rest) = a :: splitOn sep rest := by
  induction a with
  | nil => simp [splitOn]
  | cons c cs ih =>
    have hc : c ≠ sep := fun e => h (by simp [e])
    have hcs : sep ∉ cs := fun e => h (by simp [e])
    simp [splitOn, hc, ih hcs]

/-- splitting a join of separator-free pieces gives the pieces back -/
theorem splitOn_joinSep (sep : UInt8) (cells : List Str) (hne : cells ≠ []) (h : ∀ c ∈ cells, sep ∉ c) :
    splitOn sep (joinSep sep cells) = cells := by
  induction cells with
  | nil => exact absurd rfl hne
  | cons a r ih =>
    cases r with
    | nil => simpa [joinSep] using splitOn_free sep a (h a (by simp))
    | cons b r' =>
      simp only [joinSep]
      rw [splitOn_append_sep sep a _ (h a (by simp))]
      rw [ih (by simp) (fun c hc => h c (by simp [hc]))]

/-- the separator-terminated lines of a text: `"a\nb\n" ↦ ["a","b"]` -/
def linesOf (sep : UInt8) (s : Str) : List Str := (splitOn sep s).dropLast

theorem linesOf_terminated (sep : UInt8) (rows : List Str) (h : ∀ r ∈ rows, sep ∉ r) :
    linesOf sep ((rows.map fun r => r ++ [sep]).flatten) = rows := by
  unfold linesOf
  suffices H : splitOn sep ((rows.map fun r => r ++ [sep]).flatten) = rows ++ [[]] by
    rw [H]; simp
  induction rows with
  | nil => simp [splitOn]
  | cons a r ih =>
    simp only [List.map_cons, List.flatten_cons, List.append_assoc, List.singleton_append, List.cons_append]
    rw [splitOn_append_sep sep a _ (h a (by simp))]
    simp only [List.nil_append]
    rw [ih (fun x hx => h x (by simp [hx]))]

end Gtfs
