import GtfsVerif.Model.Static
/-! A row function of the static model looks at a row only through the cells under named columns
    (`optRead`). Two rows that agree on every named cell – whatever the order of their columns and
    whatever other columns surround them – are therefore transcribed alike, and so are two files
    whose rows agree pairwise. This is the column-level half of "the result does not depend on
    presentation" (the byte-level half is `Csv.read_writeFile`). -/
set_option linter.unusedSimpArgs false
namespace Gtfs.Static

theorem readOr_eq (hdr row : List Str) (name d : Str) :
    readOr hdr row name d = if optRead hdr row name = [] then d else optRead hdr row name := by
  unfold readOr optRead cell
  cases colIdx hdr name <;> simp

/-- two rows (each under its own header) agree on every named cell -/
def RowEq (hdr row hdr' row' : List Str) : Prop := ∀ name, optRead hdr row name = optRead hdr' row' name

theorem missingKeys_congr {hdr row hdr' row' : List Str} (h : RowEq hdr row hdr' row') (req : List Str) :
    missingKeys hdr row req = missingKeys hdr' row' req := by
  simp only [missingKeys, h _]

theorem routeOfRow_congr {hdr row hdr' row' : List Str} (h : RowEq hdr row hdr' row') (ags : List Agency) :
    routeOfRow hdr row ags = routeOfRow hdr' row' ags := by
  have e : optRead hdr row = optRead hdr' row' := funext h
  simp only [routeOfRow, readOr_eq]
  delta missingKeys
  rw [e]

theorem stopOfRow_congr {hdr row hdr' row' : List Str} (h : RowEq hdr row hdr' row') (env : Env) :
    stopOfRow env hdr row = stopOfRow env hdr' row' := by
  have e : optRead hdr row = optRead hdr' row' := funext h
  simp only [stopOfRow, readOr_eq]
  delta missingKeys
  rw [e]

theorem transferOfRow_congr {hdr row hdr' row' : List Str} (h : RowEq hdr row hdr' row') (stops : List Stop) :
    transferOfRow hdr row stops = transferOfRow hdr' row' stops := by
  have e : optRead hdr row = optRead hdr' row' := funext h
  simp only [transferOfRow, readOr_eq]
  delta missingKeys
  rw [e]

theorem calendarStep_congr {hdr row hdr' row' : List Str} (h : RowEq hdr row hdr' row') (m : List (Str × Service)) :
    calendarStep hdr m row = calendarStep hdr' m row' := by
  have e : optRead hdr row = optRead hdr' row' := funext h
  simp only [calendarStep, readOr_eq]
  delta missingKeys
  rw [e]

theorem calendarDatesStep_congr {hdr row hdr' row' : List Str} (h : RowEq hdr row hdr' row') (m : List (Str × Service)) :
    calendarDatesStep hdr m row = calendarDatesStep hdr' m row' := by
  have e : optRead hdr row = optRead hdr' row' := funext h
  simp only [calendarDatesStep, readOr_eq]
  delta missingKeys
  rw [e]

theorem shapeRowOf_congr {hdr row hdr' row' : List Str} (h : RowEq hdr row hdr' row') (env : Env) :
    shapeRowOf env hdr row = shapeRowOf env hdr' row' := by
  have e : optRead hdr row = optRead hdr' row' := funext h
  simp only [shapeRowOf, readOr_eq]
  delta missingKeys
  rw [e]

theorem tripOfRow_congr {hdr row hdr' row' : List Str} (h : RowEq hdr row hdr' row') (rs : List Route) (ss : List Service) (shs : List Shape) :
    tripOfRow hdr row rs ss shs = tripOfRow hdr' row' rs ss shs := by
  have e : optRead hdr row = optRead hdr' row' := funext h
  simp only [tripOfRow, readOr_eq]
  delta missingKeys
  rw [e]

theorem freqOfRow_congr {hdr row hdr' row' : List Str} (h : RowEq hdr row hdr' row') (trips : List Trip) :
    freqOfRow hdr row trips = freqOfRow hdr' row' trips := by
  have e : optRead hdr row = optRead hdr' row' := funext h
  simp only [freqOfRow, readOr_eq]
  delta missingKeys
  rw [e]

theorem stopTimeOfRow_congr {hdr row hdr' row' : List Str} (h : RowEq hdr row hdr' row') (env : Env) (stops : List Stop) (trips : List Trip) :
    stopTimeOfRow env hdr row stops trips = stopTimeOfRow env hdr' row' stops trips := by
  have e : optRead hdr row = optRead hdr' row' := funext h
  simp only [stopTimeOfRow, readOr_eq]
  delta missingKeys
  rw [e]


/-! ## whole files -/

/-- the rows of two files agree pairwise on every named cell -/
def RowsEq (hdr hdr' : List Str) : List (List Str) → List (List Str) → Prop
  | [], [] => True
  | r :: rs, r' :: rs' => RowEq hdr r hdr' r' ∧ RowsEq hdr hdr' rs rs'
  | _, _ => False

theorem filterMap_rowsEq {β} (hdr hdr' : List Str) (g g' : List Str → Option β) :
    ∀ (rows rows' : List (List Str)), RowsEq hdr hdr' rows rows' →
      (∀ r r', RowEq hdr r hdr' r' → g r = g' r') → rows.filterMap g = rows'.filterMap g'
  | [], [], _, _ => rfl
  | r :: rs, r' :: rs', h, hg => by
    simp only [List.filterMap_cons, hg r r' h.1, filterMap_rowsEq hdr hdr' g g' rs rs' h.2 hg]
  | [], _ :: _, h, _ => h.elim
  | _ :: _, [], h, _ => h.elim

theorem foldl_rowsEq {σ} (hdr hdr' : List Str) (g g' : σ → List Str → σ) :
    ∀ (rows rows' : List (List Str)) (s : σ), RowsEq hdr hdr' rows rows' →
      (∀ s r r', RowEq hdr r hdr' r' → g s r = g' s r') → rows.foldl g s = rows'.foldl g' s
  | [], [], _, _, _ => rfl
  | r :: rs, r' :: rs', s, h, hg => by
    simp only [List.foldl_cons, hg s r r' h.1]
    exact foldl_rowsEq hdr hdr' g g' rs rs' _ h.2 hg
  | [], _ :: _, _, h, _ => h.elim
  | _ :: _, [], _, h, _ => h.elim

/-- two files present the same table: both have the required columns, and their rows agree
    pairwise on every named cell (column order, unknown columns, quoting etc. are free) -/
structure SameTable (req : List Str) (f f' : Csv.File) : Prop where
  cols : missingCols f.header req = []
  cols' : missingCols f'.header req = []
  rows : RowsEq f.header f'.header f.rows f'.rows

/-- the agency an accepted agency.txt row yields (`none`: a required value is blank) -/
def agencyOfRow (hdr row : List Str) : Option Agency :=
  if missingKeys hdr row agencyRequired ≠ [] then none
  else some
    { id := readOr hdr row c_agency_id (optRead hdr row c_agency_name ++ s_id_suffix), name := optRead hdr row c_agency_name,
      url := optRead hdr row c_agency_url, timezone := optRead hdr row c_agency_timezone,
      language := optRead hdr row c_agency_lang, phone := optRead hdr row c_agency_phone,
      fareUrl := optRead hdr row c_agency_fare_url, email := optRead hdr row c_agency_email }

theorem agencyOfRow_congr {hdr row hdr' row' : List Str} (h : RowEq hdr row hdr' row') :
    agencyOfRow hdr row = agencyOfRow hdr' row' := by
  have e : optRead hdr row = optRead hdr' row' := funext h
  simp only [agencyOfRow, readOr_eq]
  delta missingKeys
  rw [e]

/-- the agencies are the accepted rows, in row order -/
theorem parseAgencies_fst (f : Csv.File) (h : missingCols f.header agencyRequired = []) :
    (parseAgencies f).1 = f.rows.filterMap (agencyOfRow f.header) := by
  unfold parseAgencies
  simp only [h, ne_eq, not_true_eq_false, if_false]
  suffices H : ∀ (rows : List (List Str)) (acc : List Agency × List Warning × Nat),
      (rows.foldl (fun (acc : List Agency × List Warning × Nat) (row : List Str) =>
            let n := acc.2.2 + 1
            let name := optRead f.header row (agencyRequired.getD 0 [])
            let a : Agency :=
              { id := readOr f.header row c_agency_id (name ++ s_id_suffix), name := name,
                url := optRead f.header row (agencyRequired.getD 1 []), timezone := optRead f.header row (agencyRequired.getD 2 []),
                language := optRead f.header row c_agency_lang, phone := optRead f.header row c_agency_phone,
                fareUrl := optRead f.header row c_agency_fare_url, email := optRead f.header row c_agency_email }
            let mk := missingKeys f.header row agencyRequired
            if mk ≠ [] then (acc.1, acc.2.1 ++ [⟨f_agency, n, row, f.header, .agencyMissingValues a.id mk⟩], n)
            else (acc.1 ++ [a], acc.2.1, n)) acc).1 = acc.1 ++ rows.filterMap (agencyOfRow f.header) by
    simpa using H f.rows ([], [], 0)
  intro rows
  induction rows with
  | nil => intro acc; simp
  | cons r rs ih =>
    intro acc
    simp only [List.foldl_cons, List.filterMap_cons]
    rw [ih]
    unfold agencyOfRow
    have e0 : agencyRequired[0]?.getD [] = c_agency_name := rfl
    have e1 : agencyRequired[1]?.getD [] = c_agency_url := rfl
    have e2 : agencyRequired[2]?.getD [] = c_agency_timezone := rfl
    by_cases hk : missingKeys f.header r agencyRequired = []
    · simp [hk, e0, e1, e2]
    · simp [hk]

/-- no warnings when every row has its required values -/
theorem parseAgencies_snd (f : Csv.File) (h : missingCols f.header agencyRequired = [])
    (hr : ∀ row ∈ f.rows, missingKeys f.header row agencyRequired = []) : (parseAgencies f).2 = [] := by
  unfold parseAgencies
  simp only [h, ne_eq, not_true_eq_false, if_false]
  suffices H : ∀ (rows : List (List Str)), (∀ row ∈ rows, missingKeys f.header row agencyRequired = []) →
      ∀ (acc : List Agency × List Warning × Nat), acc.2.1 = [] →
      (rows.foldl (fun (acc : List Agency × List Warning × Nat) (row : List Str) =>
            let n := acc.2.2 + 1
            let name := optRead f.header row (agencyRequired.getD 0 [])
            let a : Agency :=
              { id := readOr f.header row c_agency_id (name ++ s_id_suffix), name := name,
                url := optRead f.header row (agencyRequired.getD 1 []), timezone := optRead f.header row (agencyRequired.getD 2 []),
                language := optRead f.header row c_agency_lang, phone := optRead f.header row c_agency_phone,
                fareUrl := optRead f.header row c_agency_fare_url, email := optRead f.header row c_agency_email }
            let mk := missingKeys f.header row agencyRequired
            if mk ≠ [] then (acc.1, acc.2.1 ++ [⟨f_agency, n, row, f.header, .agencyMissingValues a.id mk⟩], n)
            else (acc.1 ++ [a], acc.2.1, n)) acc).2.1 = [] by
    simpa using H f.rows hr ([], [], 0) rfl
  intro rows
  induction rows with
  | nil => intro _ acc ha; simpa using ha
  | cons r rs ih =>
    intro hr acc ha
    simp only [List.foldl_cons]
    apply ih (fun row hrow => hr row (by simp [hrow]))
    simp [hr r (by simp), ha]

end Gtfs.Static
