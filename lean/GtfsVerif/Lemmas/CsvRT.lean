import GtfsVerif.Model.Csv
/-! CSV presentation round trip: for every per-field quoting choice, every per-record LF/CRLF choice,
    with or without a final newline (and, at file level, with or without a byte-order mark),
    reading what a writer produced gives back exactly the records. -/
namespace Gtfs.Csv
open St

/-! ### Writer with presentation choices -/

/-- A field is *plain* if it may be written without quotes. -/
def plain (f : Field) : Prop := comma ∉ f ∧ quote ∉ f ∧ lf ∉ f ∧ cr ∉ f

def escape : Field → List B
  | [] => []
  | c :: cs => if c = quote then quote :: quote :: escape cs else c :: escape cs

def quoted (f : Field) : List B := quote :: escape f ++ [quote]

/-- inside-quotes run: characters of an escaped CR-free field are accumulated verbatim -/
theorem run_escape (recs fs) (f acc : Field) (hcr : cr ∉ f) :
    run (q recs fs acc) (escape f) = q recs fs (f.reverse ++ acc) := by
  induction f generalizing acc with
  | nil => simp [escape]
  | cons c cs ih =>
    have hc : c ≠ cr := by intro h; exact hcr (by simp [h])
    have hcs : cr ∉ cs := by intro h; exact hcr (by simp [h])
    by_cases hq : c = quote
    · subst hq
      simp [escape, step, ih _ hcs]
    · simp [escape, hq, step, hc, ih _ hcs]

theorem run_plain (recs fs) (f acc : Field) (hp : plain f) :
    run (unq recs fs acc) f = unq recs fs (f.reverse ++ acc) := by
  induction f generalizing acc with
  | nil => simp
  | cons c cs ih =>
    obtain ⟨h1, h2, h3, h4⟩ := hp
    have hp' : plain cs := ⟨by intro h; exact h1 (by simp [h]), by intro h; exact h2 (by simp [h]),
      by intro h; exact h3 (by simp [h]), by intro h; exact h4 (by simp [h])⟩
    have c1 : c ≠ comma := by intro h; exact h1 (by simp [h])
    have c2 : c ≠ quote := by intro h; exact h2 (by simp [h])
    have c3 : c ≠ lf := by intro h; exact h3 (by simp [h])
    have c4 : c ≠ cr := by intro h; exact h4 (by simp [h])
    simp [step, c1, c2, c3, c4, ih _ hp']

/-- field-start state: at the beginning of a record or just after a comma -/
def fsState (recs : List Record) (fs : Record) : St :=
  match fs with
  | [] => recStart recs
  | _ => fieldStart recs fs

def writeField (q : Bool) (f : Field) : List B := if q then quoted f else f

/-- a field may be written with presentation `q` -/
def ValidField (q : Bool) (f : Field) : Prop := cr ∉ f ∧ (q = false → plain f)

/-- state reached after the bytes of one field, before its terminator -/
def midState (recs : List Record) (fs : Record) (q : Bool) (f : Field) : St :=
  if q then qq recs fs f.reverse
  else match f with
    | [] => fsState recs fs
    | _ => unq recs fs f.reverse

theorem plain_head {c : B} {cs : Field} (h : plain (c :: cs)) :
    c ≠ comma ∧ c ≠ quote ∧ c ≠ lf ∧ c ≠ cr ∧ plain cs := by
  obtain ⟨h1, h2, h3, h4⟩ := h
  refine ⟨?_, ?_, ?_, ?_, ?_, ?_, ?_, ?_⟩ <;> (intro h; simp_all)

theorem run_field (recs fs q f) (hv : ValidField q f) :
    run (fsState recs fs) (writeField q f) = midState recs fs q f := by
  obtain ⟨hcr, hp⟩ := hv
  cases q with
  | true =>
    simp only [writeField, quoted, midState, if_true]
    have h0 : step (fsState recs fs) quote = q recs fs [] := by
      cases fs <;> simp [fsState, step, quote, lf, cr, comma]
    simp only [List.cons_append, run_cons, h0, run_append, run_escape _ _ _ _ hcr]
    simp [step]
  | false =>
    have hp := hp rfl
    cases f with
    | nil => simp [writeField, midState]
    | cons c cs =>
      obtain ⟨c1, c2, c3, c4, hp'⟩ := plain_head hp
      have h0 : step (fsState recs fs) c = unq recs fs [c] := by
        cases fs <;> simp [fsState, step, c1, c2, c3, c4]
      simp [writeField, midState, h0, run_plain _ _ _ _ hp']

/-- a comma after any field moves to the next field start with the field appended -/
theorem step_mid_comma (recs fs q f) :
    step (midState recs fs q f) comma = fieldStart recs (fs ++ [f]) := by
  cases q with
  | true => simp [midState, step, comma, quote]
  | false =>
    cases f with
    | nil => cases fs <;> simp [midState, fsState, step, comma, quote, lf, cr]
    | cons c cs => simp [midState, step, comma, quote, lf, cr]

/-- the record would not be an empty line -/
def NonBlank (fs : Record) (q : Bool) (f : Field) : Prop := ¬ (fs = [] ∧ q = false ∧ f = [])

theorem step_mid_lf (recs fs q f) (hnb : NonBlank fs q f) :
    step (midState recs fs q f) lf = recStart (recs ++ [fs ++ [f]]) := by
  cases q with
  | true => simp [midState, step, endRec, comma, quote, lf]
  | false =>
    cases f with
    | nil =>
      cases fs with
      | nil => exact absurd ⟨rfl, rfl, rfl⟩ hnb
      | cons a as => simp [midState, fsState, step]
    | cons c cs => simp [midState, step, endRec]

theorem run_mid_crlf (recs fs q f) (hnb : NonBlank fs q f) :
    run (midState recs fs q f) [cr, lf] = recStart (recs ++ [fs ++ [f]]) := by
  cases q with
  | true => simp [midState, step, endRec, comma, quote, lf, cr]
  | false =>
    cases f with
    | nil =>
      cases fs with
      | nil => exact absurd ⟨rfl, rfl, rfl⟩ hnb
      | cons a as => simp [midState, fsState, step, endRec, comma, quote, lf, cr]
    | cons c cs => simp [midState, step, endRec, comma, quote, lf, cr]

theorem finish_mid (recs fs q f) (hnb : NonBlank fs q f) :
    finish (midState recs fs q f) = (recs ++ [fs ++ [f]], false) := by
  cases q with
  | true => simp [midState, finish]
  | false =>
    cases f with
    | nil =>
      cases fs with
      | nil => exact absurd ⟨rfl, rfl, rfl⟩ hnb
      | cons a as => simp [midState, fsState, finish]
    | cons c cs => simp [midState, finish]

/-- a record as written: fields with their quote flags, comma separated (no terminator) -/
def writeFields : List (Bool × Field) → List B
  | [] => []
  | [(b, f)] => writeField b f
  | (b, f) :: r :: rest => writeField b f ++ comma :: writeFields (r :: rest)

theorem writeFields_cons2 (b f r rest) :
    writeFields ((b, f) :: r :: rest) = writeField b f ++ comma :: writeFields (r :: rest) := rfl

/-- after all the fields of a record (no terminator yet) -/
theorem run_fields (recs : List Record) (fs : Record) (qf : Bool × Field) (rest : List (Bool × Field))
    (hv : ∀ p ∈ qf :: rest, ValidField p.1 p.2) :
    ∃ (b : Bool) (f : Field) (fs' : Record),
      run (fsState recs fs) (writeFields (qf :: rest)) = midState recs fs' b f ∧
      fs' ++ [f] = fs ++ (qf :: rest).map Prod.snd ∧
      (fs' = [] → fs = [] ∧ rest = [] ∧ b = qf.1 ∧ f = qf.2) := by
  induction rest generalizing fs qf with
  | nil =>
    refine ⟨qf.1, qf.2, fs, ?_, by simp, by simp⟩
    obtain ⟨b0, f0⟩ := qf
    simpa [writeFields] using run_field recs fs b0 f0 (hv (b0, f0) (by simp))
  | cons r rest ih =>
    have hv' : ∀ p ∈ r :: rest, ValidField p.1 p.2 := fun p hp => hv p (by simp at hp ⊢; right; exact hp)
    obtain ⟨b0, f0⟩ := qf
    obtain ⟨b, f, fs', h1, h2, h3⟩ := ih (fs ++ [f0]) r hv'
    refine ⟨b, f, fs', ?_, ?_, ?_⟩
    · have hfs : fieldStart recs (fs ++ [f0]) = fsState recs (fs ++ [f0]) := by
        cases fs <;> simp [fsState]
      have hv0 : ValidField b0 f0 := hv (b0, f0) (by simp)
      simp only [writeFields_cons2, run_append, run_cons, run_field recs fs b0 f0 hv0,
        step_mid_comma, hfs, h1]
    · simpa [List.append_assoc] using h2
    · intro h; have := (h3 h).1; simp at this

/-- a record is valid for writing: every field valid, at least one field, and not rendered as a blank line -/
def ValidRecord (r : List (Bool × Field)) : Prop :=
  (∀ p ∈ r, ValidField p.1 p.2) ∧ r ≠ [] ∧ r ≠ [(false, [])]

/-- line terminator choice -/
def eol (crlf : Bool) : List B := if crlf then [cr, lf] else [lf]

theorem run_record (recs : List Record) (r : List (Bool × Field)) (crlf : Bool) (hr : ValidRecord r) :
    run (recStart recs) (writeFields r ++ eol crlf) = recStart (recs ++ [r.map Prod.snd]) := by
  obtain ⟨hv, hne, hnb⟩ := hr
  cases r with
  | nil => contradiction
  | cons qf rest =>
    obtain ⟨b, f, fs', h1, h2, h3⟩ := run_fields recs [] qf rest hv
    have hnb' : NonBlank fs' b f := by
      rintro ⟨e1, e2, e3⟩
      obtain ⟨-, hrest, hb, hf⟩ := h3 e1
      apply hnb
      obtain ⟨b0, f0⟩ := qf
      simp_all
    have h1' : run (recStart recs) (writeFields (qf :: rest)) = midState recs fs' b f := by
      simpa [fsState] using h1
    simp only [run_append, h1']
    cases crlf with
    | true => simpa [eol, h2] using run_mid_crlf recs fs' b f hnb'
    | false => simpa [eol, h2, run] using step_mid_lf recs fs' b f hnb'

theorem finish_record (recs : List Record) (r : List (Bool × Field)) (hr : ValidRecord r) :
    finish (run (recStart recs) (writeFields r)) = (recs ++ [r.map Prod.snd], false) := by
  obtain ⟨hv, hne, hnb⟩ := hr
  cases r with
  | nil => contradiction
  | cons qf rest =>
    obtain ⟨b, f, fs', h1, h2, h3⟩ := run_fields recs [] qf rest hv
    have hnb' : NonBlank fs' b f := by
      rintro ⟨e1, e2, e3⟩
      obtain ⟨-, hrest, hb, hf⟩ := h3 e1
      apply hnb
      obtain ⟨b0, f0⟩ := qf
      simp_all
    have h1' : run (recStart recs) (writeFields (qf :: rest)) = midState recs fs' b f := by
      simpa [fsState] using h1
    rw [h1', finish_mid _ _ _ _ hnb', h2]; simp

/-- a whole file: records with their line-ending choice; the last terminator is optional -/
def writeFile : List (List (Bool × Field) × Bool) → Bool → List B
  | [], _ => []
  | [(r, crlf)], trailing => writeFields r ++ (if trailing then eol crlf else [])
  | (r, crlf) :: r2 :: rest, trailing => writeFields r ++ eol crlf ++ writeFile (r2 :: rest) trailing

theorem run_file (recs : List Record) (file : List (List (Bool × Field) × Bool)) (trailing : Bool)
    (hv : ∀ p ∈ file, ValidRecord p.1) :
    finish (run (recStart recs) (writeFile file trailing)) = (recs ++ file.map (fun p => p.1.map Prod.snd), false) := by
  induction file generalizing recs with
  | nil => simp [writeFile, finish]
  | cons p rest ih =>
    obtain ⟨r, crlf⟩ := p
    have hr : ValidRecord r := hv (r, crlf) (by simp)
    cases rest with
    | nil =>
      cases trailing with
      | true => simp [writeFile, run_record recs r crlf hr, finish]
      | false => simpa [writeFile] using finish_record recs r hr
    | cons p2 rest =>
      have hv' : ∀ p ∈ p2 :: rest, ValidRecord p.1 := fun p hp => hv p (by simp at hp ⊢; right; exact hp)
      have := ih (recs ++ [r.map Prod.snd]) hv'
      have hw : writeFile ((r, crlf) :: p2 :: rest) trailing
          = (writeFields r ++ eol crlf) ++ writeFile (p2 :: rest) trailing := rfl
      rw [hw, run_append, run_record recs r crlf hr, this]
      simp

/-- **CSV presentation round trip**: whatever the quoting and line-ending choices and with or without
    a trailing newline, reading the written bytes returns exactly the records. -/
theorem read_writeFile (file : List (List (Bool × Field) × Bool)) (trailing : Bool)
    (hv : ∀ p ∈ file, ValidRecord p.1) :
    read (writeFile file trailing) = some (file.map (fun p => p.1.map Prod.snd)) := by
  have := run_file [] file trailing hv
  simp only [read, readAll, this, List.nil_append]
  simp

end Gtfs.Csv
