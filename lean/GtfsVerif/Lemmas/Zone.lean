import GtfsVerif.Model.Zone
/-! Facts about `time.Date` over a transition table: the closed form of its two-step lookup, the
    "local midnight" statement, and when it is guaranteed. -/
namespace Gtfs.Zone

theorem lookupFrom_start {l : List (Int × Int)} (off s t : Int)
    (hs : l.Pairwise (fun a b => a.1 < b.1)) (hl : ∀ p ∈ l, s < p.1) :
    ∃ s', (lookupFrom off (some s) l t).start = some s' ∧ s ≤ s' := by
  induction l generalizing off s with
  | nil => exact ⟨s, rfl, Int.le_refl _⟩
  | cons p rest ih =>
    obtain ⟨s1, o1⟩ := p
    simp only [lookupFrom]
    split
    · exact ⟨s, rfl, Int.le_refl _⟩
    · have h1 : s < s1 := hl (s1, o1) (List.mem_cons_self ..)
      obtain ⟨s', e, hle⟩ := ih o1 s1 (List.Pairwise.of_cons hs)
        (fun q hq => (List.pairwise_cons.mp hs).1 q hq)
      exact ⟨s', e, by omega⟩

/-- every instant inside the segment reported for `t` gets the same segment -/
theorem lookupFrom_same_seg {l : List (Int × Int)} (off : Int) (st : Option Int) (t t' : Int)
    (hs : l.Pairwise (fun a b => a.1 < b.1))
    (hin : (lookupFrom off st l t).outside t' = false) :
    lookupFrom off st l t' = lookupFrom off st l t := by
  induction l generalizing off st with
  | nil => rfl
  | cons p rest ih =>
    obtain ⟨s1, o1⟩ := p
    simp only [lookupFrom] at hin ⊢
    by_cases h : t < s1
    · simp only [h, if_true] at hin ⊢
      have : t' < s1 := by
        simp only [Seg.outside, Bool.or_eq_false_iff, decide_eq_false_iff_not] at hin
        omega
      simp [this]
    · simp only [h, if_false] at hin ⊢
      have hrest := List.Pairwise.of_cons hs
      obtain ⟨s', e, hle⟩ := lookupFrom_start o1 s1 t hrest (fun q hq => (List.pairwise_cons.mp hs).1 q hq)
      have : ¬ t' < s1 := by
        simp only [Seg.outside, e, Bool.or_eq_false_iff, decide_eq_false_iff_not] at hin
        omega
      simp only [this, if_false]
      exact ih o1 (some s1) hrest hin

/-- the offset reported is one of the table's -/
theorem lookupFrom_off_mem (off : Int) (st : Option Int) (l : List (Int × Int)) (t : Int) :
    (lookupFrom off st l t).off = off ∨ ∃ p ∈ l, (lookupFrom off st l t).off = p.2 := by
  induction l generalizing off st with
  | nil => exact Or.inl rfl
  | cons p rest ih =>
    obtain ⟨s1, o1⟩ := p
    simp only [lookupFrom]
    split
    · exact Or.inl rfl
    · rcases ih o1 (some s1) with h | ⟨q, hq, h⟩
      · exact Or.inr ⟨(s1, o1), List.mem_cons_self .., h⟩
      · exact Or.inr ⟨q, List.mem_cons_of_mem _ hq, h⟩

/-- all offsets lie in `[lo, hi]` -/
def Within (z : Zone) (lo hi : Int) : Prop :=
  (lo ≤ z.first ∧ z.first ≤ hi) ∧ ∀ p ∈ z.trans, lo ≤ p.2 ∧ p.2 ≤ hi

instance (z : Zone) (lo hi : Int) : Decidable (Within z lo hi) := by unfold Within; infer_instance

theorem offsetAt_within {z : Zone} {lo hi : Int} (h : Within z lo hi) (t : Int) :
    lo ≤ offsetAt z t ∧ offsetAt z t ≤ hi := by
  unfold offsetAt lookup
  rcases lookupFrom_off_mem z.first none z.trans t with e | ⟨p, hp, e⟩
  · rw [e]; exact h.1
  · rw [e]; exact h.2 p hp

/-- no transition instant in `[a, b]` -/
def NoTransition (z : Zone) (a b : Int) : Prop := ∀ p ∈ z.trans, p.1 < a ∨ b < p.1

instance (z : Zone) (a b : Int) : Decidable (NoTransition z a b) := by unfold NoTransition; infer_instance

theorem lookupFrom_off_const (off : Int) (st : Option Int) (l : List (Int × Int)) (a b t t' : Int)
    (hq : ∀ p ∈ l, p.1 < a ∨ b < p.1) (h1 : a ≤ t) (h2 : t ≤ b) (h3 : a ≤ t') (h4 : t' ≤ b) :
    (lookupFrom off st l t).off = (lookupFrom off st l t').off := by
  induction l generalizing off st with
  | nil => rfl
  | cons p rest ih =>
    obtain ⟨s1, o1⟩ := p
    have hp := hq (s1, o1) (List.mem_cons_self ..)
    simp only [lookupFrom]
    rcases hp with hp | hp
    · have e1 : ¬ t < s1 := by simp only at hp; omega
      have e2 : ¬ t' < s1 := by simp only at hp; omega
      simp only [e1, e2, if_false]
      exact ih o1 (some s1) (fun q hq' => hq q (List.mem_cons_of_mem _ hq'))
    · have e1 : t < s1 := by simp only at hp; omega
      have e2 : t' < s1 := by simp only at hp; omega
      simp [e1, e2]

theorem offsetAt_const {z : Zone} {a b t t' : Int} (hq : NoTransition z a b)
    (h1 : a ≤ t) (h2 : t ≤ b) (h3 : a ≤ t') (h4 : t' ≤ b) : offsetAt z t = offsetAt z t' :=
  lookupFrom_off_const z.first none z.trans a b t t' hq h1 h2 h3 h4

/-- **Closed form of `time.Date`'s lookup**: the offset subtracted is the one in force at
    "wall reading minus the offset in force at the wall reading taken as UTC". -/
theorem dateUnix_eq {z : Zone} (h : WF z) (d : Int) :
    dateUnix z d = d * 86400 - offsetAt z (d * 86400 - offsetAt z (d * 86400)) := by
  unfold dateUnix offsetAt
  simp only []
  by_cases h0 : (lookup z (d * 86400)).off = 0
  · simp [h0]
  · simp only [bne_iff_ne, ne_eq, h0, not_false_eq_true, if_true]
    by_cases ho : (lookup z (d * 86400)).outside (d * 86400 - (lookup z (d * 86400)).off) = true
    · simp [ho]
    · simp only [ho, Bool.false_eq_true, if_false]
      have := lookupFrom_same_seg z.first none (d * 86400) (d * 86400 - (lookup z (d * 86400)).off) h
        (by simpa [lookup] using ho)
      unfold lookup at *
      rw [this]

theorem dateUnix_fixed (o d : Int) : dateUnix (fixed o) d = d * 86400 - o := by
  unfold dateUnix lookup fixed lookupFrom Seg.outside
  by_cases h : o = 0 <;> simp [h]

theorem dateUnix_utc (d : Int) : dateUnix utc d = d * 86400 := by
  have := dateUnix_fixed 0 d
  simpa [fixed, utc] using this

theorem offsetAt_fixed (o t : Int) : offsetAt (fixed o) t = o := rfl

theorem settled_fixed (o d : Int) : Settled (fixed o) d := by
  unfold Settled; simp [offsetAt_fixed]

/-- **Local midnight**: whenever the second guess is consistent, a clock in the zone shows
    00:00:00 of the requested civil day at the instant `time.Date` returns. -/
theorem wall_dateUnix {z : Zone} (h : WF z) {d : Int} (hs : Settled z d) :
    wall z (dateUnix z d) = d * 86400 := by
  unfold wall
  rw [dateUnix_eq h]
  unfold Settled at hs
  simp only [] at hs
  rw [hs]; omega

/-- … and only then: `Settled` is exactly "the returned instant reads midnight of the requested day" -/
theorem wall_dateUnix_iff {z : Zone} (h : WF z) (d : Int) :
    wall z (dateUnix z d) = d * 86400 ↔ Settled z d := by
  constructor
  · intro hw
    unfold wall at hw
    rw [dateUnix_eq h] at hw
    unfold Settled
    simp only []
    omega
  · exact wall_dateUnix h

theorem wall_dateUnix_fixed (o d : Int) : wall (fixed o) (dateUnix (fixed o) d) = d * 86400 := by
  rw [dateUnix_fixed]; unfold wall; rw [offsetAt_fixed]; omega

/-- the guess is consistent whenever no transition falls into the window the two look-ups can reach -/
theorem settled_of_noTransition {z : Zone} {lo hi a b d : Int} (hw : Within z lo hi)
    (hq : NoTransition z a b) (h1 : a ≤ d * 86400) (h2 : d * 86400 ≤ b)
    (h3 : a ≤ d * 86400 - hi) (h4 : d * 86400 - lo ≤ b) : Settled z d := by
  unfold Settled
  simp only []
  have b1 := offsetAt_within hw (d * 86400)
  have e1 : offsetAt z (d * 86400 - offsetAt z (d * 86400)) = offsetAt z (d * 86400) :=
    offsetAt_const hq (by omega) (by omega) h1 h2
  rw [e1]
  exact offsetAt_const hq (by omega) (by omega) h1 h2

/-- later civil days are later instants, as long as the zone's offsets span less than a day
    (so comparing start dates as instants, as `TripID.Less` does, is comparing civil days) -/
theorem dateUnix_strictMono {z : Zone} (h : WF z) {lo hi : Int} (hw : Within z lo hi)
    (hspan : hi - lo < 86400) {d d' : Int} (hd : d < d') : dateUnix z d < dateUnix z d' := by
  rw [dateUnix_eq h, dateUnix_eq h]
  have b1 := offsetAt_within hw (d * 86400 - offsetAt z (d * 86400))
  have b2 := offsetAt_within hw (d' * 86400 - offsetAt z (d' * 86400))
  omega

theorem dateUnix_inj {z : Zone} (h : WF z) {lo hi : Int} (hw : Within z lo hi)
    (hspan : hi - lo < 86400) {d d' : Int} (he : dateUnix z d = dateUnix z d') : d = d' := by
  rcases Int.lt_trichotomy d d' with hlt | heq | hgt
  · have := dateUnix_strictMono h hw hspan hlt; omega
  · exact heq
  · have := dateUnix_strictMono h hw hspan hgt; omega

end Gtfs.Zone
