import GtfsVerif.Lemmas.Realtime
/-! The alerts of the merge loop: exactly one per alert entity that is not skipped, in feed order
    (shared by C02 and by the composition theorems of C17 and C07). -/
namespace Gtfs.Rt

/-- what an entity contributes to `Alerts` -/
def alertOf (e : Entity) : Option AlertOut :=
  match e.tripUpdate, e.vehicle, e.alert with
  | none, none, some a => some (parseAlert e.id a).1
  | _, _, _ => none

theorem entityStep_alerts (ext : Ext) (acc : Acc) (e : Entity) :
    (entityStep ext acc e).alerts = acc.alerts ++ (alertOf e).toList := by
  unfold entityStep alertOf
  cases htu : e.tripUpdate with
  | some tu =>
    simp only
    cases hp : parseTripUpdate ext tu with
    | none => simp
    | some r =>
      obtain ⟨t, ov⟩ := r
      cases ov with
      | none => simp [addTrip]
      | some v => cases hv : v.id <;> simp [addTrip, hv]
  | none =>
    cases hvp : e.vehicle with
    | some vp =>
      simp only
      cases ht : (parseVehicle vp).1 <;> cases hv : (parseVehicle vp).2.id <;> simp [addTrip, ht, hv]
    | none =>
      cases ha : e.alert with
      | none => simp
      | some a =>
        simp only [Option.toList]
        exact (foldl_addTrip_other _ _).2.2

/-- **exactly one Alert per (not skipped) alert entity, in feed order** -/
theorem alerts_exact (ext : Ext) (es : List (Entity × Bool)) :
    (runEntities ext es).alerts = (es.filter (fun p => !p.2)).filterMap (fun p => alertOf p.1) := by
  unfold runEntities
  suffices H : ∀ acc : Acc, (es.foldl (fun acc p => if p.2 then acc else entityStep ext acc p.1) acc).alerts
      = acc.alerts ++ (es.filter (fun p => !p.2)).filterMap (fun p => alertOf p.1) by
    simpa using H {}
  induction es with
  | nil => intro acc; simp
  | cons p r ih =>
    intro acc
    simp only [List.foldl_cons]
    rw [ih]
    cases hp : p.2
    · simp only [Bool.false_eq_true, if_false, entityStep_alerts, List.filter_cons, hp, Bool.not_false, if_true,
        List.filterMap_cons, List.append_assoc]
      cases alertOf p.1 <;> simp
    · simp [List.filter_cons, hp]

end Gtfs.Rt
