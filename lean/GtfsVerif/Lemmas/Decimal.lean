import GtfsVerif.Model.Basic
/-! Decimal rendering (`%d`): digits only, non-empty, and parsed back exactly. -/
namespace Gtfs

theorem digitChar_isDigit (d : Nat) : isDigit (digitChar d) = true := by
  unfold isDigit digitChar
  have h : d % 10 < 10 := Nat.mod_lt _ (by decide)
  have : (48 + d % 10).toUInt8.toNat = 48 + d % 10 := by
    simp [Nat.toUInt8, UInt8.toNat_ofNat']; omega
  simp only [Bool.and_eq_true, decide_eq_true_eq, UInt8.le_iff_toNat_le, this]
  constructor
  · show (48 : UInt8).toNat ≤ _; simp
  · show _ ≤ (57 : UInt8).toNat
    have : (57 : UInt8).toNat = 57 := rfl
    omega

theorem digitVal_digitChar (d : Nat) : digitVal (digitChar d) = d % 10 := by
  unfold digitVal digitChar
  have h : d % 10 < 10 := Nat.mod_lt _ (by decide)
  have : (48 + d % 10).toUInt8.toNat = 48 + d % 10 := by
    simp [Nat.toUInt8, UInt8.toNat_ofNat']; omega
  rw [this]; omega

theorem foldl_digits (l : Str) (init : Nat) :
    l.foldl (fun acc c => 10 * acc + digitVal c) init = init * 10 ^ l.length + digitsVal l := by
  unfold digitsVal
  induction l generalizing init with
  | nil => simp
  | cons c cs ih =>
    simp only [List.foldl_cons, List.length_cons]
    rw [ih (10 * init + digitVal c), ih (10 * 0 + digitVal c)]
    simp only [Nat.mul_zero, Nat.zero_add, Nat.pow_succ]
    rw [Nat.add_mul, Nat.add_assoc]
    congr 1
    rw [Nat.mul_comm (10 ^ cs.length) 10, ← Nat.mul_assoc, Nat.mul_comm init 10]

theorem digitsVal_cons (c : UInt8) (l : Str) : digitsVal (c :: l) = digitVal c * 10 ^ l.length + digitsVal l := by
  show (c :: l).foldl _ 0 = _
  simp only [List.foldl_cons, Nat.mul_zero, Nat.zero_add]
  exact foldl_digits l (digitVal c)

theorem natDigitsAux_spec (f n : Nat) (acc : Str) (h : n < 10 ^ (f + 1)) :
    digitsVal (natDigitsAux (f + 1) n acc) = n * 10 ^ acc.length + digitsVal acc ∧
    (natDigitsAux (f + 1) n acc).length > acc.length ∧
    ((∀ c ∈ acc, isDigit c = true) → ∀ c ∈ natDigitsAux (f + 1) n acc, isDigit c = true) := by
  induction f generalizing n acc with
  | zero =>
    have hn : n < 10 := by simpa using h
    simp only [natDigitsAux, hn, if_true]
    refine ⟨?_, by simp, ?_⟩
    · rw [digitsVal_cons, digitVal_digitChar, Nat.mod_eq_of_lt hn]
    · intro hacc c hc
      rcases List.mem_cons.mp hc with rfl | hc
      · exact digitChar_isDigit n
      · exact hacc c hc
  | succ f ih =>
    rw [natDigitsAux]
    split
    · rename_i hn
      refine ⟨?_, by simp, ?_⟩
      · rw [digitsVal_cons, digitVal_digitChar, Nat.mod_eq_of_lt hn]
      · intro hacc c hc
        rcases List.mem_cons.mp hc with rfl | hc
        · exact digitChar_isDigit n
        · exact hacc c hc
    · rename_i hn
      have hdiv : n / 10 < 10 ^ (f + 1) := by
        rw [Nat.pow_succ] at h
        exact Nat.div_lt_of_lt_mul (by rw [Nat.mul_comm]; exact h)
      obtain ⟨h1, h2, h3⟩ := ih (n / 10) (digitChar (n % 10) :: acc) hdiv
      refine ⟨?_, ?_, ?_⟩
      · rw [h1, digitsVal_cons, digitVal_digitChar, Nat.mod_mod]
        simp only [List.length_cons, Nat.pow_succ]
        have := Nat.div_add_mod n 10
        calc n / 10 * (10 ^ acc.length * 10) + (n % 10 * 10 ^ acc.length + digitsVal acc)
            = (10 * (n / 10) + n % 10) * 10 ^ acc.length + digitsVal acc := by
              rw [Nat.add_mul, Nat.mul_comm (10 ^ acc.length) 10, ← Nat.mul_assoc, Nat.mul_comm (n / 10) 10, Nat.add_assoc]
          _ = n * 10 ^ acc.length + digitsVal acc := by rw [this]
      · simp only [List.length_cons] at h2; omega
      · intro hacc
        apply h3
        intro c hc
        rcases List.mem_cons.mp hc with rfl | hc
        · exact digitChar_isDigit _
        · exact hacc c hc

theorem lt_ten_pow_succ (n : Nat) : n < 10 ^ (n + 1) := by
  induction n with
  | zero => decide
  | succ k ih =>
    rw [Nat.pow_succ]
    omega

/-- `%d` of a natural number parses back to it -/
theorem digitsVal_natToDec (n : Nat) : digitsVal (natToDec n) = n := by
  have := (natDigitsAux_spec n n [] (lt_ten_pow_succ n)).1
  simpa [natToDec, digitsVal] using this

theorem natToDec_ne_nil (n : Nat) : natToDec n ≠ [] := by
  have := (natDigitsAux_spec n n [] (lt_ten_pow_succ n)).2.1
  intro h; rw [natToDec] at h; rw [h] at this; simp at this

theorem natToDec_digits (n : Nat) : ∀ c ∈ natToDec n, isDigit c = true :=
  (natDigitsAux_spec n n [] (lt_ten_pow_succ n)).2.2 (by simp)

theorem natToDec_injective {a b : Nat} (h : natToDec a = natToDec b) : a = b := by
  rw [← digitsVal_natToDec a, ← digitsVal_natToDec b, h]

theorem isDigit_ne_minus {c : UInt8} (h : isDigit c = true) : c ≠ 45 := by
  intro hc; subst hc; simp [isDigit] at h

theorem intToDec_injective {a b : Int} (h : intToDec a = intToDec b) : a = b := by
  cases a with
  | ofNat x =>
    cases b with
    | ofNat y => simp only [intToDec] at h; rw [natToDec_injective h]
    | negSucc y =>
      simp only [intToDec] at h
      have hne := natToDec_ne_nil x
      cases hx : natToDec x with
      | nil => exact absurd hx hne
      | cons c cs =>
        rw [hx] at h
        have hc : isDigit c = true := natToDec_digits x c (by rw [hx]; simp)
        simp only [List.cons.injEq] at h
        exact absurd h.1 (isDigit_ne_minus hc)
  | negSucc x =>
    cases b with
    | ofNat y =>
      simp only [intToDec] at h
      have hne := natToDec_ne_nil y
      cases hy : natToDec y with
      | nil => exact absurd hy hne
      | cons c cs =>
        rw [hy] at h
        have hc : isDigit c = true := natToDec_digits y c (by rw [hy]; simp)
        simp only [List.cons.injEq] at h
        exact absurd h.1.symm (isDigit_ne_minus hc)
    | negSucc y =>
      simp only [intToDec, List.cons.injEq, true_and] at h
      have := natToDec_injective h
      have : x = y := by omega
      rw [this]

/-- every byte of `%d` after the first is a digit, the first is a digit or `-`, and it is non-empty -/
theorem intToDec_shape (a : Int) : ∃ c cs, intToDec a = c :: cs ∧ (isDigit c = true ∨ c = 45) ∧ ∀ d ∈ cs, isDigit d = true := by
  cases a with
  | ofNat x =>
    cases hx : natToDec x with
    | nil => exact absurd hx (natToDec_ne_nil x)
    | cons c cs =>
      refine ⟨c, cs, by simp [intToDec, hx], Or.inl (natToDec_digits x c (by rw [hx]; simp)), ?_⟩
      intro d hd; exact natToDec_digits x d (by rw [hx]; simp [hd])
  | negSucc x =>
    exact ⟨45, natToDec (x + 1), rfl, Or.inr rfl, natToDec_digits (x + 1)⟩

end Gtfs
