import GtfsVerif.Lemmas.Realtime
/-! # The vehicle table as a fold over the vehicle mentions of the message

Companion of the trip-table lemmas of `Lemmas/Realtime.lean`: what one entity contributes in
vehicles, the vehicle table and the id-less list as folds over all mentions, the per-identifier view
of that fold and its closed form for conflict-free mention lists. -/
namespace Gtfs.Rt

/-- the vehicle mention one entity contributes (none, or exactly one) -/
def vehMentions (ext : Ext) (e : Entity) : List VehData :=
  match e.tripUpdate with
  | some tu => match parseTripUpdate ext tu with
    | some r => r.2.toList
    | none => []
  | none =>
    match e.vehicle with
    | some vp => [(parseVehicle vp).2]
    | none => []

theorem foldl_addTrip_veh_congr (ts : List TripData) (a1 a2 : Acc) (h : a1.vehicles = a2.vehicles) (h' : a1.noId = a2.noId) :
    (ts.foldl addTrip a1).vehicles = a2.vehicles ∧ (ts.foldl addTrip a1).noId = a2.noId := by
  have := foldl_addTrip_veh ts a1
  rw [this.1, this.2]; exact ⟨h, h'⟩

theorem entityStep_vehicles (ext : Ext) (acc : Acc) (e : Entity) :
    (entityStep ext acc e).vehicles = ((vehMentions ext e).foldl addVehicle acc).vehicles ∧
    (entityStep ext acc e).noId = ((vehMentions ext e).foldl addVehicle acc).noId := by
  unfold entityStep vehMentions
  cases htu : e.tripUpdate with
  | some tu =>
    simp only
    cases hp : parseTripUpdate ext tu with
    | none => simp
    | some r =>
      obtain ⟨t, ov⟩ := r
      cases ov with
      | none => simp [addTrip]
      | some v => cases hv : v.id <;> simp [addTrip, addVehicle, hv]
  | none =>
    simp only
    cases hvp : e.vehicle with
    | some vp =>
      simp only
      cases ht : (parseVehicle vp).1 with
      | none => cases hv : (parseVehicle vp).2.id <;> simp [addVehicle, hv]
      | some t => cases hv : (parseVehicle vp).2.id <;> simp [addTrip, addVehicle, hv]
    | none =>
      simp only
      cases ha : e.alert with
      | none => simp
      | some a =>
        simp only [List.foldl_nil]
        exact ⟨(foldl_addTrip_other _ _).1, (foldl_addTrip_other _ _).2.1⟩

theorem foldl_addVehicle_congr (vs : List VehData) (a1 a2 : Acc) (h : a1.vehicles = a2.vehicles) (h' : a1.noId = a2.noId) :
    (vs.foldl addVehicle a1).vehicles = (vs.foldl addVehicle a2).vehicles ∧
    (vs.foldl addVehicle a1).noId = (vs.foldl addVehicle a2).noId := by
  induction vs generalizing a1 a2 with
  | nil => exact ⟨h, h'⟩
  | cons v r ih =>
    simp only [List.foldl_cons]
    apply ih
    · unfold addVehicle; cases v.id <;> simp [h]
    · unfold addVehicle; cases v.id <;> simp [h']

/-- all vehicle mentions of a (pre-processed) message, in feed order -/
def allVehMentions (ext : Ext) (es : List (Entity × Bool)) : List VehData :=
  (es.filter fun p => !p.2).flatMap fun p => vehMentions ext p.1

/-- the vehicle table and the id-less list after the merge loop are the fold of `addVehicle` over
    all vehicle mentions, in feed order -/
theorem runEntities_vehicles (ext : Ext) (es : List (Entity × Bool)) :
    (runEntities ext es).vehicles = ((allVehMentions ext es).foldl addVehicle {}).vehicles ∧
    (runEntities ext es).noId = ((allVehMentions ext es).foldl addVehicle {}).noId := by
  unfold runEntities allVehMentions
  suffices H : ∀ acc : Acc,
      (es.foldl (fun acc p => if p.2 then acc else entityStep ext acc p.1) acc).vehicles
        = (((es.filter fun p => !p.2).flatMap fun p => vehMentions ext p.1).foldl addVehicle acc).vehicles ∧
      (es.foldl (fun acc p => if p.2 then acc else entityStep ext acc p.1) acc).noId
        = (((es.filter fun p => !p.2).flatMap fun p => vehMentions ext p.1).foldl addVehicle acc).noId from H {}
  induction es with
  | nil => intro acc; exact ⟨rfl, rfl⟩
  | cons p r ih =>
    intro acc
    simp only [List.foldl_cons]
    rw [(ih _).1, (ih _).2]
    cases hp : p.2
    · simp only [Bool.false_eq_true, if_false, List.filter_cons, hp, Bool.not_false, if_true, List.flatMap_cons, List.foldl_append]
      exact foldl_addVehicle_congr _ _ _ (entityStep_vehicles ext acc p.1).1 (entityStep_vehicles ext acc p.1).2
    · simp [List.filter_cons, hp]

/-- the id-less vehicles are exactly the id-less mentions, in feed order -/
theorem foldl_addVehicle_noId (vs : List VehData) (acc : Acc) :
    (vs.foldl addVehicle acc).noId = acc.noId ++ vs.filter fun v => v.id.isNone := by
  induction vs generalizing acc with
  | nil => simp
  | cons v r ih =>
    simp only [List.foldl_cons]
    rw [ih]
    unfold addVehicle
    cases hv : v.id <;> simp [List.filter_cons, hv]

/-- per-identifier view of the fold: what the mentions of vehicle `k` do to its entry -/
def mergeAllV (cur : Option VehData) (ms : List VehData) : Option VehData :=
  ms.foldl (fun o m => some (mergeVehicle o m)) cur

theorem foldl_addVehicle_lookup (ms : List VehData) (acc : Acc) (k : VehicleID) :
    alookup k (ms.foldl addVehicle acc).vehicles
      = mergeAllV (alookup k acc.vehicles) (ms.filter fun m => m.id == some k) := by
  induction ms generalizing acc with
  | nil => rfl
  | cons m r ih =>
    simp only [List.foldl_cons]
    rw [ih]
    cases hm : m.id with
    | none =>
      have : (m.id == some k) = false := by simp [hm]
      simp only [List.filter_cons, this]
      simp [addVehicle, hm]
    | some vid =>
      by_cases h : vid = k
      · subst h
        have : (m.id == some vid) = true := by simp [hm]
        simp only [List.filter_cons, this, if_true, mergeAllV, List.foldl_cons]
        simp [addVehicle, hm, alookup_aset_same]
      · have : (m.id == some k) = false := by simp [hm, h]
        simp only [List.filter_cons, this]
        simp only [addVehicle, hm]
        rw [alookup_aset_other _ _ _ _ h]
        rfl

/-- mentions of one vehicle without conflicting duplicates: at most one is the vehicle's own entity -/
def AtMostOneOwnV (ms : List VehData) : Prop := (ms.filter (·.inMessage)).length ≤ 1

/-- the result of merging the mentions of one vehicle identifier (from an empty entry) does not
    depend on their order: the own entity's data if there is one, otherwise the bare identifier -/
theorem mergeAllV_closed_form (k : VehicleID) (ms : List VehData) (hk : ∀ m ∈ ms, m.id = some k) (hne : ms ≠ [])
    (h1 : AtMostOneOwnV ms) :
    mergeAllV none ms = some (match ms.find? (·.inMessage) with
                              | some own => own
                              | none => { id := some k, inMessage := false }) := by
  suffices H : ∀ (ms : List VehData) (cur : Option VehData), (∀ m ∈ ms, m.id = some k) →
      (cur = none ∨ cur = some { id := some k, inMessage := false } ∨
        (∃ own, cur = some own ∧ own.inMessage = true ∧ own.id = some k ∧ ms.filter (·.inMessage) = [])) →
      (ms.filter (·.inMessage)).length ≤ 1 → (cur = none → ms ≠ []) →
      mergeAllV cur ms = some (match cur with
        | some c => if c.inMessage then c else (match ms.find? (·.inMessage) with | some own => own | none => c)
        | none => (match ms.find? (·.inMessage) with | some own => own | none => { id := some k, inMessage := false })) by
    have := H ms none hk (Or.inl rfl) h1 (fun _ => hne)
    simpa using this
  intro ms
  induction ms with
  | nil =>
    intro cur _ hcur _ hne
    rcases hcur with rfl | rfl | ⟨own, rfl, ho, _, _⟩
    · exact absurd rfl (hne rfl)
    · simp [mergeAllV]
    · simp [mergeAllV, ho]
  | cons m r ih =>
    intro cur hk hcur h1 _
    have hmk : m.id = some k := hk m (by simp)
    have hkr : ∀ x ∈ r, x.id = some k := fun x hx => hk x (by simp [hx])
    simp only [mergeAllV, List.foldl_cons]
    by_cases hm : m.inMessage = true
    · have hr : r.filter (·.inMessage) = [] := by
        simp only [List.filter_cons, hm, if_true, List.length_cons] at h1
        exact List.eq_nil_of_length_eq_zero (by omega)
      have hnone : r.find? (·.inMessage) = none := by
        rw [List.find?_eq_none]; intro x hx hxi
        have : x ∈ r.filter (·.inMessage) := List.mem_filter.mpr ⟨hx, hxi⟩
        rw [hr] at this; simp at this
      have step : mergeVehicle cur m = m := by simp [mergeVehicle, hm]
      have := ih (some m) hkr (Or.inr (Or.inr ⟨m, rfl, hm, hmk, hr⟩)) (by simp [hr]) (by simp)
      simp only [mergeAllV] at this
      rw [step, this]
      rcases hcur with rfl | rfl | ⟨own, rfl, ho, _, hf⟩
      · simp [hm, List.find?_cons]
      · simp [hm, List.find?_cons]
      · simp [List.filter_cons, hm] at hf
    · have hm' : m.inMessage = false := by simpa using hm
      have h1' : (r.filter (·.inMessage)).length ≤ 1 := by simpa [List.filter_cons, hm'] using h1
      rcases hcur with rfl | rfl | ⟨own, rfl, ho, hok, hf⟩
      · have step : mergeVehicle none m = { id := some k, inMessage := false } := by simp [mergeVehicle, hm', hmk]
        have := ih (some { id := some k, inMessage := false }) hkr (Or.inr (Or.inl rfl)) h1' (by simp)
        simp only [mergeAllV] at this
        rw [step, this]
        simp [List.find?_cons, hm']
      · have step : mergeVehicle (some { id := some k, inMessage := false }) m = { id := some k, inMessage := false } := by
          simp [mergeVehicle, hm', hmk]
        have := ih (some { id := some k, inMessage := false }) hkr (Or.inr (Or.inl rfl)) h1' (by simp)
        simp only [mergeAllV] at this
        rw [step, this]
        simp [List.find?_cons, hm']
      · have step : mergeVehicle (some own) m = own := by
          simp only [mergeVehicle, hm', Bool.false_eq_true, if_false, Option.getD_some]
          cases own; simp_all
        have hf' : r.filter (·.inMessage) = [] := by simpa [List.filter_cons, hm'] using hf
        have := ih (some own) hkr (Or.inr (Or.inr ⟨own, rfl, ho, hok, hf'⟩)) h1' (by simp)
        simp only [mergeAllV] at this
        rw [step, this]
        simp [ho]

theorem mergeAllV_perm (k : VehicleID) (ms ms' : List VehData) (hp : ms'.Perm ms) (hk : ∀ m ∈ ms, m.id = some k)
    (h1 : AtMostOneOwnV ms) : mergeAllV none ms' = mergeAllV none ms := by
  by_cases hne : ms = []
  · subst hne
    have : ms' = [] := List.Perm.eq_nil hp
    rw [this]
  · have hne' : ms' ≠ [] := by
      intro e; rw [e] at hp; exact hne (List.Perm.eq_nil hp.symm)
    have hk' : ∀ m ∈ ms', m.id = some k := fun m hm => hk m (hp.subset hm)
    have h1' : AtMostOneOwnV ms' := by
      unfold AtMostOneOwnV at *
      rw [(hp.filter _).length_eq]; exact h1
    rw [mergeAllV_closed_form k ms hk hne h1, mergeAllV_closed_form k ms' hk' hne' h1',
        find?_perm_of_atMostOne _ ms ms' hp h1]

/-- **without conflicting duplicates (vehicles)**: every vehicle identifier has at most one vehicle
    position of its own among its mentions -/
def ConflictFreeVehicles (ext : Ext) (es : List (Entity × Bool)) : Prop :=
  ∀ k, AtMostOneOwnV ((allVehMentions ext es).filter fun m => m.id == some k)

theorem vehicles_lookup (ext : Ext) (es : List (Entity × Bool)) (k : VehicleID) :
    alookup k (runEntities ext es).vehicles
      = mergeAllV none ((allVehMentions ext es).filter fun m => m.id == some k) := by
  rw [(runEntities_vehicles ext es).1, foldl_addVehicle_lookup]; rfl

theorem vehicles_lookup_cf (ext : Ext) (es : List (Entity × Bool)) (hcf : ConflictFreeVehicles ext es) (k : VehicleID) :
    alookup k (runEntities ext es).vehicles =
      if ((allVehMentions ext es).filter fun m => m.id == some k) = [] then none
      else some (match ((allVehMentions ext es).filter fun m => m.id == some k).find? (·.inMessage) with
                 | some own => own
                 | none => { id := some k, inMessage := false }) := by
  rw [vehicles_lookup]
  split
  · next h => rw [h]; rfl
  · next h =>
    exact mergeAllV_closed_form k _ (fun m hm => by simpa using (List.mem_filter.mp hm).2) h (hcf k)

theorem noId_eq (ext : Ext) (es : List (Entity × Bool)) :
    (runEntities ext es).noId = (allVehMentions ext es).filter fun v => v.id.isNone := by
  rw [(runEntities_vehicles ext es).2, foldl_addVehicle_noId]; rfl

end Gtfs.Rt

namespace Gtfs

/-- two association lists with distinct keys and the same lookups sort to the same list, when the
    order compares an injective key by a strict total order -/
theorem sorted_eq_of_lookup_eq {κ κ' α : Type} [BEq κ] [LawfulBEq κ] (lt : κ' → κ' → Bool) (hsto : STO lt)
    (key : κ → κ') (hinj : ∀ a b, key a = key b → a = b)
    (m m' : List (κ × α)) (h : (akeys m).Nodup) (h' : (akeys m').Nodup) (hl : ∀ k, alookup k m = alookup k m') :
    m.mergeSort (fun a b => !lt (key b.1) (key a.1)) = m'.mergeSort (fun a b => !lt (key b.1) (key a.1)) := by
  have hperm : m.Perm m' := perm_of_lookup_eq _ _ h h' hl
  let le := fun (a b : κ × α) => !lt (key b.1) (key a.1)
  have tr : ∀ a b c : κ × α, le a b = true → le b c = true → le a c = true :=
    fun a b c => hsto.le_trans_key (fun p : κ × α => key p.1) a b c
  have tot : ∀ a b : κ × α, (le a b || le b a) = true := fun a b => hsto.le_total_key (fun p : κ × α => key p.1) a b
  have h1 := List.pairwise_mergeSort (le := le) tr tot m
  have h2 := List.pairwise_mergeSort (le := le) tr tot m'
  have hsp : (m.mergeSort le).Perm (m'.mergeSort le) :=
    (List.mergeSort_perm _ le).trans (hperm.trans (List.mergeSort_perm _ le).symm)
  refine List.Perm.eq_of_pairwise (le := fun a b => le a b = true) ?_ h1 h2 hsp
  intro a b ha hb hab hba
  have ha' : a ∈ m' := (List.mergeSort_perm _ le).subset (hsp.subset ha)
  have hb' : b ∈ m' := (List.mergeSort_perm _ le).subset hb
  have hkeys : a.1 = b.1 := by
    rcases hsto.tri (key a.1) (key b.1) with h | h | h
    · simp [le, h] at hba
    · exact hinj _ _ h
    · simp [le, h] at hab
  obtain ⟨ka, va⟩ := a
  obtain ⟨kb, vb⟩ := b
  simp only at hkeys
  subst hkeys
  have e1 := (mem_iff_alookup' _ h' ka va).mp ha'
  have e2 := (mem_iff_alookup' _ h' ka vb).mp hb'
  rw [e1] at e2
  cases e2; rfl

end Gtfs

namespace Gtfs.Rt

/-! ### the vehicle order compares an injective key lexicographically -/

def vehKey (v : VehicleID) := (v.id, (v.label, v.licensePlate))
def vehKeyLt := lexLt strLt (lexLt strLt strLt)
theorem sto_vehKeyLt : STO vehKeyLt := sto_strLt.lex (sto_strLt.lex sto_strLt)

theorem vehLess_eq_key (a b : VehicleID) : vehLess a b = vehKeyLt (vehKey a) (vehKey b) := by
  obtain ⟨i1, l1, p1⟩ := a
  obtain ⟨i2, l2, p2⟩ := b
  simp only [vehLess, vehKeyLt, lexLt, vehKey, bne_iff_ne, ne_eq]
  by_cases e1 : i1 = i2 <;> by_cases e2 : l1 = l2 <;> simp [e1, e2]

theorem vehKey_injective (a b : VehicleID) (h : vehKey a = vehKey b) : a = b := by
  obtain ⟨i1, l1, p1⟩ := a
  obtain ⟨i2, l2, p2⟩ := b
  simp only [vehKey, Prod.mk.injEq] at h
  obtain ⟨h1, h2, h3⟩ := h
  subst h1 h2 h3; rfl

end Gtfs.Rt

namespace Gtfs.Rt

/-! ### a decidable sufficient condition for "without conflicting duplicates" -/

theorem filter_key_length_le_one {α κ} [BEq κ] [LawfulBEq κ] (key : α → κ) (l : List α) (h : (l.map key).Nodup) (k : κ) :
    (l.filter fun x => key x == k).length ≤ 1 := by
  induction l with
  | nil => simp
  | cons x r ih =>
    simp only [List.map_cons, List.nodup_cons] at h
    by_cases hx : key x = k
    · have hr : r.filter (fun y => key y == k) = [] := by
        rw [List.filter_eq_nil_iff]
        intro y hy hyk
        have : key y = k := by simpa using hyk
        exact h.1 (by rw [hx, ← this]; exact List.mem_map_of_mem hy)
      simp [hx, hr]
    · have : (key x == k) = false := by simpa using hx
      simp only [List.filter_cons, this]
      exact ih h.2

/-- a decidable sufficient condition: the own entities of the message describe distinct trips -/
theorem conflictFreeTrips_of_nodup (ext : Ext) (es : List (Entity × Bool))
    (h : (((allMentions ext es).filter (·.inMessage)).map (·.id)).Nodup) : ConflictFreeTrips ext es := by
  intro k
  unfold AtMostOneOwn
  rw [List.filter_filter]
  have := filter_key_length_le_one (fun m : TripData => m.id) _ h k
  rw [List.filter_filter] at this
  simpa [Bool.and_comm] using this

theorem conflictFreeVehicles_of_nodup (ext : Ext) (es : List (Entity × Bool))
    (h : (((allVehMentions ext es).filter (·.inMessage)).map (·.id)).Nodup) : ConflictFreeVehicles ext es := by
  intro k
  unfold AtMostOneOwnV
  rw [List.filter_filter]
  have := filter_key_length_le_one (fun m : VehData => m.id) _ h (some k)
  rw [List.filter_filter] at this
  simpa [Bool.and_comm] using this

/-- a message with a trip update (trip "A", vehicle "V"), the position of vehicle "V" on trip "A",
    and an alert informing trip "B" -/
def demoMsg : Msg :=
  { timestamp := some 100,
    entities := [
      { id := [49], tripUpdate := some { trip := some { tripId := some [65] }, vehicle := some { id := some [86] } } },
      { id := [50], vehicle := some { trip := some { tripId := some [65] }, vehicle := some { id := some [86] } } },
      { id := [51], alert := some { informed := [{ trip := some { tripId := some [66] } }] } } ] }

end Gtfs.Rt
