import GtfsVerif.Lemmas.RealtimeVeh
/-! # The association tables as folds over the vehicle items of the message

An entity that describes a vehicle (a vehicle position, or a trip update carrying a vehicle
descriptor) contributes one *vehicle item*: the vehicle's data and the trip the same entity
associates it with, if any. The four link tables of the merge loop (`tripToVeh`, `vehToTrip`, `noId`,
`noIdLinks`) are a fold over these items, and link resolution has a closed form in terms of them. -/
namespace Gtfs.Rt

/-- the vehicle one entity describes, with the trip it associates it with -/
def vehItem (ext : Ext) (e : Entity) : Option (VehData × Option TripID) :=
  match e.tripUpdate with
  | some tu => match parseTripUpdate ext tu with
    | some r => r.2.map fun v => (v, some r.1.id)
    | none => none
  | none =>
    match e.vehicle with
    | some vp => some ((parseVehicle vp).2, (parseVehicle vp).1.map (·.id))
    | none => none

/-- what one vehicle item does to the link tables -/
def linkStep (acc : Acc) (it : VehData × Option TripID) : Acc :=
  match it.1.id with
  | some vid =>
    match it.2 with
    | some t => { acc with tripToVeh := aset t vid acc.tripToVeh, vehToTrip := aset vid t acc.vehToTrip }
    | none => acc
  | none =>
    match it.2 with
    | some t => { acc with noId := acc.noId ++ [it.1], noIdLinks := acc.noIdLinks ++ [(t, acc.noId.length)] }
    | none => { acc with noId := acc.noId ++ [it.1] }

/-- the link-relevant part of the state -/
def LinkEq (a b : Acc) : Prop :=
  a.tripToVeh = b.tripToVeh ∧ a.vehToTrip = b.vehToTrip ∧ a.noId = b.noId ∧ a.noIdLinks = b.noIdLinks

theorem LinkEq.rfl' (a : Acc) : LinkEq a a := ⟨rfl, rfl, rfl, rfl⟩

theorem foldl_addTrip_links (ts : List TripData) (acc : Acc) : LinkEq (ts.foldl addTrip acc) acc := by
  induction ts generalizing acc with
  | nil => exact LinkEq.rfl' _
  | cons t r ih =>
    simp only [List.foldl_cons]
    obtain ⟨h1, h2, h3, h4⟩ := ih (addTrip acc t)
    exact ⟨h1, h2, h3, h4⟩

theorem entityStep_links (ext : Ext) (acc : Acc) (e : Entity) :
    LinkEq (entityStep ext acc e) (match vehItem ext e with | some it => linkStep acc it | none => acc) := by
  unfold entityStep vehItem
  cases htu : e.tripUpdate with
  | some tu =>
    simp only
    cases hp : parseTripUpdate ext tu with
    | none => exact LinkEq.rfl' _
    | some r =>
      obtain ⟨t, ov⟩ := r
      cases ov with
      | none => simp [LinkEq, addTrip]
      | some v => cases hv : v.id <;> simp [LinkEq, linkStep, addTrip, hv]
  | none =>
    simp only
    cases hvp : e.vehicle with
    | some vp =>
      simp only
      cases ht : (parseVehicle vp).1 with
      | none => cases hv : (parseVehicle vp).2.id <;> simp [LinkEq, linkStep, hv]
      | some t => cases hv : (parseVehicle vp).2.id <;> simp [LinkEq, linkStep, addTrip, hv]
    | none =>
      simp only
      cases ha : e.alert with
      | none => exact LinkEq.rfl' _
      | some a =>
        simp only
        have h := foldl_addTrip_links ((parseAlert e.id a).2.map fun t => { id := t, inMessage := false })
          { acc with alerts := acc.alerts ++ [(parseAlert e.id a).1] }
        rw [List.foldl_map] at h
        obtain ⟨h1, h2, h3, h4⟩ := h
        exact ⟨h1, h2, h3, h4⟩


theorem linkStep_congr (a b : Acc) (it : VehData × Option TripID) (h : LinkEq a b) : LinkEq (linkStep a it) (linkStep b it) := by
  obtain ⟨h1, h2, h3, h4⟩ := h
  unfold linkStep
  cases it.1.id <;> cases it.2 <;> simp [LinkEq, h1, h2, h3, h4]

theorem foldl_linkStep_congr (its : List (VehData × Option TripID)) (a b : Acc) (h : LinkEq a b) :
    LinkEq (its.foldl linkStep a) (its.foldl linkStep b) := by
  induction its generalizing a b with
  | nil => exact h
  | cons it r ih => simp only [List.foldl_cons]; exact ih _ _ (linkStep_congr a b it h)

/-- all vehicle items of a (pre-processed) message, in feed order -/
def allItems (ext : Ext) (es : List (Entity × Bool)) : List (VehData × Option TripID) :=
  (es.filter fun p => !p.2).filterMap fun p => vehItem ext p.1

/-- the link tables after the merge loop are the fold of `linkStep` over all vehicle items -/
theorem runEntities_links (ext : Ext) (es : List (Entity × Bool)) :
    LinkEq (runEntities ext es) ((allItems ext es).foldl linkStep {}) := by
  unfold runEntities allItems
  suffices H : ∀ acc : Acc,
      LinkEq (es.foldl (fun acc p => if p.2 then acc else entityStep ext acc p.1) acc)
        (((es.filter fun p => !p.2).filterMap fun p => vehItem ext p.1).foldl linkStep acc) from H {}
  induction es with
  | nil => intro acc; exact LinkEq.rfl' _
  | cons p r ih =>
    intro acc
    simp only [List.foldl_cons]
    cases hp : p.2
    · simp only [Bool.false_eq_true, if_false, List.filter_cons, hp, Bool.not_false, if_true, List.filterMap_cons]
      have h1 := ih (entityStep ext acc p.1)
      have h2 := entityStep_links ext acc p.1
      cases hit : vehItem ext p.1 with
      | none =>
        simp only [hit] at h2 ⊢
        obtain ⟨a1, a2, a3, a4⟩ := h1
        obtain ⟨b1, b2, b3, b4⟩ := foldl_linkStep_congr ((r.filter fun p => !p.2).filterMap fun p => vehItem ext p.1) _ _ h2
        exact ⟨a1.trans b1, a2.trans b2, a3.trans b3, a4.trans b4⟩
      | some it =>
        simp only [hit, List.foldl_cons] at h2 ⊢
        obtain ⟨a1, a2, a3, a4⟩ := h1
        obtain ⟨b1, b2, b3, b4⟩ := foldl_linkStep_congr ((r.filter fun p => !p.2).filterMap fun p => vehItem ext p.1) _ _ h2
        exact ⟨a1.trans b1, a2.trans b2, a3.trans b3, a4.trans b4⟩
    · simp only [if_true, List.filter_cons, hp, Bool.not_true, Bool.false_eq_true, if_false]
      exact ih acc

/-! ### closed forms of the fold -/

/-- the vehicle id through which item `it` links trip `t` -/
def linkOfTrip (t : TripID) (it : VehData × Option TripID) : Option VehicleID :=
  if it.2 = some t then it.1.id else none

/-- the trip to which item `it` links the identified vehicle `vid` -/
def linkOfVeh (vid : VehicleID) (it : VehData × Option TripID) : Option TripID :=
  if it.1.id = some vid then it.2 else none

theorem linkStep_t2v (acc : Acc) (it : VehData × Option TripID) (t : TripID) :
    alookup t (linkStep acc it).tripToVeh = (linkOfTrip t it).or (alookup t acc.tripToVeh) := by
  unfold linkStep linkOfTrip
  cases hid : it.1.id with
  | none => cases ht : it.2 <;> simp
  | some vid =>
    cases ht : it.2 with
    | none => simp
    | some t' =>
      by_cases h : t' = t
      · subst h; simp [alookup_aset_same]
      · simp only [Option.some.injEq, h, if_false, Option.none_or]
        exact alookup_aset_other _ _ _ _ h

theorem linkStep_v2t (acc : Acc) (it : VehData × Option TripID) (vid : VehicleID) :
    alookup vid (linkStep acc it).vehToTrip = (linkOfVeh vid it).or (alookup vid acc.vehToTrip) := by
  unfold linkStep linkOfVeh
  cases hid : it.1.id with
  | none => cases ht : it.2 <;> simp
  | some v' =>
    cases ht : it.2 with
    | none => by_cases h : v' = vid <;> simp [h]
    | some t =>
      by_cases h : v' = vid
      · subst h; simp [alookup_aset_same]
      · simp only [Option.some.injEq, h, if_false, Option.none_or]
        exact alookup_aset_other _ _ _ _ h

theorem foldl_linkStep_t2v (its : List (VehData × Option TripID)) (acc : Acc) (t : TripID) :
    alookup t (its.foldl linkStep acc).tripToVeh
      = (its.reverse.findSome? (linkOfTrip t)).or (alookup t acc.tripToVeh) := by
  induction its generalizing acc with
  | nil => simp
  | cons it r ih =>
    simp only [List.foldl_cons, List.reverse_cons, List.findSome?_append, List.findSome?_cons, List.findSome?_nil]
    rw [ih, linkStep_t2v, ← Option.or_assoc]
    congr 1
    cases linkOfTrip t it <;> simp

theorem foldl_linkStep_v2t (its : List (VehData × Option TripID)) (acc : Acc) (vid : VehicleID) :
    alookup vid (its.foldl linkStep acc).vehToTrip
      = (its.reverse.findSome? (linkOfVeh vid)).or (alookup vid acc.vehToTrip) := by
  induction its generalizing acc with
  | nil => simp
  | cons it r ih =>
    simp only [List.foldl_cons, List.reverse_cons, List.findSome?_append, List.findSome?_cons, List.findSome?_nil]
    rw [ih, linkStep_v2t, ← Option.or_assoc]
    congr 1
    cases linkOfVeh vid it <;> simp

/-- the id-less items -/
def idless (its : List (VehData × Option TripID)) : List (VehData × Option TripID) :=
  its.filter fun it => it.1.id.isNone

/-- the positional link an id-less item (with its position) gives rise to -/
def linkIdx (p : (VehData × Option TripID) × Nat) : Option (TripID × Nat) := p.1.2.map fun t => (t, p.2)

theorem foldl_linkStep_noId (its : List (VehData × Option TripID)) (acc : Acc) :
    (its.foldl linkStep acc).noId = acc.noId ++ (idless its).map (·.1) ∧
    (its.foldl linkStep acc).noIdLinks = acc.noIdLinks ++ ((idless its).zipIdx acc.noId.length).filterMap linkIdx := by
  induction its generalizing acc with
  | nil => simp [idless]
  | cons it r ih =>
    simp only [List.foldl_cons]
    rw [(ih _).1, (ih _).2]
    unfold linkStep idless
    cases hid : it.1.id with
    | some vid => cases ht : it.2 <;> simp [List.filter_cons, hid]
    | none =>
      cases ht : it.2 with
      | none => simp [List.filter_cons, hid, linkIdx, ht, List.length_append]
      | some t => simp [List.filter_cons, hid, linkIdx, ht, List.length_append]

end Gtfs.Rt
