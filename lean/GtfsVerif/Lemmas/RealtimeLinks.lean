import GtfsVerif.Lemmas.RealtimeVeh
/-! # The association tables as folds over the vehicle items of the message

An entity that describes a vehicle (a vehicle position, or a trip update carrying a vehicle
descriptor) contributes one *vehicle item*: the vehicle's data and the trip the same entity
associates it with, if any. The four link tables of the merge loop (`tripToVeh`, `vehToTrip`, `noId`,
`noIdLinks`) are a fold over these items, and link resolution has a closed form in terms of them. -/
namespace Gtfs.Rt

/-- the vehicle one entity describes, with the trip it associates it with -/
def vehItem (ext : Ext) (e : Entity) : Option (VehData × Option TripID) :=
  match e.tripUpdate with
  | some tu => match parseTripUpdate ext tu with
    | some r => r.2.map fun v => (v, some r.1.id)
    | none => none
  | none =>
    match e.vehicle with
    | some vp => some ((parseVehicle vp).2, (parseVehicle vp).1.map (·.id))
    | none => none

/-- what one vehicle item does to the link tables -/
def linkStep (acc : Acc) (it : VehData × Option TripID) : Acc :=
  match it.1.id with
  | some vid =>
    match it.2 with
    | some t => { acc with tripToVeh := aset t vid acc.tripToVeh, vehToTrip := aset vid t acc.vehToTrip }
    | none => acc
  | none =>
    match it.2 with
    | some t => { acc with noId := acc.noId ++ [it.1], noIdLinks := acc.noIdLinks ++ [(t, acc.noId.length)] }
    | none => { acc with noId := acc.noId ++ [it.1] }

/-- the link-relevant part of the state -/
def LinkEq (a b : Acc) : Prop :=
  a.tripToVeh = b.tripToVeh ∧ a.vehToTrip = b.vehToTrip ∧ a.noId = b.noId ∧ a.noIdLinks = b.noIdLinks

theorem LinkEq.rfl' (a : Acc) : LinkEq a a := ⟨rfl, rfl, rfl, rfl⟩

theorem foldl_addTrip_links (ts : List TripData) (acc : Acc) : LinkEq (ts.foldl addTrip acc) acc := by
  induction ts generalizing acc with
  | nil => exact LinkEq.rfl' _
  | cons t r ih =>
    simp only [List.foldl_cons]
    obtain ⟨h1, h2, h3, h4⟩ := ih (addTrip acc t)
    exact ⟨h1, h2, h3, h4⟩

theorem entityStep_links (ext : Ext) (acc : Acc) (e : Entity) :
    LinkEq (entityStep ext acc e) (match vehItem ext e with | some it => linkStep acc it | none => acc) := by
  unfold entityStep vehItem
  cases htu : e.tripUpdate with
  | some tu =>
    simp only
    cases hp : parseTripUpdate ext tu with
    | none => exact LinkEq.rfl' _
    | some r =>
      obtain ⟨t, ov⟩ := r
      cases ov with
      | none => simp [LinkEq, addTrip]
      | some v => cases hv : v.id <;> simp [LinkEq, linkStep, addTrip, hv]
  | none =>
    simp only
    cases hvp : e.vehicle with
    | some vp =>
      simp only
      cases ht : (parseVehicle vp).1 with
      | none => cases hv : (parseVehicle vp).2.id <;> simp [LinkEq, linkStep, hv]
      | some t => cases hv : (parseVehicle vp).2.id <;> simp [LinkEq, linkStep, addTrip, hv]
    | none =>
      simp only
      cases ha : e.alert with
      | none => exact LinkEq.rfl' _
      | some a =>
        simp only
        have h := foldl_addTrip_links ((parseAlert e.id a).2.map fun t => { id := t, inMessage := false })
          { acc with alerts := acc.alerts ++ [(parseAlert e.id a).1] }
        rw [List.foldl_map] at h
        obtain ⟨h1, h2, h3, h4⟩ := h
        exact ⟨h1, h2, h3, h4⟩


theorem linkStep_congr (a b : Acc) (it : VehData × Option TripID) (h : LinkEq a b) : LinkEq (linkStep a it) (linkStep b it) := by
  obtain ⟨h1, h2, h3, h4⟩ := h
  unfold linkStep
  cases it.1.id <;> cases it.2 <;> simp [LinkEq, h1, h2, h3, h4]

theorem foldl_linkStep_congr (its : List (VehData × Option TripID)) (a b : Acc) (h : LinkEq a b) :
    LinkEq (its.foldl linkStep a) (its.foldl linkStep b) := by
  induction its generalizing a b with
  | nil => exact h
  | cons it r ih => simp only [List.foldl_cons]; exact ih _ _ (linkStep_congr a b it h)

/-- all vehicle items of a (pre-processed) message, in feed order -/
def allItems (ext : Ext) (es : List (Entity × Bool)) : List (VehData × Option TripID) :=
  (es.filter fun p => !p.2).filterMap fun p => vehItem ext p.1

/-- the link tables after the merge loop are the fold of `linkStep` over all vehicle items -/
theorem runEntities_links (ext : Ext) (es : List (Entity × Bool)) :
    LinkEq (runEntities ext es) ((allItems ext es).foldl linkStep {}) := by
  unfold runEntities allItems
  suffices H : ∀ acc : Acc,
      LinkEq (es.foldl (fun acc p => if p.2 then acc else entityStep ext acc p.1) acc)
        (((es.filter fun p => !p.2).filterMap fun p => vehItem ext p.1).foldl linkStep acc) from H {}
  induction es with
  | nil => intro acc; exact LinkEq.rfl' _
  | cons p r ih =>
    intro acc
    simp only [List.foldl_cons]
    cases hp : p.2
    · simp only [Bool.false_eq_true, if_false, List.filter_cons, hp, Bool.not_false, if_true, List.filterMap_cons]
      have h1 := ih (entityStep ext acc p.1)
      have h2 := entityStep_links ext acc p.1
      cases hit : vehItem ext p.1 with
      | none =>
        simp only [hit] at h2 ⊢
        obtain ⟨a1, a2, a3, a4⟩ := h1
        obtain ⟨b1, b2, b3, b4⟩ := foldl_linkStep_congr ((r.filter fun p => !p.2).filterMap fun p => vehItem ext p.1) _ _ h2
        exact ⟨a1.trans b1, a2.trans b2, a3.trans b3, a4.trans b4⟩
      | some it =>
        simp only [hit, List.foldl_cons] at h2 ⊢
        obtain ⟨a1, a2, a3, a4⟩ := h1
        obtain ⟨b1, b2, b3, b4⟩ := foldl_linkStep_congr ((r.filter fun p => !p.2).filterMap fun p => vehItem ext p.1) _ _ h2
        exact ⟨a1.trans b1, a2.trans b2, a3.trans b3, a4.trans b4⟩
    · simp only [if_true, List.filter_cons, hp, Bool.not_true, Bool.false_eq_true, if_false]
      exact ih acc

/-! ### closed forms of the fold -/

/-- the vehicle id through which item `it` links trip `t` -/
def linkOfTrip (t : TripID) (it : VehData × Option TripID) : Option VehicleID :=
  if it.2 = some t then it.1.id else none

/-- the trip to which item `it` links the identified vehicle `vid` -/
def linkOfVeh (vid : VehicleID) (it : VehData × Option TripID) : Option TripID :=
  if it.1.id = some vid then it.2 else none

theorem linkStep_t2v (acc : Acc) (it : VehData × Option TripID) (t : TripID) :
    alookup t (linkStep acc it).tripToVeh = (linkOfTrip t it).or (alookup t acc.tripToVeh) := by
  unfold linkStep linkOfTrip
  cases hid : it.1.id with
  | none => cases ht : it.2 <;> simp
  | some vid =>
    cases ht : it.2 with
    | none => simp
    | some t' =>
      by_cases h : t' = t
      · subst h; simp [alookup_aset_same]
      · simp only [Option.some.injEq, h, if_false, Option.none_or]
        exact alookup_aset_other _ _ _ _ h

theorem linkStep_v2t (acc : Acc) (it : VehData × Option TripID) (vid : VehicleID) :
    alookup vid (linkStep acc it).vehToTrip = (linkOfVeh vid it).or (alookup vid acc.vehToTrip) := by
  unfold linkStep linkOfVeh
  cases hid : it.1.id with
  | none => cases ht : it.2 <;> simp
  | some v' =>
    cases ht : it.2 with
    | none => by_cases h : v' = vid <;> simp [h]
    | some t =>
      by_cases h : v' = vid
      · subst h; simp [alookup_aset_same]
      · simp only [Option.some.injEq, h, if_false, Option.none_or]
        exact alookup_aset_other _ _ _ _ h

theorem foldl_linkStep_t2v (its : List (VehData × Option TripID)) (acc : Acc) (t : TripID) :
    alookup t (its.foldl linkStep acc).tripToVeh
      = (its.reverse.findSome? (linkOfTrip t)).or (alookup t acc.tripToVeh) := by
  induction its generalizing acc with
  | nil => simp
  | cons it r ih =>
    simp only [List.foldl_cons, List.reverse_cons, List.findSome?_append, List.findSome?_cons, List.findSome?_nil]
    rw [ih, linkStep_t2v, ← Option.or_assoc]
    congr 1
    cases linkOfTrip t it <;> simp

theorem foldl_linkStep_v2t (its : List (VehData × Option TripID)) (acc : Acc) (vid : VehicleID) :
    alookup vid (its.foldl linkStep acc).vehToTrip
      = (its.reverse.findSome? (linkOfVeh vid)).or (alookup vid acc.vehToTrip) := by
  induction its generalizing acc with
  | nil => simp
  | cons it r ih =>
    simp only [List.foldl_cons, List.reverse_cons, List.findSome?_append, List.findSome?_cons, List.findSome?_nil]
    rw [ih, linkStep_v2t, ← Option.or_assoc]
    congr 1
    cases linkOfVeh vid it <;> simp

/-- the id-less items -/
def idless (its : List (VehData × Option TripID)) : List (VehData × Option TripID) :=
  its.filter fun it => it.1.id.isNone

/-- the positional link an id-less item (with its position) gives rise to -/
def linkIdx (p : (VehData × Option TripID) × Nat) : Option (TripID × Nat) := p.1.2.map fun t => (t, p.2)

theorem foldl_linkStep_noId (its : List (VehData × Option TripID)) (acc : Acc) :
    (its.foldl linkStep acc).noId = acc.noId ++ (idless its).map (·.1) ∧
    (its.foldl linkStep acc).noIdLinks = acc.noIdLinks ++ ((idless its).zipIdx acc.noId.length).filterMap linkIdx := by
  induction its generalizing acc with
  | nil => simp [idless]
  | cons it r ih =>
    simp only [List.foldl_cons]
    rw [(ih _).1, (ih _).2]
    unfold linkStep idless
    cases hid : it.1.id with
    | some vid => cases ht : it.2 <;> simp [List.filter_cons, hid]
    | none =>
      cases ht : it.2 with
      | none => simp [List.filter_cons, hid, linkIdx, ht, List.length_append]
      | some t => simp [List.filter_cons, hid, linkIdx, ht, List.length_append]

/-! ### link resolution in terms of the items -/

theorem filterMap_linkIdx_filter_trip (Z : List ((VehData × Option TripID) × Nat)) (t : TripID) :
    (Z.filterMap linkIdx).filter (fun p => p.1 == t)
      = (Z.filter fun p => p.1.2 == some t).map fun p => (t, p.2) := by
  induction Z with
  | nil => rfl
  | cons z r ih =>
    cases hz : z.1.2 with
    | none => simp [List.filterMap_cons, linkIdx, hz, List.filter_cons, ih]
    | some t' =>
      by_cases h : t' = t
      · subst h; simp [List.filterMap_cons, linkIdx, hz, List.filter_cons, ih]
      · simp [List.filterMap_cons, linkIdx, hz, List.filter_cons, ih, h]

theorem filterMap_linkIdx_filter_idx (Z : List ((VehData × Option TripID) × Nat)) (i : Nat) :
    (Z.filterMap linkIdx).filter (fun p => p.2 == i) = (Z.filter fun p => p.2 == i).filterMap linkIdx := by
  induction Z with
  | nil => rfl
  | cons z r ih =>
    cases hz : z.1.2 with
    | none => by_cases h : z.2 = i <;> simp [List.filterMap_cons, linkIdx, hz, List.filter_cons, ih, h]
    | some t' => by_cases h : z.2 = i <;> simp [List.filterMap_cons, linkIdx, hz, List.filter_cons, ih, h]

theorem zipIdx_filter_idx {α} (l : List α) (n i : Nat) :
    (l.zipIdx n).filter (fun p => p.2 == i) = if n ≤ i then (l[i - n]?).toList.map (fun x => (x, i)) else [] := by
  induction l generalizing n with
  | nil => simp
  | cons x r ih =>
    simp only [List.zipIdx_cons, List.filter_cons]
    by_cases h : n = i
    · subst h
      simp only [beq_self_eq_true, if_true, Nat.le_refl, Nat.sub_self, List.getElem?_cons_zero, Option.toList_some, List.map_cons, List.map_nil]
      rw [ih]
      have : ¬ n + 1 ≤ n := by omega
      simp [this]
    · have hb : (n == i) = false := by simpa using h
      simp only [hb, Bool.false_eq_true, if_false]
      rw [ih]
      by_cases hle : n + 1 ≤ i
      · have hle' : n ≤ i := by omega
        have : i - n = (i - (n + 1)) + 1 := by omega
        simp only [hle, hle', if_true, this, List.getElem?_cons_succ]
      · have hle' : ¬ n ≤ i := by omega
        simp [hle, hle']

/-- the state reached from the empty one: positional links are the id-less items' own trips -/
theorem tripOfNoId_items (its : List (VehData × Option TripID)) (i : Nat) :
    tripOfNoId (its.foldl linkStep {}) i = (idless its)[i]?.bind (·.2) := by
  unfold tripOfNoId
  have h := (foldl_linkStep_noId its {}).2
  simp only [List.nil_append] at h
  have h0 : ({} : Acc).noId.length = 0 := rfl
  rw [h, h0, filterMap_linkIdx_filter_idx, zipIdx_filter_idx]
  simp only [Nat.zero_le, if_true, Nat.sub_zero]
  cases hi : (idless its)[i]? with
  | none => rfl
  | some it => cases ht : it.2 <;> simp [linkIdx, ht]

theorem noId_items (its : List (VehData × Option TripID)) :
    (its.foldl linkStep {}).noId = (idless its).map (·.1) := by
  have h := (foldl_linkStep_noId its {}).1
  simpa using h

/-- the id-less vehicle a trip's (last) positional link leads to -/
theorem noIdLink_items (its : List (VehData × Option TripID)) (t : TripID) :
    ((noIdLinkOf (its.foldl linkStep {}) t).bind fun i => (its.foldl linkStep {}).noId[i]?)
      = (((idless its).filter fun it => it.2 == some t).getLast?).map (·.1) := by
  unfold noIdLinkOf
  have h := (foldl_linkStep_noId its {}).2
  simp only [List.nil_append] at h
  have h0 : ({} : Acc).noId.length = 0 := rfl
  rw [h, h0, noId_items, filterMap_linkIdx_filter_trip, List.getLast?_map]
  simp only [Option.map_map]
  -- the zipped list filtered on the item, projected back, is the filtered list
  have hfst : (((idless its).zipIdx 0).filter fun p => p.1.2 == some t).map (·.1)
      = (idless its).filter fun it => it.2 == some t := by
    have := List.filter_map (f := fun p : (VehData × Option TripID) × Nat => p.1) (p := fun it : VehData × Option TripID => it.2 == some t)
      (l := (idless its).zipIdx 0)
    rw [List.zipIdx_map_fst] at this
    rw [this]; rfl
  rw [← hfst, List.getLast?_map]
  cases hl : (((idless its).zipIdx 0).filter fun p => p.1.2 == some t).getLast? with
  | none => rfl
  | some p =>
    have hmem : p ∈ (idless its).zipIdx 0 := (List.mem_filter.mp (List.mem_of_getLast? hl)).1
    have hget : (idless its)[p.2]? = some p.1 := List.mem_zipIdx_iff_getElem?.mp hmem
    simp [List.getElem?_map, hget]

/-! ### link resolution of the merge loop's final state -/

theorem tripVehicle_congr (a b : Acc) (h : LinkEq a b) (hv : a.vehicles = b.vehicles) (t : TripID) :
    tripVehicle a t = tripVehicle b t := by
  obtain ⟨h1, _, h3, h4⟩ := h
  simp only [tripVehicle, noIdLinkOf, h1, h3, h4, hv]

theorem tripOfNoId_congr (a b : Acc) (h : LinkEq a b) (i : Nat) : tripOfNoId a i = tripOfNoId b i := by
  simp only [tripOfNoId, h.2.2.2]

/-- **what a trip's vehicle reference reaches**: the entry of the identified vehicle the (last)
    item links the trip to, otherwise the id-less vehicle of the trip's (last) id-less item -/
theorem tripVehicle_items (ext : Ext) (es : List (Entity × Bool)) (t : TripID) :
    tripVehicle (runEntities ext es) t =
      match (allItems ext es).reverse.findSome? (linkOfTrip t) with
      | some vid => alookup vid (runEntities ext es).vehicles
      | none => (((idless (allItems ext es)).filter fun it => it.2 == some t).getLast?).map (·.1) := by
  have hl := runEntities_links ext es
  have h1 : alookup t (runEntities ext es).tripToVeh = (allItems ext es).reverse.findSome? (linkOfTrip t) := by
    rw [hl.1, foldl_linkStep_t2v]; simp [alookup]
  unfold tripVehicle
  rw [h1]
  cases (allItems ext es).reverse.findSome? (linkOfTrip t) with
  | some vid => rfl
  | none =>
    simp only
    have := noIdLink_items (allItems ext es) t
    rw [← this]
    simp only [noIdLinkOf, hl.2.2.1, hl.2.2.2]

/-- the trip an identified vehicle's reference names -/
theorem vehToTrip_items (ext : Ext) (es : List (Entity × Bool)) (vid : VehicleID) :
    alookup vid (runEntities ext es).vehToTrip = (allItems ext es).reverse.findSome? (linkOfVeh vid) := by
  rw [(runEntities_links ext es).2.1, foldl_linkStep_v2t]; simp [alookup]

/-- the id-less vehicles of the result, with the trips their references name: one per id-less item,
    in feed order, each with its own entity's trip -/
theorem noId_out_items (ext : Ext) (es : List (Entity × Bool)) :
    ((runEntities ext es).noId.mapIdx fun i v =>
        ({ data := v, trip := (tripOfNoId (runEntities ext es) i).bind fun t => alookup t (runEntities ext es).trips } : VehicleOut))
      = (idless (allItems ext es)).map fun it =>
          ({ data := it.1, trip := it.2.bind fun t => alookup t (runEntities ext es).trips } : VehicleOut) := by
  have hl := runEntities_links ext es
  apply List.ext_getElem?
  intro i
  rw [List.getElem?_mapIdx, List.getElem?_map, hl.2.2.1, noId_items, List.getElem?_map]
  rw [tripOfNoId_congr _ _ hl, tripOfNoId_items]
  cases (idless (allItems ext es))[i]? with
  | none => rfl
  | some it => simp

/-! ### permutations -/

theorem findSome?_perm_of_const {α β} (f : α → Option β) (l l' : List α) (hp : l'.Perm l)
    (hc : ∀ a ∈ l, ∀ b ∈ l, ∀ x y, f a = some x → f b = some y → x = y) :
    l'.findSome? f = l.findSome? f := by
  cases h : l.findSome? f with
  | none =>
    rw [List.findSome?_eq_none_iff] at h ⊢
    intro x hx; exact h x (hp.subset hx)
  | some x =>
    obtain ⟨a, ha, hfa⟩ := List.exists_of_findSome?_eq_some h
    have hsome : (l'.findSome? f).isSome := by
      rw [List.findSome?_isSome_iff]; exact ⟨a, hp.symm.subset ha, by simp [hfa]⟩
    cases h' : l'.findSome? f with
    | none => simp [h'] at hsome
    | some y =>
      obtain ⟨b, hb, hfb⟩ := List.exists_of_findSome?_eq_some h'
      rw [hc a ha b (hp.subset hb) x y hfa hfb]

theorem perm_eq_of_length_le_one {α} (l l' : List α) (hp : l'.Perm l) (h : l.length ≤ 1) : l' = l := by
  match l, l', hp, h with
  | [], l', hp, _ => exact List.Perm.eq_nil hp
  | [a], l', hp, _ => exact List.perm_singleton.mp hp
  | _ :: _ :: _, _, _, h => simp at h

/-- **without conflicting associations**: all items that associate a trip name the same vehicle (the
    same identifier, or one single id-less vehicle), and all items of one identified vehicle that
    associate it name the same trip -/
def FunctionalLinks (its : List (VehData × Option TripID)) : Prop :=
  (∀ t, ∀ a ∈ its, ∀ b ∈ its, ∀ x y, linkOfTrip t a = some x → linkOfTrip t b = some y → x = y) ∧
  (∀ t, ((idless its).filter fun it => it.2 == some t).length ≤ 1) ∧
  (∀ vid, ∀ a ∈ its, ∀ b ∈ its, ∀ x y, linkOfVeh vid a = some x → linkOfVeh vid b = some y → x = y)

theorem allItems_perm (ext : Ext) (es es' : List (Entity × Bool)) (hp : es'.Perm es) :
    (allItems ext es').Perm (allItems ext es) := (hp.filter _).filterMap _

theorem findSome?_of_mem_const {α β} (f : α → Option β) (l : List α) (a : α) (x : β) (ha : a ∈ l) (hfa : f a = some x)
    (hc : ∀ a ∈ l, ∀ b ∈ l, ∀ x y, f a = some x → f b = some y → x = y) : l.findSome? f = some x := by
  have hsome : (l.findSome? f).isSome := by
    rw [List.findSome?_isSome_iff]; exact ⟨a, ha, by simp [hfa]⟩
  cases h : l.findSome? f with
  | none => simp [h] at hsome
  | some y =>
    obtain ⟨b, hb, hfb⟩ := List.exists_of_findSome?_eq_some h
    rw [hc b hb a ha y x hfb hfa]

theorem eq_singleton_of_mem_of_length_le_one {α} (l : List α) (a : α) (ha : a ∈ l) (h : l.length ≤ 1) : l = [a] := by
  match l, ha, h with
  | [x], ha, _ => simp only [List.mem_singleton] at ha; rw [ha]
  | [], ha, _ => simp at ha
  | _ :: _ :: _, _, h => simp at h

/-- a decidable form of `FunctionalLinks` -/
def functionalLinksB (its : List (VehData × Option TripID)) : Bool :=
  (its.all fun a => its.all fun b =>
    (a.2 != b.2 || a.2.isNone || a.1.id.isNone || b.1.id.isNone || a.1.id == b.1.id) &&
    (a.1.id != b.1.id || a.1.id.isNone || a.2.isNone || b.2.isNone || a.2 == b.2)) &&
  (its.all fun a => a.1.id.isSome || a.2.isNone || decide (((idless its).filter fun it => it.2 == a.2).length ≤ 1))

theorem functionalLinks_of_B (its : List (VehData × Option TripID)) (h : functionalLinksB its = true) : FunctionalLinks its := by
  simp only [functionalLinksB, Bool.and_eq_true, List.all_eq_true, Bool.or_eq_true, bne_iff_ne, ne_eq,
    Option.isNone_iff_eq_none, beq_iff_eq, Option.isSome_iff_ne_none, decide_eq_true_eq] at h
  obtain ⟨hpair, hidl⟩ := h
  refine ⟨?_, ?_, ?_⟩
  · intro t a ha b hb x y hx hy
    unfold linkOfTrip at hx hy
    split at hx
    · next h1 =>
      split at hy
      · next h2 =>
        have := (hpair a ha b hb).1
        rcases this with ((((h | h) | h) | h) | h)
        · exact absurd (h1.trans h2.symm) h
        · rw [h1] at h; cases h
        · rw [hx] at h; cases h
        · rw [hy] at h; cases h
        · rw [hx, hy] at h; exact Option.some.inj h
      · cases hy
    · cases hx
  · intro t
    by_cases hne : ((idless its).filter fun it => it.2 == some t) = []
    · rw [hne]; simp
    · obtain ⟨a, ha⟩ := List.exists_mem_of_ne_nil _ hne
      have ha1 := List.mem_filter.mp ha
      have ha2 := List.mem_filter.mp ha1.1
      have hat : a.2 = some t := by simpa using ha1.2
      have hid : a.1.id = none := by simpa using ha2.2
      rcases hidl a ha2.1 with ((h | h) | h)
      · exact absurd hid h
      · rw [hat] at h; cases h
      · rw [hat] at h; exact h
  · intro vid a ha b hb x y hx hy
    unfold linkOfVeh at hx hy
    split at hx
    · next h1 =>
      split at hy
      · next h2 =>
        have := (hpair a ha b hb).2
        rcases this with ((((h | h) | h) | h) | h)
        · exact absurd (h1.trans h2.symm) h
        · rw [h1] at h; cases h
        · rw [hx] at h; cases h
        · rw [hy] at h; cases h
        · rw [hx, hy] at h; exact Option.some.inj h
      · cases hy
    · cases hx

end Gtfs.Rt
