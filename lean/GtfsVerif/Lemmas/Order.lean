import GtfsVerif.Model.Basic
/-! Strict total orders given by Boolean comparison functions, and their lexicographic product
    (used for `TripID.Less` and the vehicle-id order, C07). -/
namespace Gtfs

structure STO {α : Type} (lt : α → α → Bool) : Prop where
  irrefl : ∀ a, lt a a = false
  trans : ∀ a b c, lt a b = true → lt b c = true → lt a c = true
  tri : ∀ a b, lt a b = true ∨ a = b ∨ lt b a = true

theorem STO.asymm {α} {lt : α → α → Bool} (h : STO lt) {a b : α} (hab : lt a b = true) : lt b a = false := by
  cases hba : lt b a with
  | false => rfl
  | true => have := h.trans a b a hab hba; rw [h.irrefl] at this; exact absurd this (by decide)

/-- compare the first components; if they are equal compare the second -/
def lexLt {α β : Type} [DecidableEq α] (lt1 : α → α → Bool) (lt2 : β → β → Bool) (x y : α × β) : Bool :=
  if x.1 ≠ y.1 then lt1 x.1 y.1 else lt2 x.2 y.2

theorem STO.lex {α β : Type} [DecidableEq α] {lt1 : α → α → Bool} {lt2 : β → β → Bool} (h1 : STO lt1) (h2 : STO lt2) :
    STO (lexLt lt1 lt2) where
  irrefl a := by simp [lexLt, h2.irrefl]
  trans a b c hab hbc := by
    obtain ⟨a1, a2⟩ := a; obtain ⟨b1, b2⟩ := b; obtain ⟨c1, c2⟩ := c
    simp only [lexLt] at *
    by_cases e1 : a1 = b1
    · subst e1
      by_cases e2 : a1 = c1
      · subst e2; simp only [ne_eq, not_true_eq_false, if_false] at *; exact h2.trans _ _ _ hab hbc
      · simp only [ne_eq, not_true_eq_false, if_false, e2, not_false_eq_true, if_true] at *; exact hbc
    · by_cases e2 : b1 = c1
      · subst e2; simp only [ne_eq, e1, not_false_eq_true, if_true, not_true_eq_false, if_false] at *; exact hab
      · simp only [ne_eq, e1, e2, not_false_eq_true, if_true] at hab hbc
        have hac := h1.trans _ _ _ hab hbc
        have : a1 ≠ c1 := by intro e; subst e; rw [h1.asymm hab] at hbc; exact absurd hbc (by decide)
        simp [this, hac]
  tri a b := by
    obtain ⟨a1, a2⟩ := a; obtain ⟨b1, b2⟩ := b
    simp only [lexLt]
    by_cases e1 : a1 = b1
    · subst e1
      simp only [ne_eq, not_true_eq_false, if_false]
      rcases h2.tri a2 b2 with h | h | h
      · exact Or.inl h
      · exact Or.inr (Or.inl (by rw [h]))
      · exact Or.inr (Or.inr h)
    · have e1' : ¬ b1 = a1 := fun e => e1 e.symm
      simp only [ne_eq, e1, e1', not_false_eq_true, if_true]
      rcases h1.tri a1 b1 with h | h | h
      · exact Or.inl h
      · exact absurd h e1
      · exact Or.inr (Or.inr h)

theorem sto_strLt : STO strLt :=
  ⟨strLt_irrefl, fun _ _ _ => strLt_trans, strLt_trichotomy⟩

def intLt (a b : Int) : Bool := decide (a < b)
theorem sto_intLt : STO intLt :=
  ⟨by intro a; simp [intLt], by intro a b c; simp only [intLt, decide_eq_true_eq]; omega,
   by intro a b; simp only [intLt, decide_eq_true_eq]; omega⟩

def boolLt (a b : Bool) : Bool := !a && b
theorem sto_boolLt : STO boolLt :=
  ⟨by intro a; cases a <;> rfl, by intro a b c; cases a <;> cases b <;> cases c <;> simp [boolLt],
   by intro a b; cases a <;> cases b <;> simp [boolLt]⟩

/-- transport along a key function: `lt (key a) (key b)` is a strict weak order on `α` whose
    incomparability is "same key" -/
theorem STO.le_trans_key {α κ : Type} {lt : κ → κ → Bool} (h : STO lt) (key : α → κ) (a b c : α)
    (h1 : (!lt (key b) (key a)) = true) (h2 : (!lt (key c) (key b)) = true) : (!lt (key c) (key a)) = true := by
  simp only [Bool.not_eq_true'] at *
  rcases h.tri (key a) (key b) with hab | hab | hab
  · rcases h.tri (key b) (key c) with hbc | hbc | hbc
    · exact h.asymm (h.trans _ _ _ hab hbc)
    · rw [← hbc]; exact h.asymm hab
    · rw [hbc] at h2; exact absurd h2 (by decide)
  · rw [hab]; exact h2
  · rw [hab] at h1; exact absurd h1 (by decide)

theorem STO.le_total_key {α κ : Type} {lt : κ → κ → Bool} (h : STO lt) (key : α → κ) (a b : α) :
    ((!lt (key b) (key a)) || (!lt (key a) (key b))) = true := by
  cases hab : lt (key a) (key b) with
  | false => simp
  | true => simp [h.asymm hab]

end Gtfs
