import GtfsVerif.Model.Basic
/-! Facts about association lists (`alookup` / `aset`). -/
namespace Gtfs


theorem mem_aset {κ α} [BEq κ] [LawfulBEq κ] (k : κ) (v : α) (m : List (κ × α)) (p : κ × α) (h : p ∈ aset k v m) :
    p = (k, v) ∨ p ∈ m := by
  induction m with
  | nil => simp [aset] at h; exact Or.inl h
  | cons q r ih =>
    obtain ⟨k', v'⟩ := q
    by_cases hk : k' == k
    · have : k' = k := by simpa using hk
      subst this
      simp only [aset, hk, if_true, List.mem_cons] at h
      rcases h with h | h
      · exact Or.inl h
      · exact Or.inr (by simp [h])
    · simp only [aset, hk, Bool.false_eq_true, if_false, List.mem_cons] at h
      rcases h with h | h
      · exact Or.inr (by simp [h])
      · rcases ih h with h | h
        · exact Or.inl h
        · exact Or.inr (by simp [h])

theorem nodup_akeys_aset' {κ α} [BEq κ] [LawfulBEq κ] (k : κ) (v : α) (m : List (κ × α)) (h : (akeys m).Nodup) :
    (akeys (aset k v m)).Nodup := by
  rw [akeys_aset]
  split
  · exact h
  · rename_i hk
    rw [List.nodup_append]
    refine ⟨h, by simp, ?_⟩
    intro a ha b hb
    simp only [List.mem_singleton] at hb
    subst hb
    intro hab; subst hab; exact hk ha


end Gtfs
