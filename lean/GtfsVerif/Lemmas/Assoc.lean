import GtfsVerif.Model.Basic
/-! Facts about association lists (`alookup` / `aset`). -/
namespace Gtfs


theorem mem_aset {κ α} [BEq κ] [LawfulBEq κ] (k : κ) (v : α) (m : List (κ × α)) (p : κ × α) (h : p ∈ aset k v m) :
    p = (k, v) ∨ p ∈ m := by
  induction m with
  | nil => simp [aset] at h; exact Or.inl h
  | cons q r ih =>
    obtain ⟨k', v'⟩ := q
    by_cases hk : k' == k
    · have : k' = k := by simpa using hk
      subst this
      simp only [aset, hk, if_true, List.mem_cons] at h
      rcases h with h | h
      · exact Or.inl h
      · exact Or.inr (by simp [h])
    · simp only [aset, hk, Bool.false_eq_true, if_false, List.mem_cons] at h
      rcases h with h | h
      · exact Or.inr (by simp [h])
      · rcases ih h with h | h
        · exact Or.inl h
        · exact Or.inr (by simp [h])

theorem nodup_akeys_aset' {κ α} [BEq κ] [LawfulBEq κ] (k : κ) (v : α) (m : List (κ × α)) (h : (akeys m).Nodup) :
    (akeys (aset k v m)).Nodup := by
  rw [akeys_aset]
  split
  · exact h
  · rename_i hk
    rw [List.nodup_append]
    refine ⟨h, by simp, ?_⟩
    intro a ha b hb
    simp only [List.mem_singleton] at hb
    subst hb
    intro hab; subst hab; exact hk ha


end Gtfs

namespace Gtfs

theorem mem_iff_alookup' {κ α} [BEq κ] [LawfulBEq κ] (m : List (κ × α)) (h : (akeys m).Nodup) (k : κ) (v : α) :
    (k, v) ∈ m ↔ alookup k m = some v := by
  induction m with
  | nil => simp [alookup]
  | cons p r ih =>
    obtain ⟨k', v'⟩ := p
    simp only [akeys, List.map_cons, List.nodup_cons] at h
    by_cases hk : k' == k
    · have hk' : k' = k := by simpa using hk
      subst hk'
      simp only [alookup, hk, if_true, List.mem_cons, Prod.mk.injEq, true_and, Option.some.injEq]
      constructor
      · rintro (h1 | h1)
        · exact h1.symm
        · exact absurd (List.mem_map.mpr ⟨(k', v), h1, rfl⟩) h.1
      · intro h1; exact Or.inl h1.symm
    · have hk' : ¬ k' = k := by simpa using hk
      have hk'' : ¬ k = k' := fun e => hk' e.symm
      simp only [alookup, hk, Bool.false_eq_true, if_false, List.mem_cons, Prod.mk.injEq, hk'', false_and, false_or]
      exact ih h.2

theorem nodup_of_nodup_keys {κ α} (m : List (κ × α)) (h : (akeys m).Nodup) : m.Nodup := by
  induction m with
  | nil => simp
  | cons p r ih =>
    simp only [akeys, List.map_cons, List.nodup_cons] at h ⊢
    exact ⟨fun hp => h.1 (List.mem_map.mpr ⟨p, hp, rfl⟩), ih h.2⟩

/-- two tables with distinct keys and the same lookups hold the same entries -/
theorem perm_of_lookup_eq {κ α} [BEq κ] [LawfulBEq κ] (m m' : List (κ × α)) (h : (akeys m).Nodup) (h' : (akeys m').Nodup)
    (hl : ∀ k, alookup k m = alookup k m') : m.Perm m' := by
  rw [List.perm_ext_iff_of_nodup (nodup_of_nodup_keys m h) (nodup_of_nodup_keys m' h')]
  intro p
  obtain ⟨k, v⟩ := p
  rw [mem_iff_alookup' m h, mem_iff_alookup' m' h', hl]

/-- `find?` of a predicate with at most one witness is invariant under permutation -/
theorem find?_perm_of_atMostOne {α} (p : α → Bool) (l l' : List α) (hp : l'.Perm l) (h1 : (l.filter p).length ≤ 1) :
    l'.find? p = l.find? p := by
  rw [← List.head?_filter, ← List.head?_filter]
  have hperm : (l'.filter p).Perm (l.filter p) := hp.filter p
  have hlen := hperm.length_eq
  cases hl : l.filter p with
  | nil =>
    have : l'.filter p = [] := List.eq_nil_of_length_eq_zero (by rw [hlen, hl]; rfl)
    rw [this]
  | cons a r =>
    have hr : r = [] := by
      rw [hl] at h1
      simp only [List.length_cons] at h1
      exact List.eq_nil_of_length_eq_zero (by omega)
    subst hr
    rw [hl] at hperm
    have := List.perm_singleton.mp hperm
    rw [this]

end Gtfs
