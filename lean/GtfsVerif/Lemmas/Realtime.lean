import GtfsVerif.Model.Realtime
import GtfsVerif.Lemmas.Order
import GtfsVerif.Lemmas.Assoc
/-! Invariants of the merge loop of ParseRealtime (used by C02, C04, C07). -/
namespace Gtfs.Rt

/-! ### `TripID.Less` is a lexicographic comparison of a key -/

def tripKey (t : TripID) :=
  (t.id, (t.route, (t.dir, (t.hasStartTime, ((if t.hasStartTime then t.startTime else 0), (t.hasStartDate,
    ((if t.hasStartDate then t.startDate else 0), t.sr)))))))

def keyLt := lexLt strLt (lexLt strLt (lexLt intLt (lexLt boolLt (lexLt intLt (lexLt boolLt (lexLt intLt intLt))))))

theorem sto_keyLt : STO keyLt :=
  sto_strLt.lex (sto_strLt.lex (sto_intLt.lex (sto_boolLt.lex (sto_intLt.lex (sto_boolLt.lex (sto_intLt.lex sto_intLt))))))

theorem tripLess_eq_key (a b : TripID) : tripLess a b = keyLt (tripKey a) (tripKey b) := by
  obtain ⟨i1, r1, d1, hst1, st1, hsd1, sd1, sr1⟩ := a
  obtain ⟨i2, r2, d2, hst2, st2, hsd2, sd2, sr2⟩ := b
  simp only [tripLess, keyLt, lexLt, tripKey, intLt, boolLt, bne_iff_ne, ne_eq]
  by_cases e1 : i1 = i2 <;> by_cases e2 : r1 = r2 <;> by_cases e3 : d1 = d2 <;> cases hst1 <;> cases hst2 <;>
    cases hsd1 <;> cases hsd2 <;> simp [e1, e2, e3] <;> (try (by_cases e4 : st1 = st2 <;> simp [e4])) <;>
    (try (by_cases e5 : sd1 = sd2 <;> simp [e5]))

/-- ids as the parser produces them: a start time/date is zero unless its has-flag is set -/
def WFId (t : TripID) : Prop := (t.hasStartTime = false → t.startTime = 0) ∧ (t.hasStartDate = false → t.startDate = 0)

theorem tripKey_injective (a b : TripID) (ha : WFId a) (hb : WFId b) (h : tripKey a = tripKey b) : a = b := by
  obtain ⟨i1, r1, d1, hst1, st1, hsd1, sd1, sr1⟩ := a
  obtain ⟨i2, r2, d2, hst2, st2, hsd2, sd2, sr2⟩ := b
  simp only [tripKey, Prod.mk.injEq] at h
  obtain ⟨h1, h2, h3, h4, h5, h6, h7, h8⟩ := h
  simp only [WFId] at ha hb
  subst h1 h2 h3 h4 h6 h8
  cases hst1 <;> cases hsd1 <;> simp_all

theorem parseTripDescriptor_wf (t : TripDesc) : WFId (parseTripDescriptor t) := by
  unfold parseTripDescriptor WFId
  simp only
  constructor
  · intro h
    unfold parseStartTime at h ⊢
    split <;> (try rfl)
    split <;> simp_all
  · intro h
    unfold parseStartDate at h ⊢
    split <;> (try rfl)
    split <;> simp_all

/-! ### the trip table: keys distinct, well-formed, and each entry's id is its key -/

def TripsInv (trips : List (TripID × TripData)) : Prop :=
  (akeys trips).Nodup ∧ ∀ p ∈ trips, p.2.id = p.1 ∧ WFId p.1

theorem mergeTrip_id (cur : Option TripData) (new : TripData) : (mergeTrip cur new).id = new.id := by
  unfold mergeTrip; split <;> rfl

theorem addTrip_inv (acc : Acc) (t : TripData) (h : TripsInv acc.trips) (hw : WFId t.id) : TripsInv (addTrip acc t).trips := by
  unfold addTrip
  refine ⟨nodup_akeys_aset' _ _ _ h.1, ?_⟩
  intro p hp
  rcases mem_aset _ _ _ p hp with rfl | hp
  · exact ⟨mergeTrip_id _ _, hw⟩
  · exact h.2 p hp

theorem addTrip_other (acc : Acc) (t : TripData) :
    (addTrip acc t).vehicles = acc.vehicles ∧ (addTrip acc t).noId = acc.noId ∧ (addTrip acc t).alerts = acc.alerts ∧
    (addTrip acc t).tripToVeh = acc.tripToVeh ∧ (addTrip acc t).vehToTrip = acc.vehToTrip ∧ (addTrip acc t).noIdLinks = acc.noIdLinks := by
  simp [addTrip]

theorem foldl_addTrip_inv (ts : List TripID) (acc : Acc) (h : TripsInv acc.trips) (hw : ∀ t ∈ ts, WFId t) :
    TripsInv (ts.foldl (fun ac t => addTrip ac { id := t, inMessage := false }) acc).trips := by
  induction ts generalizing acc with
  | nil => exact h
  | cons t r ih =>
    simp only [List.foldl_cons]
    exact ih _ (addTrip_inv acc _ h (hw t (by simp))) (fun x hx => hw x (by simp [hx]))

theorem foldl_addTrip_other (ts : List TripID) (acc : Acc) :
    let r := ts.foldl (fun ac t => addTrip ac { id := t, inMessage := false }) acc
    r.vehicles = acc.vehicles ∧ r.noId = acc.noId ∧ r.alerts = acc.alerts := by
  induction ts generalizing acc with
  | nil => simp
  | cons t r ih =>
    simp only [List.foldl_cons]
    have := ih (addTrip acc { id := t, inMessage := false })
    simp only [(addTrip_other acc _).1, (addTrip_other acc _).2.1, (addTrip_other acc _).2.2.1] at this
    exact this

/-- what one selector contributes to the informed entities: nothing if it informs nothing,
    otherwise an entity with exactly its values, the trip id kept only if it identifies a trip -/
def selOut (e : EntitySel) : Option InformedOut :=
  let tid := e.trip.map parseTripDescriptor
  let ie : InformedOut := { agencyId := e.agencyId, routeId := e.routeId, routeType := routeTypeRT e.routeType,
                            dir := dirRT e.directionId, tripId := tid, stopId := e.stopId }
  if !informsSomething ie then none
  else if identifies tid then some ie else some { ie with tripId := none }

/-- the trips a selector adds to the result's Trips -/
def selTrip (e : EntitySel) : Option TripID :=
  let tid := e.trip.map parseTripDescriptor
  let ie : InformedOut := { agencyId := e.agencyId, routeId := e.routeId, routeType := routeTypeRT e.routeType,
                            dir := dirRT e.directionId, tripId := tid, stopId := e.stopId }
  if informsSomething ie && identifies tid then tid else none

theorem alertSelStep_informed (acc : AlertAcc) (e : EntitySel) :
    (alertSelStep acc e).informed = acc.informed ++ (selOut e).toList ∧
    (alertSelStep acc e).trips = acc.trips ++ (selTrip e).toList := by
  unfold alertSelStep selOut selTrip
  cases ht : e.trip <;> cases hr : e.routeId <;> simp only [Option.map] <;>
    split <;> (try split) <;> (try split) <;> simp_all [identifies]

theorem foldl_informed (sels : List EntitySel) (acc : AlertAcc) :
    (sels.foldl alertSelStep acc).informed = acc.informed ++ sels.filterMap selOut ∧
    (sels.foldl alertSelStep acc).trips = acc.trips ++ sels.filterMap selTrip := by
  induction sels generalizing acc with
  | nil => simp
  | cons e r ih =>
    simp only [List.foldl_cons]
    rw [(ih _).1, (ih _).2, (alertSelStep_informed acc e).1, (alertSelStep_informed acc e).2]
    constructor
    · cases h : selOut e <;> simp [List.filterMap_cons, h]
    · cases h : selTrip e <;> simp [List.filterMap_cons, h]


/-- the ids of the trips an alert names are produced by the descriptor parser -/
theorem alert_trips_wf (id : Str) (a : AlertMsg) : ∀ t ∈ (parseAlert id a).2, WFId t := by
  have : (parseAlert id a).2 = a.informed.filterMap selTrip := by
    unfold parseAlert; simp only; rw [(foldl_informed a.informed {}).2]; simp
  rw [this]
  intro t ht
  obtain ⟨e, _, he⟩ := List.mem_filterMap.mp ht
  unfold selTrip at he
  simp only at he
  split at he
  · cases hd : e.trip with
    | none => simp [hd] at he
    | some d => simp only [hd, Option.map_some, Option.some.injEq] at he; subst he; exact parseTripDescriptor_wf d
  · simp at he

end Gtfs.Rt

namespace Gtfs.Rt

/-! ### the vehicle table and the id-less vehicles -/

def VehInv (acc : Acc) : Prop :=
  (akeys acc.vehicles).Nodup ∧ (∀ p ∈ acc.vehicles, p.2.id = some p.1) ∧ (∀ v ∈ acc.noId, v.id = none)

def Inv (acc : Acc) : Prop := TripsInv acc.trips ∧ VehInv acc

theorem mergeVehicle_id (cur : Option VehData) (new : VehData) : (mergeVehicle cur new).id = new.id := by
  unfold mergeVehicle; split <;> rfl

theorem parseTripUpdate_wf (ext : Ext) (tu : TripUpdateMsg) (r : TripData × Option VehData)
    (h : parseTripUpdate ext tu = some r) : WFId r.1.id := by
  unfold parseTripUpdate at h
  cases ht : tu.trip with
  | none => simp [ht] at h
  | some t =>
    simp only [ht] at h
    cases hv : tu.vehicle <;> simp only [hv, Option.some.injEq] at h <;> subst h <;> exact parseTripDescriptor_wf t

theorem parseVehicle_wf (vp : VehiclePosMsg) (t : TripData) (h : (parseVehicle vp).1 = some t) : WFId t.id := by
  unfold parseVehicle at h
  simp only [Option.map_eq_some_iff] at h
  obtain ⟨d, _, rfl⟩ := h
  exact parseTripDescriptor_wf d

/-- adding what one entity contributes in vehicles -/
def addVehicle (acc : Acc) (v : VehData) : Acc :=
  match v.id with
  | some vid => { acc with vehicles := aset vid (mergeVehicle (alookup vid acc.vehicles) v) acc.vehicles }
  | none => { acc with noId := acc.noId ++ [v] }

theorem addVehicle_inv (acc : Acc) (v : VehData) (h : Inv acc) : Inv (addVehicle acc v) := by
  unfold addVehicle
  cases hv : v.id with
  | none =>
    refine ⟨h.1, h.2.1, h.2.2.1, ?_⟩
    intro x hx
    rcases List.mem_append.mp hx with hx | hx
    · exact h.2.2.2 x hx
    · simp only [List.mem_singleton] at hx; subst hx; exact hv
  | some vid =>
    refine ⟨h.1, nodup_akeys_aset' _ _ _ h.2.1, ?_, h.2.2.2⟩
    intro p hp
    rcases mem_aset _ _ _ p hp with rfl | hp
    · simp [mergeVehicle_id, hv]
    · exact h.2.2.1 p hp

/-- `entityStep` in terms of `addTrip` / `addVehicle` on the tables the invariants speak about -/
theorem entityStep_tables (ext : Ext) (acc : Acc) (e : Entity) :
    ∃ (ts : List TripData) (vs : List VehData),
      (∀ t ∈ ts, WFId t.id) ∧
      (entityStep ext acc e).trips = (ts.foldl addTrip acc).trips ∧
      (entityStep ext acc e).vehicles = (vs.foldl addVehicle acc).vehicles ∧
      (entityStep ext acc e).noId = (vs.foldl addVehicle acc).noId := by
  unfold entityStep
  cases htu : e.tripUpdate with
  | some tu =>
    simp only
    cases hp : parseTripUpdate ext tu with
    | none => exact ⟨[], [], by simp, by simp, by simp, by simp⟩
    | some r =>
      obtain ⟨t, ov⟩ := r
      have hw := parseTripUpdate_wf ext tu (t, ov) hp
      cases ov with
      | none => exact ⟨[t], [], by simpa using hw, by simp [addTrip], by simp [addTrip], by simp [addTrip]⟩
      | some v =>
        refine ⟨[t], [v], by simpa using hw, ?_, ?_, ?_⟩ <;>
          (simp only [Option.map_some, List.foldl_cons, List.foldl_nil, addVehicle]
           cases hv : v.id <;> simp [addTrip])
  | none =>
    simp only
    cases hvp : e.vehicle with
    | some vp =>
      simp only
      cases ht : (parseVehicle vp).1 with
      | none =>
        refine ⟨[], [(parseVehicle vp).2], by simp, ?_, ?_, ?_⟩ <;>
          (simp only [ht, List.foldl_cons, List.foldl_nil, addVehicle]
           cases hv : (parseVehicle vp).2.id <;> simp)
      | some t =>
        have hw := parseVehicle_wf vp t ht
        refine ⟨[t], [(parseVehicle vp).2], by simpa using hw, ?_, ?_, ?_⟩ <;>
          (simp only [ht, List.foldl_cons, List.foldl_nil, addVehicle]
           cases hv : (parseVehicle vp).2.id <;> simp [addTrip])
    | none =>
      simp only
      cases ha : e.alert with
      | none => exact ⟨[], [], by simp, by simp, by simp, by simp⟩
      | some a =>
        simp only
        refine ⟨(parseAlert e.id a).2.map (fun t => { id := t, inMessage := false }), [], ?_, ?_, ?_, ?_⟩
        · intro t ht
          obtain ⟨x, hx, rfl⟩ := List.mem_map.mp ht
          exact alert_trips_wf e.id a x hx
        · rw [List.foldl_map]
          have : ∀ (l : List TripID) (a1 a2 : Acc), a1.trips = a2.trips →
              (l.foldl (fun ac t => addTrip ac { id := t, inMessage := false }) a1).trips
                = (l.foldl (fun ac t => addTrip ac { id := t, inMessage := false }) a2).trips := by
            intro l
            induction l with
            | nil => intro a1 a2 h; simpa using h
            | cons x r ih => intro a1 a2 h; simp only [List.foldl_cons]; apply ih; simp [addTrip, h]
          exact this _ _ _ rfl
        · simp only [List.foldl_nil]
          exact (foldl_addTrip_other _ _).1
        · simp only [List.foldl_nil]
          exact (foldl_addTrip_other _ _).2.1

theorem foldl_addTrip_inv' (ts : List TripData) (acc : Acc) (h : Inv acc) (hw : ∀ t ∈ ts, WFId t.id) :
    Inv (ts.foldl addTrip acc) := by
  induction ts generalizing acc with
  | nil => exact h
  | cons t r ih =>
    simp only [List.foldl_cons]
    refine ih _ ⟨addTrip_inv acc t h.1 (hw t (by simp)), ?_⟩ (fun x hx => hw x (by simp [hx]))
    simpa [VehInv, addTrip] using h.2

theorem foldl_addVehicle_inv (vs : List VehData) (acc : Acc) (h : Inv acc) : Inv (vs.foldl addVehicle acc) := by
  induction vs generalizing acc with
  | nil => exact h
  | cons v r ih => simp only [List.foldl_cons]; exact ih _ (addVehicle_inv acc v h)

theorem foldl_addVehicle_trips (vs : List VehData) (acc : Acc) : (vs.foldl addVehicle acc).trips = acc.trips := by
  induction vs generalizing acc with
  | nil => rfl
  | cons v r ih =>
    simp only [List.foldl_cons]; rw [ih]
    unfold addVehicle; cases v.id <;> rfl

theorem foldl_addTrip_veh (ts : List TripData) (acc : Acc) :
    (ts.foldl addTrip acc).vehicles = acc.vehicles ∧ (ts.foldl addTrip acc).noId = acc.noId := by
  induction ts generalizing acc with
  | nil => simp
  | cons t r ih => simp only [List.foldl_cons]; rw [(ih _).1, (ih _).2]; simp [addTrip]

theorem entityStep_inv (ext : Ext) (acc : Acc) (e : Entity) (h : Inv acc) : Inv (entityStep ext acc e) := by
  obtain ⟨ts, vs, hw, h1, h2, h3⟩ := entityStep_tables ext acc e
  have ht := foldl_addTrip_inv' ts acc h hw
  have hv := foldl_addVehicle_inv vs acc h
  refine ⟨?_, ?_⟩
  · rw [h1]; exact ht.1
  · unfold VehInv
    rw [h2, h3]
    exact hv.2

theorem runEntities_inv (ext : Ext) (es : List (Entity × Bool)) : Inv (runEntities ext es) := by
  unfold runEntities
  suffices H : ∀ acc : Acc, Inv acc → Inv (es.foldl (fun acc p => if p.2 then acc else entityStep ext acc p.1) acc) from
    H {} ⟨⟨by simp [akeys], by simp⟩, by simp [akeys], by simp, by simp⟩
  induction es with
  | nil => intro acc h; exact h
  | cons p r ih =>
    intro acc h
    simp only [List.foldl_cons]
    apply ih
    split
    · exact h
    · exact entityStep_inv ext acc p.1 h

end Gtfs.Rt

namespace Gtfs.Rt

/-! ### the trip table as a fold over the mentions of the message -/

/-- the trip mentions one entity contributes, in the order they are merged -/
def tripMentions (ext : Ext) (e : Entity) : List TripData :=
  match e.tripUpdate with
  | some tu => match parseTripUpdate ext tu with
    | some r => [r.1]
    | none => []
  | none =>
    match e.vehicle with
    | some vp => (parseVehicle vp).1.toList
    | none =>
      match e.alert with
      | some a => (parseAlert e.id a).2.map fun t => { id := t, inMessage := false }
      | none => []

theorem foldl_addTrip_trips_congr (ts : List TripData) (a1 a2 : Acc) (h : a1.trips = a2.trips) :
    (ts.foldl addTrip a1).trips = (ts.foldl addTrip a2).trips := by
  induction ts generalizing a1 a2 with
  | nil => simpa using h
  | cons t r ih => simp only [List.foldl_cons]; apply ih; simp [addTrip, h]

theorem entityStep_trips (ext : Ext) (acc : Acc) (e : Entity) :
    (entityStep ext acc e).trips = ((tripMentions ext e).foldl addTrip acc).trips := by
  unfold entityStep tripMentions
  cases htu : e.tripUpdate with
  | some tu =>
    simp only
    cases hp : parseTripUpdate ext tu with
    | none => simp
    | some r =>
      obtain ⟨t, ov⟩ := r
      cases ov with
      | none => simp [addTrip]
      | some v => cases hv : v.id <;> simp [addTrip, hv]
  | none =>
    simp only
    cases hvp : e.vehicle with
    | some vp =>
      simp only
      cases ht : (parseVehicle vp).1 with
      | none => cases hv : (parseVehicle vp).2.id <;> simp [hv]
      | some t => cases hv : (parseVehicle vp).2.id <;> simp [addTrip, hv]
    | none =>
      simp only
      cases ha : e.alert with
      | none => simp
      | some a =>
        simp only
        rw [List.foldl_map]
        have : ∀ (l : List TripID) (a1 a2 : Acc), a1.trips = a2.trips →
            (l.foldl (fun ac t => addTrip ac { id := t, inMessage := false }) a1).trips
              = (l.foldl (fun ac t => addTrip ac { id := t, inMessage := false }) a2).trips := by
          intro l
          induction l with
          | nil => intro a1 a2 h; simpa using h
          | cons x r ih => intro a1 a2 h; simp only [List.foldl_cons]; apply ih; simp [addTrip, h]
        exact this _ _ _ rfl

/-- the trip table after the merge loop is the fold of `addTrip` over all mentions, in feed order -/
theorem runEntities_trips (ext : Ext) (es : List (Entity × Bool)) :
    (runEntities ext es).trips
      = (((es.filter fun p => !p.2).flatMap fun p => tripMentions ext p.1).foldl addTrip {}).trips := by
  unfold runEntities
  suffices H : ∀ acc : Acc, (es.foldl (fun acc p => if p.2 then acc else entityStep ext acc p.1) acc).trips
      = (((es.filter fun p => !p.2).flatMap fun p => tripMentions ext p.1).foldl addTrip acc).trips from H {}
  induction es with
  | nil => intro acc; rfl
  | cons p r ih =>
    intro acc
    simp only [List.foldl_cons]
    rw [ih]
    cases hp : p.2
    · simp only [Bool.false_eq_true, if_false, List.filter_cons, hp, Bool.not_false, if_true, List.flatMap_cons, List.foldl_append]
      exact foldl_addTrip_trips_congr _ _ _ (entityStep_trips ext acc p.1)
    · simp [List.filter_cons, hp]

/-- per-key view of the fold: what the mentions of key `k` do to its entry -/
def mergeAll (cur : Option TripData) (ms : List TripData) : Option TripData :=
  ms.foldl (fun o m => some (mergeTrip o m)) cur

theorem foldl_addTrip_lookup (ms : List TripData) (acc : Acc) (k : TripID) :
    alookup k (ms.foldl addTrip acc).trips = mergeAll (alookup k acc.trips) (ms.filter fun m => m.id == k) := by
  induction ms generalizing acc with
  | nil => rfl
  | cons m r ih =>
    simp only [List.foldl_cons]
    rw [ih]
    by_cases h : m.id == k
    · have hk : m.id = k := by simpa using h
      simp only [List.filter_cons, h, if_true, mergeAll, List.foldl_cons]
      subst hk
      simp [addTrip, alookup_aset_same]
    · have hk : m.id ≠ k := by simpa using h
      simp only [List.filter_cons, h]
      simp only [addTrip]
      rw [alookup_aset_other _ _ _ _ hk]
      rfl

/-- mentions of one trip without conflicting duplicates: at most one carries the trip's own entity -/
def AtMostOneOwn (ms : List TripData) : Prop := (ms.filter (·.inMessage)).length ≤ 1

/-- the result of merging the mentions of one key (from an empty entry) does not depend on their
    order: the own entity's data if there is one, otherwise the bare identifier -/
theorem mergeAll_closed_form (k : TripID) (ms : List TripData) (hk : ∀ m ∈ ms, m.id = k) (hne : ms ≠ [])
    (h1 : AtMostOneOwn ms) :
    mergeAll none ms = some (match ms.find? (·.inMessage) with
                             | some own => own
                             | none => { id := k, inMessage := false }) := by
  -- generalise over the current entry: it is `none`, or bare, or the own entity already seen
  suffices H : ∀ (ms : List TripData) (cur : Option TripData), (∀ m ∈ ms, m.id = k) →
      (cur = none ∨ cur = some { id := k, inMessage := false } ∨
        (∃ own, cur = some own ∧ own.inMessage = true ∧ own.id = k ∧ ms.filter (·.inMessage) = [])) →
      (ms.filter (·.inMessage)).length ≤ 1 → (cur = none → ms ≠ []) →
      mergeAll cur ms = some (match cur with
        | some c => if c.inMessage then c else (match ms.find? (·.inMessage) with | some own => own | none => c)
        | none => (match ms.find? (·.inMessage) with | some own => own | none => { id := k, inMessage := false })) by
    have := H ms none hk (Or.inl rfl) h1 (fun _ => hne)
    simpa using this
  intro ms
  induction ms with
  | nil =>
    intro cur _ hcur _ hne
    rcases hcur with rfl | rfl | ⟨own, rfl, ho, _, _⟩
    · exact absurd rfl (hne rfl)
    · simp [mergeAll]
    · simp [mergeAll, ho]
  | cons m r ih =>
    intro cur hk hcur h1 _
    have hmk : m.id = k := hk m (by simp)
    have hkr : ∀ x ∈ r, x.id = k := fun x hx => hk x (by simp [hx])
    simp only [mergeAll, List.foldl_cons]
    by_cases hm : m.inMessage = true
    · -- the own entity: it replaces whatever is there; nothing in-message may follow
      have hr : r.filter (·.inMessage) = [] := by
        simp only [List.filter_cons, hm, if_true, List.length_cons] at h1
        exact List.eq_nil_of_length_eq_zero (by omega)
      have hnone : r.find? (·.inMessage) = none := by
        rw [List.find?_eq_none]; intro x hx hxi
        have : x ∈ r.filter (·.inMessage) := List.mem_filter.mpr ⟨hx, hxi⟩
        rw [hr] at this; simp at this
      have step : mergeTrip cur m = m := by simp [mergeTrip, hm]
      have := ih (some m) hkr (Or.inr (Or.inr ⟨m, rfl, hm, hmk, hr⟩)) (by simp [hr]) (by simp)
      simp only [mergeAll] at this
      rw [step, this]
      rcases hcur with rfl | rfl | ⟨own, rfl, ho, _, hf⟩
      · simp [hm, List.find?_cons]
      · simp [hm, List.find?_cons]
      · simp [List.filter_cons, hm] at hf
    · -- a reference: the entry keeps its data, the identifier is (re)set to the same key
      have hm' : m.inMessage = false := by simpa using hm
      have h1' : (r.filter (·.inMessage)).length ≤ 1 := by simpa [List.filter_cons, hm'] using h1
      rcases hcur with rfl | rfl | ⟨own, rfl, ho, hok, hf⟩
      · have step : mergeTrip none m = { id := k, inMessage := false } := by simp [mergeTrip, hm', hmk]
        have := ih (some { id := k, inMessage := false }) hkr (Or.inr (Or.inl rfl)) h1' (by simp)
        simp only [mergeAll] at this
        rw [step, this]
        simp [List.find?_cons, hm']
      · have step : mergeTrip (some { id := k, inMessage := false }) m = { id := k, inMessage := false } := by
          simp [mergeTrip, hm', hmk]
        have := ih (some { id := k, inMessage := false }) hkr (Or.inr (Or.inl rfl)) h1' (by simp)
        simp only [mergeAll] at this
        rw [step, this]
        simp [List.find?_cons, hm']
      · have step : mergeTrip (some own) m = own := by
          simp only [mergeTrip, hm', Bool.false_eq_true, if_false, Option.getD_some]
          cases own; simp_all
        have hf' : r.filter (·.inMessage) = [] := by simpa [List.filter_cons, hm'] using hf
        have := ih (some own) hkr (Or.inr (Or.inr ⟨own, rfl, ho, hok, hf'⟩)) h1' (by simp)
        simp only [mergeAll] at this
        rw [step, this]
        simp [ho]

/-! ### all mentions of a message; messages without conflicting duplicates -/

/-- all trip mentions of a (pre-processed) message, in feed order -/
def allMentions (ext : Ext) (es : List (Entity × Bool)) : List TripData :=
  (es.filter fun p => !p.2).flatMap fun p => tripMentions ext p.1

/-- **without conflicting duplicates**: every trip has at most one entity of its own among its mentions -/
def ConflictFreeTrips (ext : Ext) (es : List (Entity × Bool)) : Prop :=
  ∀ k, AtMostOneOwn ((allMentions ext es).filter fun m => m.id == k)

theorem mergeAll_perm (k : TripID) (ms ms' : List TripData) (hp : ms'.Perm ms) (hk : ∀ m ∈ ms, m.id = k)
    (h1 : AtMostOneOwn ms) : mergeAll none ms' = mergeAll none ms := by
  by_cases hne : ms = []
  · subst hne
    have : ms' = [] := List.Perm.eq_nil hp
    rw [this]
  · have hne' : ms' ≠ [] := by
      intro e; rw [e] at hp; exact hne (List.Perm.eq_nil hp.symm)
    have hk' : ∀ m ∈ ms', m.id = k := fun m hm => hk m (hp.subset hm)
    have h1' : AtMostOneOwn ms' := by
      unfold AtMostOneOwn at *
      rw [(hp.filter _).length_eq]; exact h1
    rw [mergeAll_closed_form k ms hk hne h1, mergeAll_closed_form k ms' hk' hne' h1',
        find?_perm_of_atMostOne _ ms ms' hp h1]

/-- the entry of the trip table under `k`: the merge of the mentions of `k`, in feed order -/
theorem trips_lookup (ext : Ext) (es : List (Entity × Bool)) (k : TripID) :
    alookup k (runEntities ext es).trips = mergeAll none ((allMentions ext es).filter fun m => m.id == k) := by
  rw [runEntities_trips, foldl_addTrip_lookup]; rfl

theorem mergeAll_isSome (cur : Option TripData) (ms : List TripData) (h : ms ≠ []) : (mergeAll cur ms).isSome := by
  induction ms generalizing cur with
  | nil => exact absurd rfl h
  | cons m r ih =>
    simp only [mergeAll, List.foldl_cons]
    cases r with
    | nil => simp
    | cons x r' => exact ih _ (by simp)

/-- what the table holds for a mentioned key of a conflict-free message -/
theorem trips_lookup_cf (ext : Ext) (es : List (Entity × Bool)) (hcf : ConflictFreeTrips ext es) (k : TripID) :
    alookup k (runEntities ext es).trips =
      if ((allMentions ext es).filter fun m => m.id == k) = [] then none
      else some (match ((allMentions ext es).filter fun m => m.id == k).find? (·.inMessage) with
                 | some own => own
                 | none => { id := k, inMessage := false }) := by
  rw [trips_lookup]
  split
  · next h => rw [h]; rfl
  · next h =>
    exact mergeAll_closed_form k _ (fun m hm => by simpa using (List.mem_filter.mp hm).2) h (hcf k)

end Gtfs.Rt
