import GtfsVerif.Lemmas.Float
/-! At most one bit pattern is certified for a decimal: the acceptance windows of neighbouring doubles meet in
    exactly one point (the midpoint), and on a midpoint only the pattern with the even significand is accepted.
    Everything is counted in units of 2^-1076 (a quarter of the smallest subnormal), as natural numbers. -/
namespace Gtfs.Float

/-- biased exponent and fraction fields of a magnitude (bits without the sign) -/
def eOf (b : Nat) : Nat := b / 2 ^ 52 % 2048
def fOf (b : Nat) : Nat := b % 2 ^ 52

/-- the value of a finite magnitude in units of 2^-1074, and its unit in the last place in the same units -/
def W (b : Nat) : Nat := if eOf b = 0 then fOf b else (fOf b + 2 ^ 52) * 2 ^ (eOf b - 1)
def U (b : Nat) : Nat := 2 ^ (eOf b - 1)

/-- the midpoint between a magnitude and its successor, in units of 2^-1076 -/
def H (b : Nat) : Nat := 4 * W b + 2 * U b

theorem U_pos (b : Nat) : 0 < U b := Nat.pow_pos (by decide)

theorem fields_succ_same (b : Nat) (h : fOf b + 1 < 2 ^ 52) : eOf (b + 1) = eOf b ∧ fOf (b + 1) = fOf b + 1 := by
  unfold eOf fOf at *
  simp only [Nat.reducePow] at *
  omega

theorem fields_succ_carry (b : Nat) (h : fOf b + 1 = 2 ^ 52) (he : eOf b < 2047) :
    eOf (b + 1) = eOf b + 1 ∧ fOf (b + 1) = 0 := by
  unfold eOf fOf at *
  simp only [Nat.reducePow] at *
  omega

theorem fOf_lt (b : Nat) : fOf b < 2 ^ 52 := Nat.mod_lt _ (by decide)

/-- the successor of a finite magnitude is one unit in the last place further -/
theorem W_succ (b : Nat) (he : eOf b < 2047) : W (b + 1) = W b + U b := by
  by_cases h : fOf b + 1 < 2 ^ 52
  · obtain ⟨h1, h2⟩ := fields_succ_same b h
    unfold W U
    rw [h1, h2]
    by_cases h0 : eOf b = 0
    · simp [h0]
    · simp only [h0, if_false]
      rw [show fOf b + 1 + 2 ^ 52 = (fOf b + 2 ^ 52) + 1 by omega, Nat.add_mul, Nat.one_mul]
  · have hf : fOf b + 1 = 2 ^ 52 := by have := fOf_lt b; omega
    obtain ⟨h1, h2⟩ := fields_succ_carry b hf he
    unfold W U
    rw [h1, h2]
    by_cases h0 : eOf b = 0
    · simp [h0]; omega
    · simp only [h0, if_false, Nat.add_one_ne_zero, Nat.add_sub_cancel, Nat.zero_add]
      have hp : 2 ^ eOf b = 2 * 2 ^ (eOf b - 1) := by
        have : eOf b = (eOf b - 1) + 1 := by omega
        conv => lhs; rw [this, Nat.pow_succ]
        omega
      rw [hp]
      have hf' : fOf b + 2 ^ 52 = 2 ^ 53 - 1 := by omega
      rw [hf']
      generalize 2 ^ (eOf b - 1) = x
      simp only [Nat.reducePow]
      omega

theorem H_lt_succ (b : Nat) (he : eOf b < 2047) : H b < H (b + 1) := by
  unfold H
  rw [W_succ b he]
  have := U_pos b
  have := U_pos (b + 1)
  omega

/-- all magnitudes up to and including the first non-finite one -/
def Fin64 (b : Nat) : Prop := b ≤ 2047 * 2 ^ 52

theorem eOf_lt_of_lt (b : Nat) (h : b < 2047 * 2 ^ 52) : eOf b < 2047 := by
  unfold eOf
  simp only [Nat.reducePow] at *
  omega

/-- the midpoints are strictly increasing along the finite magnitudes -/
theorem H_strictMono {a b : Nat} (hab : a < b) (hb : b ≤ 2047 * 2 ^ 52) : H a < H b := by
  induction b with
  | zero => omega
  | succ n ih =>
    have hn : eOf n < 2047 := eOf_lt_of_lt n (by omega)
    rcases Nat.lt_or_ge a n with h | h
    · exact Nat.lt_trans (ih h (by omega)) (H_lt_succ n hn)
    · have : a = n := by omega
      subst this
      exact H_lt_succ a hn

theorem parity (b : Nat) : (if eOf b = 0 then fOf b else fOf b + 2 ^ 52) % 2 = b % 2 := by
  unfold eOf fOf
  simp only [Nat.reducePow]
  split <;> omega

end Gtfs.Float

namespace Gtfs.Float

theorem cmp_mul_right (a b c : Nat) (hc : 0 < c) : compare (a * c) (b * c) = compare a b := by
  rcases Nat.lt_trichotomy a b with h | h | h
  · rw [Nat.compare_eq_lt.mpr h, Nat.compare_eq_lt.mpr (Nat.mul_lt_mul_of_pos_right h hc)]
  · subst h; simp
  · rw [Nat.compare_eq_gt.mpr h, Nat.compare_eq_gt.mpr (Nat.mul_lt_mul_of_pos_right h hc)]

/-- the decimal side and the binary side of `cmpDecBin`, both in units of `2^-s · 10^-(-e)⁺` -/
def decSide (s n : Nat) (e : Int) : Nat := n * 10 ^ e.toNat * 2 ^ s
def binSide (x : Nat) (e : Int) : Nat := x * 10 ^ (-e).toNat

/-- `cmpDecBin` against `mm·2^k` is a comparison of naturals in a common unit `2^-s`, for `k ≥ -s` -/
theorem cmpDecBin_scaled (s n : Nat) (e : Int) (mm : Nat) (k : Int) (hk : -(s : Int) ≤ k) :
    cmpDecBin n e mm k = compare (decSide s n e) (binSide (mm * 2 ^ (k + s).toNat) e) := by
  unfold cmpDecBin decSide binSide
  simp only []
  cases k with
  | ofNat j =>
    have h1 : (-(Int.ofNat j)).toNat = 0 := by simp
    have h2 : (Int.ofNat j).toNat = j := by simp
    have h3 : (Int.ofNat j + (s : Int)).toNat = j + s := by
      simp only [Int.ofNat_eq_natCast]; omega
    rw [h1, h2, h3, Nat.pow_zero, Nat.mul_one, Nat.pow_add]
    rw [show mm * (2 ^ j * 2 ^ s) * 10 ^ (-e).toNat = (mm * 10 ^ (-e).toNat * 2 ^ j) * 2 ^ s by
      simp only [Nat.mul_assoc, Nat.mul_comm, Nat.mul_left_comm]]
    exact (cmp_mul_right _ _ _ (Nat.pow_pos (by decide))).symm
  | negSucc j =>
    have hneg : Int.negSucc j = -((j : Int) + 1) := rfl
    have hj : j + 1 ≤ s := by omega
    have h1 : (-(Int.negSucc j)).toNat = j + 1 := by rw [hneg]; omega
    have h2 : (Int.negSucc j).toNat = 0 := rfl
    have h3 : (Int.negSucc j + (s : Int)).toNat = s - (j + 1) := by rw [hneg]; omega
    rw [h1, h2, h3, Nat.pow_zero, Nat.mul_one]
    have hp : (2 : Nat) ^ s = 2 ^ (j + 1) * 2 ^ (s - (j + 1)) := by
      rw [← Nat.pow_add]; congr 1; omega
    rw [hp]
    rw [show n * 10 ^ e.toNat * (2 ^ (j + 1) * 2 ^ (s - (j + 1))) = (n * 10 ^ e.toNat * 2 ^ (j + 1)) * 2 ^ (s - (j + 1)) by
      simp only [Nat.mul_assoc]]
    rw [show mm * 2 ^ (s - (j + 1)) * 10 ^ (-e).toNat = (mm * 10 ^ (-e).toNat) * 2 ^ (s - (j + 1)) by
      simp only [Nat.mul_assoc, Nat.mul_comm, Nat.mul_left_comm]]
    exact (cmp_mul_right _ _ _ (Nat.pow_pos (by decide))).symm

end Gtfs.Float

namespace Gtfs.Float

/-- significand (with the hidden bit) of a magnitude -/
def Mn (m : Nat) : Nat := if eOf m = 0 then fOf m else fOf m + 2 ^ 52

theorem W_eq (m : Nat) : W m = Mn m * U m := by
  unfold W Mn U
  by_cases h : eOf m = 0 <;> simp [h]

theorem Mn_parity (m : Nat) : Mn m % 2 = m % 2 := parity m

/-- what `decode` reads, in terms of the magnitude `bits % 2^63` -/
theorem decode_fields (bits : Nat) (v : Bin) (h : decode bits = some v) :
    let m := bits % 2 ^ 63
    eOf m < 2047 ∧ v.biased = eOf m ∧ v.mant = Mn m ∧
    v.exp2 = (if eOf m = 0 then -1074 else (eOf m : Int) - 1075) ∧ v.neg = (bits / 2 ^ 63 % 2 == 1) := by
  intro m
  have he : eOf m = bits / 2 ^ 52 % 2048 := by
    unfold eOf; simp only [m, Nat.reducePow]; omega
  have hf : fOf m = bits % 2 ^ 52 := by
    unfold fOf; simp only [m, Nat.reducePow]; omega
  unfold decode at h
  simp only [] at h
  split at h
  · simp at h
  · rename_i hne
    split at h
    · rename_i h0
      simp only [Option.some.injEq] at h
      subst h
      refine ⟨by omega, by simp [he, h0], ?_, ?_, rfl⟩
      · simp [Mn, he, h0, hf]
      · simp [he, h0]
    · rename_i h0
      simp only [Option.some.injEq] at h
      subst h
      refine ⟨by omega, by simp [he], ?_, ?_, rfl⟩
      · simp [Mn, he, h0, hf]
      · simp [he, h0]

/-- the exponent of the upper midpoint in units of `2^-1076` -/
theorem hi_identity (m : Nat) :
    (2 * Mn m + 1) * 2 ^ ((if eOf m = 0 then (-1074 : Int) else (eOf m : Int) - 1075) - 1 + 1076).toNat = H m := by
  have hx : ((if eOf m = 0 then (-1074 : Int) else (eOf m : Int) - 1075) - 1 + 1076).toNat = (eOf m - 1) + 1 := by
    by_cases h : eOf m = 0
    · simp [h]
    · simp only [h, if_false]; omega
  rw [hx, Nat.pow_succ]
  unfold H
  rw [W_eq]
  unfold U
  generalize 2 ^ (eOf m - 1) = u
  generalize Mn m = k
  rw [Nat.add_mul, Nat.one_mul]
  have : 2 * k * (u * 2) = 4 * (k * u) := by
    rw [show 2 * k * (u * 2) = (2 * 2) * (k * u) by simp only [Nat.mul_assoc, Nat.mul_comm, Nat.mul_left_comm]]
  omega

end Gtfs.Float

namespace Gtfs.Float

/-- how the unit in the last place changes from a magnitude to its successor, and whether the successor
    sits at the lower edge of a binade above the first normal one -/
theorem succ_cases (p : Nat) (he : eOf p < 2047) :
    (U (p + 1) = U p ∧ ¬ (Mn (p + 1) = 2 ^ 52 ∧ eOf (p + 1) > 1)) ∨
    (U (p + 1) = 2 * U p ∧ Mn (p + 1) = 2 ^ 52 ∧ eOf (p + 1) > 1) := by
  by_cases h : fOf p + 1 < 2 ^ 52
  · obtain ⟨h1, h2⟩ := fields_succ_same p h
    left
    refine ⟨by unfold U; rw [h1], ?_⟩
    intro ⟨hm, _⟩
    unfold Mn at hm
    rw [h1, h2] at hm
    split at hm <;> omega
  · have hf : fOf p + 1 = 2 ^ 52 := by have := fOf_lt p; omega
    obtain ⟨h1, h2⟩ := fields_succ_carry p hf he
    by_cases h0 : eOf p = 0
    · left
      refine ⟨by unfold U; rw [h1, h0], ?_⟩
      intro ⟨_, hgt⟩
      omega
    · right
      refine ⟨?_, ?_, by omega⟩
      · unfold U
        rw [h1]
        have : eOf p + 1 - 1 = (eOf p - 1) + 1 := by omega
        rw [this, Nat.pow_succ]; omega
      · unfold Mn
        rw [h1, h2]; simp

theorem Mn_pos_succ (p : Nat) (he : eOf p < 2047) : 0 < Mn (p + 1) := by
  unfold Mn
  by_cases h : fOf p + 1 < 2 ^ 52
  · obtain ⟨h1, h2⟩ := fields_succ_same p h
    rw [h1, h2]; split <;> omega
  · have hf : fOf p + 1 = 2 ^ 52 := by have := fOf_lt p; omega
    obtain ⟨h1, h2⟩ := fields_succ_carry p hf he
    rw [h1, h2]; simp

/-- the lower midpoint of `p + 1`, as `nearest` computes it, is the upper midpoint of `p` -/
theorem lo_identity (p : Nat) (he : eOf p < 2047) :
    let m := p + 1
    let ex : Int := if eOf m = 0 then -1074 else (eOf m : Int) - 1075
    (if Mn m = 2 ^ 52 ∧ eOf m > 1 then (4 * Mn m - 1) * 2 ^ (ex - 2 + 1076).toNat
     else (2 * Mn m - 1) * 2 ^ (ex - 1 + 1076).toNat) = H p := by
  intro m ex
  have hW : W m = W p + U p := W_succ p he
  have hpos := Mn_pos_succ p he
  have hWm := W_eq m
  unfold H
  rcases succ_cases p he with ⟨hU, hnb⟩ | ⟨hU, hb1, hb2⟩
  · simp only [m] at *
    rw [if_neg hnb]
    have hx : (ex - 1 + 1076).toNat = (eOf (p + 1) - 1) + 1 := by
      simp only [ex, m]
      by_cases h : eOf (p + 1) = 0
      · simp [h]
      · simp only [h, if_false]; omega
    rw [hx, Nat.pow_succ]
    have hu : 2 ^ (eOf (p + 1) - 1) = U (p + 1) := rfl
    rw [hu]
    generalize hk : Mn (p + 1) = k at *
    generalize hu' : U (p + 1) = u at *
    generalize hq : U p = q at *
    rw [Nat.sub_mul, Nat.one_mul]
    have e1 : 2 * k * (u * 2) = 4 * (k * u) := by
      rw [show 2 * k * (u * 2) = (2 * 2) * (k * u) by simp only [Nat.mul_assoc, Nat.mul_comm, Nat.mul_left_comm]]
    rw [e1, ← hWm, hW, hU]
    omega
  · simp only [m] at *
    rw [if_pos ⟨hb1, hb2⟩]
    have hx : (ex - 2 + 1076).toNat = eOf (p + 1) - 1 := by
      simp only [ex, m]
      have : eOf (p + 1) ≠ 0 := by omega
      simp only [this, if_false]; omega
    rw [hx]
    have hu : 2 ^ (eOf (p + 1) - 1) = U (p + 1) := rfl
    rw [hu]
    generalize hk : Mn (p + 1) = k at *
    generalize hu' : U (p + 1) = u at *
    generalize hq : U p = q at *
    rw [Nat.sub_mul, Nat.one_mul]
    have e1 : 4 * k * u = 4 * (k * u) := by simp only [Nat.mul_assoc]
    rw [e1, ← hWm, hW, hU]
    have := U_pos p
    omega

end Gtfs.Float

namespace Gtfs.Float

theorem cmpDecBin_scaled1076 (n : Nat) (e : Int) (mm : Nat) (k : Int) (hk : -1076 ≤ k) :
    cmpDecBin n e mm k = compare (decSide 1076 n e) (binSide (mm * 2 ^ (k + 1076).toNat) e) := by
  have h := cmpDecBin_scaled 1076 n e mm k (by omega)
  have hc : ((1076 : Nat) : Int) = 1076 := rfl
  rw [hc] at h
  exact h

theorem window_unique (Q C : Nat) (hC : 0 < C) (a b : Nat) (hab : a < b) (hb : b ≤ 2047 * 2 ^ 52)
    (ha : Q < H a * C ∨ (Q = H a * C ∧ a % 2 = 0))
    (hb' : H (b - 1) * C < Q ∨ (H (b - 1) * C = Q ∧ b % 2 = 0)) : False := by
  have hle : H a ≤ H (b - 1) := by
    rcases Nat.lt_or_ge a (b - 1) with h | h
    · exact Nat.le_of_lt (H_strictMono h (by omega))
    · have : a = b - 1 := by omega
      rw [this]; exact Nat.le_refl _
  have hle' : H a * C ≤ H (b - 1) * C := Nat.mul_le_mul_right C hle
  rcases ha with ha | ⟨ha, pa⟩ <;> rcases hb' with hb' | ⟨hb', pb⟩
  · omega
  · omega
  · omega
  · -- both on a midpoint: the same midpoint, hence neighbours, whose parities differ
    have heq : H a * C = H (b - 1) * C := by omega
    have hH : H a = H (b - 1) := Nat.eq_of_mul_eq_mul_right hC heq
    have : a = b - 1 := by
      rcases Nat.lt_trichotomy a (b - 1) with h | h | h
      · have := H_strictMono h (by omega); omega
      · exact h
      · omega
    omega

theorem Mn_eq_zero_iff (m : Nat) (hm : m < 2 ^ 63) : Mn m = 0 ↔ m = 0 := by
  unfold Mn eOf fOf
  simp only [Nat.reducePow] at *
  constructor
  · intro h; split at h <;> omega
  · intro h; subst h; simp

/-- **what acceptance means in the common unit**: the decimal lies in the closed window between the midpoint
    below and the midpoint above the magnitude, an end point only for an even magnitude -/
theorem nearest_bridge (d : Dec) (bits : Nat) (hm : d.mant ≠ 0)
    (hr1 : ¬ ((decLen d.mant : Int) + d.exp10 > 311)) (hr2 : ¬ ((decLen d.mant : Int) + d.exp10 < -330))
    (h : nearest d (some bits) = true) :
    let m := bits % 2 ^ 63
    let Q := decSide 1076 d.mant d.exp10
    let C := 10 ^ (-d.exp10).toNat
    (bits / 2 ^ 63 % 2 == 1) = d.neg ∧ eOf m < 2047 ∧
    (Q < H m * C ∨ (Q = H m * C ∧ m % 2 = 0)) ∧
    (m = 0 ∨ H (m - 1) * C < Q ∨ (H (m - 1) * C = Q ∧ m % 2 = 0)) := by
  intro m Q C
  unfold nearest at h
  simp only [hm, if_false, hr1, hr2] at h
  cases hd : decode bits with
  | none => simp [hd] at h
  | some v =>
    simp only [hd, Bool.and_eq_true, beq_iff_eq, Bool.or_eq_true] at h
    obtain ⟨⟨hs, _⟩, hhi, hlo⟩ := h
    obtain ⟨hfin, hbi, hmant, hexp, hneg⟩ := decode_fields bits v hd
    have hm63 : m < 2 ^ 63 := Nat.mod_lt _ (by decide)
    have hexlo : (-1074 : Int) ≤ v.exp2 := by rw [hexp]; split <;> omega
    have hscale := fun mm k (hk : (-1076 : Int) ≤ k) => cmpDecBin_scaled1076 d.mant d.exp10 mm k hk
    -- the upper midpoint
    have hhiQ : cmpDecBin d.mant d.exp10 (2 * v.mant + 1) (v.exp2 - 1) = compare Q (H m * C) := by
      rw [hscale _ _ (by omega)]
      unfold binSide
      rw [hmant, hexp]
      rw [hi_identity m]
    refine ⟨by rw [← hneg]; exact hs, hfin, ?_, ?_⟩
    · rw [hhiQ] at hhi
      rcases hhi with h1 | ⟨h1, h2⟩
      · exact Or.inl (Nat.compare_eq_lt.mp h1)
      · refine Or.inr ⟨Nat.compare_eq_eq.mp h1, ?_⟩
        rw [hmant, Mn_parity] at h2; exact h2
    · by_cases hm0 : m = 0
      · exact Or.inl hm0
      · right
        have hmn : v.mant ≠ 0 := by rw [hmant]; exact fun hz => hm0 ((Mn_eq_zero_iff m hm63).mp hz)
        simp only [hmn, if_false] at hlo
        obtain ⟨p, hp⟩ : ∃ p, m = p + 1 := ⟨m - 1, by omega⟩
        have hpe : eOf p < 2047 := eOf_lt_of_lt p (by
          have : m < 2047 * 2 ^ 52 := by
            unfold eOf at hfin; simp only [Nat.reducePow] at *; omega
          omega)
        have hid := lo_identity p hpe
        simp only [← hp] at hid
        have hloQ : (if decide (v.mant = 2 ^ 52) = true ∧ decide (v.biased > 1) = true then cmpDecBin d.mant d.exp10 (4 * v.mant - 1) (v.exp2 - 2)
            else cmpDecBin d.mant d.exp10 (2 * v.mant - 1) (v.exp2 - 1)) = compare Q (H p * C) := by
          by_cases hb : Mn m = 2 ^ 52 ∧ eOf m > 1
          · have : decide (v.mant = 2 ^ 52) = true ∧ decide (v.biased > 1) = true := by
              rw [hmant, hbi]
              simp only [decide_eq_true_eq]
              exact hb
            rw [if_pos this, hscale _ _ (by omega)]
            unfold binSide
            rw [if_pos hb] at hid
            rw [hmant, hexp, hid]
          · have : ¬ (decide (v.mant = 2 ^ 52) = true ∧ decide (v.biased > 1) = true) := by
              rw [hmant, hbi]
              intro hc
              simp only [decide_eq_true_eq] at hc
              exact hb hc
            rw [if_neg this, hscale _ _ (by omega)]
            unfold binSide
            rw [if_neg hb] at hid
            rw [hmant, hexp, hid]
        have hpm : m - 1 = p := by omega
        rw [hpm]
        simp only [hloQ] at hlo
        rcases hlo with h1 | ⟨h1, h2⟩
        · exact Or.inl (Nat.compare_eq_gt.mp h1)
        · refine Or.inr ⟨(Nat.compare_eq_eq.mp h1).symm, ?_⟩
          rw [hmant, Mn_parity] at h2; exact h2

end Gtfs.Float

namespace Gtfs.Float

theorem eOf_bound (m : Nat) (h : eOf m < 2047) (hm : m < 2 ^ 63) : m < 2047 * 2 ^ 52 := by
  unfold eOf at h; simp only [Nat.reducePow] at *; omega

/-- **at most one bit pattern is certified for a decimal** -/
theorem nearest_unique (d : Dec) (b1 b2 : Nat) (h1 : b1 < 2 ^ 64) (h2 : b2 < 2 ^ 64)
    (a1 : nearest d (some b1) = true) (a2 : nearest d (some b2) = true) : b1 = b2 := by
  by_cases hm : d.mant = 0
  · unfold nearest at a1 a2
    simp only [hm, if_true, beq_iff_eq, Option.some.injEq] at a1 a2
    rw [a1, a2]
  by_cases hr1 : (decLen d.mant : Int) + d.exp10 > 311
  · unfold nearest at a1
    simp [hm, hr1] at a1
  by_cases hr2 : (decLen d.mant : Int) + d.exp10 < -330
  · unfold nearest at a1 a2
    simp only [hm, if_false, hr1, hr2, if_true, beq_iff_eq, Option.some.injEq] at a1 a2
    rw [a1, a2]
  obtain ⟨s1, f1, hi1, lo1⟩ := nearest_bridge d b1 hm hr1 hr2 a1
  obtain ⟨s2, f2, hi2, lo2⟩ := nearest_bridge d b2 hm hr1 hr2 a2
  have hs : b1 / 2 ^ 63 % 2 = b2 / 2 ^ 63 % 2 := sign_eq (by rw [s1, s2])
  have hC : 0 < 10 ^ (-d.exp10).toNat := Nat.pow_pos (by decide)
  have hm1 : b1 % 2 ^ 63 < 2 ^ 63 := Nat.mod_lt _ (by decide)
  have hm2 : b2 % 2 ^ 63 < 2 ^ 63 := Nat.mod_lt _ (by decide)
  have hb1 := eOf_bound _ f1 hm1
  have hb2 := eOf_bound _ f2 hm2
  rcases Nat.lt_trichotomy (b1 % 2 ^ 63) (b2 % 2 ^ 63) with hlt | heq | hgt
  · exfalso
    have hlo : H (b2 % 2 ^ 63 - 1) * 10 ^ (-d.exp10).toNat < decSide 1076 d.mant d.exp10 ∨
        (H (b2 % 2 ^ 63 - 1) * 10 ^ (-d.exp10).toNat = decSide 1076 d.mant d.exp10 ∧ b2 % 2 ^ 63 % 2 = 0) := by
      rcases lo2 with h | h
      · omega
      · exact h
    exact window_unique _ _ hC _ _ hlt (Nat.le_of_lt hb2) hi1 hlo
  · simp only [Nat.reducePow] at *
    omega
  · exfalso
    have hlo : H (b1 % 2 ^ 63 - 1) * 10 ^ (-d.exp10).toNat < decSide 1076 d.mant d.exp10 ∨
        (H (b1 % 2 ^ 63 - 1) * 10 ^ (-d.exp10).toNat = decSide 1076 d.mant d.exp10 ∧ b1 % 2 ^ 63 % 2 = 0) := by
      rcases lo1 with h | h
      · omega
      · exact h
    exact window_unique _ _ hC _ _ hgt (Nat.le_of_lt hb1) hi2 hlo

/-- a range error and a value are never both certified -/
theorem nearest_none_excl (d : Dec) (b : Nat) (a1 : nearest d none = true) (a2 : nearest d (some b) = true) : False := by
  unfold nearest at a1 a2
  by_cases hm : d.mant = 0
  · simp [hm] at a1
  · by_cases hr1 : (decLen d.mant : Int) + d.exp10 > 311
    · simp [hm, hr1] at a2
    · by_cases hr2 : (decLen d.mant : Int) + d.exp10 < -330
      · simp [hm, hr1, hr2] at a1
      · simp only [hm, if_false, hr1, hr2] at a1 a2
        cases hd : decode b with
        | none => simp [hd] at a2
        | some v =>
          simp only [hd, Bool.and_eq_true, beq_iff_eq] at a2
          have := a2.1.2
          simp [this] at a1

/-- **the certificate determines the answer**: for a decimal cell at most one answer – a 64-bit pattern or
    "out of range" – is certified -/
theorem certify_unique (cell : Str) (o1 o2 : Option Nat)
    (h1 : ∀ b, o1 = some b → b < 2 ^ 64) (h2 : ∀ b, o2 = some b → b < 2 ^ 64)
    (c1 : certify cell o1 = some true) (c2 : certify cell o2 = some true) : o1 = o2 := by
  unfold certify at c1 c2
  by_cases he : cell.isEmpty = true
  · simp [he] at c1
  · have he' : cell.isEmpty = false := by simpa using he
    simp only [he', Bool.false_eq_true, if_false] at c1 c2
    cases hp : parseDec (trimAscii cell) with
    | none => simp [hp] at c1
    | some d =>
      simp only [hp, Option.map_some, Option.some.injEq] at c1 c2
      cases o1 with
      | none =>
        cases o2 with
        | none => rfl
        | some b2 => exact absurd (nearest_none_excl d b2 c1 c2) id
      | some b1 =>
        cases o2 with
        | none => exact absurd (nearest_none_excl d b1 c2 c1) id
        | some b2 => rw [nearest_unique d b1 b2 (h1 b1 rfl) (h2 b2 rfl) c1 c2]

end Gtfs.Float
