-- REGENERATED on every run by go/cmd/extract from /repo. Do not edit.
namespace Gtfs.Gen.ExportTemplate

/-- `trips.csv.tmpl`: the header line: trip_uid,trip_id,route_id,direction_id,start_time,vehicle_id,last_observed,marked_past,num_updates,num_schedule_changes,num_schedule_rewrites -/
def tripsHeader : List UInt8 := [116, 114, 105, 112, 95, 117, 105, 100, 44, 116, 114, 105, 112, 95, 105, 100, 44, 114, 111, 117, 116, 101, 95, 105, 100, 44, 100, 105, 114, 101, 99, 116, 105, 111, 110, 95, 105, 100, 44, 115, 116, 97, 114, 116, 95, 116, 105, 109, 101, 44, 118, 101, 104, 105, 99, 108, 101, 95, 105, 100, 44, 108, 97, 115, 116, 95, 111, 98, 115, 101, 114, 118, 101, 100, 44, 109, 97, 114, 107, 101, 100, 95, 112, 97, 115, 116, 44, 110, 117, 109, 95, 117, 112, 100, 97, 116, 101, 115, 44, 110, 117, 109, 95, 115, 99, 104, 101, 100, 117, 108, 101, 95, 99, 104, 97, 110, 103, 101, 115, 44, 110, 117, 109, 95, 115, 99, 104, 101, 100, 117, 108, 101, 95, 114, 101, 119, 114, 105, 116, 101, 115]
/-- `trips.csv.tmpl`: the range actions that open the row -/
def tripsRanges : List String := ["range ."]
/-- `trips.csv.tmpl`: the field actions of the row, in order -/
def tripsRow : List String := [".TripUID", ".TripID", ".RouteID", "FormatDirectionID .DirectionID", ".StartTime.Unix", ".VehicleID", ".LastObserved.Unix", "NullableUnix .MarkedPast", ".NumUpdates", ".NumScheduleChanges", ".NumScheduleRewrites"]
/-- `trips.csv.tmpl`: the literal text between consecutive field actions -/
def tripsSeparators : List (List UInt8) := [[44], [44], [44], [44], [44], [44], [44], [44], [44], [44]]
/-- `trips.csv.tmpl`: literal text after the last field action, number of `end`s, text after them (after `{{-`/`-}}` trimming) -/
def tripsTerminator : List UInt8 := [10]
def tripsEnds : Nat := 1
def tripsTrailing : List UInt8 := []

/-- `stop_times.csv.tmpl`: the header line: trip_uid,stop_id,track,arrival_time,departure_time,last_observed,marked_past -/
def stopTimesHeader : List UInt8 := [116, 114, 105, 112, 95, 117, 105, 100, 44, 115, 116, 111, 112, 95, 105, 100, 44, 116, 114, 97, 99, 107, 44, 97, 114, 114, 105, 118, 97, 108, 95, 116, 105, 109, 101, 44, 100, 101, 112, 97, 114, 116, 117, 114, 101, 95, 116, 105, 109, 101, 44, 108, 97, 115, 116, 95, 111, 98, 115, 101, 114, 118, 101, 100, 44, 109, 97, 114, 107, 101, 100, 95, 112, 97, 115, 116]
/-- `stop_times.csv.tmpl`: the range actions that open the row -/
def stopTimesRanges : List String := ["range $trip := .", "range .StopTimes"]
/-- `stop_times.csv.tmpl`: the field actions of the row, in order -/
def stopTimesRow : List String := ["$trip.TripUID", ".StopID", "NullableString .Track", "NullableUnix .ArrivalTime", "NullableUnix .DepartureTime", ".LastObserved.Unix", "NullableUnix .MarkedPast"]
/-- `stop_times.csv.tmpl`: the literal text between consecutive field actions -/
def stopTimesSeparators : List (List UInt8) := [[44], [44], [44], [44], [44], [44]]
/-- `stop_times.csv.tmpl`: literal text after the last field action, number of `end`s, text after them (after `{{-`/`-}}` trimming) -/
def stopTimesTerminator : List UInt8 := [10]
def stopTimesEnds : Nat := 2
def stopTimesTrailing : List UInt8 := []

/-- `NullableString` is: nil ↦ "", otherwise the string pointed to -/
def nullableStringShape : Bool := true
/-- `NullableUnix` is: nil ↦ "", otherwise the Unix seconds in decimal -/
def nullableUnixShape : Bool := true
/-- `FormatDirectionID`: direction number ↦ text, tried in order; and the default -/
def formatDirectionCases : List (Int × List UInt8) := [(2, [48]), (1, [49])]
def formatDirectionDefault : List UInt8 := []

end Gtfs.Gen.ExportTemplate
