-- REGENERATED on every run by go/cmd/extract from /repo. Do not edit.
namespace Gtfs.Gen.Enums

def lookup (cases : List (List UInt8 × Int)) (dflt : Int) (s : List UInt8) : Int :=
  match cases.find? (fun c => c.1 == s) with
  | some c => c.2
  | none => dflt

/-- `parseBikesAllowed` (enums.go): switch cases and default -/
def parseBikesAllowed_cases : List (List UInt8 × Int) := [([49], 1), ([50], 2)]
def parseBikesAllowed_default : Int := 0
def parseBikesAllowed (s : List UInt8) : Int := lookup parseBikesAllowed_cases parseBikesAllowed_default s

/-- `parseDirectionID_GTFSStatic` (enums.go): switch cases and default -/
def parseDirectionID_GTFSStatic_cases : List (List UInt8 × Int) := [([48], 2), ([49], 1)]
def parseDirectionID_GTFSStatic_default : Int := 0
def parseDirectionID_GTFSStatic (s : List UInt8) : Int := lookup parseDirectionID_GTFSStatic_cases parseDirectionID_GTFSStatic_default s

/-- `parseExactTimes` (enums.go): switch cases and default -/
def parseExactTimes_cases : List (List UInt8 × Int) := [([48], 0), ([49], 1)]
def parseExactTimes_default : Int := 0
def parseExactTimes (s : List UInt8) : Int := lookup parseExactTimes_cases parseExactTimes_default s

/-- `parsePickupDropOffPolicy` (enums.go): switch cases and default -/
def parsePickupDropOffPolicy_cases : List (List UInt8 × Int) := [([48], 0), ([50], 2), ([51], 3)]
def parsePickupDropOffPolicy_default : Int := 1
def parsePickupDropOffPolicy (s : List UInt8) : Int := lookup parsePickupDropOffPolicy_cases parsePickupDropOffPolicy_default s

/-- `parseRouteType_GTFSStatic` (enums.go): switch cases and default -/
def parseRouteType_GTFSStatic_cases : List (List UInt8 × Int) := [([48], 0), ([49], 1), ([50], 2), ([51], 3), ([52], 4), ([53], 5), ([54], 6), ([55], 7), ([49, 49], 11), ([49, 50], 12)]
def parseRouteType_GTFSStatic_default : Int := 10000
def parseRouteType_GTFSStatic (s : List UInt8) : Int := lookup parseRouteType_GTFSStatic_cases parseRouteType_GTFSStatic_default s

/-- `parseTransferType` (enums.go): switch cases and default -/
def parseTransferType_cases : List (List UInt8 × Int) := [([49], 1), ([50], 2), ([51], 3)]
def parseTransferType_default : Int := 0
def parseTransferType (s : List UInt8) : Int := lookup parseTransferType_cases parseTransferType_default s

/-- `parseWheelchairBoarding` (enums.go): switch cases and default -/
def parseWheelchairBoarding_cases : List (List UInt8 × Int) := [([49], 1), ([50], 2)]
def parseWheelchairBoarding_default : Int := 0
def parseWheelchairBoarding (s : List UInt8) : Int := lookup parseWheelchairBoarding_cases parseWheelchairBoarding_default s

/-- `parseStopType` (enums.go) -/
def parseStopType_cases : List (List UInt8 × Int) := [([49], 1), ([50], 2), ([51], 3), ([52], 4)]
def parseStopType_defaultWithParent : Int := 5
def parseStopType_defaultNoParent : Int := 0
def parseStopType (s : List UInt8) (hasParent : Bool) : Int :=
  lookup parseStopType_cases (if hasParent then parseStopType_defaultWithParent else parseStopType_defaultNoParent) s

/-- `parseDirectionID_GTFSRealtime`: value for nil, for 0, for any other number -/
def directionRT_nil : Int := 0
def directionRT_zero : Int := 2
def directionRT_other : Int := 1

/-- `parseRouteType_GTFSRealtime`: nil ↦ this value, otherwise the static decoder on the decimal rendering -/
def routeTypeRT_nil : Int := 10000

def BikesAllowed_NotSpecified : Int := 0
def DirectionID_False : Int := 2
def DirectionID_True : Int := 1
def DirectionID_Unspecified : Int := 0
def FrequencyBased : Int := 0
def PickupDropOffPolicy_No : Int := 1
def PickupDropOffPolicy_Yes : Int := 0
def RouteType_Unknown : Int := 10000
def ScheduleBased : Int := 1
def StopType_Platform : Int := 5
def StopType_Station : Int := 1
def StopType_Stop : Int := 0
def TransferType_Recommended : Int := 0
def WheelchairBoarding_NotSpecified : Int := 0

end Gtfs.Gen.Enums
