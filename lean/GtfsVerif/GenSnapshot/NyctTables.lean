-- REGENERATED on every run by go/cmd/extract from /repo. Do not edit.
namespace Gtfs.Gen.NyctTables

/-- `priortyToEffect`: Mercury priority number ↦ GTFS-realtime effect number -/
def priorityToEffect : List (Int × Int) := [(1, 1), (2, 2), (3, 2), (4, 2), (5, 6), (6, 6), (7, 6), (8, 6), (9, 5), (10, 6), (11, 6), (12, 6), (13, 6), (14, 6), (15, 2), (16, 6), (17, 6), (18, 6), (19, 3), (20, 3), (21, 6), (22, 6), (23, 6), (24, 6), (25, 2), (26, 6), (27, 3), (28, 6), (29, 6), (30, 3), (31, 6), (32, 6), (33, 6), (34, 6), (35, 6), (36, 6), (37, 2), (38, 6), (39, 1), (40, 1)]

def timetabledNoServicePriorities : List Int := [2, 3, 4]

/-- `UpdateAlert`: id prefix ↦ cause, tried in this order -/
def causeByPrefix : List (List UInt8 × Int) := [([108, 109, 109, 58, 112, 108, 97, 110, 110, 101, 100, 95, 119, 111, 114, 107], 9), ([108, 109, 109, 58, 97, 108, 101, 114, 116], 3)]

def elevatorCause : Int := 9
def elevatorEffect : Int := 11
/-- new-id rule per deduplication policy: policy name ↦ "format|arguments"; then the default rule -/
def elevatorIdFormats : List (List UInt8 × List UInt8) := [([68, 69, 68, 85, 80, 76, 73, 67, 65, 84, 69, 95, 73, 78, 95, 83, 84, 65, 84, 73, 79, 78], [37, 115, 35, 69, 76, 37, 115, 124, 115, 116, 97, 116, 105, 111, 110, 73, 68, 44, 101, 108, 101, 118, 97, 116, 111, 114, 73, 68]), ([68, 69, 68, 85, 80, 76, 73, 67, 65, 84, 69, 95, 73, 78, 95, 67, 79, 77, 80, 76, 69, 88], [101, 108, 101, 118, 97, 116, 111, 114, 58, 69, 76, 37, 115, 124, 101, 108, 101, 118, 97, 116, 111, 114, 73, 68])]
def elevatorIdDefaultFormat : List UInt8 := [37, 115, 35, 69, 76, 37, 115, 124, 112, 108, 97, 116, 102, 111, 114, 109, 73, 68, 44, 101, 108, 101, 118, 97, 116, 111, 114, 73, 68]

def metadataLanguage : List UInt8 := [103, 105, 116, 104, 117, 98, 46, 99, 111, 109, 47, 106, 97, 109, 101, 115, 112, 102, 101, 110, 110, 101, 108, 108, 47, 103, 116, 102, 115, 47, 101, 120, 116, 101, 110, 115, 105, 111, 110, 115, 47, 110, 121, 99, 116, 97, 108, 101, 114, 116, 115, 47, 77, 101, 116, 97, 100, 97, 116, 97]

def mTrainRoute : List UInt8 := [77]
def buggyStationIDs : List (List UInt8) := [[77, 49, 49], [77, 49, 50], [77, 49, 51], [77, 49, 52], [77, 49, 54], [77, 49, 56]]

def NyctTripDescriptor_NORTH : Int := 1
def NyctTripDescriptor_SOUTH : Int := 3
def Alert_MAINTENANCE : Int := 9
def Alert_TECHNICAL_PROBLEM : Int := 3
def Alert_ACCESSIBILITY_ISSUE : Int := 11
def Alert_UNKNOWN_CAUSE : Int := 1
def Alert_UNKNOWN_EFFECT : Int := 8

end Gtfs.Gen.NyctTables
