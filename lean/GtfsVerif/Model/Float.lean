import GtfsVerif.Model.Basic
/-! "Decimal numbers exactly": a certificate checker for `strconv.ParseFloat(s, 64)`.

    The static model never computes a float; the harness tells it, for every cell, the IEEE-754 bits the
    implementation's conversion produced (`Env.floatOf`). This file makes that answer *checked* instead of
    trusted: a decimal cell is read as the exact rational `±N·10^e`, the 64 bits as the exact dyadic
    `±M·2^E`, and `certify` decides – in exact natural-number arithmetic – whether the bits are the
    round-to-nearest, ties-to-even binary64 value of the decimal (including signed zeros, subnormals and
    the overflow threshold, beyond which `ParseFloat` reports a range error and the library drops the value).
    Cells outside the plain decimal grammar (hex floats, `inf`, `nan`, digit separators) are not certified. -/
namespace Gtfs.Float

/-- an exact decimal `(-1)^neg · mant · 10^exp10` -/
structure Dec where
  neg : Bool
  mant : Nat
  exp10 : Int
deriving DecidableEq, Repr, Inhabited

def isAsciiSpace (c : UInt8) : Bool := c == 32 || (9 ≤ c && c ≤ 13)

def trimAscii (s : Str) : Str := ((s.dropWhile isAsciiSpace).reverse.dropWhile isAsciiSpace).reverse

/-- `[+-]? digits* ( . digits* )? ( [eE] [+-]? digits+ )?` with at least one mantissa digit -/
def parseDec (s : Str) : Option Dec :=
  let (neg, s) := match s with
    | 45 :: r => (true, r)
    | 43 :: r => (false, r)
    | _ => (false, s)
  let ip := s.takeWhile isDigit
  let s := s.dropWhile isDigit
  let (fp, s) := match s with
    | 46 :: r => (r.takeWhile isDigit, r.dropWhile isDigit)
    | _ => ([], s)
  if ip.length + fp.length = 0 then none else
  let mant := digitsVal (ip ++ fp)
  let base : Int := -(fp.length : Int)
  match s with
  | [] => some { neg := neg, mant := mant, exp10 := base }
  | c :: r =>
    if c == 101 || c == 69 then
      let (eneg, r) := match r with
        | 45 :: t => (true, t)
        | 43 :: t => (false, t)
        | _ => (false, r)
      if r.length = 0 || !(r.all isDigit) then none else
      -- exponents beyond any float are clamped (the comparison below short-cuts on magnitude anyway)
      let e : Nat := if r.length > 6 then 1000000 else digitsVal r
      some { neg := neg, mant := mant, exp10 := base + (if eneg then -(e : Int) else (e : Int)) }
    else none

/-- a finite binary64 value `(-1)^neg · mant · 2^exp2`, and whether its significand field is even -/
structure Bin where
  neg : Bool
  mant : Nat
  exp2 : Int
  /-- biased exponent field (0 = zero / subnormal) -/
  biased : Nat
deriving DecidableEq, Repr, Inhabited

def decode (bits : Nat) : Option Bin :=
  let neg : Bool := bits / 2 ^ 63 % 2 == 1
  let e : Nat := bits / 2 ^ 52 % 2048
  let f : Nat := bits % 2 ^ 52
  if e = 2047 then none
  else if e = 0 then some { neg := neg, mant := f, exp2 := -1074, biased := 0 }
  else some { neg := neg, mant := f + 2 ^ 52, exp2 := (e : Int) - 1075, biased := e }

/-- compare `n·10^e` with `m·2^k` exactly -/
def cmpDecBin (n : Nat) (e : Int) (m : Nat) (k : Int) : Ordering :=
  let a := n * 10 ^ e.toNat * 2 ^ (-k).toNat
  let b := m * 10 ^ (-e).toNat * 2 ^ k.toNat
  compare a b

def decLen (n : Nat) : Nat := (natToDec n).length

/-- is `bits` (or, for `none`, "out of range") the correctly rounded binary64 of `d`? -/
def nearest (d : Dec) (bits : Option Nat) : Bool :=
  -- magnitude short-cuts keep the powers small: d ≥ 10^310 overflows, d < 10^-330 rounds to zero
  let mag : Int := (decLen d.mant : Int) + d.exp10
  if d.mant = 0 then
    bits == some (if d.neg then 2 ^ 63 else 0)
  else if mag > 311 then bits == none
  else if mag < -330 then bits == some (if d.neg then 2 ^ 63 else 0)
  else
    match bits with
    | none =>
      -- range error: at or above the midpoint between the largest finite value and 2^1024
      cmpDecBin d.mant d.exp10 (2 ^ 54 - 1) 970 != .lt
    | some b =>
      match decode b with
      | none => false
      | some v =>
        v.neg == d.neg &&
        -- below the overflow threshold
        cmpDecBin d.mant d.exp10 (2 ^ 54 - 1) 970 == .lt &&
        (let hi := cmpDecBin d.mant d.exp10 (2 * v.mant + 1) (v.exp2 - 1)
         let lo :=
           if v.mant = 0 then Ordering.gt
           else if v.mant = 2 ^ 52 && v.biased > 1 then cmpDecBin d.mant d.exp10 (4 * v.mant - 1) (v.exp2 - 2)
           else cmpDecBin d.mant d.exp10 (2 * v.mant - 1) (v.exp2 - 1)
         (hi == .lt || (hi == .eq && v.mant % 2 == 0)) && (lo == .gt || (lo == .eq && v.mant % 2 == 0)))

/-- `some ok` when the cell is a plain decimal (after trimming ASCII white space), `none` otherwise -/
def certify (cell : Str) (bits : Option Nat) : Option Bool :=
  if cell.isEmpty then none else (parseDec (trimAscii cell)).map (nearest · bits)

end Gtfs.Float
