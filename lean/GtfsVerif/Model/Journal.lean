import GtfsVerif.Model.Basic
/-! Model of `journal/journal.go` (BuildJournal, Trip.update, createPartition, markPast),
    `journal/export.go` (+ the two templates) and `DirectoryGtfsrtSource`.
    Times are Unix seconds (every time the library handles here has zero nanoseconds). -/
namespace Gtfs.Journal

/-- the part of `gtfs.StopTimeUpdate` the journal reads -/
structure Stu where
  stop : Option Str      -- StopID (a pointer in Go)
  arr : Option Int       -- GetArrival().Time
  dep : Option Int       -- GetDeparture().Time
  track : Option Str     -- NyctTrack
deriving DecidableEq, Repr, Inhabited

/-- the part of `gtfs.Trip` the journal reads -/
structure RtTrip where
  id : Str
  route : Str
  dir : Nat              -- DirectionID: 0 unspecified, 1 true, 2 false
  startDate : Int        -- ID.StartDate as Unix seconds
  startTime : Int        -- ID.StartTime in seconds
  vehicle : Option Str   -- none: Vehicle == nil; some id: Vehicle.GetID().ID
  stus : List Stu
deriving DecidableEq, Repr, Inhabited

structure Feed where
  createdAt : Int
  trips : List RtTrip
deriving DecidableEq, Repr, Inhabited

structure ST where
  stop : Str
  arr : Option Int
  dep : Option Int
  track : Option Str
  lastObs : Int
  past : Option Int
deriving DecidableEq, Repr, Inhabited

structure Trip where
  uid : Str := []
  tripId : Str := []
  route : Str := []
  dir : Nat := 0
  start : Int := 0
  vehicle : Str := []
  assigned : Bool := false
  sts : List ST := []
  lastObs : Int := 0
  past : Option Int := none
  numUpdates : Int := 0
  numChanges : Int := 0
  numRewrites : Int := 0
deriving DecidableEq, Repr, Inhabited

/-! ### stop-time level -/

def ST.markPast (t : Int) (s : ST) : ST :=
  match s.past with
  | none => { s with past := some t }
  | some _ => s

def stopOf (u : Stu) : Str := u.stop.getD []

/-- `StopTime.update` on a fresh or existing entry: every field is overwritten -/
def mk (t : Int) (u : Stu) : ST := ⟨stopOf u, u.arr, u.dep, u.track, t, none⟩

/-- index of the first stop time with that stop id, 0 when absent (createPartition) -/
def firstIdx (x : Str) (l : List ST) : Nat := (l.findIdx? (fun s => s.stop == x)).getD 0

/-- number of leading positions where stop ids agree (the lock-step loop of createPartition) -/
def matchLen : List ST → List Stu → Nat
  | s :: ss, u :: us => if s.stop == stopOf u then 1 + matchLen ss us else 0
  | _, _ => 0

/-- lengths (past, updated) of the partition -/
def partitionLens (sts : List ST) (us : List Stu) : Nat × Nat :=
  match us with
  | [] => (sts.length, 0)
  | u0 :: _ =>
    let k := firstIdx (stopOf u0) sts
    (k, matchLen (sts.drop k) us)

/-- the stop-time list after `Trip.update` -/
def updateSts (sts : List ST) (us : List Stu) (t : Int) : List ST :=
  match us with
  | [] => sts.map (ST.markPast t)
  | u0 :: _ =>
    let k := firstIdx (stopOf u0) sts
    let m := matchLen (sts.drop k) us
    (sts.take k).map (ST.markPast t) ++ (us.take m).map (mk t) ++ (us.drop m).map (mk t)

/-! ### trip level -/

/-- `buildTripUID`: `%d` of the start instant followed by the id without its 6-byte prefix -/
def uidOf (start : Int) (id : Str) : Str :=
  intToDec start ++ (if id.length < 6 then [] else id.drop 6)

def Trip.update (tr : Trip) (u : RtTrip) (t : Int) : Trip :=
  if tr.assigned && u.vehicle.isNone then tr
  else
    let start := u.startDate + u.startTime
    let (k, m) := partitionLens tr.sts u.stus
    { uid := uidOf start u.id
      tripId := u.id
      route := u.route
      dir := u.dir
      start := start
      vehicle := u.vehicle.getD []
      assigned := tr.assigned || u.vehicle.isSome
      sts := updateSts tr.sts u.stus t
      lastObs := t
      past := none
      numUpdates := tr.numUpdates + 1
      numChanges := if u.stus.length - m ≠ 0 then tr.numChanges + 1 else tr.numChanges
      numRewrites := if k + m = 0 then tr.numRewrites + 1 else tr.numRewrites }

def Trip.markPast (tr : Trip) (t : Int) : Trip :=
  { tr with past := (match tr.past with | none => some t | some p => some p),
            sts := tr.sts.map (ST.markPast t) }

def newTrip : Trip := { numChanges := -1, numRewrites := -1 }

/-! ### BuildJournal -/

structure State where
  trips : List (Str × Trip) := []
  active : List Str := []
deriving Repr, Inhabited

def stepTrip (t : Int) (acc : List (Str × Trip) × List Str) (u : RtTrip) : List (Str × Trip) × List Str :=
  let uid := uidOf (u.startDate + u.startTime) u.id
  let tr := (alookup uid acc.1).getD newTrip
  (aset uid (tr.update u t) acc.1, acc.2 ++ [uid])

def stepFeed (s : State) (f : Feed) : State :=
  let r := f.trips.foldl (stepTrip f.createdAt) (s.trips, [])
  let trips := r.1.map fun p =>
    if s.active.contains p.1 && !r.2.contains p.1 then (p.1, p.2.markPast f.createdAt) else p
  { trips := trips, active := r.2 }

def run (fs : List Feed) : State := fs.foldl stepFeed {}

def inWindow (lo hi : Int) (tr : Trip) : Bool := !(tr.start < lo || hi < tr.start)

def select (s : State) (lo hi : Int) : List Trip :=
  let sel := s.trips.filter fun p => inWindow lo hi p.2 && p.2.assigned
  (sel.mergeSort (fun a b => strLe a.1 b.1)).map (·.2)

def build (fs : List Feed) (lo hi : Int) : List Trip := select (run fs) lo hi

/-! ### ExportToCsv (the two templates, byte for byte) -/

def comma : UInt8 := 44
def nl : UInt8 := 10

def joinComma : List Str → Str
  | [] => []
  | [a] => a
  | a :: r => a ++ comma :: joinComma r

def optUnix : Option Int → Str
  | none => []
  | some t => intToDec t

def fmtDir (d : Nat) : Str := if d = 2 then [48] else if d = 1 then [49] else []

/-- "trip_uid,trip_id,route_id,direction_id,start_time,vehicle_id,last_observed,marked_past,num_updates,num_schedule_changes,num_schedule_rewrites" -/
def tripsHeader : Str := [116, 114, 105, 112, 95, 117, 105, 100, 44, 116, 114, 105, 112, 95, 105, 100, 44, 114, 111, 117, 116, 101, 95, 105, 100, 44, 100, 105, 114, 101, 99, 116, 105, 111, 110, 95, 105, 100, 44, 115, 116, 97, 114, 116, 95, 116, 105, 109, 101, 44, 118, 101, 104, 105, 99, 108, 101, 95, 105, 100, 44, 108, 97, 115, 116, 95, 111, 98, 115, 101, 114, 118, 101, 100, 44, 109, 97, 114, 107, 101, 100, 95, 112, 97, 115, 116, 44, 110, 117, 109, 95, 117, 112, 100, 97, 116, 101, 115, 44, 110, 117, 109, 95, 115, 99, 104, 101, 100, 117, 108, 101, 95, 99, 104, 97, 110, 103, 101, 115, 44, 110, 117, 109, 95, 115, 99, 104, 101, 100, 117, 108, 101, 95, 114, 101, 119, 114, 105, 116, 101, 115]
/-- "trip_uid,stop_id,track,arrival_time,departure_time,last_observed,marked_past" -/
def stopTimesHeader : Str := [116, 114, 105, 112, 95, 117, 105, 100, 44, 115, 116, 111, 112, 95, 105, 100, 44, 116, 114, 97, 99, 107, 44, 97, 114, 114, 105, 118, 97, 108, 95, 116, 105, 109, 101, 44, 100, 101, 112, 97, 114, 116, 117, 114, 101, 95, 116, 105, 109, 101, 44, 108, 97, 115, 116, 95, 111, 98, 115, 101, 114, 118, 101, 100, 44, 109, 97, 114, 107, 101, 100, 95, 112, 97, 115, 116]

def tripCells (tr : Trip) : List Str :=
  [tr.uid, tr.tripId, tr.route, fmtDir tr.dir, intToDec tr.start, tr.vehicle, intToDec tr.lastObs,
   optUnix tr.past, intToDec tr.numUpdates, intToDec tr.numChanges, intToDec tr.numRewrites]

def stCells (uid : Str) (s : ST) : List Str :=
  [uid, s.stop, s.track.getD [], optUnix s.arr, optUnix s.dep, intToDec s.lastObs, optUnix s.past]

def line (cells : List Str) : Str := joinComma cells ++ [nl]

def tripsCsv (j : List Trip) : Str := line [tripsHeader] ++ (j.map fun tr => line (tripCells tr)).flatten
def stopTimesCsv (j : List Trip) : Str :=
  line [stopTimesHeader] ++ (j.map fun tr => (tr.sts.map fun s => line (stCells tr.uid s)).flatten).flatten

/-! ### DirectoryGtfsrtSource: sorted names, skipping what cannot be read or parsed -/

/-- `names` are the directory entries, `read` gives a file's bytes (none: unreadable, a directory,
    vanished), `parse` is ParseRealtime (none: error). The sequence of values `Next` yields. -/
def dirSource {β α} (sortNames : List Str → List Str) (names : List Str) (read : Str → Option β)
    (parse : β → Option α) : List α :=
  (sortNames names).filterMap fun n => (read n).bind parse

def sortNames (names : List Str) : List Str := names.mergeSort (fun a b => strLe a b)

end Gtfs.Journal
