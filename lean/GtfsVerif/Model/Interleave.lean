/-! A minimal model of concurrent calls over shared read-only state (used by C18): a process is a
    list of steps; a step may read shared locations and writes only locations of its own. -/
namespace Gtfs.Interleave

/-- one step of a process: the shared locations it reads and the shared locations it writes -/
structure Step where
  reads : List Nat
  writes : List Nat
deriving DecidableEq, Repr

/-- all interleavings of two step lists -/
def interleavings : List Step → List Step → List (List (Bool × Step))
  | [], ys => [ys.map fun s => (true, s)]
  | xs, [] => [xs.map fun s => (false, s)]
  | x :: xs, y :: ys =>
    (interleavings xs (y :: ys)).map ((false, x) :: ·) ++ (interleavings (x :: xs) ys).map ((true, y) :: ·)

/-- two accesses conflict when they come from different processes, touch the same shared
    location and at least one of them writes it -/
def conflict (a b : Bool × Step) : Bool :=
  a.1 != b.1 && (a.2.writes.any (fun l => b.2.reads.contains l || b.2.writes.contains l) ||
                 b.2.writes.any (fun l => a.2.reads.contains l))

def readOnly (p : List Step) : Prop := ∀ s ∈ p, s.writes = []

end Gtfs.Interleave
