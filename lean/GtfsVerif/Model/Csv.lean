import GtfsVerif.Model.Basic
/-! Byte-level model of Go's `encoding/csv` Reader as `csv.New` configures it (comma, no lazy
    quotes, no trimming, the field count of the first record enforced on the others), behind the
    UTF-8 byte-order-mark removal of `BOMAwareCSVReader`. A fold over the input bytes.
    Differentially validated against encoding/csv (`harness run --prop CSV`). -/
namespace Gtfs.Csv

abbrev B := UInt8
abbrev Field := List B
abbrev Record := List Field

def comma : B := 44
def quote : B := 34
def lf : B := 10
def cr : B := 13
inductive St where
  | recStart (recs : List Record)                       -- at the start of a line, no field begun
  | recStartCR (recs : List Record)                     -- saw a lone CR at line start
  | fieldStart (recs : List Record) (fs : Record)       -- just after a comma
  | unq (recs : List Record) (fs : Record) (acc : Field)        -- inside an unquoted field (acc reversed)
  | unqCR (recs : List Record) (fs : Record) (acc : Field)      -- unquoted, pending CR
  | q (recs : List Record) (fs : Record) (acc : Field)          -- inside quotes
  | qCR (recs : List Record) (fs : Record) (acc : Field)        -- inside quotes, pending CR
  | qq (recs : List Record) (fs : Record) (acc : Field)         -- saw a quote inside quotes
  | qqCR (recs : List Record) (fs : Record) (acc : Field)       -- after closing quote, pending CR
  | err (recs : List Record)                             -- a syntax error after these complete records
deriving Repr, DecidableEq

open St

def endRec (recs : List Record) (fs : Record) (acc : Field) : St :=
  recStart (recs ++ [fs ++ [acc.reverse]])

def step : St → B → St
  | recStart recs, c =>
      if c = lf then recStart recs
      else if c = cr then recStartCR recs
      else if c = quote then q recs [] []
      else if c = comma then fieldStart recs [[]]
      else unq recs [] [c]
  | recStartCR recs, c =>
      if c = lf then recStart recs            -- "\r\n" blank line
      else if c = cr then unqCR recs [] [cr]
      else if c = quote then err recs          -- bare quote in unquoted field that started with CR
      else if c = comma then fieldStart recs [[cr]]
      else unq recs [] [c, cr]
  | fieldStart recs fs, c =>
      if c = lf then recStart (recs ++ [fs ++ [[]]])
      else if c = cr then unqCR recs fs []
      else if c = quote then q recs fs []
      else if c = comma then fieldStart recs (fs ++ [[]])
      else unq recs fs [c]
  | unq recs fs acc, c =>
      if c = lf then endRec recs fs acc
      else if c = cr then unqCR recs fs acc
      else if c = quote then err recs
      else if c = comma then fieldStart recs (fs ++ [acc.reverse])
      else unq recs fs (c :: acc)
  | unqCR recs fs acc, c =>
      if c = lf then endRec recs fs acc
      else if c = cr then unqCR recs fs (cr :: acc)
      else if c = quote then err recs
      else if c = comma then fieldStart recs (fs ++ [(cr :: acc).reverse])
      else unq recs fs (c :: cr :: acc)
  | q recs fs acc, c =>
      if c = quote then qq recs fs acc
      else if c = cr then qCR recs fs acc
      else q recs fs (c :: acc)
  | qCR recs fs acc, c =>
      if c = lf then q recs fs (lf :: acc)     -- "\r\n" inside quotes becomes "\n"
      else if c = quote then qq recs fs (cr :: acc)
      else if c = cr then qCR recs fs (cr :: acc)
      else q recs fs (c :: cr :: acc)
  | qq recs fs acc, c =>
      if c = quote then q recs fs (quote :: acc)
      else if c = comma then fieldStart recs (fs ++ [acc.reverse])
      else if c = lf then endRec recs fs acc
      else if c = cr then qqCR recs fs acc
      else err recs
  | qqCR recs fs acc, c =>
      if c = lf then endRec recs fs acc else err recs
  | err recs, _ => err recs

/-- the complete records, and whether the reader reported a syntax error after them -/
def finish : St → List Record × Bool
  | recStart recs => (recs, false)
  | recStartCR recs => (recs, false)             -- trailing CR at EOF is dropped, leaving an empty line
  | fieldStart recs fs => (recs ++ [fs ++ [[]]], false)
  | unq recs fs acc => (recs ++ [fs ++ [acc.reverse]], false)
  | unqCR recs fs acc => (recs ++ [fs ++ [acc.reverse]], false)
  | q recs _ _ => (recs, true)
  | qCR recs _ _ => (recs, true)
  | qq recs fs acc => (recs ++ [fs ++ [acc.reverse]], false)
  | qqCR recs fs acc => (recs ++ [fs ++ [acc.reverse]], false)
  | err recs => (recs, true)

def run (st : St) (s : List B) : St := s.foldl step st
/-- all records up to the first syntax error, and whether there was one -/
def readAll (s : List B) : List Record × Bool := finish (run (recStart []) s)

/-- the whole input as records; `none` on any syntax error -/
def read (s : List B) : Option (List Record) :=
  let r := readAll s
  if r.2 then none else some r.1

@[simp] theorem run_nil (st) : run st [] = st := rfl
@[simp] theorem run_cons (st c s) : run st (c :: s) = run (step st c) s := rfl
@[simp] theorem run_append (st a b) : run st (a ++ b) = run (run st a) b := by simp [run, List.foldl_append]

/-- the UTF-8 byte order mark is dropped (UTF-16 marks are outside the model) -/
def stripBom : List B → List B
  | 0xEF :: 0xBB :: 0xBF :: r => r
  | s => s

/-- a file as `csv.New` + `NextRow` see it: the header, the data records read before the reader
    stops, and whether it stopped because of an error (bad quoting, or a record whose width differs
    from the header's) rather than at the end of the input -/
structure File where
  header : Record
  rows : List Record
  bodyError : Bool
deriving DecidableEq, Repr

/-- `none`: `csv.New` itself fails (no record at all, or a syntax error in the first record) -/
def readFile (bytes : List B) : Option File :=
  match readAll (stripBom bytes) with
  | ([], _) => none
  | (h :: rest, syntaxErr) =>
    let good := rest.takeWhile (fun r => r.length == h.length)
    some ⟨h, good, syntaxErr || good.length < rest.length⟩

end Gtfs.Csv
