import GtfsVerif.Model.Basic
/-! Byte-level model of Go's `encoding/csv` Reader as `csv.New` configures it (comma, no lazy
    quotes, no trimming, the field count of the first record enforced on the others), behind the
    UTF-8 byte-order-mark removal of `BOMAwareCSVReader`. A fold over the input bytes.
    Differentially validated against encoding/csv (`harness run --prop CSV`). -/
namespace Gtfs.Csv

abbrev B := UInt8
abbrev Field := List B
abbrev Record := List Field

def comma : B := 44
def quote : B := 34
def lf : B := 10
def cr : B := 13
inductive St where
  | recStart (recs : List Record)                       -- at the start of a line, no field begun
  | recStartCR (recs : List Record)                     -- saw a lone CR at line start
  | fieldStart (recs : List Record) (fs : Record)       -- just after a comma
  | unq (recs : List Record) (fs : Record) (acc : Field)        -- inside an unquoted field (acc reversed)
  | unqCR (recs : List Record) (fs : Record) (acc : Field)      -- unquoted, pending CR
  | q (recs : List Record) (fs : Record) (acc : Field)          -- inside quotes
  | qCR (recs : List Record) (fs : Record) (acc : Field)        -- inside quotes, pending CR
  | qq (recs : List Record) (fs : Record) (acc : Field)         -- saw a quote inside quotes
  | qqCR (recs : List Record) (fs : Record) (acc : Field)       -- after closing quote, pending CR
  | err
deriving Repr, DecidableEq

open St

def endRec (recs : List Record) (fs : Record) (acc : Field) : St :=
  recStart (recs ++ [fs ++ [acc.reverse]])

def step : St → B → St
  | recStart recs, c =>
      if c = lf then recStart recs
      else if c = cr then recStartCR recs
      else if c = quote then q recs [] []
      else if c = comma then fieldStart recs [[]]
      else unq recs [] [c]
  | recStartCR recs, c =>
      if c = lf then recStart recs            -- "\r\n" blank line
      else if c = cr then unqCR recs [] [cr]
      else if c = quote then err               -- bare quote in unquoted field that started with CR
      else if c = comma then fieldStart recs [[cr]]
      else unq recs [] [c, cr]
  | fieldStart recs fs, c =>
      if c = lf then recStart (recs ++ [fs ++ [[]]])
      else if c = cr then unqCR recs fs []
      else if c = quote then q recs fs []
      else if c = comma then fieldStart recs (fs ++ [[]])
      else unq recs fs [c]
  | unq recs fs acc, c =>
      if c = lf then endRec recs fs acc
      else if c = cr then unqCR recs fs acc
      else if c = quote then err
      else if c = comma then fieldStart recs (fs ++ [acc.reverse])
      else unq recs fs (c :: acc)
  | unqCR recs fs acc, c =>
      if c = lf then endRec recs fs acc
      else if c = cr then unqCR recs fs (cr :: acc)
      else if c = quote then err
      else if c = comma then fieldStart recs (fs ++ [(cr :: acc).reverse])
      else unq recs fs (c :: cr :: acc)
  | q recs fs acc, c =>
      if c = quote then qq recs fs acc
      else if c = cr then qCR recs fs acc
      else q recs fs (c :: acc)
  | qCR recs fs acc, c =>
      if c = lf then q recs fs (lf :: acc)     -- "\r\n" inside quotes becomes "\n"
      else if c = quote then qq recs fs (cr :: acc)
      else if c = cr then qCR recs fs (cr :: acc)
      else q recs fs (c :: cr :: acc)
  | qq recs fs acc, c =>
      if c = quote then q recs fs (quote :: acc)
      else if c = comma then fieldStart recs (fs ++ [acc.reverse])
      else if c = lf then endRec recs fs acc
      else if c = cr then qqCR recs fs acc
      else err
  | qqCR recs fs acc, c =>
      if c = lf then endRec recs fs acc else err
  | err, _ => err

def finish : St → Option (List Record)
  | recStart recs => some recs
  | recStartCR recs => some recs               -- trailing CR at EOF is dropped, leaving an empty line
  | fieldStart recs fs => some (recs ++ [fs ++ [[]]])
  | unq recs fs acc => some (recs ++ [fs ++ [acc.reverse]])
  | unqCR recs fs acc => some (recs ++ [fs ++ [acc.reverse]])
  | q _ _ _ => none
  | qCR _ _ _ => none
  | qq recs fs acc => some (recs ++ [fs ++ [acc.reverse]])
  | qqCR recs fs acc => some (recs ++ [fs ++ [acc.reverse]])
  | err => none

def run (st : St) (s : List B) : St := s.foldl step st
def read (s : List B) : Option (List Record) := finish (run (recStart []) s)

@[simp] theorem run_nil (st) : run st [] = st := rfl
@[simp] theorem run_cons (st c s) : run st (c :: s) = run (step st c) s := rfl
@[simp] theorem run_append (st a b) : run st (a ++ b) = run (run st a) b := by simp [run, List.foldl_append]

/-- the UTF-8 byte order mark is dropped (UTF-16 marks are outside the model) -/
def stripBom : List B → List B
  | 0xEF :: 0xBB :: 0xBF :: r => r
  | s => s

/-- a parsed file: header and data records, every record as wide as the header -/
structure File where
  header : Record
  rows : List Record
deriving DecidableEq, Repr

/-- `csv.New` followed by reading every row: `none` when the reader reports an error anywhere
    (bad quoting, a record of another width) or the file has no records at all -/
def readFile (bytes : List B) : Option File :=
  match read (stripBom bytes) with
  | none => none
  | some [] => none
  | some (h :: rows) => if rows.all (fun r => r.length == h.length) then some ⟨h, rows⟩ else none

end Gtfs.Csv
