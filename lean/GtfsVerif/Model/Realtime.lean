import GtfsVerif.Model.Basic
import GtfsVerif.Model.Civil
import GtfsVerif.Gen.Enums
import GtfsVerif.Gen.NyctTables
/-! Model of `realtime.go` (ParseRealtime and its helpers), `extensions/nycttrips` and
    `extensions/nyctalerts`, starting from the *decoded* FeedMessage (protobuf decoding is the
    model boundary). Presence of an optional wire field is `Option`. Floats are carried as bit
    patterns. A date is a civil day number in the configured zone, a timestamp its Unix seconds. -/
namespace Gtfs.Rt

/-! ## the decoded message -/

structure NyctTripDesc where
  trainId : Option Str := none
  isAssigned : Option Bool := none
  direction : Option Int := none
deriving DecidableEq, Repr, Inhabited

structure TripDesc where
  tripId : Option Str := none
  routeId : Option Str := none
  directionId : Option Nat := none
  startTime : Option Str := none
  startDate : Option Str := none
  sr : Option Int := none
  nyct : Option NyctTripDesc := none
deriving DecidableEq, Repr, Inhabited

structure VehDesc where
  id : Option Str := none
  label : Option Str := none
  licensePlate : Option Str := none
deriving DecidableEq, Repr, Inhabited

structure StEvent where
  delay : Option Int := none
  time : Option Int := none
  uncertainty : Option Int := none
deriving DecidableEq, Repr, Inhabited

structure NyctStu where
  scheduledTrack : Option Str := none
  actualTrack : Option Str := none
deriving DecidableEq, Repr, Inhabited

structure StuMsg where
  stopSequence : Option Nat := none
  stopId : Option Str := none
  arrival : Option StEvent := none
  departure : Option StEvent := none
  sr : Option Int := none
  nyct : Option NyctStu := none
deriving DecidableEq, Repr, Inhabited

structure TripUpdateMsg where
  trip : Option TripDesc := none
  vehicle : Option VehDesc := none
  stus : List StuMsg := []
deriving DecidableEq, Repr, Inhabited

structure PositionMsg where
  latitude : Option Nat := none
  longitude : Option Nat := none
  bearing : Option Nat := none
  odometer : Option Nat := none
  speed : Option Nat := none
deriving DecidableEq, Repr, Inhabited

structure VehiclePosMsg where
  trip : Option TripDesc := none
  vehicle : Option VehDesc := none
  position : Option PositionMsg := none
  currentStopSequence : Option Nat := none
  stopId : Option Str := none
  currentStatus : Option Int := none
  timestamp : Option Nat := none
  congestionLevel : Option Int := none
  occupancyStatus : Option Int := none
  occupancyPercentage : Option Nat := none
deriving DecidableEq, Repr, Inhabited

structure TimeRange where
  start : Option Nat := none
  stop : Option Nat := none
deriving DecidableEq, Repr, Inhabited

structure Translation where
  text : Str := []
  language : Option Str := none
deriving DecidableEq, Repr, Inhabited

structure EntitySel where
  agencyId : Option Str := none
  routeId : Option Str := none
  routeType : Option Int := none
  trip : Option TripDesc := none
  stopId : Option Str := none
  directionId : Option Nat := none
  mercurySortOrder : Option Str := none      -- MercuryEntitySelector extension
deriving DecidableEq, Repr, Inhabited

structure AlertMsg where
  activePeriods : List TimeRange := []
  informed : List EntitySel := []
  cause : Option Int := none
  effect : Option Int := none
  url : Option (List Translation) := none
  header : Option (List Translation) := none
  description : Option (List Translation) := none
  hasMercuryAlert : Bool := false              -- MercuryAlert extension present (content opaque)
deriving DecidableEq, Repr, Inhabited

structure Entity where
  id : Str := []
  tripUpdate : Option TripUpdateMsg := none
  vehicle : Option VehiclePosMsg := none
  alert : Option AlertMsg := none
deriving DecidableEq, Repr, Inhabited

structure Msg where
  timestamp : Option Nat := none
  entities : List Entity := []
deriving DecidableEq, Repr, Inhabited

/-! ## the result -/

structure TripID where
  id : Str := []
  route : Str := []
  dir : Int := 0
  hasStartTime : Bool := false
  startTime : Int := 0           -- seconds
  hasStartDate : Bool := false
  startDate : Int := 0           -- civil day number in the configured zone
  sr : Int := 0
deriving DecidableEq, Repr, Inhabited

structure VehicleID where
  id : Str := []
  label : Str := []
  licensePlate : Str := []
deriving DecidableEq, Repr, Inhabited

structure EventOut where
  time : Option Int := none      -- Unix seconds
  delay : Option Int := none     -- seconds
  uncertainty : Option Int := none
deriving DecidableEq, Repr, Inhabited

structure StuOut where
  stopSequence : Option Nat := none
  stopId : Option Str := none
  arrival : Option EventOut := none
  departure : Option EventOut := none
  track : Option Str := none
  sr : Int := 0
deriving DecidableEq, Repr, Inhabited

/-- the data of a vehicle (everything but its trip link) -/
structure VehData where
  id : Option VehicleID := none
  position : Option PositionMsg := none
  currentStopSequence : Option Nat := none
  stopId : Option Str := none
  currentStatus : Option Int := none
  timestamp : Option Int := none
  congestionLevel : Int := 0
  occupancyStatus : Option Int := none
  occupancyPercentage : Option Nat := none
  inMessage : Bool := false
deriving DecidableEq, Repr, Inhabited

/-- the data of a trip (everything but its vehicle link) -/
structure TripData where
  id : TripID := {}
  stus : List StuOut := []
  inMessage : Bool := false
deriving DecidableEq, Repr, Inhabited

structure TripOut where
  data : TripData
  vehicle : Option VehData      -- what `Trip.Vehicle` points at (its data)
deriving DecidableEq, Repr, Inhabited

structure VehicleOut where
  data : VehData
  trip : Option TripData        -- what `Vehicle.Trip` points at (its data)
deriving DecidableEq, Repr, Inhabited

structure InformedOut where
  agencyId : Option Str := none
  routeId : Option Str := none
  routeType : Int := 0
  dir : Int := 0
  tripId : Option TripID := none
  stopId : Option Str := none
deriving DecidableEq, Repr, Inhabited

structure AlertOut where
  id : Str
  cause : Int
  effect : Int
  activePeriods : List (Option Int × Option Int)
  informed : List InformedOut
  header : List (Str × Str)
  description : List (Str × Str)
  url : List (Str × Str)
deriving DecidableEq, Repr, Inhabited

structure Result where
  createdAt : Int
  trips : List TripOut
  vehicles : List VehicleOut
  alerts : List AlertOut
deriving DecidableEq, Repr, Inhabited

/-! ## options and extensions -/

structure NyctTripsOpts where
  filterStale : Bool := false
  preserveM : Bool := false
deriving DecidableEq, Repr, Inhabited

inductive DedupPolicy | none | station | complex
deriving DecidableEq, Repr, Inhabited

structure NyctAlertsOpts where
  policy : DedupPolicy := .none
  useStationIds : Bool := false
  skipTimetabled : Bool := false
  addMetadata : Bool := false
deriving DecidableEq, Repr, Inhabited

inductive Ext
  | noExt
  | trips (o : NyctTripsOpts)
  | alerts (o : NyctAlertsOpts)
deriving DecidableEq, Repr, Inhabited

/-! ## scalar conversions -/

/-- `int64(u)` for a uint64 -/
def wrap64 (n : Nat) : Int := if n < 2 ^ 63 then n else (n : Int) - 2 ^ 64

def zeroTimeUnix : Int := -62135596800

def dirRT (d : Option Nat) : Int :=
  match d with
  | none => Gen.Enums.directionRT_nil
  | some 0 => Gen.Enums.directionRT_zero
  | some _ => Gen.Enums.directionRT_other

def routeTypeRT (r : Option Int) : Int :=
  match r with
  | none => Gen.Enums.routeTypeRT_nil
  | some v => Gen.Enums.parseRouteType_GTFSStatic (intToDec v)

def colon : UInt8 := 58

/-- `startTimeRegex` = `^([0-9]{2}):([0-9]{2}):([0-9]{2})$` and the arithmetic after it -/
def parseStartTime (s : Option Str) : Bool × Int :=
  match s with
  | some [h1, h2, c1, m1, m2, c2, s1, s2] =>
    if isDigit h1 && isDigit h2 && c1 == colon && isDigit m1 && isDigit m2 && c2 == colon && isDigit s1 && isDigit s2 then
      (true, ((digitsVal [h1, h2] * 60 + digitsVal [m1, m2]) * 60 + digitsVal [s1, s2] : Nat))
    else (false, 0)
  | _ => (false, 0)

/-- `startDateRegex` = `^([0-9]{4})([0-9]{2})([0-9]{2})$`, then `time.Date` (which normalises) -/
def parseStartDate (s : Option Str) : Bool × Int :=
  match s with
  | some d =>
    if d.length = 8 && Civil.allDigits d then
      (true, Civil.dateDays (digitsVal (d.take 4)) (digitsVal ((d.drop 4).take 2)) (digitsVal (d.drop 6)))
    else (false, 0)
  | none => (false, 0)

def parseTripDescriptor (t : TripDesc) : TripID :=
  let st := parseStartTime t.startTime
  let sd := parseStartDate t.startDate
  { id := t.tripId.getD [], route := t.routeId.getD [], dir := dirRT t.directionId, sr := t.sr.getD 0,
    hasStartTime := st.1, startTime := st.2, hasStartDate := sd.1, startDate := sd.2 }

def parseVehicleDescriptor (v : Option VehDesc) : Option VehicleID :=
  match v with
  | none => none
  | some d =>
    let vid : VehicleID := ⟨d.id.getD [], d.label.getD [], d.licensePlate.getD []⟩
    if vid = ⟨[], [], []⟩ then none else some vid

def convertEvent (e : Option StEvent) : Option EventOut :=
  e.map fun ev => { time := ev.time, delay := ev.delay, uncertainty := ev.uncertainty }

/-! ## extension: NYCT trips -/

def isAlnum (c : UInt8) : Bool := isDigit c || (65 ≤ c && c ≤ 90) || (97 ≤ c && c ≤ 122)

/-- number of bytes of the UTF-8 sequence starting with `c` (1 for ASCII and for stray bytes) -/
def runeLen (c : UInt8) : Nat :=
  if c < 0x80 then 1 else if c < 0xC0 then 1 else if c < 0xE0 then 2 else if c < 0xF0 then 3 else 4

/-- drop one "any character but newline" (`.`); none at end of text or at a newline -/
def dropDot (s : Str) : Option Str :=
  match s with
  | [] => none
  | c :: r => if c == 10 then none else some (r.drop (runeLen c - 1))

/-- `TripIDRegex` = `^([0-9]{6})_([[:alnum:]]{1,2})..([SN])([[:alnum:]]*)$`: the six origin digits
    when the id matches -/
def matchNyctTripId (s : Str) : Option Str :=
  let d := s.take 6
  let r := s.drop 6
  if d.length = 6 && d.all isDigit then
    match r with
    | 95 :: r1 =>
      -- one or two alphanumerics (greedy, with backtracking), two dots, S or N, alphanumerics to the end
      let tail (x : Str) : Bool :=
        match dropDot x with
        | none => false
        | some x1 =>
          match dropDot x1 with
          | none => false
          | some x2 =>
            match x2 with
            | c :: rest => (c == 83 || c == 78) && rest.all isAlnum
            | [] => false
      match r1 with
      | a :: r2 =>
        if isAlnum a then
          let two := match r2 with
            | b :: r3 => isAlnum b && tail r3
            | [] => false
          if two || tail r2 then some d else none
        else none
      | [] => none
    | _ => none
  else none

/-- the HH:MM:SS start time the extension derives from the origin digits -/
def nyctStartTime (digits : Str) : Str :=
  let hundredths := digitsVal digits
  let secs := hundredths * 6 / 10
  let mins := secs / 60
  pad2 (mins / 60) ++ [colon] ++ pad2 (mins % 60) ++ [colon] ++ pad2 (secs % 60)

/-- `updateTripOrVehicle` on a trip descriptor: (new descriptor, vehicle descriptor to install, isAssigned) -/
def nyctUpdateDesc (t : TripDesc) : TripDesc × Option VehDesc × Bool :=
  match t.nyct with
  | none => (t, none, false)
  | some n =>
    let assigned := n.isAssigned.getD false
    let veh : Option VehDesc := if assigned then some { id := some (n.trainId.getD []) } else none
    let dir : Nat := if n.direction.getD Gen.NyctTables.NyctTripDescriptor_NORTH = Gen.NyctTables.NyctTripDescriptor_NORTH then 0 else 1
    let t1 := { t with directionId := some dir }
    let t2 := match matchNyctTripId (t.tripId.getD []) with
      | some d => { t1 with startTime := some (nyctStartTime d) }
      | none => t1
    (t2, veh, assigned)

def swapLast (d : UInt8) : UInt8 := if d == 78 then 83 else if d == 83 then 78 else d

def swapNS (stop : Str) : Str :=
  match stop with
  | [a, b, c, d] => if Gen.NyctTables.buggyStationIDs.contains [a, b, c] then [a, b, c, swapLast d] else stop
  | _ => stop

def fixStu (s : StuMsg) : StuMsg :=
  let sid := s.stopId.getD []
  if swapNS sid = sid then s else { s with stopId := some (swapNS sid) }

/-- `fixMTrainPlatformsInBushwick` -/
def fixM (tu : TripUpdateMsg) : TripUpdateMsg :=
  if ((tu.trip.bind (·.routeId)).getD []) != Gen.NyctTables.mTrainRoute then tu
  else { tu with stus := tu.stus.map fixStu }

def eventTime (e : Option StEvent) : Int := (e.bind (·.time)).getD 0

/-- `isStaleUnassignedTrip` -/
def isStale (assigned : Bool) (stus : List StuMsg) (feedTs : Nat) : Bool :=
  if assigned then false
  else match stus with
    | [] => true
    | s :: _ =>
      let t := if eventTime s.departure = 0 then eventTime s.arrival else eventTime s.departure
      if t = 0 then true else t < wrap64 feedTs

/-- `extension.UpdateTrip` of nycttrips: (rewritten trip update, shouldSkip) -/
def nyctUpdateTrip (o : NyctTripsOpts) (tu : TripUpdateMsg) (feedTs : Nat) : TripUpdateMsg × Bool :=
  let tu1 := if o.preserveM then tu else fixM tu
  match tu1.trip with
  | none => (tu1, false)
  | some t =>
    let (t', veh, assigned) := nyctUpdateDesc t
    let tu2 := { tu1 with trip := some t', vehicle := match veh with | some v => some v | none => tu1.vehicle }
    (tu2, t.nyct.isSome && o.filterStale && isStale assigned tu1.stus feedTs)

def nyctUpdateVehicle (vp : VehiclePosMsg) : VehiclePosMsg :=
  match vp.trip with
  | none => vp
  | some t =>
    let (t', veh, _) := nyctUpdateDesc t
    { vp with trip := some t', vehicle := match veh with | some v => some v | none => vp.vehicle }

def nyctGetTrack (s : StuMsg) : Option Str :=
  match s.nyct with
  | none => none
  | some n => match n.actualTrack with
    | some a => some a
    | none => n.scheduledTrack

/-! ## extension: NYCT alerts -/

def hasPrefix (p s : Str) : Bool := s.take p.length == p

/-- `elevatorAlertIDRegex` = `([[:alnum:]]{3}?)([SN]?)#EL(.*)`, leftmost match:
    (station, N/S suffix, elevator) -/
def matchElevatorAt (s : Str) : Option (Str × Str × Str) :=
  match s with
  | a :: b :: c :: r =>
    if isAlnum a && isAlnum b && isAlnum c then
      let rest (x : Str) : Str := x.takeWhile (· != 10)
      match r with
      | d :: 35 :: 69 :: 76 :: r' =>
        if d == 83 || d == 78 then some ([a, b, c], [d], rest r')
        else none
      | 35 :: 69 :: 76 :: r' => some ([a, b, c], [], rest r')
      | _ => none
    else none
  | _ => none

def matchElevator : Str → Option (Str × Str × Str)
  | [] => none
  | c :: r =>
    match matchElevatorAt (c :: r) with
    | some m => some m
    | none => matchElevator r

def lastIndexColon (s : Str) : Option Nat :=
  let idxs := (List.range s.length).filter fun i => s[i]? == some colon
  idxs.getLast?

/-- `strconv.Atoi`: optional sign, at least one digit, digits only (overflow not modelled) -/
def atoi (s : Str) : Option Int :=
  match s with
  | 43 :: r => if r ≠ [] && r.all isDigit then some (digitsVal r) else none
  | 45 :: r => if r ≠ [] && r.all isDigit then some (-(digitsVal r : Int)) else none
  | r => if r ≠ [] && r.all isDigit then some (digitsVal r) else none

/-- `getPriorityFromInformedEntity` -/
def priorityOf (e : EntitySel) : Option Int :=
  match e.mercurySortOrder with
  | none => none
  | some so =>
    match lastIndexColon so with
    | none => none
    | some i => atoi (so.drop (i + 1))

def alookupI (k : Int) (m : List (Int × Int)) : Option Int := (m.find? (·.1 == k)).map (·.2)

/-- the effect/skip loop of `UpdateAlert` over the informed entities -/
def effectLoop (skipTimetabled : Bool) : List EntitySel → Option Int → Option Int × Bool
  | [], eff => (eff, false)
  | e :: r, eff =>
    match priorityOf e with
    | none => effectLoop skipTimetabled r eff
    | some p =>
      let eff' := match alookupI p Gen.NyctTables.priorityToEffect with
        | some x => some x
        | none => eff
      if skipTimetabled && Gen.NyctTables.timetabledNoServicePriorities.contains p then (eff', true)
      else effectLoop skipTimetabled r eff'

def metadataMarker : Str := [60, 60, 77, 69, 84, 65, 68, 65, 84, 65, 62, 62]   -- "<<METADATA>>"

def causeFor (id : Str) (cur : Int) : Int :=
  match Gen.NyctTables.causeByPrefix.find? (fun p => hasPrefix p.1 id) with
  | some p => p.2
  | none => cur

/-- the non-elevator part of `UpdateAlert`: (rewritten alert, skip) -/
def nyctUpdatePlainAlert (o : NyctAlertsOpts) (id : Str) (a : AlertMsg) : AlertMsg × Bool :=
  let cause := causeFor id (a.cause.getD Gen.NyctTables.Alert_UNKNOWN_CAUSE)
  let (eff, skip) := effectLoop o.skipTimetabled a.informed a.effect
  let a1 := { a with cause := some cause, effect := eff }
  if skip then (a1, true)
  else if o.addMetadata && a.hasMercuryAlert then
    ({ a1 with description := some ((a.description.getD []) ++ [{ text := metadataMarker, language := some Gen.NyctTables.metadataLanguage }]) }, false)
  else (a1, false)

def elevatorNewId (o : NyctAlertsOpts) (station suffix elevator : Str) : Str :=
  match o.policy with
  | .station => station ++ [35, 69, 76] ++ elevator
  | .complex => [101, 108, 101, 118, 97, 116, 111, 114, 58, 69, 76] ++ elevator     -- "elevator:EL"
  | .none => station ++ suffix ++ [35, 69, 76] ++ elevator

/-- state of the alerts pre-pass: processed entities (in order) and, per new elevator id, the index of
    the first entity of the group -/
structure AlertPass where
  done : List (Entity × Bool) := []
  groups : List (Str × Nat) := []
deriving Repr, Inhabited

def addInformedStop (a : AlertMsg) (stop : Str) : AlertMsg :=
  if a.informed.any (fun e => e.stopId == some stop) then a
  else { a with informed := a.informed ++ [{ stopId := some stop }] }

def modifyAt {α} (l : List α) (i : Nat) (f : α → α) : List α :=
  l.mapIdx fun j x => if j = i then f x else x

/-- `UpdateAlert` on one alert entity (the alert pre-pass step) -/
def alertPassStep (o : NyctAlertsOpts) (st : AlertPass) (e : Entity) (a : AlertMsg) : AlertPass :=
  match matchElevator e.id with
  | none =>
    let (a', skip) := nyctUpdatePlainAlert o e.id a
    { st with done := st.done ++ [({ e with alert := some a' }, skip)] }
  | some (station, suffix, elevator) =>
    let informedId := if o.useStationIds then station else station ++ suffix
    let newId := elevatorNewId o station suffix elevator
    let a0 := { a with cause := some Gen.NyctTables.elevatorCause, effect := some Gen.NyctTables.elevatorEffect }
    match alookup newId st.groups with
    | some i =>
      -- a later member: its stop is added to the first member, and it is skipped
      { st with done := (modifyAt st.done i fun p =>
            ({ p.1 with alert := p.1.alert.map fun fa => addInformedStop fa informedId }, p.2))
          ++ [({ e with id := newId, alert := some a0 }, true)] }
    | none =>
      -- the first member of a group: it keeps only the group's stops, and (updateElevatorAlert
      -- having returned false) continues through the rest of UpdateAlert under its new id
      let a1 := addInformedStop { a0 with informed := [] } informedId
      let (a2, skip) := nyctUpdatePlainAlert o newId a1
      { done := st.done ++ [({ e with id := newId, alert := some a2 }, skip)],
        groups := st.groups ++ [(newId, st.done.length)] }

/-! ## the extension pre-pass of ParseRealtime -/

def prepass (ext : Ext) (m : Msg) : List (Entity × Bool) :=
  let ts := m.timestamp.getD 0
  match ext with
  | .noExt => m.entities.map fun e => (e, false)
  | .trips o => m.entities.map fun e =>
      match e.tripUpdate with
      | some tu => let r := nyctUpdateTrip o tu ts; ({ e with tripUpdate := some r.1 }, r.2)
      | none =>
        match e.vehicle with
        | some vp => ({ e with vehicle := some (nyctUpdateVehicle vp) }, false)
        | none => (e, false)
  | .alerts o =>
      (m.entities.foldl (fun st e =>
        match e.tripUpdate, e.vehicle, e.alert with
        | none, none, some a => alertPassStep o st e a
        | _, _, _ => { st with done := st.done ++ [(e, false)] }) ({} : AlertPass)).done

def getTrack (ext : Ext) (s : StuMsg) : Option Str :=
  match ext with
  | .trips _ => nyctGetTrack s
  | _ => none

/-! ## entity parsers -/

def parseTripUpdate (ext : Ext) (tu : TripUpdateMsg) : Option (TripData × Option VehData) :=
  match tu.trip with
  | none => none
  | some t =>
    let trip : TripData :=
      { id := parseTripDescriptor t, inMessage := true,
        stus := tu.stus.map fun s =>
          { stopSequence := s.stopSequence, stopId := s.stopId, arrival := convertEvent s.arrival,
            departure := convertEvent s.departure, track := getTrack ext s, sr := s.sr.getD 0 } }
    match tu.vehicle with
    | none => some (trip, none)
    | some v => some (trip, some { id := parseVehicleDescriptor (some v), inMessage := false })

def parseVehicle (vp : VehiclePosMsg) : Option TripData × VehData :=
  let v : VehData :=
    { id := parseVehicleDescriptor vp.vehicle, position := vp.position, currentStopSequence := vp.currentStopSequence,
      stopId := vp.stopId, currentStatus := vp.currentStatus, timestamp := vp.timestamp.map wrap64,
      congestionLevel := vp.congestionLevel.getD 0, occupancyStatus := vp.occupancyStatus,
      occupancyPercentage := vp.occupancyPercentage, inMessage := true }
  (vp.trip.map fun t => { id := parseTripDescriptor t, inMessage := false }, v)

def identifies (t : Option TripID) : Bool :=
  match t with
  | none => false
  | some t => t.id != [] || (t.route != [] && t.dir != Gen.Enums.DirectionID_Unspecified && t.hasStartTime && t.hasStartDate)

def informsSomething (e : InformedOut) : Bool :=
  e.agencyId.isSome || e.routeId.isSome || e.routeType != Gen.Enums.RouteType_Unknown || identifies e.tripId || e.stopId.isSome

/-- per-route directions named by non-identifying trip descriptors -/
def addRouteDir (m : List (Str × (Bool × Bool))) (route : Str) (dir : Int) : List (Str × (Bool × Bool)) :=
  if dir = Gen.Enums.DirectionID_Unspecified then aset route (true, true) m
  else
    let cur := (alookup route m).getD (false, false)
    aset route (if dir = Gen.Enums.DirectionID_False then (true, cur.2) else (cur.1, dir = Gen.Enums.DirectionID_True || cur.2)) m

structure AlertAcc where
  informed : List InformedOut := []
  trips : List TripID := []
  informedRoutes : List Str := []
  fromTrips : List (Str × (Bool × Bool)) := []     -- route ↦ (direction False named, direction True named)
deriving Repr, Inhabited

def alertSelStep (acc : AlertAcc) (e : EntitySel) : AlertAcc :=
  let tid := e.trip.map parseTripDescriptor
  let acc1 := match tid with
    | some t => if !identifies (some t) && t.route != [] then { acc with fromTrips := addRouteDir acc.fromTrips t.route t.dir } else acc
    | none => acc
  let acc2 := match e.routeId with
    | some r => { acc1 with informedRoutes := acc1.informedRoutes ++ [r] }
    | none => acc1
  let ie : InformedOut := { agencyId := e.agencyId, routeId := e.routeId, routeType := routeTypeRT e.routeType,
                            dir := dirRT e.directionId, tripId := tid, stopId := e.stopId }
  if !informsSomething ie then acc2
  else if identifies tid then
    { acc2 with informed := acc2.informed ++ [ie], trips := acc2.trips ++ [tid.getD {}] }
  else { acc2 with informed := acc2.informed ++ [{ ie with tripId := none }] }

def fallbackEntity (route : Str) (dirs : Bool × Bool) : InformedOut :=
  if dirs.1 && dirs.2 then { routeId := some route, routeType := Gen.Enums.RouteType_Unknown }
  else { routeId := some route, routeType := Gen.Enums.RouteType_Unknown,
         dir := if dirs.1 then Gen.Enums.DirectionID_False else Gen.Enums.DirectionID_True }

def texts (t : Option (List Translation)) : List (Str × Str) :=
  (t.getD []).map fun x => (x.text, x.language.getD [])

def parseAlert (id : Str) (a : AlertMsg) : AlertOut × List TripID :=
  let acc := a.informed.foldl alertSelStep {}
  let routes := (akeys acc.fromTrips).mergeSort (fun x y => strLe x y)
  let fallbacks := routes.filterMap fun r =>
    if acc.informedRoutes.contains r then none else (alookup r acc.fromTrips).map (fallbackEntity r)
  ({ id := id, cause := a.cause.getD Gen.NyctTables.Alert_UNKNOWN_CAUSE, effect := a.effect.getD Gen.NyctTables.Alert_UNKNOWN_EFFECT,
     activePeriods := a.activePeriods.map fun p => (p.start.map wrap64, p.stop.map wrap64),
     informed := acc.informed ++ fallbacks,
     header := texts a.header, description := texts a.description, url := texts a.url }, acc.trips)

/-! ## the merge loop -/

def mergeTrip (cur : Option TripData) (new : TripData) : TripData :=
  if new.inMessage then new else { (cur.getD {}) with id := new.id }

def mergeVehicle (cur : Option VehData) (new : VehData) : VehData :=
  if new.inMessage then new else { (cur.getD {}) with id := new.id }

instance : BEq TripID := ⟨fun a b => decide (a = b)⟩
instance : LawfulBEq TripID where
  eq_of_beq h := of_decide_eq_true h
  rfl := decide_eq_true rfl
instance : BEq VehicleID := ⟨fun a b => decide (a = b)⟩
instance : LawfulBEq VehicleID where
  eq_of_beq h := of_decide_eq_true h
  rfl := decide_eq_true rfl

structure Acc where
  trips : List (TripID × TripData) := []
  vehicles : List (VehicleID × VehData) := []
  tripToVeh : List (TripID × VehicleID) := []
  vehToTrip : List (VehicleID × TripID) := []
  noId : List VehData := []
  noIdLinks : List (TripID × Nat) := []      -- trip ↦ index into noId
  alerts : List AlertOut := []
deriving Repr, Inhabited

def addTrip (acc : Acc) (t : TripData) : Acc :=
  { acc with trips := aset t.id (mergeTrip (alookup t.id acc.trips) t) acc.trips }

/-- what one (not skipped) entity contributes -/
def entityStep (ext : Ext) (acc : Acc) (e : Entity) : Acc :=
  let parsed : Option (Option TripData × Option VehData × Option (AlertOut × List TripID)) :=
    match e.tripUpdate with
    | some tu => (parseTripUpdate ext tu).map fun r => (some r.1, r.2, none)
    | none =>
      match e.vehicle with
      | some vp => let r := parseVehicle vp; some (r.1, some r.2, none)
      | none =>
        match e.alert with
        | some a => some (none, none, some (parseAlert e.id a))
        | none => none
  match parsed with
  | none => acc
  | some (trip, vehicle, alert) =>
    let acc1 := match alert with
      | some (a, ts) => ts.foldl (fun ac t => addTrip ac { id := t, inMessage := false }) { acc with alerts := acc.alerts ++ [a] }
      | none => acc
    let acc2 := match trip with
      | some t => addTrip acc1 t
      | none => acc1
    let acc3 := match vehicle with
      | some v =>
        match v.id with
        | some vid => { acc2 with vehicles := aset vid (mergeVehicle (alookup vid acc2.vehicles) v) acc2.vehicles }
        | none => { acc2 with noId := acc2.noId ++ [v] }
      | none => acc2
    match trip, vehicle with
    | some t, some v =>
      match v.id with
      | some vid => { acc3 with tripToVeh := aset t.id vid acc3.tripToVeh, vehToTrip := aset vid t.id acc3.vehToTrip }
      | none => { acc3 with noIdLinks := acc3.noIdLinks ++ [(t.id, acc2.noId.length)] }
    | _, _ => acc3

/-! ## order on trip and vehicle ids (`TripID.Less`, the vehicle sort) -/

def tripLess (a b : TripID) : Bool :=
  if a.id != b.id then strLt a.id b.id
  else if a.route != b.route then strLt a.route b.route
  else if a.dir != b.dir then a.dir < b.dir
  else if a.hasStartTime != b.hasStartTime then !a.hasStartTime && b.hasStartTime
  else if a.hasStartTime && a.startTime != b.startTime then a.startTime < b.startTime
  else if a.hasStartDate != b.hasStartDate then !a.hasStartDate && b.hasStartDate
  else if a.hasStartDate && a.startDate != b.startDate then a.startDate < b.startDate
  else a.sr < b.sr

def vehLess (a b : VehicleID) : Bool :=
  if a.id != b.id then strLt a.id b.id
  else if a.label != b.label then strLt a.label b.label
  else strLt a.licensePlate b.licensePlate

/-! ## link resolution and the result -/

/-- the last no-id link of a trip (later links overwrite earlier ones) -/
def noIdLinkOf (acc : Acc) (t : TripID) : Option Nat :=
  ((acc.noIdLinks.filter fun p => p.1 == t).getLast?).map (·.2)

/-- the last trip linked to the no-id vehicle `i` -/
def tripOfNoId (acc : Acc) (i : Nat) : Option TripID :=
  ((acc.noIdLinks.filter fun p => p.2 == i).getLast?).map (·.1)

def tripVehicle (acc : Acc) (t : TripID) : Option VehData :=
  match alookup t acc.tripToVeh with
  | some vid => alookup vid acc.vehicles
  | none => (noIdLinkOf acc t).bind fun i => acc.noId[i]?

def finish (createdAt : Int) (acc : Acc) : Result :=
  let trips := (acc.trips.mergeSort fun a b => !tripLess b.1 a.1).map fun p =>
    { data := p.2, vehicle := tripVehicle acc p.1 : TripOut }
  let vehs := (acc.vehicles.mergeSort fun a b => !vehLess b.1 a.1).map fun p =>
    { data := p.2, trip := (alookup p.1 acc.vehToTrip).bind fun t => alookup t acc.trips : VehicleOut }
  let noId := acc.noId.mapIdx fun i v =>
    { data := v, trip := (tripOfNoId acc i).bind fun t => alookup t acc.trips : VehicleOut }
  { createdAt := createdAt, trips := trips, vehicles := vehs ++ noId, alerts := acc.alerts }

def runEntities (ext : Ext) (es : List (Entity × Bool)) : Acc :=
  es.foldl (fun acc p => if p.2 then acc else entityStep ext acc p.1) {}

/-- ParseRealtime on a decoded message -/
def parse (ext : Ext) (m : Msg) : Result :=
  let createdAt := (m.timestamp.map wrap64).getD zeroTimeUnix
  finish createdAt (runEntities ext (prepass ext m))

end Gtfs.Rt
