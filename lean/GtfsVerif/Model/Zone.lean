import GtfsVerif.Model.Civil
/-! Time zones as finite transition tables, and `time.Date(y, m, d, 0,0,0,0, loc)` over them.

    A `*time.Location` is, for the purposes of the library, the function "instant ↦ UTC offset"
    together with the segment bounds `Location.lookup` reports. The harness exports that function for
    every zone it uses by walking `Time.ZoneBounds` (the tz database itself stays trusted); the table is
    an input of the model. `dateUnix` follows the code of `time.Date` (go1.23: one lookup at the wall
    clock reading taken as if it were UTC, a second lookup when the corrected instant falls outside the
    segment found first). `time.ParseInLocation("20060102", s, loc)` ends in the same `Date` call. -/
namespace Gtfs.Zone

/-- `first` is the offset in force before the first listed transition; `trans` lists
    (instant of the transition, offset in force from then on), instants strictly increasing. -/
structure Zone where
  first : Int := 0
  trans : List (Int × Int) := []
deriving DecidableEq, Repr, Inhabited

def utc : Zone := {}
def fixed (off : Int) : Zone := { first := off }

/-- result of `Location.lookup`: offset, start and end of the segment (`none` = alpha / omega) -/
structure Seg where
  off : Int
  start : Option Int
  stop : Option Int
deriving DecidableEq, Repr, Inhabited

def lookupFrom (off : Int) (start : Option Int) : List (Int × Int) → Int → Seg
  | [], _ => { off := off, start := start, stop := none }
  | (s, o) :: rest, t => if t < s then { off := off, start := start, stop := some s } else lookupFrom o (some s) rest t

def lookup (z : Zone) (t : Int) : Seg := lookupFrom z.first none z.trans t

def offsetAt (z : Zone) (t : Int) : Int := (lookup z t).off

/-- `utc < start || utc >= end` -/
def Seg.outside (g : Seg) (t : Int) : Bool :=
  (match g.start with | some s => decide (t < s) | none => false) ||
  (match g.stop with | some e => decide (e ≤ t) | none => false)

/-- `time.Date(y, m, d, 0, 0, 0, 0, loc).Unix()` for the civil day number `days` -/
def dateUnix (z : Zone) (days : Int) : Int :=
  let unix := days * 86400
  let g := lookup z unix
  if g.off != 0 then
    let utc := unix - g.off
    let off := if g.outside utc then (lookup z utc).off else g.off
    unix - off
  else unix

/-- what a clock in the zone shows at instant `t`, as seconds since 1970-01-01 00:00:00 on that clock -/
def wall (z : Zone) (t : Int) : Int := t + offsetAt z t

/-- instants are strictly increasing along the table -/
def WF (z : Zone) : Prop := z.trans.Pairwise (fun a b => a.1 < b.1)

instance (z : Zone) : Decidable (WF z) := by unfold WF; infer_instance

/-- the second guess of `time.Date` is consistent: the offset in force at the instant it returns is the
    offset it subtracted. False exactly when the wall clock never shows that midnight (a forward jump
    across it) or when the two look-ups land on opposite sides of a transition. -/
def Settled (z : Zone) (days : Int) : Prop :=
  let u := days * 86400
  let o2 := offsetAt z (u - offsetAt z u)
  offsetAt z (u - o2) = o2

instance (z : Zone) (d : Int) : Decidable (Settled z d) := by unfold Settled; infer_instance

/-- a zone table as the harness exports it: the offsets it lists are exact for civil days in
    `[loDay, hiDay]` (unbounded when absent: UTC and fixed offsets) -/
structure Table where
  zone : Zone := {}
  loDay : Option Int := none
  hiDay : Option Int := none
deriving DecidableEq, Repr, Inhabited

def Table.covers (t : Table) (d : Int) : Bool :=
  (match t.loDay with | some l => decide (l ≤ d) | none => true) &&
  (match t.hiDay with | some h => decide (d ≤ h) | none => true)

/-- the instant at which a date (civil day number `d`) is surfaced: `time.Date(…, 0,0,0,0, loc).Unix()`;
    `none` outside the exported range -/
def Table.instant (t : Table) (d : Int) : Option Int :=
  if t.covers d then some (dateUnix t.zone d) else none

end Gtfs.Zone
