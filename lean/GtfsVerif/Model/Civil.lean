import GtfsVerif.Model.Basic
/-! Civil dates: days since 1970-01-01 of a proleptic Gregorian date, with `time.Date`'s month
    and day normalisation, and `time.ParseInLocation("20060102", …)`'s validity rules.
    A date in the model is its civil day number in the zone in force; the Go side observes a
    `time.Time` as (civil day number, seconds after local midnight) in its own location. -/
namespace Gtfs.Civil

def isLeap (y : Int) : Bool := (y % 4 == 0 && y % 100 != 0) || y % 400 == 0

def daysInMonth (y : Int) (m : Nat) : Nat :=
  match m with
  | 1 | 3 | 5 | 7 | 8 | 10 | 12 => 31
  | 4 | 6 | 9 | 11 => 30
  | 2 => if isLeap y then 29 else 28
  | _ => 0

/-- Hinnant's days_from_civil for years ≥ 1 (natural-number arithmetic), month 1..12 -/
def daysFromCivilNat (y m d : Nat) : Nat :=
  let y' := if m ≤ 2 then y - 1 else y
  let era := y' / 400
  let yoe := y' - era * 400
  let mp := if m > 2 then m - 3 else m + 9
  let doy := (153 * mp + 2) / 5 + d - 1
  let doe := yoe * 365 + yoe / 4 - yoe / 100 + doy
  era * 146097 + doe

/-- days since 1970-01-01 of year `y` (≥ -399), month 1..12, day 1 -/
def firstOfMonth (y : Int) (m : Nat) : Int :=
  (daysFromCivilNat (y + 400).toNat m 1 : Int) - 146097 - 719468

/-- `time.Date(y, m, d, 0,0,0,0, loc)` as a civil day number: months outside 1..12 carry into the
    year, the day offset is added as is (day 0 is the last day of the previous month). -/
def dateDays (y m d : Int) : Int :=
  let m0 := m - 1
  let yAdj := y + m0.fdiv 12
  let mAdj := (m0.fmod 12).toNat + 1
  firstOfMonth yAdj mAdj + (d - 1)

def allDigits (s : Str) : Bool := s.all isDigit

/-- `time.ParseInLocation("20060102", s, loc)`: exactly eight digits, month 1..12, day within the
    month; the result as a civil day number -/
def parseDate8 (s : Str) : Option Int :=
  if s.length = 8 && allDigits s then
    let y : Int := digitsVal (s.take 4)
    let m := digitsVal ((s.drop 4).take 2)
    let d := digitsVal (s.drop 6)
    if 1 ≤ m && m ≤ 12 && 1 ≤ d && d ≤ daysInMonth y m then some (firstOfMonth y m + (d - 1)) else none
  else none

end Gtfs.Civil
