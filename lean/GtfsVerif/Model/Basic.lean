/-! Shared basics of the model: byte strings, their order, decimal rendering, association maps.
    Core Lean only (nothing here may import Mathlib: the driver executable links this). -/
namespace Gtfs

/-- Go strings are byte strings: sliced, compared and measured by byte. -/
abbrev Str := List UInt8

/-- `"abc"` as a byte string (UTF-8 bytes), for examples and expectations. -/
def bs (x : String) : Str := x.toUTF8.toList

/-- Go's `<` on strings: bytewise lexicographic. -/
def strLt : Str → Str → Bool
  | [], [] => false
  | [], _ :: _ => true
  | _ :: _, [] => false
  | a :: as, b :: bs => if a < b then true else if b < a then false else strLt as bs

def strLe (a b : Str) : Bool := !strLt b a

theorem strLt_irrefl (a : Str) : strLt a a = false := by
  induction a with
  | nil => rfl
  | cons x xs ih => simp [strLt, ih]

theorem strLt_asymm {a b : Str} (h : strLt a b = true) : strLt b a = false := by
  induction a generalizing b with
  | nil => cases b <;> simp_all [strLt]
  | cons x xs ih =>
    cases b with
    | nil => simp [strLt] at h
    | cons y ys =>
      simp only [strLt] at h ⊢
      by_cases h1 : x < y
      · have : ¬ y < x := by
          intro h2; exact absurd (UInt8.lt_trans h1 h2) (UInt8.lt_irrefl x)
        simp [h1, this]
      · by_cases h2 : y < x
        · simp [h1, h2] at h
        · simp only [h1, h2, if_false] at h ⊢
          exact ih h

theorem strLt_trichotomy (a b : Str) : strLt a b = true ∨ a = b ∨ strLt b a = true := by
  induction a generalizing b with
  | nil => cases b <;> simp [strLt]
  | cons x xs ih =>
    cases b with
    | nil => simp [strLt]
    | cons y ys =>
      simp only [strLt]
      by_cases h1 : x < y
      · simp [h1]
      · by_cases h2 : y < x
        · simp [h1, h2]
        · have hxy : x = y := by
            apply UInt8.le_antisymm
            · exact UInt8.not_lt.mp h2
            · exact UInt8.not_lt.mp h1
          subst hxy
          simp only [UInt8.lt_irrefl, if_false]
          rcases ih ys with h | h | h
          · exact Or.inl h
          · exact Or.inr (Or.inl (by rw [h]))
          · exact Or.inr (Or.inr h)

theorem strLt_trans {a b c : Str} (h1 : strLt a b = true) (h2 : strLt b c = true) : strLt a c = true := by
  induction a generalizing b c with
  | nil =>
    cases c with
    | nil => cases b <;> simp_all [strLt]
    | cons _ _ => simp [strLt]
  | cons x xs ih =>
    cases b with
    | nil => simp [strLt] at h1
    | cons y ys =>
      cases c with
      | nil => simp [strLt] at h2
      | cons z zs =>
        simp only [strLt] at h1 h2 ⊢
        by_cases hxy : x < y
        · by_cases hyz : y < z
          · simp [UInt8.lt_trans hxy hyz]
          · by_cases hzy : z < y
            · simp [hyz, hzy] at h2
            · have : y = z := UInt8.le_antisymm (UInt8.not_lt.mp hzy) (UInt8.not_lt.mp hyz)
              subst this; simp [hxy]
        · by_cases hyx : y < x
          · simp [hxy, hyx] at h1
          · have : x = y := UInt8.le_antisymm (UInt8.not_lt.mp hyx) (UInt8.not_lt.mp hxy)
            subst this
            simp only [UInt8.lt_irrefl, if_false] at h1
            by_cases hxz : x < z
            · simp [hxz]
            · by_cases hzx : z < x
              · simp [hxz, hzx] at h2
              · simp only [hxz, hzx, if_false] at h2 ⊢
                exact ih h1 h2

theorem strLe_total (a b : Str) : strLe a b = true ∨ strLe b a = true := by
  unfold strLe
  rcases strLt_trichotomy a b with h | h | h
  · left; simp [strLt_asymm h]
  · subst h; left; simp [strLt_irrefl]
  · right; simp [strLt_asymm h]

theorem strLe_trans {a b c : Str} (h1 : strLe a b = true) (h2 : strLe b c = true) : strLe a c = true := by
  unfold strLe at *
  simp only [Bool.not_eq_true'] at *
  rcases strLt_trichotomy a b with h | h | h
  · rcases strLt_trichotomy b c with h' | h' | h'
    · exact strLt_asymm (strLt_trans h h')
    · subst h'; exact strLt_asymm h
    · simp [h'] at h2
  · subst h; exact h2
  · simp [h] at h1

theorem strLe_antisymm {a b : Str} (h1 : strLe a b = true) (h2 : strLe b a = true) : a = b := by
  unfold strLe at *
  simp only [Bool.not_eq_true'] at *
  rcases strLt_trichotomy a b with h | h | h
  · simp [h] at h2
  · exact h
  · simp [h] at h1

/-! ### Decimal rendering (`%d`) and parsing -/

def digitChar (d : Nat) : UInt8 := (48 + d % 10).toUInt8

/-- digits of `n`, most significant first; `0 ↦ "0"`. Fuel = number of digits is at most `n+1`. -/
def natDigitsAux : Nat → Nat → List UInt8 → List UInt8
  | 0, _, acc => acc
  | fuel + 1, n, acc =>
    if n < 10 then digitChar n :: acc else natDigitsAux fuel (n / 10) (digitChar (n % 10) :: acc)

def natToDec (n : Nat) : Str := natDigitsAux (n + 1) n []

def intToDec : Int → Str
  | .ofNat n => natToDec n
  | .negSucc n => 45 :: natToDec (n + 1)

def isDigit (c : UInt8) : Bool := 48 ≤ c && c ≤ 57
def digitVal (c : UInt8) : Nat := c.toNat - 48

/-- value of a string of ASCII digits (no check) -/
def digitsVal (s : Str) : Nat := s.foldl (fun acc c => 10 * acc + digitVal c) 0

/-- `%02d` for a natural number -/
def pad2 (n : Nat) : Str := if n < 10 then 48 :: natToDec n else natToDec n

/-! ### Association maps (a Go map observed only through lookup / insert; insertion order is kept
    only so that the model is executable – every place where Go *ranges* over a map takes the
    visiting order as a separate argument or is followed by a sort). -/

def alookup {κ α} [BEq κ] (k : κ) : List (κ × α) → Option α
  | [] => none
  | (k', v) :: r => if k' == k then some v else alookup k r

def aset {κ α} [BEq κ] (k : κ) (v : α) : List (κ × α) → List (κ × α)
  | [] => [(k, v)]
  | (k', v') :: r => if k' == k then (k', v) :: r else (k', v') :: aset k v r

def akeys {κ α} (m : List (κ × α)) : List κ := m.map (·.1)

theorem alookup_aset_same {κ α} [BEq κ] [LawfulBEq κ] (k : κ) (v : α) (m : List (κ × α)) :
    alookup k (aset k v m) = some v := by
  induction m with
  | nil => simp [aset, alookup]
  | cons p r ih =>
    obtain ⟨k', v'⟩ := p
    by_cases h : k' == k
    · simp [aset, alookup, h]
    · simp [aset, alookup, h, ih]

theorem alookup_aset_other {κ α} [BEq κ] [LawfulBEq κ] (k k₂ : κ) (v : α) (m : List (κ × α)) (hne : k ≠ k₂) :
    alookup k₂ (aset k v m) = alookup k₂ m := by
  induction m with
  | nil =>
    have : (k == k₂) = false := by simpa using hne
    simp [aset, alookup, this]
  | cons p r ih =>
    obtain ⟨k', v'⟩ := p
    by_cases h : k' == k
    · have hk : k' = k := by simpa using h
      subst hk
      have : (k' == k₂) = false := by simpa using hne
      simp [aset, alookup, this]
    · simp only [aset, h, Bool.false_eq_true, if_false, alookup, ih]

theorem akeys_aset {κ α} [BEq κ] [LawfulBEq κ] (k : κ) (v : α) (m : List (κ × α)) :
    akeys (aset k v m) = if k ∈ akeys m then akeys m else akeys m ++ [k] := by
  induction m with
  | nil => simp [aset, akeys]
  | cons p r ih =>
    obtain ⟨k', v'⟩ := p
    by_cases h : k' == k
    · have hk : k' = k := by simpa using h
      subst hk
      simp [aset, akeys]
    · have hk : ¬ k' = k := by simpa using h
      have hk' : ¬ k = k' := fun e => hk e.symm
      simp only [aset, h, Bool.false_eq_true, if_false, akeys, List.map_cons, List.mem_cons, hk', false_or] at ih ⊢
      rw [ih]
      split <;> simp_all

end Gtfs
