import GtfsVerif.Model.Basic
import GtfsVerif.Model.Csv
import GtfsVerif.Model.Civil
import GtfsVerif.Gen.Enums
import GtfsVerif.Gen.FileTable
/-! Model of `static.go` (ParseStatic and its ten row loops), starting from the list of archive
    members `(name, bytes)` in archive order (zip decoding is the model boundary). References are
    indices into the corresponding top-level collection. A date is its civil day number (the zone
    it is expressed in is reported separately); a duration is in seconds.

    Two library calls are parameters of the model (recorded in the trusted base):
    * `floatOf : cell ↦ IEEE bits` – `parseFloat64` (TrimSpace + strconv.ParseFloat) on a cell;
    * `zoneOf : tz name ↦ resolved location name` – `time.LoadLocation`. -/
namespace Gtfs.Static

/-! ## the result -/

structure Agency where
  id : Str
  name : Str
  url : Str
  timezone : Str
  language : Str
  phone : Str
  fareUrl : Str
  email : Str
deriving DecidableEq, Repr, Inhabited

structure Route where
  id : Str
  agency : Nat               -- index into agencies
  color : Str
  textColor : Str
  shortName : Str
  longName : Str
  description : Str
  type : Int
  url : Str
  sortOrder : Option Int
  continuousPickup : Int
  continuousDropOff : Int
deriving DecidableEq, Repr, Inhabited

structure Stop where
  id : Str
  code : Str
  name : Str
  description : Str
  zoneId : Str
  longitude : Option Nat     -- IEEE bits
  latitude : Option Nat
  url : Str
  type : Int
  parent : Option Nat        -- index into stops
  timezone : Str
  wheelchairBoarding : Int
  platformCode : Str
deriving DecidableEq, Repr, Inhabited

structure Transfer where
  fromStop : Nat
  toStop : Nat
  type : Int
  minTransferTime : Option Int
deriving DecidableEq, Repr, Inhabited

structure Service where
  id : Str := []
  monday : Bool := false
  tuesday : Bool := false
  wednesday : Bool := false
  thursday : Bool := false
  friday : Bool := false
  saturday : Bool := false
  sunday : Bool := false
  startDate : Int := 0
  endDate : Int := 0
  added : List Int := []
  removed : List Int := []
deriving DecidableEq, Repr, Inhabited

structure ShapePoint where
  latitude : Nat
  longitude : Nat
  distance : Option Nat
deriving DecidableEq, Repr, Inhabited

structure Shape where
  id : Str
  points : List ShapePoint
deriving DecidableEq, Repr, Inhabited

structure Frequency where
  startTime : Int
  endTime : Int
  headway : Int
  exactTimes : Int
deriving DecidableEq, Repr, Inhabited

structure StopTime where
  stop : Nat                 -- index into stops
  arrival : Int
  departure : Int
  sequence : Int
  headsign : Str
  pickupType : Int
  dropOffType : Int
  continuousPickup : Int
  continuousDropOff : Int
  shapeDist : Option Nat
  exactTimes : Bool
deriving DecidableEq, Repr, Inhabited

structure Trip where
  route : Nat                -- index into routes
  service : Nat              -- index into services
  id : Str
  headsign : Str
  shortName : Str
  direction : Int
  blockId : Str
  wheelchairAccessible : Int
  bikesAllowed : Int
  stopTimes : List StopTime := []
  shape : Option Nat         -- index into shapes
  frequencies : List Frequency := []
deriving DecidableEq, Repr, Inhabited

inductive WarningKind
  | missingColumns (cols : List Str)
  | agencyMissingValues (agencyId : Str) (cols : List Str)
deriving DecidableEq, Repr, Inhabited

structure Warning where
  file : Str
  rowNumber : Nat
  rowContent : List Str
  header : List Str
  kind : WarningKind
deriving DecidableEq, Repr, Inhabited

structure Result where
  agencies : List Agency := []
  routes : List Route := []
  stops : List Stop := []
  transfers : List Transfer := []
  services : List Service := []
  trips : List Trip := []
  shapes : List Shape := []
  warnings : List Warning := []
  zone : Str := []           -- the location the service dates are expressed in
deriving DecidableEq, Repr, Inhabited

/-- the two library calls the model takes as parameters -/
structure Env where
  floatOf : Str → Option Nat
  zoneOf : Str → Option Str
  inherit : Bool

/-! ## columns -/

/-- the header map of `csv.New`: a later duplicate header wins -/
def colIdx (hdr : List Str) (name : Str) : Option Nat :=
  ((List.range hdr.length).filter fun i => hdr[i]? == some name).getLast?

def cell (row : List Str) (i : Option Nat) : Str :=
  match i with
  | some k => row.getD k []
  | none => []

/-- `OptionalColumn.Read` -/
def optRead (hdr row : List Str) (name : Str) : Str := cell row (colIdx hdr name)

/-- `OptionalColumn.ReadOr`: the default for an absent column and for a blank cell -/
def readOr (hdr row : List Str) (name dflt : Str) : Str :=
  match colIdx hdr name with
  | none => dflt
  | some k => if row.getD k [] == [] then dflt else row.getD k []

/-- required columns of a file that the header lacks (`MissingRequiredColumns`), in declaration order -/
def missingCols (hdr : List Str) (required : List Str) : List Str :=
  required.filter fun c => (colIdx hdr c).isNone

/-- required cells of a row that are blank (`MissingRowKeys`), in read order -/
def missingKeys (hdr row : List Str) (required : List Str) : List Str :=
  required.filter fun c => optRead hdr row c == []

/-! ## scalar decoders -/

/-- `strconv.Atoi` / `ParseInt(s, 10, 64)`: optional sign, digits; none outside int64 -/
def atoi64 (s : Str) : Option Int :=
  let (neg, digits) := match s with
    | 43 :: r => (false, r)
    | 45 :: r => (true, r)
    | r => (false, r)
  if digits ≠ [] && digits.all isDigit then
    let v : Int := digitsVal digits
    let v := if neg then -v else v
    if -(2 ^ 63 : Int) ≤ v && v < (2 ^ 63 : Int) then some v else none
  else none

/-- `int32(i)` truncation -/
def wrap32 (v : Int) : Int :=
  let m := v.emod (2 ^ 32)
  if m < 2 ^ 31 then m else m - 2 ^ 32

/-- `parseRouteSortOrder`: Atoi then `int32(i)` -/
def parseSortOrder (s : Str) : Option Int := if s == [] then none else (atoi64 s).map wrap32

/-- `parseInt32`: ParseInt(s, 10, 32) -/
def parseInt32 (s : Str) : Option Int :=
  if s == [] then none
  else match atoi64 s with
    | some v => if -(2 ^ 31 : Int) ≤ v && v < (2 ^ 31 : Int) then some v else none
    | none => none

/-- `unicode.IsSpace` on the characters the model knows: ASCII white space, U+0085, U+00A0, U+3000
    (as UTF-8); returns the number of bytes of the space at the head of `s`, 0 if none -/
def spaceLen (s : Str) : Nat :=
  match s with
  | c :: r =>
    if c == 32 || (9 ≤ c && c ≤ 13) then 1
    else match c, r with
      | 0xC2, d :: _ => if d == 0x85 || d == 0xA0 then 2 else 0
      | 0xE3, 0x80 :: 0x80 :: _ => 3
      | _, _ => 0
  | [] => 0

/-- the loop of `parseGtfsTimeToDuration`: pieces (h, m, s), index of the current piece -/
def gtfsTimeLoop : Nat → Str → Nat × Nat × Nat → Nat → Option (Nat × Nat × Nat)
  | 0, _, p, _ => some p
  | _ + 1, [], p, _ => some p
  | fuel + 1, c :: r, (a, b, d), i =>
    if isDigit c then
      let v := digitVal c
      gtfsTimeLoop fuel r (if i = 0 then (10 * a + v, b, d) else if i = 1 then (a, 10 * b + v, d) else (a, b, 10 * d + v)) i
    else if c == 58 then
      if i + 1 > 2 then none else gtfsTimeLoop fuel r (a, b, d) (i + 1)
    else
      let k := spaceLen (c :: r)
      if k = 0 then none else gtfsTimeLoop fuel (r.drop (k - 1)) (a, b, d) i

/-- `parseGtfsTimeToDuration`, in seconds -/
def parseGtfsTime (s : Str) : Option Int :=
  if s == [] then none
  else (gtfsTimeLoop (s.length + 1) s (0, 0, 0) 0).map fun p => (((p.1 * 60 + p.2.1) * 60 + p.2.2 : Nat) : Int)

def findIdx {α} (l : List α) (p : α → Bool) : Option Nat := l.findIdx? p

/-- index of the last element satisfying `p` (a Go map filled in list order: the last wins) -/
def findLastIdx {α} (l : List α) (p : α → Bool) : Option Nat :=
  ((List.range l.length).filter fun i => match l[i]? with | some x => p x | none => false).getLast?

/-! ## agency.txt -/

def c_agency_name : Str := [97, 103, 101, 110, 99, 121, 95, 110, 97, 109, 101]
def c_agency_timezone : Str := [97, 103, 101, 110, 99, 121, 95, 116, 105, 109, 101, 122, 111, 110, 101]
def c_agency_url : Str := [97, 103, 101, 110, 99, 121, 95, 117, 114, 108]
def c_friday : Str := [102, 114, 105, 100, 97, 121]
def c_monday : Str := [109, 111, 110, 100, 97, 121]
def c_saturday : Str := [115, 97, 116, 117, 114, 100, 97, 121]
def c_sunday : Str := [115, 117, 110, 100, 97, 121]
def c_thursday : Str := [116, 104, 117, 114, 115, 100, 97, 121]
def c_tuesday : Str := [116, 117, 101, 115, 100, 97, 121]
def c_wednesday : Str := [119, 101, 100, 110, 101, 115, 100, 97, 121]

def agencyRequired : List Str := [c_agency_name, c_agency_url, c_agency_timezone]

def c_agency_id : Str := [97, 103, 101, 110, 99, 121, 95, 105, 100]
def c_agency_lang : Str := [97, 103, 101, 110, 99, 121, 95, 108, 97, 110, 103]
def c_agency_phone : Str := [97, 103, 101, 110, 99, 121, 95, 112, 104, 111, 110, 101]
def c_agency_fare_url : Str := [97, 103, 101, 110, 99, 121, 95, 102, 97, 114, 101, 95, 117, 114, 108]
def c_agency_email : Str := [97, 103, 101, 110, 99, 121, 95, 101, 109, 97, 105, 108]
def s_id_suffix : Str := [95, 105, 100]       -- "_id"
def f_agency : Str := [97, 103, 101, 110, 99, 121, 46, 116, 120, 116]

def parseAgencies (f : Csv.File) : List Agency × List Warning :=
  let hdr := f.header
  let miss := missingCols hdr agencyRequired
  if miss ≠ [] then ([], [⟨f_agency, 0, hdr, hdr, .missingColumns miss⟩])
  else
    let step (acc : List Agency × List Warning × Nat) (row : List Str) : List Agency × List Warning × Nat :=
      let n := acc.2.2 + 1
      let name := optRead hdr row (agencyRequired.getD 0 [])
      let a : Agency :=
        { id := readOr hdr row c_agency_id (name ++ s_id_suffix), name := name,
          url := optRead hdr row (agencyRequired.getD 1 []), timezone := optRead hdr row (agencyRequired.getD 2 []),
          language := optRead hdr row c_agency_lang, phone := optRead hdr row c_agency_phone,
          fareUrl := optRead hdr row c_agency_fare_url, email := optRead hdr row c_agency_email }
      let mk := missingKeys hdr row agencyRequired
      if mk ≠ [] then (acc.1, acc.2.1 ++ [⟨f_agency, n, row, hdr, .agencyMissingValues a.id mk⟩], n)
      else (acc.1 ++ [a], acc.2.1, n)
    let r := f.rows.foldl step ([], [], 0)
    (r.1, r.2.1)

/-! ## routes.txt -/

def c_route_id : Str := [114, 111, 117, 116, 101, 95, 105, 100]
def c_route_type : Str := [114, 111, 117, 116, 101, 95, 116, 121, 112, 101]
def c_route_color : Str := [114, 111, 117, 116, 101, 95, 99, 111, 108, 111, 114]
def c_route_text_color : Str := [114, 111, 117, 116, 101, 95, 116, 101, 120, 116, 95, 99, 111, 108, 111, 114]
def c_route_short_name : Str := [114, 111, 117, 116, 101, 95, 115, 104, 111, 114, 116, 95, 110, 97, 109, 101]
def c_route_long_name : Str := [114, 111, 117, 116, 101, 95, 108, 111, 110, 103, 95, 110, 97, 109, 101]
def c_route_desc : Str := [114, 111, 117, 116, 101, 95, 100, 101, 115, 99]
def c_route_url : Str := [114, 111, 117, 116, 101, 95, 117, 114, 108]
def c_route_sort_order : Str := [114, 111, 117, 116, 101, 95, 115, 111, 114, 116, 95, 111, 114, 100, 101, 114]
def c_continuous_pickup : Str := [99, 111, 110, 116, 105, 110, 117, 111, 117, 115, 95, 112, 105, 99, 107, 117, 112]
def c_continuous_drop_off : Str := [99, 111, 110, 116, 105, 110, 117, 111, 117, 115, 95, 100, 114, 111, 112, 95, 111, 102, 102]
def d_FFFFFF : Str := [70, 70, 70, 70, 70, 70]
def d_000000 : Str := [48, 48, 48, 48, 48, 48]

def routeRequired : List Str := [c_route_id, c_route_type]

def routeOfRow (hdr row : List Str) (agencies : List Agency) : Option Route :=
  let agencyId := optRead hdr row c_agency_id
  let agency : Option Nat :=
    if agencyId ≠ [] then findIdx agencies (fun a => a.id == agencyId)
    else if agencies.length = 1 then some 0 else none
  match agency with
  | none => none
  | some ai =>
    if missingKeys hdr row routeRequired ≠ [] then none
    else some
      { id := optRead hdr row c_route_id, agency := ai,
        color := readOr hdr row c_route_color d_FFFFFF, textColor := readOr hdr row c_route_text_color d_000000,
        shortName := optRead hdr row c_route_short_name, longName := optRead hdr row c_route_long_name,
        description := optRead hdr row c_route_desc,
        type := Gen.Enums.parseRouteType_GTFSStatic (optRead hdr row c_route_type),
        url := optRead hdr row c_route_url, sortOrder := parseSortOrder (optRead hdr row c_route_sort_order),
        continuousPickup := Gen.Enums.parsePickupDropOffPolicy (readOr hdr row c_continuous_pickup []),
        continuousDropOff := Gen.Enums.parsePickupDropOffPolicy (readOr hdr row c_continuous_drop_off []) }

def parseRoutes (f : Csv.File) (agencies : List Agency) : List Route :=
  if missingCols f.header routeRequired ≠ [] then []
  else f.rows.filterMap fun row => routeOfRow f.header row agencies

/-! ## stops.txt -/

def c_stop_id : Str := [115, 116, 111, 112, 95, 105, 100]
def c_stop_code : Str := [115, 116, 111, 112, 95, 99, 111, 100, 101]
def c_stop_name : Str := [115, 116, 111, 112, 95, 110, 97, 109, 101]
def c_stop_desc : Str := [115, 116, 111, 112, 95, 100, 101, 115, 99]
def c_zone_id : Str := [122, 111, 110, 101, 95, 105, 100]
def c_stop_lon : Str := [115, 116, 111, 112, 95, 108, 111, 110]
def c_stop_lat : Str := [115, 116, 111, 112, 95, 108, 97, 116]
def c_stop_url : Str := [115, 116, 111, 112, 95, 117, 114, 108]
def c_location_type : Str := [108, 111, 99, 97, 116, 105, 111, 110, 95, 116, 121, 112, 101]
def c_stop_timezone : Str := [115, 116, 111, 112, 95, 116, 105, 109, 101, 122, 111, 110, 101]
def c_wheelchair_boarding : Str := [119, 104, 101, 101, 108, 99, 104, 97, 105, 114, 95, 98, 111, 97, 114, 100, 105, 110, 103]
def c_platform_code : Str := [112, 108, 97, 116, 102, 111, 114, 109, 95, 99, 111, 100, 101]
def c_parent_station : Str := [112, 97, 114, 101, 110, 116, 95, 115, 116, 97, 116, 105, 111, 110]

/-- an accepted stops.txt row: the stop (without parent) and its parent_station value -/
def stopOfRow (env : Env) (hdr row : List Str) : Option (Stop × Str) :=
  let parentId := optRead hdr row c_parent_station
  if missingKeys hdr row [c_stop_id] ≠ [] then none
  else some (
    { id := optRead hdr row c_stop_id, code := optRead hdr row c_stop_code, name := optRead hdr row c_stop_name,
      description := optRead hdr row c_stop_desc, zoneId := optRead hdr row c_zone_id,
      longitude := env.floatOf (optRead hdr row c_stop_lon), latitude := env.floatOf (optRead hdr row c_stop_lat),
      url := optRead hdr row c_stop_url,
      type := Gen.Enums.parseStopType (optRead hdr row c_location_type) (parentId ≠ []),
      parent := none, timezone := optRead hdr row c_stop_timezone,
      wheelchairBoarding := Gen.Enums.parseWheelchairBoarding (optRead hdr row c_wheelchair_boarding),
      platformCode := optRead hdr row c_platform_code }, parentId)

/-- does the walk from `p` along the parent links meet `target`? `false` only when the chain from
    `p` ends within `fuel` steps without visiting `target`. (The links set so far are acyclic, so
    with fuel = number of stops + 1 the chain always ends before the fuel does; Go's loop has no
    fuel. That the two coincide is validated differentially on feeds with up to 2100 stops.) -/
def reaches (parents : List (Option Nat)) (target : Nat) : Nat → Nat → Bool
  | 0, _ => true
  | fuel + 1, p =>
    if p = target then true
    else match parents.getD p none with
      | some q => reaches parents target fuel q
      | none => false

/-- the linking pass: in row order, link each stop to the (last) stop carrying its parent id unless
    that would make it its own ancestor -/
def linkParents (ids : List Str) (parentIds : List Str) : List (Option Nat) :=
  (List.range ids.length).foldl (fun parents i =>
    let pid := parentIds.getD i []
    if pid == [] then parents
    else match findLastIdx ids (fun x => x == pid) with
      | none => parents
      | some p => if reaches parents i (ids.length + 1) p then parents else parents.set i (some p))
    (List.replicate ids.length none)

/-- one step of the inheritance pass: stop `i` takes its parent station's value if its own is unspecified -/
def inheritStep (ss : List Stop) (i : Nat) : List Stop :=
  match ss[i]? with
  | none => ss
  | some s =>
    match s.parent.bind (fun p => ss[p]?) with
    | some par =>
      if par.type == Gen.Enums.StopType_Station && s.wheelchairBoarding == Gen.Enums.WheelchairBoarding_NotSpecified
      then ss.set i { s with wheelchairBoarding := par.wheelchairBoarding } else ss
    | none => ss

/-- the wheelchair-boarding inheritance pass, in index order -/
def inheritPass (stops : List Stop) : List Stop :=
  (List.range stops.length).foldl inheritStep stops

def parseStops (env : Env) (f : Csv.File) : List Stop :=
  if missingCols f.header [c_stop_id] ≠ [] then []
  else
    let acc := f.rows.filterMap fun row => stopOfRow env f.header row
    let parents := linkParents (acc.map (·.1.id)) (acc.map (·.2))
    let stops := acc.mapIdx fun i p => { p.1 with parent := parents.getD i none }
    if env.inherit then inheritPass stops else stops

/-! ## transfers.txt -/

def c_from_stop_id : Str := [102, 114, 111, 109, 95, 115, 116, 111, 112, 95, 105, 100]
def c_to_stop_id : Str := [116, 111, 95, 115, 116, 111, 112, 95, 105, 100]
def c_transfer_type : Str := [116, 114, 97, 110, 115, 102, 101, 114, 95, 116, 121, 112, 101]
def c_min_transfer_time : Str := [109, 105, 110, 95, 116, 114, 97, 110, 115, 102, 101, 114, 95, 116, 105, 109, 101]

def transferOfRow (hdr row : List Str) (stops : List Stop) : Option Transfer :=
  if missingKeys hdr row [c_from_stop_id, c_to_stop_id] ≠ [] then none
  else
    match findLastIdx stops (fun s => s.id == optRead hdr row c_from_stop_id),
          findLastIdx stops (fun s => s.id == optRead hdr row c_to_stop_id) with
    | some a, some b =>
      if optRead hdr row c_from_stop_id == optRead hdr row c_to_stop_id then none
      else some { fromStop := a, toStop := b, type := Gen.Enums.parseTransferType (optRead hdr row c_transfer_type),
                  minTransferTime := parseInt32 (optRead hdr row c_min_transfer_time) }
    | _, _ => none

def parseTransfers (f : Csv.File) (stops : List Stop) : List Transfer :=
  if missingCols f.header [c_from_stop_id, c_to_stop_id] ≠ [] then []
  else f.rows.filterMap fun row => transferOfRow f.header row stops

/-! ## calendar.txt and calendar_dates.txt -/

def c_start_date : Str := [115, 116, 97, 114, 116, 95, 100, 97, 116, 101]
def c_end_date : Str := [101, 110, 100, 95, 100, 97, 116, 101]
def c_service_id : Str := [115, 101, 114, 118, 105, 99, 101, 95, 105, 100]
def c_days : List Str := [c_monday, c_tuesday, c_wednesday, c_thursday, c_friday, c_saturday, c_sunday]
def c_date : Str := [100, 97, 116, 101]
def c_exception_type : Str := [101, 120, 99, 101, 112, 116, 105, 111, 110, 95, 116, 121, 112, 101]

def calendarRequired : List Str := [c_start_date, c_end_date, c_service_id] ++ c_days

def calendarStep (hdr : List Str) (m : List (Str × Service)) (row : List Str) : List (Str × Service) :=
  match Civil.parseDate8 (optRead hdr row c_start_date), Civil.parseDate8 (optRead hdr row c_end_date) with
  | some sd, some ed =>
    if missingKeys hdr row calendarRequired ≠ [] then m
    else
      let day (i : Nat) : Bool := optRead hdr row (c_days.getD i []) == [49]
      let sid := optRead hdr row c_service_id
      aset sid { id := sid, monday := day 0, tuesday := day 1, wednesday := day 2, thursday := day 3, friday := day 4,
                 saturday := day 5, sunday := day 6, startDate := sd, endDate := ed } m
  | _, _ => m

def parseCalendar (f : Csv.File) (m : List (Str × Service)) : List (Str × Service) :=
  if missingCols f.header calendarRequired ≠ [] then m else f.rows.foldl (calendarStep f.header) m

def calendarDatesRequired : List Str := [c_service_id, c_date, c_exception_type]

def calendarDatesStep (hdr : List Str) (m : List (Str × Service)) (row : List Str) : List (Str × Service) :=
  match Civil.parseDate8 (optRead hdr row c_date) with
  | none => m
  | some d =>
    if missingKeys hdr row calendarDatesRequired ≠ [] then m
    else
      let sid := optRead hdr row c_service_id
      let s : Service := match alookup sid m with
        | none => { id := sid, startDate := d, endDate := d }
        | some s => { s with id := sid, startDate := if d < s.startDate then d else s.startDate,
                             endDate := if s.endDate < d then d else s.endDate }
      let ty := optRead hdr row c_exception_type
      if ty == [49] then aset sid { s with added := s.added ++ [d] } m
      else if ty == [50] then aset sid { s with removed := s.removed ++ [d] } m
      else m

def parseCalendarDates (f : Csv.File) (m : List (Str × Service)) : List (Str × Service) :=
  if missingCols f.header calendarDatesRequired ≠ [] then m else f.rows.foldl (calendarDatesStep f.header) m

/-- `Static.Services`: the map's values ordered by service id -/
def servicesOf (m : List (Str × Service)) : List Service :=
  (m.mergeSort fun a b => strLe a.1 b.1).map (·.2)

/-! ## shapes.txt -/

def c_shape_id : Str := [115, 104, 97, 112, 101, 95, 105, 100]
def c_shape_pt_lat : Str := [115, 104, 97, 112, 101, 95, 112, 116, 95, 108, 97, 116]
def c_shape_pt_lon : Str := [115, 104, 97, 112, 101, 95, 112, 116, 95, 108, 111, 110]
def c_shape_pt_sequence : Str := [115, 104, 97, 112, 101, 95, 112, 116, 95, 115, 101, 113, 117, 101, 110, 99, 101]
def c_shape_dist_traveled : Str := [115, 104, 97, 112, 101, 95, 100, 105, 115, 116, 95, 116, 114, 97, 118, 101, 108, 101, 100]

def shapeRequired : List Str := [c_shape_id, c_shape_pt_lat, c_shape_pt_lon, c_shape_pt_sequence]

/-- an accepted shapes.txt row: (shape id, sequence, point) -/
def shapeRowOf (env : Env) (hdr row : List Str) : Option (Str × Int × ShapePoint) :=
  if missingKeys hdr row shapeRequired ≠ [] then none
  else match env.floatOf (optRead hdr row c_shape_pt_lat), env.floatOf (optRead hdr row c_shape_pt_lon),
             parseInt32 (optRead hdr row c_shape_pt_sequence) with
    | some lat, some lon, some seq =>
      some (optRead hdr row c_shape_id, seq, { latitude := lat, longitude := lon, distance := env.floatOf (optRead hdr row c_shape_dist_traveled) })
    | _, _, _ => none

def dedupKeys (l : List Str) : List Str := l.foldl (fun acc k => if acc.contains k then acc else acc ++ [k]) []

def parseShapes (env : Env) (f : Csv.File) : List Shape :=
  if missingCols f.header shapeRequired ≠ [] then []
  else
    let rows := f.rows.filterMap fun row => shapeRowOf env f.header row
    let ids := (dedupKeys (rows.map (·.1))).mergeSort (fun a b => strLe a b)
    ids.map fun id =>
      { id := id, points := ((rows.filter fun r => r.1 == id).mergeSort fun a b => a.2.1 ≤ b.2.1).map (·.2.2) }

/-! ## trips.txt -/

def c_trip_id : Str := [116, 114, 105, 112, 95, 105, 100]
def c_trip_headsign : Str := [116, 114, 105, 112, 95, 104, 101, 97, 100, 115, 105, 103, 110]
def c_trip_short_name : Str := [116, 114, 105, 112, 95, 115, 104, 111, 114, 116, 95, 110, 97, 109, 101]
def c_direction_id : Str := [100, 105, 114, 101, 99, 116, 105, 111, 110, 95, 105, 100]
def c_block_id : Str := [98, 108, 111, 99, 107, 95, 105, 100]
def c_wheelchair_accessible : Str := [119, 104, 101, 101, 108, 99, 104, 97, 105, 114, 95, 97, 99, 99, 101, 115, 115, 105, 98, 108, 101]
def c_bikes_allowed : Str := [98, 105, 107, 101, 115, 95, 97, 108, 108, 111, 119, 101, 100]

def tripRequired : List Str := [c_route_id, c_service_id, c_trip_id]

def tripOfRow (hdr row : List Str) (routes : List Route) (services : List Service) (shapes : List Shape) : Option Trip :=
  if missingKeys hdr row tripRequired ≠ [] then none
  else match findLastIdx routes (fun r => r.id == optRead hdr row c_route_id),
             findLastIdx services (fun s => s.id == optRead hdr row c_service_id) with
    | some ri, some si =>
      let shapeId := optRead hdr row c_shape_id
      some { route := ri, service := si, id := optRead hdr row c_trip_id, headsign := optRead hdr row c_trip_headsign,
             shortName := optRead hdr row c_trip_short_name,
             direction := Gen.Enums.parseDirectionID_GTFSStatic (readOr hdr row c_direction_id []),
             blockId := optRead hdr row c_block_id,
             wheelchairAccessible := Gen.Enums.parseWheelchairBoarding (optRead hdr row c_wheelchair_accessible),
             bikesAllowed := Gen.Enums.parseBikesAllowed (readOr hdr row c_bikes_allowed []),
             shape := if shapeId == [] then none else findLastIdx shapes (fun s => s.id == shapeId) }
    | _, _ => none

def parseTrips (f : Csv.File) (routes : List Route) (services : List Service) (shapes : List Shape) : List Trip :=
  if missingCols f.header tripRequired ≠ [] then []
  else f.rows.filterMap fun row => tripOfRow f.header row routes services shapes

/-! ## frequencies.txt -/

def c_start_time : Str := [115, 116, 97, 114, 116, 95, 116, 105, 109, 101]
def c_end_time : Str := [101, 110, 100, 95, 116, 105, 109, 101]
def c_headway_secs : Str := [104, 101, 97, 100, 119, 97, 121, 95, 115, 101, 99, 115]
def c_exact_times : Str := [101, 120, 97, 99, 116, 95, 116, 105, 109, 101, 115]

def freqRequired : List Str := [c_trip_id, c_start_time, c_end_time, c_headway_secs]

/-- an accepted frequencies.txt row: (trip index, frequency) -/
def freqOfRow (hdr row : List Str) (trips : List Trip) : Option (Nat × Frequency) :=
  if missingKeys hdr row freqRequired ≠ [] then none
  else match findLastIdx trips (fun t => t.id == optRead hdr row c_trip_id), parseInt32 (optRead hdr row c_headway_secs),
             parseGtfsTime (optRead hdr row c_start_time), parseGtfsTime (optRead hdr row c_end_time) with
    | some ti, some hw, some st, some et =>
      some (ti, { startTime := st, endTime := et, headway := hw, exactTimes := Gen.Enums.parseExactTimes (optRead hdr row c_exact_times) })
    | _, _, _, _ => none

def addFrequencies (f : Csv.File) (trips : List Trip) : List Trip :=
  if missingCols f.header freqRequired ≠ [] then trips
  else
    let fs := f.rows.filterMap fun row => freqOfRow f.header row trips
    trips.mapIdx fun i t => { t with frequencies := t.frequencies ++ (fs.filter fun p => p.1 == i).map (·.2) }

/-! ## stop_times.txt -/

def c_stop_sequence : Str := [115, 116, 111, 112, 95, 115, 101, 113, 117, 101, 110, 99, 101]
def c_arrival_time : Str := [97, 114, 114, 105, 118, 97, 108, 95, 116, 105, 109, 101]
def c_departure_time : Str := [100, 101, 112, 97, 114, 116, 117, 114, 101, 95, 116, 105, 109, 101]
def c_stop_headsign : Str := [115, 116, 111, 112, 95, 104, 101, 97, 100, 115, 105, 103, 110]
def c_pickup_type : Str := [112, 105, 99, 107, 117, 112, 95, 116, 121, 112, 101]
def c_drop_off_type : Str := [100, 114, 111, 112, 95, 111, 102, 102, 95, 116, 121, 112, 101]
def c_timepoint : Str := [116, 105, 109, 101, 112, 111, 105, 110, 116]

def stopTimeRequired : List Str := [c_stop_id, c_stop_sequence, c_trip_id]

/-- an accepted stop_times.txt row: (trip index, stop time) -/
def stopTimeOfRow (env : Env) (hdr row : List Str) (stops : List Stop) (trips : List Trip) : Option (Nat × StopTime) :=
  let arr := parseGtfsTime (optRead hdr row c_arrival_time)
  let dep := parseGtfsTime (optRead hdr row c_departure_time)
  match (match arr, dep with
         | none, none => none
         | some a, none => some (a, a)
         | none, some d => some (d, d)
         | some a, some d => some (a, d)) with
  | none => none
  | some (a, d) =>
    match atoi64 (optRead hdr row c_stop_sequence) with
    | none => none
    | some seq =>
      if missingKeys hdr row stopTimeRequired ≠ [] then none
      else match findLastIdx stops (fun s => s.id == optRead hdr row c_stop_id),
                 findLastIdx trips (fun t => t.id == optRead hdr row c_trip_id) with
        | some si, some ti =>
          some (ti, { stop := si, arrival := a, departure := d, sequence := seq, headsign := optRead hdr row c_stop_headsign,
                      pickupType := Gen.Enums.parsePickupDropOffPolicy (readOr hdr row c_pickup_type [48]),
                      dropOffType := Gen.Enums.parsePickupDropOffPolicy (readOr hdr row c_drop_off_type [48]),
                      continuousPickup := Gen.Enums.parsePickupDropOffPolicy (readOr hdr row c_continuous_pickup []),
                      continuousDropOff := Gen.Enums.parsePickupDropOffPolicy (readOr hdr row c_continuous_drop_off []),
                      shapeDist := env.floatOf (optRead hdr row c_shape_dist_traveled),
                      exactTimes := readOr hdr row c_timepoint [49] == [49] })
        | _, _ => none

def addStopTimes (env : Env) (f : Csv.File) (stops : List Stop) (trips : List Trip) : List Trip :=
  if missingCols f.header stopTimeRequired ≠ [] then trips
  else
    let sts := f.rows.filterMap fun row => stopTimeOfRow env f.header row stops trips
    trips.mapIdx fun i t =>
      { t with stopTimes := ((sts.filter fun p => p.1 == i).map (·.2)).mergeSort fun a b => a.sequence ≤ b.sequence }

/-! ## ParseStatic -/

inductive Outcome
  | ok (r : Result)
  | error (file : Str)        -- the first file (in table order) that is missing or does not read as CSV
deriving Repr, Inhabited

/-- the member of that name: the last one wins (`fileNameToFile` is filled in archive order) -/
def member (members : List (Str × Str)) (name : Str) : Option Str :=
  ((members.filter fun m => m.1 == name).getLast?).map (·.2)

structure St where
  res : Result := {}
  services : List (Str × Service) := []
deriving Inhabited

def f_routes : Str := [114, 111, 117, 116, 101, 115, 46, 116, 120, 116]
def f_stops : Str := [115, 116, 111, 112, 115, 46, 116, 120, 116]
def f_transfers : Str := [116, 114, 97, 110, 115, 102, 101, 114, 115, 46, 116, 120, 116]
def f_calendar : Str := [99, 97, 108, 101, 110, 100, 97, 114, 46, 116, 120, 116]
def f_calendar_dates : Str := [99, 97, 108, 101, 110, 100, 97, 114, 95, 100, 97, 116, 101, 115, 46, 116, 120, 116]
def f_shapes : Str := [115, 104, 97, 112, 101, 115, 46, 116, 120, 116]
def f_trips : Str := [116, 114, 105, 112, 115, 46, 116, 120, 116]
def f_frequencies : Str := [102, 114, 101, 113, 117, 101, 110, 99, 105, 101, 115, 46, 116, 120, 116]
def f_stop_times : Str := [115, 116, 111, 112, 95, 116, 105, 109, 101, 115, 46, 116, 120, 116]

/-- the action of one table entry on a file that was read -/
def action (env : Env) (name : Str) (f : Csv.File) (st : St) : St :=
  if name == f_agency then
    let r := parseAgencies f
    let zone := match r.1 with
      | a :: _ => (env.zoneOf a.timezone).getD [85, 84, 67]
      | [] => [85, 84, 67]
    { st with res := { st.res with agencies := r.1, warnings := st.res.warnings ++ r.2, zone := zone } }
  else if name == f_routes then { st with res := { st.res with routes := parseRoutes f st.res.agencies } }
  else if name == f_stops then { st with res := { st.res with stops := parseStops env f } }
  else if name == f_transfers then { st with res := { st.res with transfers := parseTransfers f st.res.stops } }
  else if name == f_calendar then { st with services := parseCalendar f st.services }
  else if name == f_calendar_dates then { st with services := parseCalendarDates f st.services }
  else if name == f_shapes then { st with res := { st.res with shapes := parseShapes env f } }
  else if name == f_trips then
    { st with res := { st.res with trips := parseTrips f st.res.routes st.res.services st.res.shapes } }
  else if name == f_frequencies then { st with res := { st.res with trips := addFrequencies f st.res.trips } }
  else if name == f_stop_times then { st with res := { st.res with trips := addStopTimes env f st.res.stops st.res.trips } }
  else st

/-- the post-process step of a table entry (runs whether or not an optional file is present) -/
def postProcess (name : Str) (st : St) : St :=
  if name == f_calendar_dates then { st with res := { st.res with services := st.res.services ++ servicesOf st.services } } else st

/-- the required columns of a table entry (the row loop only runs when the header has them all) -/
def requiredOf (name : Str) : List Str :=
  if name == f_agency then agencyRequired
  else if name == f_routes then routeRequired
  else if name == f_stops then [c_stop_id]
  else if name == f_transfers then [c_from_stop_id, c_to_stop_id]
  else if name == f_calendar then calendarRequired
  else if name == f_calendar_dates then calendarDatesRequired
  else if name == f_shapes then shapeRequired
  else if name == f_trips then tripRequired
  else if name == f_frequencies then freqRequired
  else if name == f_stop_times then stopTimeRequired
  else []

def runTable (env : Env) (members : List (Str × Str)) : List (Str × Bool) → St → Outcome
  | [], st => .ok st.res
  | (name, optional) :: rest, st =>
    match member members name with
    | none => if optional then runTable env members rest (postProcess name st) else .error name
    | some bytes =>
      match Csv.readFile bytes with
      | none => .error name
      | some f =>
        -- rows are only read when no required column is missing; a reader error among them
        -- surfaces when the file is closed
        if missingCols f.header (requiredOf name) = [] && f.bodyError then .error name
        else runTable env members rest (postProcess name (action env name f st))

def utc : Str := [85, 84, 67]

def parse (env : Env) (members : List (Str × Str)) : Outcome :=
  runTable env members Gen.FileTable.files { res := { zone := utc } }

end Gtfs.Static
