/-! Encoder combinators matching the primitives of `hash.go` (`string`, `number`,
    `hashNumberPtr`, `stringPtr`, `timePtr`, presence byte + payload, count + items), with the
    prefix-injectivity of each. `Gen/HashSchema.lean` (regenerated from `hasher.trip` and
    `hasher.vehicle`) is built from these; the injectivity of the generated encoders is then found
    by instance resolution in Props/C13. Core Lean only. -/
namespace Gtfs.Hash
abbrev B := UInt8

/-- An encoder is prefix-injective when equal streams (with arbitrary continuations) force equal
    values and equal continuations. -/
class PrefixInj {α : Type} (enc : α → List B) : Prop where
  inj : ∀ a b r s, enc a ++ r = enc b ++ s → a = b ∧ r = s

/-- `k` little-endian bytes of `n` (encoding/binary.Write with LittleEndian on a fixed-width value) -/
def leBytes : Nat → Nat → List B
  | 0, _ => []
  | k+1, n => (n % 256).toUInt8 :: leBytes k (n / 256)

theorem leBytes_length (k n) : (leBytes k n).length = k := by
  induction k generalizing n with
  | zero => rfl
  | succ k ih => simp [leBytes, ih]

def ofLE : List B → Nat
  | [] => 0
  | b :: bs => b.toNat + 256 * ofLE bs

theorem ofLE_leBytes (k n : Nat) : ofLE (leBytes k n) = n % 256 ^ k := by
  induction k generalizing n with
  | zero => simp [leBytes, ofLE, Nat.mod_one]
  | succ k ih =>
    simp only [leBytes, ofLE, ih]
    have h : (n % 256).toUInt8.toNat = n % 256 := by
      simp [Nat.toUInt8, UInt8.toNat_ofNat']
    rw [h, Nat.pow_succ, Nat.mul_comm (256 ^ k) 256, Nat.mod_mul]

/-- a fixed-width field of `k` bytes: the unsigned (two's complement / IEEE bit pattern) value -/
structure Fixed (k : Nat) where
  val : Nat
  lt : val < 256 ^ k
deriving DecidableEq

def encFixed (k : Nat) (x : Fixed k) : List B := leBytes k x.val

theorem append_inj_of_length {a b r s : List B} (h : a ++ r = b ++ s) (hl : a.length = b.length) : a = b ∧ r = s :=
  List.append_inj h hl

instance (k : Nat) : PrefixInj (encFixed k) where
  inj a b r s h := by
    have := append_inj_of_length h (by simp [encFixed, leBytes_length])
    refine ⟨?_, this.2⟩
    have h2 := congrArg ofLE this.1
    simp only [encFixed, ofLE_leBytes, Nat.mod_eq_of_lt a.lt, Nat.mod_eq_of_lt b.lt] at h2
    cases a; cases b; simp_all

/-- the empty encoder (used when a group has no fields) -/
def encUnit (_ : Unit) : List B := []
instance : PrefixInj encUnit where
  inj a b r s h := by cases a; cases b; simpa [encUnit] using h

/-- two encoders in sequence -/
def encPair {α β} (e1 : α → List B) (e2 : β → List B) (p : α × β) : List B := e1 p.1 ++ e2 p.2

instance {α β} (e1 : α → List B) (e2 : β → List B) [PrefixInj e1] [PrefixInj e2] : PrefixInj (encPair e1 e2) where
  inj a b r s h := by
    simp only [encPair, List.append_assoc] at h
    obtain ⟨h1, h'⟩ := PrefixInj.inj (enc := e1) _ _ _ _ h
    obtain ⟨h2, h3⟩ := PrefixInj.inj (enc := e2) _ _ _ _ h'
    exact ⟨Prod.ext h1 h2, h3⟩

/-- presence byte (`x == nil` as a bool: 1 when absent) + payload -/
def encOpt {α} (e : α → List B) : Option α → List B
  | none => [1]
  | some a => 0 :: e a

instance {α} (e : α → List B) [PrefixInj e] : PrefixInj (encOpt e) where
  inj a b r s h := by
    cases a <;> cases b <;> simp [encOpt] at h ⊢
    · exact h
    · rename_i x y
      exact PrefixInj.inj (enc := e) _ _ _ _ h

/-- a byte string whose length fits the 8-byte length prefix -/
structure LStr where
  bytes : List B
  lt : bytes.length < 256 ^ 8
deriving DecidableEq

/-- `hasher.string`: 8-byte length, then the bytes -/
def encStr (s : LStr) : List B := leBytes 8 s.bytes.length ++ s.bytes

instance : PrefixInj encStr where
  inj a b r s h := by
    simp only [encStr, List.append_assoc] at h
    have hh := append_inj_of_length h (by simp [leBytes_length])
    have h2 := congrArg ofLE hh.1
    simp only [ofLE_leBytes, Nat.mod_eq_of_lt a.lt, Nat.mod_eq_of_lt b.lt] at h2
    have := append_inj_of_length hh.2 h2
    refine ⟨?_, this.2⟩
    cases a; cases b; simp_all

def encItems {α} (e : α → List B) : List α → List B
  | [] => []
  | a :: as => e a ++ encItems e as

theorem encItems_inj {α} (e : α → List B) [PrefixInj e] :
    ∀ (xs ys : List α) (r s : List B), xs.length = ys.length →
      encItems e xs ++ r = encItems e ys ++ s → xs = ys ∧ r = s
  | [], [], r, s, _, h => ⟨rfl, by simpa [encItems] using h⟩
  | x :: xs, y :: ys, r, s, hl, h => by
    simp only [encItems, List.append_assoc] at h
    obtain ⟨h1, h2⟩ := PrefixInj.inj (enc := e) _ _ _ _ h
    obtain ⟨h3, h4⟩ := encItems_inj e xs ys r s (by simpa using hl) h2
    exact ⟨by rw [h1, h3], h4⟩
  | [], _ :: _, _, _, hl, _ => by simp at hl
  | _ :: _, [], _, _, hl, _ => by simp at hl

/-- a list whose length fits the 8-byte count -/
structure Counted (α : Type) where
  items : List α
  lt : items.length < 256 ^ 8

def Counted.map {α β} (c : Counted α) (f : α → β) : Counted β := ⟨c.items.map f, by simpa using c.lt⟩

/-- the layout of `hasher.trip`: count, then the fields written between the count and the loop,
    then the items -/
def encCounted {μ α} (em : μ → List B) (e : α → List B) (p : μ × Counted α) : List B :=
  leBytes 8 p.2.items.length ++ em p.1 ++ encItems e p.2.items

instance {μ α} (em : μ → List B) (e : α → List B) [PrefixInj em] [PrefixInj e] :
    PrefixInj (encCounted em e) where
  inj a b r s h := by
    simp only [encCounted, List.append_assoc] at h
    have hh := append_inj_of_length h (by simp [leBytes_length])
    have hlen := congrArg ofLE hh.1
    simp only [ofLE_leBytes, Nat.mod_eq_of_lt a.2.lt, Nat.mod_eq_of_lt b.2.lt] at hlen
    obtain ⟨hm, h2⟩ := PrefixInj.inj (enc := em) _ _ _ _ hh.2
    obtain ⟨hi, hr⟩ := encItems_inj e _ _ _ _ hlen h2
    refine ⟨?_, hr⟩
    obtain ⟨am, ⟨ai, al⟩⟩ := a
    obtain ⟨bm, ⟨bi, bl⟩⟩ := b
    simp_all

/-- an encoder transported along an injective projection (record ↦ tuple of its fields) -/
theorem prefixInj_via {α β} (f : α → β) (e : β → List B) [PrefixInj e] (hf : ∀ a b, f a = f b → a = b) :
    PrefixInj (fun a => e (f a)) where
  inj a b r s h := by
    obtain ⟨h1, h2⟩ := PrefixInj.inj (enc := e) _ _ _ _ h
    exact ⟨hf _ _ h1, h2⟩

/-! ### the data fields of a trip and of a vehicle (what `Hash` reads), as unsigned field values:
    a time is its Unix seconds as uint64, a duration its int64 nanoseconds as uint64, a float its
    IEEE bit pattern, a bool 0/1. `Trip.Vehicle`, `Vehicle.Trip.Vehicle` and the in-message flags
    are *not* fields here: the hash does not read them. -/

structure EventData where
  time : Option (Fixed 8)
  delay : Option (Fixed 8)
  uncertainty : Option (Fixed 4)

structure StuData where
  stopSequence : Option (Fixed 4)
  stopId : Option LStr
  track : Option LStr
  sr : Fixed 4
  arrival : Option EventData
  departure : Option EventData

structure TripData where
  id : LStr
  routeId : LStr
  dir : Fixed 1
  hasStartDate : Fixed 1
  startDate : Fixed 8
  hasStartTime : Fixed 1
  startTime : Fixed 8
  sr : Fixed 4
  stus : Counted StuData

structure VehicleIdData where
  id : LStr
  label : LStr
  licensePlate : LStr

structure PositionData where
  latitude : Option (Fixed 4)
  longitude : Option (Fixed 4)
  bearing : Option (Fixed 4)
  odometer : Option (Fixed 8)
  speed : Option (Fixed 4)

structure VehicleData where
  id : Option VehicleIdData
  trip : Option TripData
  position : Option PositionData
  currentStopSequence : Option (Fixed 4)
  stopId : Option LStr
  currentStatus : Option (Fixed 4)
  timestamp : Option (Fixed 8)
  congestionLevel : Fixed 4
  occupancyStatus : Option (Fixed 4)
  occupancyPercentage : Option (Fixed 4)

end Gtfs.Hash
