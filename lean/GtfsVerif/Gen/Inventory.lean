-- REGENERATED on every run by go/cmd/extract from /repo. Do not edit.
namespace Gtfs.Gen.Inventory

/-- every `range` over a map, as "pkg.func: operand" -/
def mapRanges : List String := [
  "gtfs.ParseRealtime: tripsById",
  "gtfs.ParseRealtime: vehiclesByID",
  "gtfs.ParseStatic: serviceIdToService",
  "gtfs.parseAlert: informedRoutesFromTripIDs",
  "gtfs.parseScheduledStopTimes: idToTrip",
  "gtfs.parseShapes: shapeIDToRowData",
  "journal.BuildJournal: activeTrips",
  "journal.BuildJournal: trips"]

/-- the same sites with the extractor's structural classification: `independent` (each iteration touches only its own entry), `collect-then-sort` (the body only appends to slices that are sorted afterwards in the same function), or `unclassified: why` -/
def mapRangeClasses : List String := [
  "gtfs.ParseRealtime: tripsById: collect-then-sort",
  "gtfs.ParseRealtime: vehiclesByID: collect-then-sort",
  "gtfs.ParseStatic: serviceIdToService: collect-then-sort",
  "gtfs.parseAlert: informedRoutesFromTripIDs: collect-then-sort",
  "gtfs.parseScheduledStopTimes: idToTrip: independent",
  "gtfs.parseShapes: shapeIDToRowData: collect-then-sort",
  "journal.BuildJournal: activeTrips: independent",
  "journal.BuildJournal: trips: collect-then-sort"]

/-- range-over-map sites whose order-insensitivity the extractor could not establish structurally -/
def mapRangesUnclassified : List String := []

/-- every `for` without a condition -/
def unboundedLoops : List String := [
  "gtfs.Stop.Root: for {}",
  "journal.DirectoryGtfsrtSource.Next: for {}"]

/-- the functions these loops are in -/
def unboundedLoopFuncs : List String := [
  "gtfs.Stop.Root",
  "journal.DirectoryGtfsrtSource.Next"]

/-- every expression that can panic on some value: index/slice on non-maps, explicit dereference, type assertion, panic call -/
def panicSites : List String := [
  "csv.OptionalColumn.Read: index c.f.currentRow.cells[c.i]  [unguarded: csv: index []string]",
  "csv.OptionalColumn.ReadOr: index c.f.currentRow.cells[c.i]  [unguarded: csv: index []string]",
  "csv.RequiredColumn.Read: index c.f.currentRow.cells[c.i]  [unguarded: csv: index []string]",
  "csv.RequiredColumn.Read: index r.cells[c.i]  [guard: bounds-checked]",
  "extensions/nyctalerts.buildMetadata: assert proto.GetExtension(alert, gtfsrt.E_MercuryAlert).(*gtfsrt.MercuryAlert)  [unguarded: extensions/nyctalerts: assert interface{}]",
  "extensions/nyctalerts.buildMetadata: index activePeriodTranslations[0]  [guard: len-checked]",
  "extensions/nyctalerts.extension.UpdateAlert: deref *ID  [unguarded: extensions/nyctalerts: deref *string]",
  "extensions/nyctalerts.extension.updateElevatorAlert: deref *ID  [unguarded: extensions/nyctalerts: deref *string]",
  "extensions/nyctalerts.extension.updateElevatorAlert: deref *entity.StopId  [guard: nil-checked]",
  "extensions/nyctalerts.extension.updateElevatorAlert: index match[1]  [guard: regex-match]",
  "extensions/nyctalerts.extension.updateElevatorAlert: index match[2]  [guard: regex-match]",
  "extensions/nyctalerts.extension.updateElevatorAlert: index match[3]  [guard: regex-match]",
  "extensions/nyctalerts.getPriorityFromInformedEntity: assert proto.GetExtension(informedEntity, gtfsrt.E_MercuryEntitySelector).(*gtfsrt.MercuryEntitySelector)  [unguarded: extensions/nyctalerts: assert interface{}]",
  "extensions/nyctalerts.getPriorityFromInformedEntity: slice sortOrder[i+1:]  [unguarded: extensions/nyctalerts: slice string]",
  "extensions/nycttrips.extension.updateTripOrVehicle: index nyctTripIDMatch[1]  [guard: regex-match]",
  "extensions/nycttrips.fixMTrainPlatformsInBushwick: index stopID[3]  [guard: len-checked]",
  "extensions/nycttrips.fixMTrainPlatformsInBushwick: slice stopID[:3]  [guard: len-checked]",
  "extensions/nycttrips.isStaleUnassignedTrip: index stopTimes[0]  [guard: len-checked]",
  "gtfs.ParseRealtime: deref *alert  [guard: nil-checked]",
  "gtfs.ParseRealtime: deref *opts  [unguarded: gtfs: deref *gtfs.ParseRealtimeOptions]",
  "gtfs.ParseRealtime: deref *t  [guard: nil-checked]",
  "gtfs.ParseRealtime: deref *trip  [guard: nil-checked]",
  "gtfs.ParseRealtime: deref *trip  [unguarded: gtfs: deref *gtfs.Trip]",
  "gtfs.ParseRealtime: deref *vehicle  [guard: nil-checked]",
  "gtfs.ParseRealtime: deref *vehicle  [unguarded: gtfs: deref *gtfs.Vehicle]",
  "gtfs.ParseRealtime: deref *vehicle.ID  [guard: nil-checked]",
  "gtfs.ParseRealtime: index result.Trips[i]  [guard: sort-comparator]",
  "gtfs.ParseRealtime: index result.Trips[j]  [guard: sort-comparator]",
  "gtfs.ParseRealtime: index result.Vehicles[i]  [guard: sort-comparator]",
  "gtfs.ParseRealtime: index result.Vehicles[j]  [guard: sort-comparator]",
  "gtfs.ParseRealtime: index shouldSkip[i]  [unguarded: gtfs: index []bool]",
  "gtfs.ParseStatic: index result.Agencies[0]  [guard: len-checked]",
  "gtfs.ParseStatic: index result.Services[i]  [guard: sort-comparator]",
  "gtfs.ParseStatic: index result.Services[j]  [guard: sort-comparator]",
  "gtfs.ParseStatic: index result.Shapes[idx]  [guard: range-index]",
  "gtfs.ParseStatic: index result.Trips[idx]  [guard: range-index]",
  "gtfs.StopTimeUpdate.GetArrival: deref *stopTimeUpdate.Arrival  [guard: nil-checked]",
  "gtfs.StopTimeUpdate.GetDeparture: deref *stopTimeUpdate.Departure  [guard: nil-checked]",
  "gtfs.Trip.GetVehicle: deref *trip.Vehicle  [guard: nil-checked]",
  "gtfs.Vehicle.GetID: deref *vehicle.ID  [guard: nil-checked]",
  "gtfs.Vehicle.GetTrip: deref *vehicle.Trip  [guard: nil-checked]",
  "gtfs.convertOptionalTimestamp: deref *in  [guard: nil-checked]",
  "gtfs.hashNumberPtr: deref *a  [guard: nil-checked]",
  "gtfs.hasher.number: panic   [unguarded: gtfs: panic in hasher.number]",
  "gtfs.hasher.stringPtr: deref *a  [guard: nil-checked]",
  "gtfs.hasher.trip: deref *event.Delay  [guard: nil-checked]",
  "gtfs.hasher.trip: index t.StopTimeUpdates[i]  [guard: range-index]",
  "gtfs.mergeTrip: deref *t  [unguarded: gtfs: deref *gtfs.Trip]",
  "gtfs.mergeVehicle: deref *v  [unguarded: gtfs: deref *gtfs.Vehicle]",
  "gtfs.parseAlert: deref *entity.RouteId  [guard: nil-checked]",
  "gtfs.parseAlert: deref *tripIDOrNil  [unguarded: gtfs: deref *gtfs.TripID]",
  "gtfs.parseCalendar: index dayColumns[0]  [guard: array-const]",
  "gtfs.parseCalendar: index dayColumns[1]  [guard: array-const]",
  "gtfs.parseCalendar: index dayColumns[2]  [guard: array-const]",
  "gtfs.parseCalendar: index dayColumns[3]  [guard: array-const]",
  "gtfs.parseCalendar: index dayColumns[4]  [guard: array-const]",
  "gtfs.parseCalendar: index dayColumns[5]  [guard: array-const]",
  "gtfs.parseCalendar: index dayColumns[6]  [guard: array-const]",
  "gtfs.parseCalendar: index dayColumns[i]  [unguarded: gtfs: index [7]csv.RequiredColumn]",
  "gtfs.parseDirectionID_GTFSRealtime: deref *raw  [guard: nil-checked]",
  "gtfs.parseFrequencies: deref *headwaySecsOrNil  [guard: nil-checked]",
  "gtfs.parseGtfsTimeToDuration: index pieces[0]  [guard: array-const]",
  "gtfs.parseGtfsTimeToDuration: index pieces[1]  [guard: array-const]",
  "gtfs.parseGtfsTimeToDuration: index pieces[2]  [guard: array-const]",
  "gtfs.parseGtfsTimeToDuration: index pieces[i]  [unguarded: gtfs: index [3]int]",
  "gtfs.parseRouteType_GTFSRealtime: deref *raw  [guard: nil-checked]",
  "gtfs.parseRoutes: index agencies[0]  [guard: len-checked]",
  "gtfs.parseRoutes: index agencies[i]  [guard: range-index]",
  "gtfs.parseScheduledStopTimes: index stops[i]  [guard: range-index]",
  "gtfs.parseScheduledStopTimes: index trip.StopTimes[i]  [guard: sort-comparator]",
  "gtfs.parseScheduledStopTimes: index trip.StopTimes[j]  [guard: sort-comparator]",
  "gtfs.parseScheduledStopTimes: index trips[i]  [guard: range-index]",
  "gtfs.parseScheduledTrips: index routes[i]  [guard: range-index]",
  "gtfs.parseScheduledTrips: index services[i]  [guard: range-index]",
  "gtfs.parseShapes: deref *shapePtLat  [guard: nil-checked]",
  "gtfs.parseShapes: deref *shapePtLon  [guard: nil-checked]",
  "gtfs.parseShapes: deref *shapePtSequence  [guard: nil-checked]",
  "gtfs.parseShapes: index rows[i]  [guard: sort-comparator]",
  "gtfs.parseShapes: index rows[j]  [guard: sort-comparator]",
  "gtfs.parseShapes: index shapes[i]  [guard: sort-comparator]",
  "gtfs.parseShapes: index shapes[j]  [guard: sort-comparator]",
  "gtfs.parseStartDate: deref *startDate  [guard: nil-checked]",
  "gtfs.parseStartDate: index startDateMatch[1]  [guard: regex-match]",
  "gtfs.parseStartDate: index startDateMatch[2]  [guard: regex-match]",
  "gtfs.parseStartDate: index startDateMatch[3]  [guard: regex-match]",
  "gtfs.parseStartTime: deref *startTime  [guard: nil-checked]",
  "gtfs.parseStartTime: index startTimeMatch[1]  [guard: regex-match]",
  "gtfs.parseStartTime: index startTimeMatch[2]  [guard: regex-match]",
  "gtfs.parseStartTime: index startTimeMatch[3]  [guard: regex-match]",
  "gtfs.parseStops: index stops[i]  [guard: range-index]",
  "gtfs.parseStops: index stops[i]  [unguarded: gtfs: index []gtfs.Stop]",
  "gtfs.parseStops: index stops[parentStopIndex]  [unguarded: gtfs: index []gtfs.Stop]",
  "gtfs.parseTransfers: index stops[i]  [guard: range-index]",
  "gtfs.parseTripUpdate: deref *stopTimeEvent.Delay  [guard: nil-checked]",
  "gtfs.parseTripUpdate: deref *stopTimeEvent.Time  [guard: nil-checked]",
  "gtfs.parseVehicle: deref *vehiclePosition.CongestionLevel  [guard: nil-checked]",
  "gtfs.parseVehicleDescriptor: deref *s  [guard: nil-checked]",
  "journal.BuildJournal: deref *trips[tripID]  [unguarded: journal: deref *journal.Trip]",
  "journal.DirectoryGtfsrtSource.Next: index s.fileNames[0]  [guard: len-checked]",
  "journal.DirectoryGtfsrtSource.Next: slice s.fileNames[1:]  [guard: len-checked]",
  "journal.Trip.markPast: index trip.StopTimes[i]  [guard: bounds-checked]",
  "journal.Trip.update: index p.new[i]  [guard: range-index]",
  "journal.Trip.update: index p.past[i]  [guard: range-index]",
  "journal.Trip.update: slice trip.StopTimes[:len(p.past)+len(p.updated)]  [unguarded: journal: slice []journal.StopTime]",
  "journal.buildTripUID: slice tripID[6:]  [guard: len-checked]",
  "journal.createPartition: index stopTimes[firstUpdatedStopTimeIndex+i]  [unguarded: journal: index []journal.StopTime]",
  "journal.createPartition: index updates[0]  [guard: len-checked]",
  "journal.createPartition: index updates[updateIndex]  [guard: bounds-checked]",
  "journal.createPartition: slice stopTimes[:firstUpdatedStopTimeIndex]  [unguarded: journal: slice []journal.StopTime]",
  "journal.createPartition: slice stopTimes[firstUpdatedStopTimeIndex:]  [unguarded: journal: slice []journal.StopTime]",
  "journal.createPartition: slice updates[updateIndex:]  [unguarded: journal: slice []gtfs.StopTimeUpdate]",
  "journal.stopIDOrEmpty: deref *stopTimeUpdate.StopID  [guard: nil-checked]"]

/-- every assignment whose target is (reached through) a package-level variable -/
def globalWrites : List String := []

/-- in the parse entry points and the extension methods: assignments through a parameter or the receiver, as "pkg.func: root: target" -/
def sharedWrites : List String := [
  "extensions/nyctalerts.extension.UpdateAlert: alert: alert.Cause",
  "extensions/nyctalerts.extension.UpdateAlert: alert: alert.DescriptionText",
  "extensions/nyctalerts.extension.UpdateAlert: alert: alert.Effect",
  "extensions/nyctalerts.extension.updateElevatorAlert: ID: *ID",
  "extensions/nyctalerts.extension.updateElevatorAlert: alert: alert.Cause",
  "extensions/nyctalerts.extension.updateElevatorAlert: alert: alert.Effect",
  "extensions/nyctalerts.extension.updateElevatorAlert: e: e.elevatorAlerts[newID]",
  "gtfs.ParseRealtime: opts: opts.Extension"]

/-- the same assignments by package, type written through and path (independent of function and parameter names) -/
def sharedWriteKinds : List String := [
  "extensions/nyctalerts: nyctalerts.extension: .elevatorAlerts[]",
  "extensions/nyctalerts: proto.Alert: .Cause",
  "extensions/nyctalerts: proto.Alert: .DescriptionText",
  "extensions/nyctalerts: proto.Alert: .Effect",
  "extensions/nyctalerts: string: *",
  "gtfs: gtfs.ParseRealtimeOptions: .Extension"]

/-- ParseRealtime asks a PerMessageExtension for a fresh instance per message -/
def parseRealtimeUsesForMessage : Bool := true

/-- ParseRealtime re-points its options parameter to a local copy (`x := *opts; opts = &x`) before any assignment through it -/
def parseRealtimeWritesOnlyToCopy : Bool := true

/-- the panic-capable sites for which the extractor found no local guard (nil check, range index, sort comparator, checked length, constant index into an array), by function and kind: these are discharged by hand -/
def panicSiteKinds : List String := [
  "csv: index []string",
  "extensions/nyctalerts: assert interface{}",
  "extensions/nyctalerts: deref *string",
  "extensions/nyctalerts: slice string",
  "gtfs: deref *gtfs.ParseRealtimeOptions",
  "gtfs: deref *gtfs.Trip",
  "gtfs: deref *gtfs.TripID",
  "gtfs: deref *gtfs.Vehicle",
  "gtfs: index [3]int",
  "gtfs: index [7]csv.RequiredColumn",
  "gtfs: index []bool",
  "gtfs: index []gtfs.Stop",
  "gtfs: panic in hasher.number",
  "journal: deref *journal.Trip",
  "journal: index []journal.StopTime",
  "journal: slice []gtfs.StopTimeUpdate",
  "journal: slice []journal.StopTime"]

end Gtfs.Gen.Inventory
