-- REGENERATED on every run by go/cmd/extract from /repo. Do not edit.
namespace Gtfs.Gen.Columns

/-- `parseAgencies`: columns in declaration order (name, required): agency_id agency_name agency_url agency_timezone agency_lang agency_phone agency_fare_url agency_email -/
def parseAgencies : List (List UInt8 × Bool) := [([97, 103, 101, 110, 99, 121, 95, 105, 100], false), ([97, 103, 101, 110, 99, 121, 95, 110, 97, 109, 101], true), ([97, 103, 101, 110, 99, 121, 95, 117, 114, 108], true), ([97, 103, 101, 110, 99, 121, 95, 116, 105, 109, 101, 122, 111, 110, 101], true), ([97, 103, 101, 110, 99, 121, 95, 108, 97, 110, 103], false), ([97, 103, 101, 110, 99, 121, 95, 112, 104, 111, 110, 101], false), ([97, 103, 101, 110, 99, 121, 95, 102, 97, 114, 101, 95, 117, 114, 108], false), ([97, 103, 101, 110, 99, 121, 95, 101, 109, 97, 105, 108], false)]
/-- `parseAgencies`: ReadOr call sites (column, literal default; none = computed default) -/
def parseAgencies_readOr : List (List UInt8 × Option (List UInt8)) := [([97, 103, 101, 110, 99, 121, 95, 105, 100], none)]
/-- `parseAgencies`: decoder applied directly to a column read -/
def parseAgencies_decoders : List (List UInt8 × String) := []
/-- `parseAgencies` checks for missing required columns before reading rows -/
def parseAgencies_checksMissingColumns : Bool := true

/-- `parseRoutes`: columns in declaration order (name, required): route_id agency_id route_color route_text_color route_short_name route_long_name route_desc route_type route_url route_sort_order continuous_pickup continuous_drop_off -/
def parseRoutes : List (List UInt8 × Bool) := [([114, 111, 117, 116, 101, 95, 105, 100], true), ([97, 103, 101, 110, 99, 121, 95, 105, 100], false), ([114, 111, 117, 116, 101, 95, 99, 111, 108, 111, 114], false), ([114, 111, 117, 116, 101, 95, 116, 101, 120, 116, 95, 99, 111, 108, 111, 114], false), ([114, 111, 117, 116, 101, 95, 115, 104, 111, 114, 116, 95, 110, 97, 109, 101], false), ([114, 111, 117, 116, 101, 95, 108, 111, 110, 103, 95, 110, 97, 109, 101], false), ([114, 111, 117, 116, 101, 95, 100, 101, 115, 99], false), ([114, 111, 117, 116, 101, 95, 116, 121, 112, 101], true), ([114, 111, 117, 116, 101, 95, 117, 114, 108], false), ([114, 111, 117, 116, 101, 95, 115, 111, 114, 116, 95, 111, 114, 100, 101, 114], false), ([99, 111, 110, 116, 105, 110, 117, 111, 117, 115, 95, 112, 105, 99, 107, 117, 112], false), ([99, 111, 110, 116, 105, 110, 117, 111, 117, 115, 95, 100, 114, 111, 112, 95, 111, 102, 102], false)]
/-- `parseRoutes`: ReadOr call sites (column, literal default; none = computed default) -/
def parseRoutes_readOr : List (List UInt8 × Option (List UInt8)) := [([114, 111, 117, 116, 101, 95, 99, 111, 108, 111, 114], some [70, 70, 70, 70, 70, 70]), ([114, 111, 117, 116, 101, 95, 116, 101, 120, 116, 95, 99, 111, 108, 111, 114], some [48, 48, 48, 48, 48, 48]), ([99, 111, 110, 116, 105, 110, 117, 111, 117, 115, 95, 112, 105, 99, 107, 117, 112], some []), ([99, 111, 110, 116, 105, 110, 117, 111, 117, 115, 95, 100, 114, 111, 112, 95, 111, 102, 102], some [])]
/-- `parseRoutes`: decoder applied directly to a column read -/
def parseRoutes_decoders : List (List UInt8 × String) := [([114, 111, 117, 116, 101, 95, 116, 121, 112, 101], "parseRouteType_GTFSStatic"), ([114, 111, 117, 116, 101, 95, 115, 111, 114, 116, 95, 111, 114, 100, 101, 114], "parseRouteSortOrder"), ([99, 111, 110, 116, 105, 110, 117, 111, 117, 115, 95, 112, 105, 99, 107, 117, 112], "parsePickupDropOffPolicy"), ([99, 111, 110, 116, 105, 110, 117, 111, 117, 115, 95, 100, 114, 111, 112, 95, 111, 102, 102], "parsePickupDropOffPolicy")]
/-- `parseRoutes` checks for missing required columns before reading rows -/
def parseRoutes_checksMissingColumns : Bool := true

/-- `parseStops`: columns in declaration order (name, required): stop_id stop_code stop_name stop_desc zone_id stop_lon stop_lat stop_url location_type stop_timezone wheelchair_boarding platform_code parent_station -/
def parseStops : List (List UInt8 × Bool) := [([115, 116, 111, 112, 95, 105, 100], true), ([115, 116, 111, 112, 95, 99, 111, 100, 101], false), ([115, 116, 111, 112, 95, 110, 97, 109, 101], false), ([115, 116, 111, 112, 95, 100, 101, 115, 99], false), ([122, 111, 110, 101, 95, 105, 100], false), ([115, 116, 111, 112, 95, 108, 111, 110], false), ([115, 116, 111, 112, 95, 108, 97, 116], false), ([115, 116, 111, 112, 95, 117, 114, 108], false), ([108, 111, 99, 97, 116, 105, 111, 110, 95, 116, 121, 112, 101], false), ([115, 116, 111, 112, 95, 116, 105, 109, 101, 122, 111, 110, 101], false), ([119, 104, 101, 101, 108, 99, 104, 97, 105, 114, 95, 98, 111, 97, 114, 100, 105, 110, 103], false), ([112, 108, 97, 116, 102, 111, 114, 109, 95, 99, 111, 100, 101], false), ([112, 97, 114, 101, 110, 116, 95, 115, 116, 97, 116, 105, 111, 110], false)]
/-- `parseStops`: ReadOr call sites (column, literal default; none = computed default) -/
def parseStops_readOr : List (List UInt8 × Option (List UInt8)) := []
/-- `parseStops`: decoder applied directly to a column read -/
def parseStops_decoders : List (List UInt8 × String) := [([115, 116, 111, 112, 95, 108, 111, 110], "parseFloat64"), ([115, 116, 111, 112, 95, 108, 97, 116], "parseFloat64"), ([108, 111, 99, 97, 116, 105, 111, 110, 95, 116, 121, 112, 101], "parseStopType"), ([119, 104, 101, 101, 108, 99, 104, 97, 105, 114, 95, 98, 111, 97, 114, 100, 105, 110, 103], "parseWheelchairBoarding")]
/-- `parseStops` checks for missing required columns before reading rows -/
def parseStops_checksMissingColumns : Bool := true

/-- `parseTransfers`: columns in declaration order (name, required): from_stop_id to_stop_id transfer_type min_transfer_time -/
def parseTransfers : List (List UInt8 × Bool) := [([102, 114, 111, 109, 95, 115, 116, 111, 112, 95, 105, 100], true), ([116, 111, 95, 115, 116, 111, 112, 95, 105, 100], true), ([116, 114, 97, 110, 115, 102, 101, 114, 95, 116, 121, 112, 101], false), ([109, 105, 110, 95, 116, 114, 97, 110, 115, 102, 101, 114, 95, 116, 105, 109, 101], false)]
/-- `parseTransfers`: ReadOr call sites (column, literal default; none = computed default) -/
def parseTransfers_readOr : List (List UInt8 × Option (List UInt8)) := []
/-- `parseTransfers`: decoder applied directly to a column read -/
def parseTransfers_decoders : List (List UInt8 × String) := [([116, 114, 97, 110, 115, 102, 101, 114, 95, 116, 121, 112, 101], "parseTransferType"), ([109, 105, 110, 95, 116, 114, 97, 110, 115, 102, 101, 114, 95, 116, 105, 109, 101], "parseInt32")]
/-- `parseTransfers` checks for missing required columns before reading rows -/
def parseTransfers_checksMissingColumns : Bool := true

/-- `parseCalendar`: columns in declaration order (name, required): start_date end_date service_id monday tuesday wednesday thursday friday saturday sunday -/
def parseCalendar : List (List UInt8 × Bool) := [([115, 116, 97, 114, 116, 95, 100, 97, 116, 101], true), ([101, 110, 100, 95, 100, 97, 116, 101], true), ([115, 101, 114, 118, 105, 99, 101, 95, 105, 100], true), ([109, 111, 110, 100, 97, 121], true), ([116, 117, 101, 115, 100, 97, 121], true), ([119, 101, 100, 110, 101, 115, 100, 97, 121], true), ([116, 104, 117, 114, 115, 100, 97, 121], true), ([102, 114, 105, 100, 97, 121], true), ([115, 97, 116, 117, 114, 100, 97, 121], true), ([115, 117, 110, 100, 97, 121], true)]
/-- `parseCalendar`: ReadOr call sites (column, literal default; none = computed default) -/
def parseCalendar_readOr : List (List UInt8 × Option (List UInt8)) := []
/-- `parseCalendar`: decoder applied directly to a column read -/
def parseCalendar_decoders : List (List UInt8 × String) := [([115, 116, 97, 114, 116, 95, 100, 97, 116, 101], "parseTime"), ([101, 110, 100, 95, 100, 97, 116, 101], "parseTime")]
/-- `parseCalendar` checks for missing required columns before reading rows -/
def parseCalendar_checksMissingColumns : Bool := true

/-- `parseCalendarDates`: columns in declaration order (name, required): service_id date exception_type -/
def parseCalendarDates : List (List UInt8 × Bool) := [([115, 101, 114, 118, 105, 99, 101, 95, 105, 100], true), ([100, 97, 116, 101], true), ([101, 120, 99, 101, 112, 116, 105, 111, 110, 95, 116, 121, 112, 101], true)]
/-- `parseCalendarDates`: ReadOr call sites (column, literal default; none = computed default) -/
def parseCalendarDates_readOr : List (List UInt8 × Option (List UInt8)) := []
/-- `parseCalendarDates`: decoder applied directly to a column read -/
def parseCalendarDates_decoders : List (List UInt8 × String) := [([100, 97, 116, 101], "parseTime")]
/-- `parseCalendarDates` checks for missing required columns before reading rows -/
def parseCalendarDates_checksMissingColumns : Bool := true

/-- `parseScheduledTrips`: columns in declaration order (name, required): route_id service_id trip_id trip_headsign trip_short_name direction_id block_id wheelchair_accessible bikes_allowed shape_id -/
def parseScheduledTrips : List (List UInt8 × Bool) := [([114, 111, 117, 116, 101, 95, 105, 100], true), ([115, 101, 114, 118, 105, 99, 101, 95, 105, 100], true), ([116, 114, 105, 112, 95, 105, 100], true), ([116, 114, 105, 112, 95, 104, 101, 97, 100, 115, 105, 103, 110], false), ([116, 114, 105, 112, 95, 115, 104, 111, 114, 116, 95, 110, 97, 109, 101], false), ([100, 105, 114, 101, 99, 116, 105, 111, 110, 95, 105, 100], false), ([98, 108, 111, 99, 107, 95, 105, 100], false), ([119, 104, 101, 101, 108, 99, 104, 97, 105, 114, 95, 97, 99, 99, 101, 115, 115, 105, 98, 108, 101], false), ([98, 105, 107, 101, 115, 95, 97, 108, 108, 111, 119, 101, 100], false), ([115, 104, 97, 112, 101, 95, 105, 100], false)]
/-- `parseScheduledTrips`: ReadOr call sites (column, literal default; none = computed default) -/
def parseScheduledTrips_readOr : List (List UInt8 × Option (List UInt8)) := [([100, 105, 114, 101, 99, 116, 105, 111, 110, 95, 105, 100], some []), ([98, 105, 107, 101, 115, 95, 97, 108, 108, 111, 119, 101, 100], some [])]
/-- `parseScheduledTrips`: decoder applied directly to a column read -/
def parseScheduledTrips_decoders : List (List UInt8 × String) := [([100, 105, 114, 101, 99, 116, 105, 111, 110, 95, 105, 100], "parseDirectionID_GTFSStatic"), ([119, 104, 101, 101, 108, 99, 104, 97, 105, 114, 95, 97, 99, 99, 101, 115, 115, 105, 98, 108, 101], "parseWheelchairBoarding"), ([98, 105, 107, 101, 115, 95, 97, 108, 108, 111, 119, 101, 100], "parseBikesAllowed")]
/-- `parseScheduledTrips` checks for missing required columns before reading rows -/
def parseScheduledTrips_checksMissingColumns : Bool := true

/-- `parseScheduledStopTimes`: columns in declaration order (name, required): stop_id stop_sequence trip_id arrival_time departure_time stop_headsign pickup_type drop_off_type continuous_pickup continuous_drop_off shape_dist_traveled timepoint -/
def parseScheduledStopTimes : List (List UInt8 × Bool) := [([115, 116, 111, 112, 95, 105, 100], true), ([115, 116, 111, 112, 95, 115, 101, 113, 117, 101, 110, 99, 101], true), ([116, 114, 105, 112, 95, 105, 100], true), ([97, 114, 114, 105, 118, 97, 108, 95, 116, 105, 109, 101], false), ([100, 101, 112, 97, 114, 116, 117, 114, 101, 95, 116, 105, 109, 101], false), ([115, 116, 111, 112, 95, 104, 101, 97, 100, 115, 105, 103, 110], false), ([112, 105, 99, 107, 117, 112, 95, 116, 121, 112, 101], false), ([100, 114, 111, 112, 95, 111, 102, 102, 95, 116, 121, 112, 101], false), ([99, 111, 110, 116, 105, 110, 117, 111, 117, 115, 95, 112, 105, 99, 107, 117, 112], false), ([99, 111, 110, 116, 105, 110, 117, 111, 117, 115, 95, 100, 114, 111, 112, 95, 111, 102, 102], false), ([115, 104, 97, 112, 101, 95, 100, 105, 115, 116, 95, 116, 114, 97, 118, 101, 108, 101, 100], false), ([116, 105, 109, 101, 112, 111, 105, 110, 116], false)]
/-- `parseScheduledStopTimes`: ReadOr call sites (column, literal default; none = computed default) -/
def parseScheduledStopTimes_readOr : List (List UInt8 × Option (List UInt8)) := [([112, 105, 99, 107, 117, 112, 95, 116, 121, 112, 101], some [48]), ([100, 114, 111, 112, 95, 111, 102, 102, 95, 116, 121, 112, 101], some [48]), ([99, 111, 110, 116, 105, 110, 117, 111, 117, 115, 95, 112, 105, 99, 107, 117, 112], some []), ([99, 111, 110, 116, 105, 110, 117, 111, 117, 115, 95, 100, 114, 111, 112, 95, 111, 102, 102], some []), ([116, 105, 109, 101, 112, 111, 105, 110, 116], some [49])]
/-- `parseScheduledStopTimes`: decoder applied directly to a column read -/
def parseScheduledStopTimes_decoders : List (List UInt8 × String) := [([97, 114, 114, 105, 118, 97, 108, 95, 116, 105, 109, 101], "parseGtfsTimeToDuration"), ([100, 101, 112, 97, 114, 116, 117, 114, 101, 95, 116, 105, 109, 101], "parseGtfsTimeToDuration"), ([112, 105, 99, 107, 117, 112, 95, 116, 121, 112, 101], "parsePickupDropOffPolicy"), ([100, 114, 111, 112, 95, 111, 102, 102, 95, 116, 121, 112, 101], "parsePickupDropOffPolicy"), ([99, 111, 110, 116, 105, 110, 117, 111, 117, 115, 95, 112, 105, 99, 107, 117, 112], "parsePickupDropOffPolicy"), ([99, 111, 110, 116, 105, 110, 117, 111, 117, 115, 95, 100, 114, 111, 112, 95, 111, 102, 102], "parsePickupDropOffPolicy"), ([115, 104, 97, 112, 101, 95, 100, 105, 115, 116, 95, 116, 114, 97, 118, 101, 108, 101, 100], "parseFloat64")]
/-- `parseScheduledStopTimes` checks for missing required columns before reading rows -/
def parseScheduledStopTimes_checksMissingColumns : Bool := true

/-- `parseShapes`: columns in declaration order (name, required): shape_id shape_pt_lat shape_pt_lon shape_pt_sequence shape_dist_traveled -/
def parseShapes : List (List UInt8 × Bool) := [([115, 104, 97, 112, 101, 95, 105, 100], true), ([115, 104, 97, 112, 101, 95, 112, 116, 95, 108, 97, 116], true), ([115, 104, 97, 112, 101, 95, 112, 116, 95, 108, 111, 110], true), ([115, 104, 97, 112, 101, 95, 112, 116, 95, 115, 101, 113, 117, 101, 110, 99, 101], true), ([115, 104, 97, 112, 101, 95, 100, 105, 115, 116, 95, 116, 114, 97, 118, 101, 108, 101, 100], false)]
/-- `parseShapes`: ReadOr call sites (column, literal default; none = computed default) -/
def parseShapes_readOr : List (List UInt8 × Option (List UInt8)) := []
/-- `parseShapes`: decoder applied directly to a column read -/
def parseShapes_decoders : List (List UInt8 × String) := [([115, 104, 97, 112, 101, 95, 112, 116, 95, 108, 97, 116], "parseFloat64"), ([115, 104, 97, 112, 101, 95, 112, 116, 95, 108, 111, 110], "parseFloat64"), ([115, 104, 97, 112, 101, 95, 112, 116, 95, 115, 101, 113, 117, 101, 110, 99, 101], "parseInt32"), ([115, 104, 97, 112, 101, 95, 100, 105, 115, 116, 95, 116, 114, 97, 118, 101, 108, 101, 100], "parseFloat64")]
/-- `parseShapes` checks for missing required columns before reading rows -/
def parseShapes_checksMissingColumns : Bool := true

/-- `parseFrequencies`: columns in declaration order (name, required): trip_id start_time end_time headway_secs exact_times -/
def parseFrequencies : List (List UInt8 × Bool) := [([116, 114, 105, 112, 95, 105, 100], true), ([115, 116, 97, 114, 116, 95, 116, 105, 109, 101], true), ([101, 110, 100, 95, 116, 105, 109, 101], true), ([104, 101, 97, 100, 119, 97, 121, 95, 115, 101, 99, 115], true), ([101, 120, 97, 99, 116, 95, 116, 105, 109, 101, 115], false)]
/-- `parseFrequencies`: ReadOr call sites (column, literal default; none = computed default) -/
def parseFrequencies_readOr : List (List UInt8 × Option (List UInt8)) := []
/-- `parseFrequencies`: decoder applied directly to a column read -/
def parseFrequencies_decoders : List (List UInt8 × String) := [([101, 120, 97, 99, 116, 95, 116, 105, 109, 101, 115], "parseExactTimes")]
/-- `parseFrequencies` checks for missing required columns before reading rows -/
def parseFrequencies_checksMissingColumns : Bool := true

end Gtfs.Gen.Columns
