-- REGENERATED on every run by go/cmd/extract from /repo. Do not edit.
import GtfsVerif.Model.HashCombinators
namespace Gtfs.Gen.HashSchema
open Gtfs.Hash

/-- the fields `hasher.trip` writes, in order, as a nested pair -/
def tripFields (x : TripData) :=
  (x.id, (x.routeId, (x.dir, (x.hasStartDate, (x.startDate, (x.hasStartTime, (x.startTime, (x.sr, x.stus.map fun y => (y.stopSequence, (y.stopId, (y.track, (y.sr, ((y.arrival.map fun z => (z.time, (z.delay, z.uncertainty))), (y.departure.map fun z => (z.time, (z.delay, z.uncertainty))))))))))))))))

/-- the encoder `hasher.trip` applies to them -/
def encTripFields :=
  (encPair encStr (encPair encStr (encPair (encFixed 1) (encPair (encFixed 1) (encPair (encFixed 8) (encPair (encFixed 1) (encPair (encFixed 8) (encCounted (encFixed 4) (encPair (encOpt (encFixed 4)) (encPair (encOpt encStr) (encPair (encOpt encStr) (encPair (encFixed 4) (encPair (encOpt (encPair (encOpt (encFixed 8)) (encPair (encOpt (encFixed 8)) (encOpt (encFixed 4))))) (encOpt (encPair (encOpt (encFixed 8)) (encPair (encOpt (encFixed 8)) (encOpt (encFixed 4))))))))))))))))))

def encTrip (x : TripData) : List UInt8 := encTripFields (tripFields x)

/-- the fields `hasher.vehicle` writes, in order -/
def vehicleFields (x : VehicleData) :=
  ((x.id.map fun z => (z.id, (z.label, z.licensePlate))), ((x.trip.map fun z => z), ((x.position.map fun z => (z.latitude, (z.longitude, (z.bearing, (z.odometer, z.speed))))), (x.currentStopSequence, (x.stopId, (x.currentStatus, (x.timestamp, (x.congestionLevel, (x.occupancyStatus, x.occupancyPercentage)))))))))

def encVehicleFields :=
  (encPair (encOpt (encPair encStr (encPair encStr encStr))) (encPair (encOpt encTrip) (encPair (encOpt (encPair (encOpt (encFixed 4)) (encPair (encOpt (encFixed 4)) (encPair (encOpt (encFixed 4)) (encPair (encOpt (encFixed 8)) (encOpt (encFixed 4))))))) (encPair (encOpt (encFixed 4)) (encPair (encOpt encStr) (encPair (encOpt (encFixed 4)) (encPair (encOpt (encFixed 8)) (encPair (encFixed 4) (encPair (encOpt (encFixed 4)) (encOpt (encFixed 4)))))))))))

def encVehicle (x : VehicleData) : List UInt8 := encVehicleFields (vehicleFields x)

end Gtfs.Gen.HashSchema
