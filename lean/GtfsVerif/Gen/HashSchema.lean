-- REGENERATED on every run by go/cmd/extract from /repo. Do not edit.
import GtfsVerif.Model.HashCombinators
namespace Gtfs.Gen.HashSchema
open Gtfs.Hash

def eventFields (v : EventData) :=
  (v.time, (v.delay, v.uncertainty))
def encEventFields :=
  (encPair (encOpt (encFixed 8)) (encPair (encOpt (encFixed 8)) (encOpt (encFixed 4))))

def stuFields (v : StuData) :=
  (v.stopSequence, (v.stopId, (v.track, (v.sr, ((v.arrival.map eventFields), (v.departure.map eventFields))))))
def encStuFields :=
  (encPair (encOpt (encFixed 4)) (encPair (encOpt encStr) (encPair (encOpt encStr) (encPair (encFixed 4) (encPair (encOpt encEventFields) (encOpt encEventFields))))))

/-- the fields `hasher.trip` writes, in order, as a nested pair -/
def tripFields (x : TripData) :=
  (x.id, (x.routeId, (x.dir, (x.hasStartDate, (x.startDate, (x.hasStartTime, (x.startTime, (x.sr, x.stus.map stuFields))))))))

/-- the encoder `hasher.trip` applies to them -/
def encTripFields :=
  (encPair encStr (encPair encStr (encPair (encFixed 1) (encPair (encFixed 1) (encPair (encFixed 8) (encPair (encFixed 1) (encPair (encFixed 8) (encCounted (encFixed 4) encStuFields))))))))

def encTrip (x : TripData) : List UInt8 := encTripFields (tripFields x)

def vehicleIdFields (v : VehicleIdData) :=
  (v.id, (v.label, v.licensePlate))
def encVehicleIdFields :=
  (encPair encStr (encPair encStr encStr))

def positionFields (v : PositionData) :=
  (v.latitude, (v.longitude, (v.bearing, (v.odometer, v.speed))))
def encPositionFields :=
  (encPair (encOpt (encFixed 4)) (encPair (encOpt (encFixed 4)) (encPair (encOpt (encFixed 4)) (encPair (encOpt (encFixed 8)) (encOpt (encFixed 4))))))

/-- the fields `hasher.vehicle` writes, in order -/
def vehicleFields (x : VehicleData) :=
  ((x.id.map vehicleIdFields), (x.trip, ((x.position.map positionFields), (x.currentStopSequence, (x.stopId, (x.currentStatus, (x.timestamp, (x.congestionLevel, (x.occupancyStatus, x.occupancyPercentage)))))))))

def encVehicleFields :=
  (encPair (encOpt encVehicleIdFields) (encPair (encOpt encTrip) (encPair (encOpt encPositionFields) (encPair (encOpt (encFixed 4)) (encPair (encOpt encStr) (encPair (encOpt (encFixed 4)) (encPair (encOpt (encFixed 8)) (encPair (encFixed 4) (encPair (encOpt (encFixed 4)) (encOpt (encFixed 4)))))))))))

def encVehicle (x : VehicleData) : List UInt8 := encVehicleFields (vehicleFields x)

/-- optional fields and groups the source hashes that the model's records do not have (hashed as absent) -/
def unmodelledOptionalFields : List String := []

end Gtfs.Gen.HashSchema
