-- REGENERATED on every run by go/cmd/extract from /repo. Do not edit.
namespace Gtfs.Gen.JournalFacts

/-- `buildTripUID`: ids shorter than this lose everything, longer ones this many leading bytes -/
def uidPrefixLen : Nat := 6
/-- `buildTripUID`: the Sprintf format applied to (start.Unix(), rest of the id): %d%s -/
def uidFormat : List UInt8 := [37, 100, 37, 115]

end Gtfs.Gen.JournalFacts
