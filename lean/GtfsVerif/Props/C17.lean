import GtfsVerif.Model.Realtime
import GtfsVerif.Gen.Regex
/-! # C17 — NYCT alerts extension groups elevator alerts and maps Mercury data as documented

Model: `alertPassStep`, `nyctUpdatePlainAlert`, `effectLoop`, `matchElevator`, `elevatorNewId`,
`addInformedStop` (Model/Realtime.lean) = extensions/nyctalerts. The priority table, the
timetabled-no-service set, the cause prefixes, the elevator cause/effect and id formats are
regenerated from the source (`Gen.NyctTables`) and pinned here to the documented values, so an
edited table entry breaks a theorem. -/
namespace Gtfs.Rt
open Gen.NyctTables

/-! ## the documented tables (regenerated facts = documented values) -/

/-- Mercury priority ↦ effect, all 40 documented entries
    (1 NO_SERVICE, 2 REDUCED_SERVICE, 3 SIGNIFICANT_DELAYS, 5 ADDITIONAL_SERVICE, 6 MODIFIED_SERVICE) -/
theorem C17_priority_table : priorityToEffect =
    [(1, 1), (2, 2), (3, 2), (4, 2), (5, 6), (6, 6), (7, 6), (8, 6), (9, 5), (10, 6), (11, 6), (12, 6), (13, 6), (14, 6), (15, 2),
     (16, 6), (17, 6), (18, 6), (19, 3), (20, 3), (21, 6), (22, 6), (23, 6), (24, 6), (25, 2), (26, 6), (27, 3), (28, 6), (29, 6),
     (30, 3), (31, 6), (32, 6), (33, 6), (34, 6), (35, 6), (36, 6), (37, 2), (38, 6), (39, 1), (40, 1)] := by decide

/-- the timetabled no-service priorities: NO_MIDDAY_SERVICE, NO_OVERNIGHT_SERVICE, NO_WEEKEND_SERVICE -/
theorem C17_timetabled : timetabledNoServicePriorities = [2, 3, 4] := by decide

/-- cause from the id prefix: `lmm:planned_work` ↦ MAINTENANCE (9), `lmm:alert` ↦ TECHNICAL_PROBLEM (3) -/
theorem C17_cause_prefixes : causeByPrefix =
    [([108, 109, 109, 58, 112, 108, 97, 110, 110, 101, 100, 95, 119, 111, 114, 107], 9), ([108, 109, 109, 58, 97, 108, 101, 114, 116], 3)]
    ∧ Alert_MAINTENANCE = 9 ∧ Alert_TECHNICAL_PROBLEM = 3 := by decide

/-- elevator alerts: cause maintenance, effect accessibility issue -/
theorem C17_elevator_cause_effect : elevatorCause = Alert_MAINTENANCE ∧ elevatorEffect = Alert_ACCESSIBILITY_ISSUE ∧
    Alert_ACCESSIBILITY_ISSUE = 11 := by decide

/-- `elevatorAlertIDRegex` is `([[:alnum:]]{3}?)([SN]?)#EL(.*)` – what `matchElevator` implements -/
theorem C17_elevatorRegex_pinned : Gen.Regex.elevatorAlertIDRegex =
    [40, 91, 91, 58, 97, 108, 110, 117, 109, 58, 93, 93, 123, 51, 125, 63, 41, 40, 91, 83, 78, 93, 63, 41, 35, 69, 76, 40, 46, 42, 41] := by decide

/-- the id formats per policy: `%s#EL%s` of (station, elevator) in a station, `elevator:EL%s` of the
    elevator in a complex, `%s#EL%s` of (platform, elevator) otherwise – what `elevatorNewId` implements -/
theorem C17_id_formats_pinned :
    elevatorIdFormats =
      [([68, 69, 68, 85, 80, 76, 73, 67, 65, 84, 69, 95, 73, 78, 95, 83, 84, 65, 84, 73, 79, 78],
        [37, 115, 35, 69, 76, 37, 115, 124, 115, 116, 97, 116, 105, 111, 110, 73, 68, 44, 101, 108, 101, 118, 97, 116, 111, 114, 73, 68]),
       ([68, 69, 68, 85, 80, 76, 73, 67, 65, 84, 69, 95, 73, 78, 95, 67, 79, 77, 80, 76, 69, 88],
        [101, 108, 101, 118, 97, 116, 111, 114, 58, 69, 76, 37, 115, 124, 101, 108, 101, 118, 97, 116, 111, 114, 73, 68])] ∧
    elevatorIdDefaultFormat =
      [37, 115, 35, 69, 76, 37, 115, 124, 112, 108, 97, 116, 102, 111, 114, 109, 73, 68, 44, 101, 108, 101, 118, 97, 116, 111, 114, 73, 68] := by
  decide

/-! ## elevator ids and groups -/

/-- the documented id for each policy -/
theorem C17_new_id (o : NyctAlertsOpts) (station suffix elevator : Str) :
    elevatorNewId o station suffix elevator =
      match o.policy with
      | .station => station ++ [35, 69, 76] ++ elevator
      | .complex => [101, 108, 101, 118, 97, 116, 111, 114, 58, 69, 76] ++ elevator
      | .none => (station ++ suffix) ++ [35, 69, 76] ++ elevator := by
  unfold elevatorNewId; cases o.policy <;> simp

/-- the group key ignores the platform suffix in a station and also the station in a complex -/
theorem C17_group_key_merges (o : NyctAlertsOpts) (st st' suf suf' el : Str) :
    (o.policy = .station → elevatorNewId o st suf el = elevatorNewId o st suf' el) ∧
    (o.policy = .complex → elevatorNewId o st suf el = elevatorNewId o st' suf' el) := by
  constructor <;> intro h <;> simp [elevatorNewId, h]

/-- the informed stops of a group: adding a member's stop keeps the list duplicate-free and its
    members are exactly the stops added so far – a set, so independent of the members' order -/
theorem C17_group_stops_set (a : AlertMsg) (stop : Str)
    (hnd : (a.informed.filterMap (·.stopId)).Nodup) :
    ((addInformedStop a stop).informed.filterMap (·.stopId)).Nodup ∧
    (∀ x, x ∈ (addInformedStop a stop).informed.filterMap (·.stopId) ↔ x = stop ∨ x ∈ a.informed.filterMap (·.stopId)) := by
  unfold addInformedStop
  split
  · rename_i h
    refine ⟨hnd, ?_⟩
    intro x
    constructor
    · intro hx; exact Or.inr hx
    · rintro (rfl | hx)
      · simp only [List.any_eq_true, beq_iff_eq] at h
        obtain ⟨e, he, hes⟩ := h
        exact List.mem_filterMap.mpr ⟨e, he, hes⟩
      · exact hx
  · rename_i h
    have hnot : stop ∉ a.informed.filterMap (·.stopId) := by
      intro hm
      obtain ⟨e, he, hes⟩ := List.mem_filterMap.mp hm
      exact h (by simp only [List.any_eq_true, beq_iff_eq]; exact ⟨e, he, hes⟩)
    simp only [List.filterMap_append, List.filterMap_cons, List.filterMap_nil]
    refine ⟨?_, ?_⟩
    · rw [List.nodup_append]
      refine ⟨hnd, by simp, ?_⟩
      intro x hx y hy
      simp only [List.mem_singleton] at hy
      subst hy
      intro hxy; subst hxy; exact hnot hx
    · intro x; simp only [List.mem_append, List.mem_singleton]
      constructor
      · rintro (h1 | h1)
        · exact Or.inr h1
        · exact Or.inl h1
      · rintro (h1 | h1)
        · exact Or.inr h1
        · exact Or.inl h1

/-- a later member of a group is skipped; the first member is kept -/
theorem C17_later_member_skipped (o : NyctAlertsOpts) (st : AlertPass) (e : Entity) (a : AlertMsg)
    (station suffix elevator : Str) (hm : matchElevator e.id = some (station, suffix, elevator))
    (i : Nat) (hg : alookup (elevatorNewId o station suffix elevator) st.groups = some i) :
    ((alertPassStep o st e a).done.getLast?).map (·.2) = some true ∧ (alertPassStep o st e a).groups = st.groups := by
  simp [alertPassStep, hm, hg]

theorem C17_first_member_kept (o : NyctAlertsOpts) (st : AlertPass) (e : Entity) (a : AlertMsg)
    (station suffix elevator : Str) (hm : matchElevator e.id = some (station, suffix, elevator))
    (hg : alookup (elevatorNewId o station suffix elevator) st.groups = none) :
    ((alertPassStep o st e a).done.getLast?).map (·.1.id) = some (elevatorNewId o station suffix elevator) ∧
    (alertPassStep o st e a).groups = st.groups ++ [(elevatorNewId o station suffix elevator, st.done.length)] := by
  simp [alertPassStep, hm, hg]

/-! ## effect by priority, the skip option -/

/-- without the skip option the effect is determined by folding the priorities over the table:
    the last informed entity whose priority is in the table decides -/
theorem C17_effect_by_priority (sels : List EntitySel) (eff : Option Int) :
    effectLoop false sels eff =
      ((sels.filterMap priorityOf).foldl (fun e p => match alookupI p priorityToEffect with | some x => some x | none => e) eff, false) := by
  induction sels generalizing eff with
  | nil => rfl
  | cons s r ih =>
    cases hp : priorityOf s with
    | none =>
      have : effectLoop false (s :: r) eff = effectLoop false r eff := by rw [effectLoop]; simp [hp]
      rw [this, ih]; simp [List.filterMap_cons, hp]
    | some p =>
      have : effectLoop false (s :: r) eff
          = effectLoop false r (match alookupI p priorityToEffect with | some x => some x | none => eff) := by
        rw [effectLoop]; simp only [hp, Bool.false_and, Bool.false_eq_true, if_false]; rfl
      rw [this, ih]; simp [List.filterMap_cons, hp]

/-- **timetabled no-service alerts are dropped exactly when that option is set** and some informed
    entity has one of the three timetabled priorities -/
theorem C17_skip_iff (skip : Bool) (sels : List EntitySel) (eff : Option Int) :
    (effectLoop skip sels eff).2 = true ↔
      skip = true ∧ ∃ s ∈ sels, ∃ p, priorityOf s = some p ∧ timetabledNoServicePriorities.contains p = true := by
  induction sels generalizing eff with
  | nil => simp [effectLoop]
  | cons s r ih =>
    unfold effectLoop
    cases hp : priorityOf s with
    | none =>
      simp only [ih, List.mem_cons, exists_eq_or_imp, hp]
      simp
    | some p =>
      simp only
      by_cases hc : (skip && timetabledNoServicePriorities.contains p) = true
      · simp only [hc, if_true]
        simp only [Bool.and_eq_true] at hc
        simp only [true_iff]
        exact ⟨hc.1, s, by simp, p, hp, hc.2⟩
      · simp only [hc, Bool.false_eq_true, if_false, ih]
        constructor
        · rintro ⟨h1, s', hs', p', hp', hc'⟩
          exact ⟨h1, s', by simp [hs'], p', hp', hc'⟩
        · rintro ⟨h1, s', hs', p', hp', hc'⟩
          refine ⟨h1, ?_⟩
          rcases List.mem_cons.mp hs' with rfl | hs'
          · rw [hp] at hp'; cases hp'
            exact absurd (by rw [h1, hc']; rfl) hc
          · exact ⟨s', hs', p', hp', hc'⟩

/-- **metadata is appended exactly when requested** (and the alert carries the Mercury extension);
    nothing else of the description changes -/
theorem C17_metadata_iff (o : NyctAlertsOpts) (id : Str) (a : AlertMsg) (hs : (nyctUpdatePlainAlert o id a).2 = false) :
    (nyctUpdatePlainAlert o id a).1.description =
      if o.addMetadata && a.hasMercuryAlert
      then some (a.description.getD [] ++ [{ text := metadataMarker, language := some metadataLanguage }])
      else a.description := by
  unfold nyctUpdatePlainAlert at hs ⊢
  generalize effectLoop o.skipTimetabled a.informed a.effect = r at hs ⊢
  obtain ⟨e, sk⟩ := r
  cases sk
  · simp only [Bool.false_eq_true, if_false] at hs ⊢
    split <;> rfl
  · simp at hs

/-- **alerts carrying no NYCT data and no elevator id are passed through unchanged**: no Mercury
    selector, no Mercury alert, no `lmm:` cause prefix – the parsed alert is the same as without
    the extension -/
theorem C17_plain_passthrough (o : NyctAlertsOpts) (id : Str) (a : AlertMsg)
    (hsel : ∀ s ∈ a.informed, s.mercurySortOrder = none) (hmerc : a.hasMercuryAlert = false)
    (hpre : ∀ p ∈ causeByPrefix, hasPrefix p.1 id = false) :
    (nyctUpdatePlainAlert o id a).2 = false ∧ parseAlert id (nyctUpdatePlainAlert o id a).1 = parseAlert id a := by
  have hloop : ∀ (sels : List EntitySel) (eff : Option Int), (∀ s ∈ sels, s.mercurySortOrder = none) →
      effectLoop o.skipTimetabled sels eff = (eff, false) := by
    intro sels
    induction sels with
    | nil => intro eff _; rfl
    | cons s r ih =>
      intro eff h
      unfold effectLoop
      have : priorityOf s = none := by simp [priorityOf, h s (by simp)]
      simp only [this]
      exact ih eff (fun x hx => h x (by simp [hx]))
  have hcause : causeFor id (a.cause.getD Alert_UNKNOWN_CAUSE) = a.cause.getD Alert_UNKNOWN_CAUSE := by
    unfold causeFor
    have : causeByPrefix.find? (fun p => hasPrefix p.1 id) = none := by
      apply List.find?_eq_none.mpr; intro p hp; simp [hpre p hp]
    rw [this]
  unfold nyctUpdatePlainAlert
  simp only [hloop a.informed a.effect hsel, hcause, hmerc, Bool.and_false, Bool.false_eq_true, if_false]
  refine ⟨trivial, ?_⟩
  unfold parseAlert
  simp

end Gtfs.Rt
