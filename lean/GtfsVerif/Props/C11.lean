import GtfsVerif.Model.Static
import GtfsVerif.Lemmas.Assoc
import GtfsVerif.Lemmas.Zone
/-! # C11 — services merge calendar.txt and calendar_dates.txt correctly

Model: `parseCalendar` / `parseCalendarDates` (folds of `calendarStep` / `calendarDatesStep` over
the rows into one table keyed by service id) and `servicesOf` (the table's values ordered by id).
Dates are civil day numbers; the zone they are expressed in is `Result.zone`. -/
namespace Gtfs.Static

/-- a service's range covers every one of its exception dates -/
def Covers (s : Service) : Prop := ∀ d ∈ s.added ++ s.removed, s.startDate ≤ d ∧ d ≤ s.endDate

/-- the table invariant: keys distinct, every entry stored under its own id, ranges cover -/
def TableOK (m : List (Str × Service)) : Prop :=
  (akeys m).Nodup ∧ ∀ p ∈ m, p.2.id = p.1 ∧ Covers p.2

theorem tableOK_aset (m : List (Str × Service)) (k : Str) (s : Service) (h : TableOK m) (hid : s.id = k) (hc : Covers s) :
    TableOK (aset k s m) := by
  refine ⟨nodup_akeys_aset' _ _ _ h.1, ?_⟩
  intro p hp
  rcases mem_aset _ _ _ p hp with rfl | hp
  · exact ⟨hid, hc⟩
  · exact h.2 p hp

theorem calendarStep_ok (hdr : List Str) (m : List (Str × Service)) (row : List Str) (h : TableOK m) :
    TableOK (calendarStep hdr m row) := by
  unfold calendarStep
  split
  · split
    · exact h
    · refine tableOK_aset _ _ _ h rfl ?_
      intro d hd; simp at hd
  · exact h

theorem alookup_mem {α} (k : Str) (m : List (Str × α)) (v : α) (h : alookup k m = some v) : (k, v) ∈ m := by
  induction m with
  | nil => simp [alookup] at h
  | cons p r ih =>
    obtain ⟨k', v'⟩ := p
    by_cases hk : k' == k
    · have : k' = k := by simpa using hk
      subst this
      simp only [alookup, hk, if_true, Option.some.injEq] at h
      subst h; simp
    · simp only [alookup, hk, Bool.false_eq_true, if_false] at h
      exact List.mem_cons_of_mem _ (ih h)

theorem calendarDatesStep_ok (hdr : List Str) (m : List (Str × Service)) (row : List Str) (h : TableOK m) :
    TableOK (calendarDatesStep hdr m row) := by
  unfold calendarDatesStep
  split
  · exact h
  · rename_i d hd
    split
    · exact h
    · simp only
      cases hl : alookup (optRead hdr row c_service_id) m with
      | none =>
        simp only
        split
        · refine tableOK_aset _ _ _ h rfl ?_
          intro x hx; simp at hx; subst hx; simp
        · split
          · refine tableOK_aset _ _ _ h rfl ?_
            intro x hx; simp at hx; subst hx; simp
          · exact h
      | some s =>
        have hs := (h.2 _ (alookup_mem _ _ _ hl)).2
        simp only
        have hcov : ∀ x ∈ s.added ++ s.removed,
            (if d < s.startDate then d else s.startDate) ≤ x ∧ x ≤ (if s.endDate < d then d else s.endDate) := by
          intro x hx
          obtain ⟨h1, h2⟩ := hs x hx
          simp only at h1 h2
          constructor <;> split <;> omega
        have hd' : (if d < s.startDate then d else s.startDate) ≤ d ∧ d ≤ (if s.endDate < d then d else s.endDate) := by
          constructor <;> split <;> omega
        split
        · refine tableOK_aset _ _ _ h rfl ?_
          intro x hx
          simp only [List.mem_append, List.mem_singleton] at hx
          rcases hx with (hx | hx) | hx
          · exact hcov x (by simp [hx])
          · subst hx; exact hd'
          · exact hcov x (by simp [hx])
        · split
          · refine tableOK_aset _ _ _ h rfl ?_
            intro x hx
            simp only [List.mem_append, List.mem_singleton] at hx
            rcases hx with hx | hx | hx
            · exact hcov x (by simp [hx])
            · exact hcov x (by simp [hx])
            · subst hx; exact hd'
          · exact h

theorem foldl_ok {α} (step : List (Str × Service) → α → List (Str × Service)) (hstep : ∀ m r, TableOK m → TableOK (step m r))
    (rows : List α) (m : List (Str × Service)) (h : TableOK m) : TableOK (rows.foldl step m) := by
  induction rows generalizing m with
  | nil => exact h
  | cons r rest ih => exact ih _ (hstep m r h)

/-- the table after both files, whatever their content -/
theorem table_ok (cal cd : Option Csv.File) :
    TableOK ((match cd with | some f => parseCalendarDates f | none => id)
      ((match cal with | some f => parseCalendar f | none => id) [])) := by
  have h0 : TableOK [] := ⟨by simp [akeys], by simp⟩
  have h1 : TableOK ((match cal with | some f => parseCalendar f | none => id) []) := by
    cases cal with
    | none => exact h0
    | some f =>
      simp only [parseCalendar]
      split
      · exact h0
      · exact foldl_ok _ (calendarStep_ok f.header) _ _ h0
  cases cd with
  | none => exact h1
  | some f =>
    simp only [parseCalendarDates]
    split
    · exact h1
    · exact foldl_ok _ (calendarDatesStep_ok f.header) _ _ h1

/-- **exactly one Service per service id, ordered by id** -/
theorem C11_one_service_per_id (m : List (Str × Service)) (h : TableOK m) :
    ((servicesOf m).map (·.id)).Nodup ∧ ((servicesOf m).map (·.id)).Pairwise (fun a b => strLe a b = true) := by
  unfold servicesOf
  have hperm := List.mergeSort_perm m (fun a b => strLe a.1 b.1)
  have hids : ((m.mergeSort fun a b => strLe a.1 b.1).map (·.2)).map (·.id) = akeys (m.mergeSort fun a b => strLe a.1 b.1) := by
    simp only [akeys, List.map_map]
    apply List.map_congr_left
    intro p hp
    exact (h.2 p (hperm.subset hp)).1
  rw [hids]
  constructor
  · exact (List.Perm.nodup_iff (hperm.map _)).mpr h.1
  · have := List.pairwise_mergeSort (le := fun (a b : Str × Service) => strLe a.1 b.1) (fun _ _ _ => strLe_trans)
      (fun a b => by rcases strLe_total a.1 b.1 with h | h <;> simp [h]) m
    simp only [akeys, List.pairwise_map]
    exact this.imp (by intro a b h; simpa using h)

/-- **start ≤ each added or removed date ≤ end** for every service of the result -/
theorem C11_range_covers (m : List (Str × Service)) (h : TableOK m) :
    ∀ s ∈ servicesOf m, ∀ d ∈ s.added ++ s.removed, s.startDate ≤ d ∧ d ≤ s.endDate := by
  intro s hs
  unfold servicesOf at hs
  obtain ⟨p, hp, rfl⟩ := List.mem_map.mp hs
  exact (h.2 p ((List.mergeSort_perm m _).subset hp)).2

/-- a valid calendar row sets the weekday flags and the range of its service; the exception lists
    start empty -/
theorem C11_calendar_row (hdr : List Str) (m : List (Str × Service)) (row : List Str) (sd ed : Int)
    (h1 : Civil.parseDate8 (optRead hdr row c_start_date) = some sd) (h2 : Civil.parseDate8 (optRead hdr row c_end_date) = some ed)
    (h3 : missingKeys hdr row calendarRequired = []) :
    ∃ s, alookup (optRead hdr row c_service_id) (calendarStep hdr m row) = some s ∧
      s.id = optRead hdr row c_service_id ∧ s.startDate = sd ∧ s.endDate = ed ∧ s.added = [] ∧ s.removed = [] ∧
      s.monday = (optRead hdr row c_monday == [49]) ∧ s.sunday = (optRead hdr row c_sunday == [49]) := by
  unfold calendarStep
  simp only [h1, h2, h3, ne_eq, not_true_eq_false, if_false, alookup_aset_same]
  exact ⟨_, rfl, rfl, rfl, rfl, rfl, rfl, rfl, rfl⟩

/-- a type-1 exception row appends its date to `added`, a type-2 row to `removed` – at the end, so
    the dates come in file order – and extends the range to cover it; a service that has no
    calendar row starts with all flags false and the range [date, date] -/
theorem C11_exception_row (hdr : List Str) (m : List (Str × Service)) (row : List Str) (d : Int)
    (h1 : Civil.parseDate8 (optRead hdr row c_date) = some d) (h2 : missingKeys hdr row calendarDatesRequired = []) :
    let sid := optRead hdr row c_service_id
    let base : Service := match alookup sid m with
      | none => { id := sid, startDate := d, endDate := d }
      | some s => { s with id := sid, startDate := if d < s.startDate then d else s.startDate, endDate := if s.endDate < d then d else s.endDate }
    (optRead hdr row c_exception_type = [49] → alookup sid (calendarDatesStep hdr m row) = some { base with added := base.added ++ [d] }) ∧
    (optRead hdr row c_exception_type = [50] → alookup sid (calendarDatesStep hdr m row) = some { base with removed := base.removed ++ [d] }) ∧
    (optRead hdr row c_exception_type ≠ [49] → optRead hdr row c_exception_type ≠ [50] → calendarDatesStep hdr m row = m) := by
  unfold calendarDatesStep
  simp only [h1, h2, ne_eq, not_true_eq_false, if_false]
  refine ⟨?_, ?_, ?_⟩
  · intro ht
    cases alookup (optRead hdr row c_service_id) m <;> simp [ht, alookup_aset_same]
  · intro ht
    have : ¬ ([50] : Str) = [49] := by decide
    cases alookup (optRead hdr row c_service_id) m <;> simp [ht, this, alookup_aset_same]
  · intro n1 n2
    have e1 : (optRead hdr row c_exception_type == [49]) = false := by simpa using n1
    have e2 : (optRead hdr row c_exception_type == [50]) = false := by simpa using n2
    simp [e1, e2]

/-- **zone**: the first accepted agency's zone when it loads, UTC otherwise (also with no agency) -/
theorem C11_zone_rule (env : Env) (f : Csv.File) (st : St) :
    (action env f_agency f st).res.zone =
      (match (parseAgencies f).1 with
       | a :: _ => (env.zoneOf a.timezone).getD utc
       | [] => utc) := by
  simp only [action, beq_self_eq_true, if_true, utc]
  cases (parseAgencies f).1 <;> rfl

/-! ## the instants at which the dates are surfaced

`time.ParseInLocation("20060102", s, zone)` ends in `time.Date(y, m, d, 0,0,0,0, zone)`; `Zone.dateUnix`
follows that code over the zone's transition table, and the correspondence compares
`Zone.Table.instant` of every start, end, added and removed date with `.Unix()` of the real value. -/

/-- **start of that day in the feed's zone**, fixed offsets and UTC (the fallback zone): unconditional -/
theorem C11_date_midnight_fixed (o d : Int) :
    Zone.wall (Zone.fixed o) (Zone.dateUnix (Zone.fixed o) d) = d * 86400 :=
  Zone.wall_dateUnix_fixed o d

/-- **start of that day in the feed's zone**, zones with transitions: whenever `time.Date`'s second
    guess is consistent; guaranteed when no transition lies in the window its look-ups can reach -/
theorem C11_date_midnight {z : Zone.Zone} (h : Zone.WF z) {d : Int} (hs : Zone.Settled z d) :
    Zone.wall z (Zone.dateUnix z d) = d * 86400 :=
  Zone.wall_dateUnix h hs

theorem C11_date_midnight_quiet {z : Zone.Zone} (h : Zone.WF z) {lo hi a b d : Int}
    (hw : Zone.Within z lo hi) (hq : Zone.NoTransition z a b) (h1 : a ≤ d * 86400) (h2 : d * 86400 ≤ b)
    (h3 : a ≤ d * 86400 - hi) (h4 : d * 86400 - lo ≤ b) :
    Zone.wall z (Zone.dateUnix z d) = d * 86400 :=
  Zone.wall_dateUnix h (Zone.settled_of_noTransition hw hq h1 h2 h3 h4)

/-- **the range covers the exception dates as instants too** (what a caller comparing `time.Time`
    values sees), for every zone whose offsets span less than a day -/
theorem C11_range_covers_instants {z : Zone.Zone} (h : Zone.WF z) {lo hi : Int} (hw : Zone.Within z lo hi)
    (hspan : hi - lo < 86400) (s : Service) (hc : Covers s) :
    ∀ d ∈ s.added ++ s.removed,
      Zone.dateUnix z s.startDate ≤ Zone.dateUnix z d ∧ Zone.dateUnix z d ≤ Zone.dateUnix z s.endDate := by
  intro d hd
  have ⟨h1, h2⟩ := hc d hd
  constructor
  · rcases Int.lt_or_eq_of_le h1 with hlt | heq
    · exact Int.le_of_lt (Zone.dateUnix_strictMono h hw hspan hlt)
    · rw [heq]; exact Int.le_refl _
  · rcases Int.lt_or_eq_of_le h2 with hlt | heq
    · exact Int.le_of_lt (Zone.dateUnix_strictMono h hw hspan hlt)
    · rw [heq]; exact Int.le_refl _

/-- Europe/London around 2021 (from the tz database): GMT, BST from 2021-03-28 01:00 UTC to 2021-10-31 01:00 UTC -/
def london2021 : Zone.Zone := { first := 0, trans := [(1616893200, 3600), (1635642000, 0)] }

/-- non-vacuity: a summer day (18800 = 2021-06-22) is surfaced at 23:00 UTC of the previous day, which
    reads midnight on a London clock; both offset-change days are settled -/
example : Zone.WF london2021 ∧ Zone.dateUnix london2021 18800 = 18800 * 86400 - 3600 ∧
    Zone.Settled london2021 18800 ∧ Zone.Settled london2021 18714 ∧ Zone.Settled london2021 18931 ∧
    Zone.Within london2021 0 3600 := by decide

/-! ## non-vacuity -/
example : TableOK [([65], { id := [65], startDate := 10, endDate := 20, added := [10, 15], removed := [20] })] := by
  refine ⟨by simp [akeys], ?_⟩
  intro p hp
  simp only [List.mem_singleton] at hp
  subst hp
  refine ⟨rfl, ?_⟩
  intro d hd
  simp at hd
  rcases hd with rfl | rfl | rfl <;> simp

end Gtfs.Static
