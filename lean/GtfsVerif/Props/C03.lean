import GtfsVerif.Model.Static
/-! # C03 — the static result is referentially closed and the stop hierarchy is a forest

References of the model are indices into the result's own collections (on the Go side the
canonicaliser computes the index by pointer identity and reports `foreign` when no element of the
collection is the target – that is how "the very element of the result's own collection" is
observed). All theorems hold for any member bytes: no well-formedness hypothesis. -/
namespace Gtfs.Static

/-! ## indices are in range and name the row's id -/

theorem findLastIdx_spec {α} (l : List α) (p : α → Bool) (i : Nat) (h : findLastIdx l p = some i) :
    ∃ hi : i < l.length, p l[i] = true := by
  unfold findLastIdx at h
  have hm : i ∈ (List.range l.length).filter fun i => match l[i]? with | some x => p x | none => false :=
    List.mem_of_getLast? h
  obtain ⟨h1, h2⟩ := List.mem_filter.mp hm
  have hi : i < l.length := List.mem_range.mp h1
  refine ⟨hi, ?_⟩
  simpa [List.getElem?_eq_getElem hi] using h2

theorem findIdx_spec {α} (l : List α) (p : α → Bool) (i : Nat) (h : findIdx l p = some i) :
    ∃ hi : i < l.length, p l[i] = true := by
  obtain ⟨hlt, hp, _⟩ := List.findIdx?_eq_some_iff_getElem.mp h
  exact ⟨hlt, hp⟩

/-- **route → agency**: never absent; an element of Agencies; its id is the row's agency_id, or it
    is the unique agency when the cell is blank -/
theorem C03_route_agency (hdr row : List Str) (ags : List Agency) (r : Route) (h : routeOfRow hdr row ags = some r) :
    ∃ hi : r.agency < ags.length,
      (optRead hdr row c_agency_id ≠ [] → ags[r.agency].id = optRead hdr row c_agency_id) ∧
      (optRead hdr row c_agency_id = [] → ags.length = 1) := by
  unfold routeOfRow at h
  simp only at h
  by_cases hne : optRead hdr row c_agency_id ≠ []
  · simp only [hne, ne_eq, not_false_eq_true, if_true] at h
    split at h
    · simp at h
    · rename_i ai hai
      split at h
      · simp at h
      · simp only [Option.some.injEq] at h; subst h
        obtain ⟨hi, hp⟩ := findIdx_spec _ _ _ hai
        exact ⟨hi, fun _ => by simpa using hp, fun e => absurd e hne⟩
  · have he : optRead hdr row c_agency_id = [] := by simpa using hne
    simp only [he, ne_eq, not_true_eq_false, if_false] at h
    by_cases h1 : ags.length = 1
    · simp only [h1, if_true] at h
      split at h
      · simp at h
      · simp only [Option.some.injEq] at h; subst h
        exact ⟨by simp [h1], fun e => absurd he e, fun _ => h1⟩
    · simp [h1] at h

/-- **transfer → its two stops**: never absent, elements of Stops, carrying the row's two ids -/
theorem C03_transfer_stops (hdr row : List Str) (stops : List Stop) (t : Transfer) (h : transferOfRow hdr row stops = some t) :
    ∃ (h1 : t.fromStop < stops.length) (h2 : t.toStop < stops.length),
      stops[t.fromStop].id = optRead hdr row c_from_stop_id ∧ stops[t.toStop].id = optRead hdr row c_to_stop_id := by
  unfold transferOfRow at h
  split at h
  · simp at h
  · split at h
    · rename_i a b ha hb
      split at h
      · simp at h
      · simp only [Option.some.injEq] at h; subst h
        obtain ⟨h1, p1⟩ := findLastIdx_spec _ _ _ ha
        obtain ⟨h2, p2⟩ := findLastIdx_spec _ _ _ hb
        exact ⟨h1, h2, by simpa using p1, by simpa using p2⟩
    · simp at h

/-- **trip → route, service (never absent) and shape (optional)** -/
theorem C03_trip_refs (hdr row : List Str) (rs : List Route) (ss : List Service) (shs : List Shape) (t : Trip)
    (h : tripOfRow hdr row rs ss shs = some t) :
    (∃ (h1 : t.route < rs.length) (h2 : t.service < ss.length),
      rs[t.route].id = optRead hdr row c_route_id ∧ ss[t.service].id = optRead hdr row c_service_id) ∧
    (∀ k, t.shape = some k → ∃ hk : k < shs.length, shs[k].id = optRead hdr row c_shape_id) := by
  unfold tripOfRow at h
  split at h
  · simp at h
  · split at h
    · rename_i ri si hr hs
      simp only [Option.some.injEq] at h; subst h
      obtain ⟨h1, p1⟩ := findLastIdx_spec _ _ _ hr
      obtain ⟨h2, p2⟩ := findLastIdx_spec _ _ _ hs
      refine ⟨⟨h1, h2, by simpa using p1, by simpa using p2⟩, ?_⟩
      intro k hk
      simp only at hk
      split at hk
      · simp at hk
      · obtain ⟨h3, p3⟩ := findLastIdx_spec _ _ _ hk
        exact ⟨h3, by simpa using p3⟩
    · simp at h

/-- **stop time → stop (never absent), attached to the trip its row names** -/
theorem C03_stop_time_refs (env : Env) (hdr row : List Str) (stops : List Stop) (trips : List Trip) (ti : Nat) (st : StopTime)
    (h : stopTimeOfRow env hdr row stops trips = some (ti, st)) :
    ∃ (h1 : st.stop < stops.length) (h2 : ti < trips.length),
      stops[st.stop].id = optRead hdr row c_stop_id ∧ trips[ti].id = optRead hdr row c_trip_id := by
  unfold stopTimeOfRow at h
  simp only at h
  split at h
  · simp at h
  · split at h
    · simp at h
    · split at h
      · simp at h
      · split at h
        · rename_i si ti' hs ht
          simp only [Option.some.injEq, Prod.mk.injEq] at h
          obtain ⟨rfl, rfl⟩ := h
          obtain ⟨h1, p1⟩ := findLastIdx_spec _ _ _ hs
          obtain ⟨h2, p2⟩ := findLastIdx_spec _ _ _ ht
          exact ⟨h1, h2, by simpa using p1, by simpa using p2⟩
        · simp at h

/-! ## the parent links form a forest -/

/-- the chain of parents from `i` ends within `k` steps -/
def ends (parents : List (Option Nat)) : Nat → Nat → Bool
  | 0, _ => false
  | k + 1, i =>
    match parents.getD i none with
    | none => true
    | some q => ends parents k q

/-- every stop's walk to its root terminates -/
def Forest (parents : List (Option Nat)) : Prop := ∀ i, ∃ k, ends parents k i = true

theorem getD_set_ne (parents : List (Option Nat)) (c x : Nat) (v : Option Nat) (h : x ≠ c) :
    (parents.set c v).getD x none = parents.getD x none := by
  simp [List.getD_eq_getElem?_getD, List.getElem?_set, Ne.symm h]

/-- a chain that avoids `c` is not affected by changing `c`'s link -/
theorem ends_of_not_reaches (parents : List (Option Nat)) (c : Nat) (v : Option Nat) (f p : Nat)
    (h : reaches parents c f p = false) : ends (parents.set c v) f p = true := by
  induction f generalizing p with
  | zero => simp [reaches] at h
  | succ f ih =>
    unfold reaches at h
    split at h
    · simp at h
    · rename_i hpc
      unfold ends
      rw [getD_set_ne _ _ _ _ hpc]
      cases hq : parents.getD p none with
      | none => rfl
      | some q =>
        simp only [hq] at h ⊢
        exact ih q h

/-- adding the link `c → p` keeps the forest, provided `c` was a root and the chain from `p`
    avoids `c` -/
theorem forest_set (parents : List (Option Nat)) (c p f : Nat) (hF : Forest parents)
    (hc : parents.getD c none = none) (hp : reaches parents c f p = false) :
    Forest (parents.set c (some p)) := by
  have hpEnds : ends (parents.set c (some p)) f p = true := ends_of_not_reaches parents c (some p) f p hp
  by_cases hlen : c < parents.length
  · have hcNew : (parents.set c (some p)).getD c none = some p := by
      simp [List.getD_eq_getElem?_getD, List.getElem?_set, hlen]
    have key : ∀ k x, ends parents k x = true → ∃ k', ends (parents.set c (some p)) k' x = true := by
      intro k
      induction k with
      | zero => intro x h; simp [ends] at h
      | succ k ih =>
        intro x h
        unfold ends at h
        cases hx : parents.getD x none with
        | none =>
          by_cases hxc : x = c
          · subst hxc
            exact ⟨f + 1, by unfold ends; rw [hcNew]; exact hpEnds⟩
          · exact ⟨1, by unfold ends; rw [getD_set_ne _ _ _ _ hxc, hx]⟩
        | some q =>
          have hxc : x ≠ c := by intro e; subst e; rw [hc] at hx; cases hx
          simp only [hx] at h
          obtain ⟨k', hk'⟩ := ih q h
          exact ⟨k' + 1, by unfold ends; rw [getD_set_ne _ _ _ _ hxc, hx]; exact hk'⟩
    intro i
    obtain ⟨k, hk⟩ := hF i
    exact key k i hk
  · have : parents.set c (some p) = parents := List.set_eq_of_length_le (by omega)
    rw [this]; exact hF

/-- the state of the linking pass: a forest in which the stops not yet processed are roots -/
theorem linkStep_forest (ids parentIds : List Str) (rest : List Nat) (parents : List (Option Nat))
    (hF : Forest parents) (hroots : ∀ j ∈ rest, parents.getD j none = none) (hnd : rest.Nodup) :
    Forest (rest.foldl (fun parents i =>
      let pid := parentIds.getD i []
      if pid == [] then parents
      else match findLastIdx ids (fun x => x == pid) with
        | none => parents
        | some p => if reaches parents i (ids.length + 1) p then parents else parents.set i (some p)) parents) := by
  induction rest generalizing parents with
  | nil => exact hF
  | cons i r ih =>
    simp only [List.foldl_cons]
    have hnd' := (List.nodup_cons.mp hnd)
    apply ih _ _ _ hnd'.2
    · -- forest kept
      split
      · exact hF
      · split
        · exact hF
        · split
          · exact hF
          · rename_i hr
            exact forest_set parents i _ _ hF (hroots i (by simp)) (by simpa using hr)
    · -- the remaining stops are still roots
      intro j hj
      have hji : j ≠ i := fun e => hnd'.1 (e ▸ hj)
      split
      · exact hroots j (by simp [hj])
      · split
        · exact hroots j (by simp [hj])
        · split
          · exact hroots j (by simp [hj])
          · rw [getD_set_ne _ _ _ _ hji]; exact hroots j (by simp [hj])

/-- **parent links form a forest: no stop is its own ancestor; walking from any stop to its root
    terminates** – for any ids and any parent_station values (self-, mutually and cyclically
    referencing ones included) -/
theorem C03_parent_forest (ids parentIds : List Str) : Forest (linkParents ids parentIds) := by
  unfold linkParents
  apply linkStep_forest
  · intro i
    refine ⟨1, ?_⟩
    unfold ends
    have : (List.replicate ids.length (none : Option Nat)).getD i none = none := by
      simp only [List.getD_eq_getElem?_getD, List.getElem?_replicate]
      split <;> rfl
    rw [this]
  · intro j _
    simp only [List.getD_eq_getElem?_getD, List.getElem?_replicate]
    split <;> rfl
  · exact List.nodup_range

/-- a parent link, when present, leads to a stop carrying the named parent id -/
theorem C03_parent_names_id (ids parentIds : List Str) (pid : Str) (p : Nat)
    (h : findLastIdx ids (fun x => x == pid) = some p) : ∃ hp : p < ids.length, ids[p] = pid := by
  obtain ⟨hp, hq⟩ := findLastIdx_spec _ _ _ h
  exact ⟨hp, by simpa using hq⟩

/-! ## non-vacuity: A→B→C, a self-parent and a 2-cycle -/
example : linkParents [[65], [66], [67], [68], [69], [70]] [[66], [67], [], [68], [70], [69]]
    = [some 1, some 2, none, none, some 5, none] := by
  simp [linkParents, findLastIdx, reaches, List.range, List.range.loop]

/-! ## the fuel of the cycle check is never exhausted -/

/-- `m` steps along the parent links -/
def walk (parents : List (Option Nat)) : Nat → Nat → Option Nat
  | 0, p => some p
  | m + 1, p => (parents.getD p none).bind (walk parents m)

theorem ends_eq_walk (parents : List (Option Nat)) (m p : Nat) : ends parents m p = (walk parents m p).isNone := by
  induction m generalizing p with
  | zero => rfl
  | succ m ih =>
    unfold ends walk
    cases parents.getD p none with
    | none => rfl
    | some q => simp [ih]

theorem walk_add (parents : List (Option Nat)) (a b p : Nat) :
    walk parents (a + b) p = (walk parents a p).bind (walk parents b) := by
  induction a generalizing p with
  | zero => simp [walk]
  | succ a ih =>
    have : a + 1 + b = (a + b) + 1 := by omega
    rw [this]
    simp only [walk]
    cases parents.getD p none with
    | none => rfl
    | some q => simp [ih]

theorem walk_none_mono (parents : List (Option Nat)) (a b p : Nat) (h : walk parents a p = none) :
    walk parents (a + b) p = none := by rw [walk_add, h]; rfl

/-- a node that comes back to itself never reaches a root -/
theorem walk_periodic (parents : List (Option Nat)) (m x : Nat) (h : walk parents m x = some x) (j : Nat) :
    walk parents (j * m) x = some x := by
  induction j with
  | zero => simp [walk]
  | succ j ih =>
    have : (j + 1) * m = j * m + m := by rw [Nat.succ_mul]
    rw [this, walk_add, ih]; exact h

theorem no_cycle_of_ends (parents : List (Option Nat)) (k m x : Nat) (hk : ends parents k x = true) (hm : 0 < m)
    (h : walk parents m x = some x) : False := by
  rw [ends_eq_walk] at hk
  have hnone : walk parents k x = none := by simpa using hk
  have hper := walk_periodic parents m x h k
  have : k * m = k + (k * m - k) := by
    have : k ≤ k * m := Nat.le_mul_of_pos_right k hm
    omega
  rw [this, walk_none_mono parents k _ x hnone] at hper
  cases hper

/-- a node with a successor is an index of the list -/
theorem lt_length_of_getD_some (parents : List (Option Nat)) (x q : Nat) (h : parents.getD x none = some q) : x < parents.length := by
  by_cases hx : x < parents.length
  · exact hx
  · simp [List.getD_eq_getElem?_getD, List.getElem?_eq_none (Nat.le_of_not_lt hx)] at h

/-- pigeonhole: distinct numbers below `n` are at most `n` -/
theorem length_le_of_nodup_lt : ∀ (n : Nat) (l : List Nat), l.Nodup → (∀ x ∈ l, x < n) → l.length ≤ n := by
  intro n
  induction n with
  | zero =>
    intro l _ h
    cases l with
    | nil => simp
    | cons x r => exact absurd (h x (by simp)) (by omega)
  | succ n ih =>
    intro l hnd h
    have h1 : (l.filter (· != n)).length ≤ n := by
      apply ih _ (hnd.filter _)
      intro x hx
      have := List.mem_filter.mp hx
      have hxn : x ≠ n := by simpa using this.2
      have := h x this.1
      omega
    have h2 : (l.filter (· == n)).length ≤ 1 := by
      have : ∀ l : List Nat, l.Nodup → (l.filter (· == n)).length ≤ 1 := by
        intro l
        induction l with
        | nil => intro _; simp
        | cons y r ihr =>
          intro hnd
          have hnd' := List.nodup_cons.mp hnd
          by_cases hy : y = n
          · subst hy
            have : r.filter (· == y) = [] := by
              rw [List.filter_eq_nil_iff]; intro z hz hzy
              have : z = y := by simpa using hzy
              exact hnd'.1 (this ▸ hz)
            simp [List.filter_cons, this]
          · have : (y == n) = false := by simpa using hy
            simp only [List.filter_cons, this]
            exact ihr hnd'.2
      exact this l hnd
    have h3 : ∀ l : List Nat, l.length = (l.filter (· == n)).length + (l.filter (· != n)).length := by
      intro l
      induction l with
      | nil => rfl
      | cons y r ihr =>
        by_cases hy : y = n
        · subst hy; simp [List.filter_cons]; omega
        · have e1 : (y == n) = false := by simpa using hy
          have e2 : (y != n) = true := by simpa using hy
          simp only [List.filter_cons, e1, e2, List.length_cons]; simp; omega
    have := h3 l
    omega

/-- the first `m` nodes of the walk from `p` -/
def nodes (parents : List (Option Nat)) (p : Nat) (m : Nat) : List Nat :=
  (List.range m).filterMap fun i => walk parents i p

/-- **on a forest every chain ends within `length + 1` steps** -/
theorem forest_bound (parents : List (Option Nat)) (hF : Forest parents) (p : Nat) :
    ends parents (parents.length + 1) p = true := by
  rw [ends_eq_walk]
  cases hw : walk parents (parents.length + 1) p with
  | none => rfl
  | some y =>
    exfalso
    -- all of walk 0 … walk n are defined, have successors, and are pairwise distinct
    have hdef : ∀ i, i ≤ parents.length + 1 → ∃ x, walk parents i p = some x := by
      intro i hi
      cases hx : walk parents i p with
      | some x => exact ⟨x, rfl⟩
      | none =>
        have := walk_none_mono parents i (parents.length + 1 - i) p hx
        have e : i + (parents.length + 1 - i) = parents.length + 1 := by omega
        rw [e, hw] at this; cases this
    have hsucc : ∀ i x, i ≤ parents.length → walk parents i p = some x → x < parents.length := by
      intro i x hi hx
      obtain ⟨z, hz⟩ := hdef (i + 1) (by omega)
      rw [walk_add, hx] at hz
      simp only [Option.bind_some, walk] at hz
      cases hq : parents.getD x none with
      | none => rw [hq] at hz; cases hz
      | some q => exact lt_length_of_getD_some parents x q hq
    have hdist : ∀ i j x, i < j → j ≤ parents.length → walk parents i p = some x → walk parents j p = some x → False := by
      intro i j x hij hj hi hjx
      have e : j = i + (j - i) := by omega
      rw [e, walk_add, hi] at hjx
      simp only [Option.bind_some] at hjx
      obtain ⟨k, hk⟩ := hF x
      exact no_cycle_of_ends parents k (j - i) x hk (by omega) hjx
    -- the first n+1 nodes are pairwise distinct numbers below n
    let f : Nat → Nat := fun i => (walk parents i p).getD 0
    have hf : ∀ i, i ≤ parents.length → walk parents i p = some (f i) := by
      intro i hi
      obtain ⟨x, hx⟩ := hdef i (by omega)
      simp [f, hx]
    have hpw : (List.range (parents.length + 1)).Pairwise (fun a b => f a ≠ f b) := by
      refine List.Pairwise.imp_of_mem ?_ (List.pairwise_lt_range (n := parents.length + 1))
      intro a b ha hb hab hfab
      have ha' : a ≤ parents.length := by have := List.mem_range.mp ha; omega
      have hb' : b ≤ parents.length := by have := List.mem_range.mp hb; omega
      have h1 := hf a ha'
      have h2 := hf b hb'
      rw [← hfab] at h2
      exact hdist a b (f a) hab hb' h1 h2
    have hnd : ((List.range (parents.length + 1)).map f).Nodup := by
      unfold List.Nodup
      rw [List.pairwise_map]
      exact hpw
    have hlt : ∀ x ∈ (List.range (parents.length + 1)).map f, x < parents.length := by
      intro x hx
      obtain ⟨i, hi, rfl⟩ := List.mem_map.mp hx
      have hi' : i ≤ parents.length := by have := List.mem_range.mp hi; omega
      exact hsucc i (f i) hi' (hf i hi')
    have := length_le_of_nodup_lt parents.length _ hnd hlt
    simp only [List.length_map, List.length_range] at this
    omega


/-- once the chain from `p` has ended, more fuel changes nothing -/
theorem reaches_fuel_irrelevant (parents : List (Option Nat)) (t : Nat) (k : Nat) :
    ∀ (p f : Nat), ends parents k p = true → k ≤ f → reaches parents t f p = reaches parents t k p := by
  induction k with
  | zero => intro p f h; simp [ends] at h
  | succ k ih =>
    intro p f h hf
    obtain ⟨f', rfl⟩ : ∃ f', f = f' + 1 := ⟨f - 1, by omega⟩
    unfold reaches
    split
    · rfl
    · unfold ends at h
      cases hq : parents.getD p none with
      | none => rfl
      | some q =>
        simp only [hq] at h ⊢
        exact ih q f' h (by omega)

/-- the linking pass with an arbitrary amount of fuel for the cycle check -/
def linkParentsWith (fuel : Nat) (ids : List Str) (parentIds : List Str) : List (Option Nat) :=
  (List.range ids.length).foldl (fun parents i =>
    let pid := parentIds.getD i []
    if pid == [] then parents
    else match findLastIdx ids (fun x => x == pid) with
      | none => parents
      | some p => if reaches parents i fuel p then parents else parents.set i (some p))
    (List.replicate ids.length none)

theorem linkParents_eq_with (ids parentIds : List Str) : linkParents ids parentIds = linkParentsWith (ids.length + 1) ids parentIds := rfl

theorem linkFold_fuel (ids parentIds : List Str) (fuel : Nat) (hfuel : ids.length + 1 ≤ fuel) (rest : List Nat) (parents : List (Option Nat))
    (hF : Forest parents) (hroots : ∀ j ∈ rest, parents.getD j none = none) (hnd : rest.Nodup) (hlen : parents.length = ids.length) :
    rest.foldl (fun parents i =>
      let pid := parentIds.getD i []
      if pid == [] then parents
      else match findLastIdx ids (fun x => x == pid) with
        | none => parents
        | some p => if reaches parents i fuel p then parents else parents.set i (some p)) parents
    = rest.foldl (fun parents i =>
      let pid := parentIds.getD i []
      if pid == [] then parents
      else match findLastIdx ids (fun x => x == pid) with
        | none => parents
        | some p => if reaches parents i (ids.length + 1) p then parents else parents.set i (some p)) parents := by
  induction rest generalizing parents with
  | nil => rfl
  | cons i r ih =>
    simp only [List.foldl_cons]
    have hnd' := List.nodup_cons.mp hnd
    -- the two steps agree on this state
    have hstep : ∀ p, reaches parents i fuel p = reaches parents i (ids.length + 1) p := by
      intro p
      have hb := forest_bound parents hF p
      rw [hlen] at hb
      exact reaches_fuel_irrelevant parents i (ids.length + 1) p fuel hb hfuel
    have hsame : (let pid := parentIds.getD i []
        if pid == [] then parents
        else match findLastIdx ids (fun x => x == pid) with
          | none => parents
          | some p => if reaches parents i fuel p then parents else parents.set i (some p))
      = (let pid := parentIds.getD i []
        if pid == [] then parents
        else match findLastIdx ids (fun x => x == pid) with
          | none => parents
          | some p => if reaches parents i (ids.length + 1) p then parents else parents.set i (some p)) := by
      simp only
      split
      · rfl
      · split
        · rfl
        · rw [hstep]
    rw [hsame]
    apply ih
    · dsimp only
      split
      · exact hF
      · split
        · exact hF
        · split
          · exact hF
          · rename_i hr
            exact forest_set parents i _ _ hF (hroots i (by simp)) (by simpa using hr)
    · intro j hj
      have hji : j ≠ i := fun e => hnd'.1 (e ▸ hj)
      dsimp only
      split
      · exact hroots j (by simp [hj])
      · split
        · exact hroots j (by simp [hj])
        · split
          · exact hroots j (by simp [hj])
          · rw [getD_set_ne _ _ _ _ hji]; exact hroots j (by simp [hj])
    · exact hnd'.2
    · dsimp only
      split
      · exact hlen
      · split
        · exact hlen
        · split
          · exact hlen
          · simp [hlen]

/-- **the fuel of the model's cycle check is never exhausted**: with any larger amount of fuel the
    linking pass produces the same links, so the model's bounded walk and an unbounded one (Go's
    loop, which terminates because the links set so far form a forest) decide every candidate link
    alike -/
theorem C03_fuel_irrelevant (ids parentIds : List Str) (fuel : Nat) (h : ids.length + 1 ≤ fuel) :
    linkParentsWith fuel ids parentIds = linkParents ids parentIds := by
  rw [linkParents_eq_with]
  unfold linkParentsWith
  apply linkFold_fuel ids parentIds fuel h
  · intro i
    refine ⟨1, ?_⟩
    unfold ends
    have : (List.replicate ids.length (none : Option Nat)).getD i none = none := by
      simp only [List.getD_eq_getElem?_getD, List.getElem?_replicate]
      split <;> rfl
    rw [this]
  · intro j _
    simp only [List.getD_eq_getElem?_getD, List.getElem?_replicate]
    split <;> rfl
  · exact List.nodup_range
  · simp

end Gtfs.Static
