import GtfsVerif.Lemmas.Journal
/-! # C19 — directory feed source replays files in name order and survives bad files

Model: `dirSource sortNames names read parse` (Model/Journal.lean) is the sequence of values
`DirectoryGtfsrtSource.Next` yields: the directory listing sorted bytewise, each name read
(`none`: unreadable, a sub-directory, vanished) and parsed (`none`: not GTFS-realtime), failures
skipped. The file system itself (listing, reading) is outside the model and is exercised by the
correspondence on real directories (`harness run --prop C19`). -/
namespace Gtfs.Journal

theorem sortNames_sorted (names : List Str) : (sortNames names).Pairwise (fun a b => strLe a b = true) :=
  List.pairwise_mergeSort (le := fun a b => strLe a b) (fun _ _ _ => strLe_trans)
    (fun a b => by rcases strLe_total a b with h | h <;> simp [h]) names

theorem sortNames_perm (names : List Str) : (sortNames names).Perm names := List.mergeSort_perm _ _

/-- **yields in lexicographic order, each readable and parseable file exactly once**: the
    sequence is the `filterMap` of the sorted listing – one value per good file, none for the
    others, and then it ends. -/
theorem C19_yields_filterMap_sorted {β α} (names : List Str) (read : Str → Option β) (parse : β → Option α) :
    dirSource sortNames names read parse = (sortNames names).filterMap (fun n => (read n).bind parse) := rfl

/-- the good names, in the order they are visited -/
def goodNames {β α} (names : List Str) (read : Str → Option β) (parse : β → Option α) : List Str :=
  (sortNames names).filter fun n => ((read n).bind parse).isSome

theorem C19_each_once {β α} (names : List Str) (read : Str → Option β) (parse : β → Option α) :
    (dirSource sortNames names read parse).length = (goodNames names read parse).length := by
  unfold dirSource goodNames
  induction sortNames names with
  | nil => rfl
  | cons n r ih =>
    simp only [List.filterMap_cons, List.filter_cons]
    cases h : (read n).bind parse <;> simp [ih]

theorem sort_filter_comm (names : List Str) (p : Str → Bool) :
    (sortNames names).filter p = sortNames (names.filter p) := by
  apply List.Perm.eq_of_pairwise (le := fun a b => strLe a b = true)
  · intro a b _ _ h1 h2; exact strLe_antisymm h1 h2
  · exact (sortNames_sorted names).filter p
  · exact sortNames_sorted _
  · exact ((sortNames_perm names).filter p).trans (sortNames_perm _).symm

/-- **bad entries are inert**: the directory yields exactly what its good files alone yield. -/
theorem C19_bad_entries_inert {β α} (names : List Str) (read : Str → Option β) (parse : β → Option α) :
    dirSource sortNames names read parse
      = dirSource sortNames (names.filter fun n => ((read n).bind parse).isSome) read parse := by
  unfold dirSource
  rw [← sort_filter_comm]
  induction sortNames names with
  | nil => rfl
  | cons n r ih =>
    simp only [List.filterMap_cons, List.filter_cons]
    cases h : (read n).bind parse <;> simp [h, ih]

/-- hence the journal built from the directory equals the journal built from its good files alone -/
theorem C19_journal_equal (names : List Str) (read : Str → Option β) (parse : β → Option Feed) (lo hi : Int) :
    build (dirSource sortNames names read parse) lo hi
      = build (dirSource sortNames (names.filter fun n => ((read n).bind parse).isSome) read parse) lo hi := by
  rw [← C19_bad_entries_inert]

/-- an all-bad or empty directory yields nothing -/
theorem C19_all_bad {β α} (names : List Str) (read : Str → Option β) (parse : β → Option α)
    (h : ∀ n ∈ names, (read n).bind parse = none) : dirSource sortNames names read parse = [] := by
  unfold dirSource
  rw [List.filterMap_eq_nil_iff]
  intro n hn
  exact h n ((sortNames_perm names).mem_iff.mp hn)

/-! ## non-vacuity -/
example : dirSource sortNames [[98], [97], [99]] (fun n => if n = [99] then none else some n)
    (fun b => if b = [97] then some (1 : Nat) else if b = [98] then some 2 else none) = [1, 2] := by
  simp [dirSource, sortNames, List.mergeSort, List.MergeSort.Internal.splitInTwo, strLe, strLt]

end Gtfs.Journal
