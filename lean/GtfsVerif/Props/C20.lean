import GtfsVerif.Lemmas.Journal
import GtfsVerif.Lemmas.Decimal
import GtfsVerif.Lemmas.Split
import GtfsVerif.Gen.ExportTemplate
/-! # C20 — CSV export is a complete, parseable rendering of the journal

Model: `tripsCsv`, `stopTimesCsv` (Model/Journal.lean) are hand-written renderings equal byte for
byte to what the two templates produce (checked on every run against the real `ExportToCsv`, and –
section "the templates as they are now" below – proved equal to an interpretation of the template
files as the extractor reads them on every run). Read-back is modelled by splitting at LF and then
at commas, which is what a standard CSV reader does on quote-free, CR-free input. -/
namespace Gtfs.Journal

theorem joinComma_eq (cells : List Str) : joinComma cells = joinSep comma cells := by
  induction cells with
  | nil => rfl
  | cons a r ih =>
    cases r with
    | nil => rfl
    | cons b r' => simp only [joinComma, joinSep, ih]

/-- a cell that can be written without quoting -/
def CellOk (s : Str) : Prop := comma ∉ s ∧ nl ∉ s
instance (s : Str) : Decidable (CellOk s) := inferInstanceAs (Decidable (_ ∧ _))

/-- the journals of the quantifier: id and track strings free of CSV metacharacters -/
def MetaFree (j : List Trip) : Prop :=
  ∀ tr ∈ j, CellOk tr.uid ∧ CellOk tr.tripId ∧ CellOk tr.route ∧ CellOk tr.vehicle ∧
    ∀ s ∈ tr.sts, CellOk s.stop ∧ CellOk (s.track.getD [])

theorem natToDec_ok (n : Nat) : CellOk (natToDec n) := by
  constructor <;> intro h <;> have := natToDec_digits n _ h <;> simp [isDigit, comma, nl] at this

theorem intToDec_ok (a : Int) : CellOk (intToDec a) := by
  cases a with
  | ofNat n => exact natToDec_ok n
  | negSucc n =>
    have := natToDec_ok (n + 1)
    constructor <;> simp only [intToDec, List.mem_cons, not_or]
    · exact ⟨by decide, this.1⟩
    · exact ⟨by decide, this.2⟩

theorem optUnix_ok (o : Option Int) : CellOk (optUnix o) := by
  cases o with
  | none => simp [optUnix, CellOk]
  | some t => exact intToDec_ok t

theorem fmtDir_ok (d : Nat) : CellOk (fmtDir d) := by
  unfold fmtDir CellOk
  split
  · decide
  · split <;> decide

theorem nil_ok : CellOk [] := by simp [CellOk]

theorem tripCells_ok (tr : Trip) (h : CellOk tr.uid ∧ CellOk tr.tripId ∧ CellOk tr.route ∧ CellOk tr.vehicle) :
    ∀ c ∈ tripCells tr, CellOk c := by
  intro c hc
  simp only [tripCells, List.mem_cons, List.mem_nil_iff, or_false] at hc
  rcases hc with rfl | rfl | rfl | rfl | rfl | rfl | rfl | rfl | rfl | rfl | rfl
  · exact h.1
  · exact h.2.1
  · exact h.2.2.1
  · exact fmtDir_ok _
  · exact intToDec_ok _
  · exact h.2.2.2
  · exact intToDec_ok _
  · exact optUnix_ok _
  · exact intToDec_ok _
  · exact intToDec_ok _
  · exact intToDec_ok _

theorem stCells_ok (uid : Str) (s : ST) (hu : CellOk uid) (hs : CellOk s.stop ∧ CellOk (s.track.getD [])) :
    ∀ c ∈ stCells uid s, CellOk c := by
  intro c hc
  simp only [stCells, List.mem_cons, List.mem_nil_iff, or_false] at hc
  rcases hc with rfl | rfl | rfl | rfl | rfl | rfl | rfl
  · exact hu
  · exact hs.1
  · exact hs.2
  · exact optUnix_ok _
  · exact optUnix_ok _
  · exact intToDec_ok _
  · exact optUnix_ok _

theorem joinSep_nl_free (cells : List Str) (h : ∀ c ∈ cells, CellOk c) : nl ∉ joinSep comma cells := by
  induction cells with
  | nil => simp [joinSep]
  | cons a r ih =>
    cases r with
    | nil => simpa [joinSep] using (h a (by simp)).2
    | cons b r' =>
      simp only [joinSep, List.mem_append, List.mem_cons, not_or]
      refine ⟨(h a (by simp)).2, by decide, ih (fun c hc => h c (by simp [hc]))⟩

/-- **C20 (trips table).** The text consists of the header line followed by exactly one line per
    journal trip, in journal order; reading it back (split at LF, then at commas) yields exactly
    the cells of each trip: ids verbatim, direction 0/1/blank, times as Unix seconds, absent
    marked-past as an empty cell, counters in decimal. -/
theorem C20_trips_parse_back (j : List Trip) (h : MetaFree j) :
    linesOf nl (tripsCsv j) = tripsHeader :: j.map (fun tr => joinComma (tripCells tr)) ∧
    (j.map fun tr => splitOn comma (joinComma (tripCells tr))) = j.map tripCells := by
  constructor
  · have : tripsCsv j = ((tripsHeader :: j.map (fun tr => joinComma (tripCells tr))).map fun r => r ++ [nl]).flatten := by
      simp [tripsCsv, line, joinComma, List.map_map, Function.comp_def]
    rw [this, linesOf_terminated]
    intro r hr
    rcases List.mem_cons.mp hr with rfl | hr
    · decide
    · obtain ⟨tr, htr, rfl⟩ := List.mem_map.mp hr
      rw [joinComma_eq]
      exact joinSep_nl_free _ (tripCells_ok tr ⟨(h tr htr).1, (h tr htr).2.1, (h tr htr).2.2.1, (h tr htr).2.2.2.1⟩)
  · apply List.map_congr_left
    intro tr htr
    rw [joinComma_eq]
    apply splitOn_joinSep
    · simp [tripCells]
    · intro c hc
      exact (tripCells_ok tr ⟨(h tr htr).1, (h tr htr).2.1, (h tr htr).2.2.1, (h tr htr).2.2.2.1⟩ c hc).1

/-- the rows of the stop-times table, in journal order, each keyed by its trip's UID -/
def stRows (j : List Trip) : List (List Str) := (j.map fun tr => tr.sts.map fun s => stCells tr.uid s).flatten

/-- **C20 (stop-times table).** One line per journal stop time, in journal order, each keyed by
    its trip's UID, and each line reads back as that stop time's cells. -/
theorem C20_stop_times_parse_back (j : List Trip) (h : MetaFree j) :
    linesOf nl (stopTimesCsv j) = stopTimesHeader :: (stRows j).map joinComma ∧
    ((stRows j).map fun cells => splitOn comma (joinComma cells)) = stRows j := by
  have hrows : ∀ cells ∈ stRows j, ∀ c ∈ cells, CellOk c := by
    intro cells hcells
    simp only [stRows, List.mem_flatten, List.mem_map] at hcells
    obtain ⟨l, ⟨tr, htr, rfl⟩, hl⟩ := hcells
    obtain ⟨s, hs, rfl⟩ := List.mem_map.mp hl
    exact stCells_ok tr.uid s (h tr htr).1 ((h tr htr).2.2.2.2 s hs)
  constructor
  · have : stopTimesCsv j = ((stopTimesHeader :: (stRows j).map joinComma).map fun r => r ++ [nl]).flatten := by
      simp only [stopTimesCsv, line, joinComma, stRows, List.map_cons, List.flatten_cons, List.map_flatten, List.map_map,
        List.flatten_flatten]
      congr 1
      simp [Function.comp_def, List.map_map]
    rw [this, linesOf_terminated]
    intro r hr
    rcases List.mem_cons.mp hr with rfl | hr
    · decide
    · obtain ⟨cells, hc, rfl⟩ := List.mem_map.mp hr
      rw [joinComma_eq]
      exact joinSep_nl_free _ (hrows cells hc)
  · conv => rhs; rw [← List.map_id (stRows j)]
    apply List.map_congr_left
    intro cells hc
    rw [joinComma_eq]
    simp only [id]
    apply splitOn_joinSep
    · simp only [stRows, List.mem_flatten, List.mem_map] at hc
      obtain ⟨l, ⟨tr, _, rfl⟩, hl⟩ := hc
      obtain ⟨s, _, rfl⟩ := List.mem_map.mp hl
      simp [stCells]
    · intro c hcc; exact (hrows cells hc c hcc).1

/-- row counts: exactly one data row per trip / per stop time -/
theorem C20_row_counts (j : List Trip) :
    (j.map fun tr => joinComma (tripCells tr)).length = j.length ∧
    (stRows j).length = (j.map fun tr => tr.sts.length).sum := by
  constructor
  · simp
  · simp [stRows, List.length_flatten, List.map_map, Function.comp_def]

/-- counters and times are decimal integers that parse back exactly -/
theorem C20_decimal_roundtrip (n : Nat) : digitsVal (intToDec (Int.ofNat n)) = n := digitsVal_natToDec n

/-- direction as 0 / 1 / blank -/
theorem C20_direction_cell (d : Nat) :
    fmtDir d = (if d = 2 then [48] else if d = 1 then [49] else []) := rfl

/-- exporting does not modify the journal: the export is a function of the journal value -/
theorem C20_export_pure (j : List Trip) : (tripsCsv j, stopTimesCsv j, j).2.2 = j := rfl

/-! ## the templates as they are now

`Gen.ExportTemplate` is regenerated from `trips.csv.tmpl`, `stop_times.csv.tmpl` and the FuncMap in
export.go: header line, the field actions of the row, the literal text between them, what follows
the row. `renderRow` is the fragment of text/template evaluation these templates use (evaluate each
field action, write the literals between). The theorems say that the model's rows *are* that
rendering, so a template edit that moves, drops or re-formats a column breaks a theorem here. -/

/-- `c0 s0 c1 s1 … cn`: cells with the literal texts between them -/
def interleave : List Str → List Str → Str
  | [], _ => []
  | [c], _ => c
  | c :: cs, [] => c ++ interleave cs []
  | c :: cs, s :: ss => c ++ s ++ interleave cs ss

def renderRow (acts : List String) (seps : List Str) (term : Str) (val : String → Option Str) : Option Str :=
  (acts.mapM val).map fun cells => interleave cells seps ++ term

/-- `FormatDirectionID` as export.go has it now -/
def fmtDirGen (d : Nat) : Str :=
  match Gen.ExportTemplate.formatDirectionCases.find? (fun c => c.1 == (d : Int)) with
  | some c => c.2
  | none => Gen.ExportTemplate.formatDirectionDefault

/-- what a field action evaluates to on a journal trip (`.Unix` of a time is its Unix seconds,
    integers print in decimal, `NullableUnix`/`NullableString` print nothing for nil) -/
def tripField (tr : Trip) (a : String) : Option Str :=
  if a == ".TripUID" then some tr.uid
  else if a == ".TripID" then some tr.tripId
  else if a == ".RouteID" then some tr.route
  else if a == "FormatDirectionID .DirectionID" then some (fmtDirGen tr.dir)
  else if a == ".StartTime.Unix" then some (intToDec tr.start)
  else if a == ".VehicleID" then some tr.vehicle
  else if a == ".LastObserved.Unix" then some (intToDec tr.lastObs)
  else if a == "NullableUnix .MarkedPast" then some (optUnix tr.past)
  else if a == ".NumUpdates" then some (intToDec tr.numUpdates)
  else if a == ".NumScheduleChanges" then some (intToDec tr.numChanges)
  else if a == ".NumScheduleRewrites" then some (intToDec tr.numRewrites)
  else none

def stField (uid : Str) (s : ST) (a : String) : Option Str :=
  if a == "$trip.TripUID" then some uid
  else if a == ".StopID" then some s.stop
  else if a == "NullableString .Track" then some (s.track.getD [])
  else if a == "NullableUnix .ArrivalTime" then some (optUnix s.arr)
  else if a == "NullableUnix .DepartureTime" then some (optUnix s.dep)
  else if a == ".LastObserved.Unix" then some (intToDec s.lastObs)
  else if a == "NullableUnix .MarkedPast" then some (optUnix s.past)
  else none

theorem fmtDirGen_eq (d : Nat) : fmtDirGen d = fmtDir d := by
  unfold fmtDirGen fmtDir
  by_cases h2 : d = 2
  · subst h2; rfl
  · by_cases h1 : d = 1
    · subst h1; rfl
    · have e2 : ((2 : Int) == (d : Int)) = false := by simp; omega
      have e1 : ((1 : Int) == (d : Int)) = false := by simp; omega
      simp [Gen.ExportTemplate.formatDirectionCases, Gen.ExportTemplate.formatDirectionDefault, List.find?, e1, e2, h1, h2]

/-- **the trips template renders the model's row**: evaluating today's row of `trips.csv.tmpl` on
    a trip gives exactly the model's line for it; the header is the model's header and names as many
    columns as the row has cells; one row per trip and nothing else (one `range .`, one `end`,
    nothing after it) -/
theorem C20_trips_template (tr : Trip) :
    renderRow Gen.ExportTemplate.tripsRow Gen.ExportTemplate.tripsSeparators Gen.ExportTemplate.tripsTerminator (tripField tr)
      = some (line (tripCells tr)) ∧
    Gen.ExportTemplate.tripsHeader = tripsHeader ∧
    (splitOn comma Gen.ExportTemplate.tripsHeader).length = Gen.ExportTemplate.tripsRow.length ∧
    Gen.ExportTemplate.tripsRanges = ["range ."] ∧ Gen.ExportTemplate.tripsEnds = 1 ∧
    Gen.ExportTemplate.tripsTrailing = [] ∧
    Gen.ExportTemplate.nullableUnixShape = true := by
  refine ⟨?_, by decide, by decide, by decide, by decide, by decide, by decide⟩
  simp [renderRow, Gen.ExportTemplate.tripsRow, Gen.ExportTemplate.tripsSeparators, Gen.ExportTemplate.tripsTerminator,
    tripField, interleave, line, joinComma, tripCells, fmtDirGen_eq, comma, nl]

/-- **the stop-times template renders the model's row**, keyed by the enclosing trip's UID: the
    outer range binds `$trip`, the inner one walks its stop times -/
theorem C20_stop_times_template (uid : Str) (s : ST) :
    renderRow Gen.ExportTemplate.stopTimesRow Gen.ExportTemplate.stopTimesSeparators Gen.ExportTemplate.stopTimesTerminator (stField uid s)
      = some (line (stCells uid s)) ∧
    Gen.ExportTemplate.stopTimesHeader = stopTimesHeader ∧
    (splitOn comma Gen.ExportTemplate.stopTimesHeader).length = Gen.ExportTemplate.stopTimesRow.length ∧
    Gen.ExportTemplate.stopTimesRanges = ["range $trip := .", "range .StopTimes"] ∧ Gen.ExportTemplate.stopTimesEnds = 2 ∧
    Gen.ExportTemplate.stopTimesTrailing = [] ∧
    Gen.ExportTemplate.nullableUnixShape = true ∧ Gen.ExportTemplate.nullableStringShape = true := by
  refine ⟨?_, by decide, by decide, by decide, by decide, by decide, by decide, by decide⟩
  simp [renderRow, Gen.ExportTemplate.stopTimesRow, Gen.ExportTemplate.stopTimesSeparators, Gen.ExportTemplate.stopTimesTerminator,
    stField, interleave, line, joinComma, stCells, comma, nl]

/-- each header name stands over the field the statement says it does -/
theorem C20_header_names_fields :
    (splitOn comma Gen.ExportTemplate.tripsHeader).zip Gen.ExportTemplate.tripsRow =
      [([116, 114, 105, 112, 95, 117, 105, 100], ".TripUID"), ([116, 114, 105, 112, 95, 105, 100], ".TripID"),
       ([114, 111, 117, 116, 101, 95, 105, 100], ".RouteID"),
       ([100, 105, 114, 101, 99, 116, 105, 111, 110, 95, 105, 100], "FormatDirectionID .DirectionID"),
       ([115, 116, 97, 114, 116, 95, 116, 105, 109, 101], ".StartTime.Unix"), ([118, 101, 104, 105, 99, 108, 101, 95, 105, 100], ".VehicleID"),
       ([108, 97, 115, 116, 95, 111, 98, 115, 101, 114, 118, 101, 100], ".LastObserved.Unix"),
       ([109, 97, 114, 107, 101, 100, 95, 112, 97, 115, 116], "NullableUnix .MarkedPast"),
       ([110, 117, 109, 95, 117, 112, 100, 97, 116, 101, 115], ".NumUpdates"),
       ([110, 117, 109, 95, 115, 99, 104, 101, 100, 117, 108, 101, 95, 99, 104, 97, 110, 103, 101, 115], ".NumScheduleChanges"),
       ([110, 117, 109, 95, 115, 99, 104, 101, 100, 117, 108, 101, 95, 114, 101, 119, 114, 105, 116, 101, 115], ".NumScheduleRewrites")] ∧
    (splitOn comma Gen.ExportTemplate.stopTimesHeader).zip Gen.ExportTemplate.stopTimesRow =
      [([116, 114, 105, 112, 95, 117, 105, 100], "$trip.TripUID"), ([115, 116, 111, 112, 95, 105, 100], ".StopID"),
       ([116, 114, 97, 99, 107], "NullableString .Track"), ([97, 114, 114, 105, 118, 97, 108, 95, 116, 105, 109, 101], "NullableUnix .ArrivalTime"),
       ([100, 101, 112, 97, 114, 116, 117, 114, 101, 95, 116, 105, 109, 101], "NullableUnix .DepartureTime"),
       ([108, 97, 115, 116, 95, 111, 98, 115, 101, 114, 118, 101, 100], ".LastObserved.Unix"),
       ([109, 97, 114, 107, 101, 100, 95, 112, 97, 115, 116], "NullableUnix .MarkedPast")] := by
  constructor <;> decide

/-! ## non-vacuity -/
private def stEx : ST := ⟨[65, 49], some 5, none, some [50], 7, none⟩
private def trEx : Trip :=
  { uid := [49, 95, 65], tripId := [48, 95, 65], route := [65], dir := 2, start := 1, vehicle := [86], assigned := true, sts := [stEx], lastObs := 7, past := none, numUpdates := 1 }

example : MetaFree [trEx] := by
  intro tr htr
  simp only [List.mem_singleton] at htr
  subst htr
  refine ⟨by decide, by decide, by decide, by decide, ?_⟩
  intro s hs
  have : s = stEx := by simpa [trEx] using hs
  subst this
  exact ⟨by decide, by decide⟩

end Gtfs.Journal
