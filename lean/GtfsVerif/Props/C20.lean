import GtfsVerif.Lemmas.Journal
import GtfsVerif.Lemmas.Decimal
import GtfsVerif.Lemmas.Split
/-! # C20 — CSV export is a complete, parseable rendering of the journal

Model: `tripsCsv`, `stopTimesCsv` (Model/Journal.lean) are hand-written renderings equal byte for
byte to what the two templates produce (checked on every run against the real `ExportToCsv`; the
template text itself is deliberately not pinned). Read-back is modelled by splitting at LF and then
at commas, which is what a standard CSV reader does on quote-free, CR-free input. -/
namespace Gtfs.Journal

theorem joinComma_eq (cells : List Str) : joinComma cells = joinSep comma cells := by
  induction cells with
  | nil => rfl
  | cons a r ih =>
    cases r with
    | nil => rfl
    | cons b r' => simp only [joinComma, joinSep, ih]

/-- a cell that can be written without quoting -/
def CellOk (s : Str) : Prop := comma ∉ s ∧ nl ∉ s
instance (s : Str) : Decidable (CellOk s) := inferInstanceAs (Decidable (_ ∧ _))

/-- the journals of the quantifier: id and track strings free of CSV metacharacters -/
def MetaFree (j : List Trip) : Prop :=
  ∀ tr ∈ j, CellOk tr.uid ∧ CellOk tr.tripId ∧ CellOk tr.route ∧ CellOk tr.vehicle ∧
    ∀ s ∈ tr.sts, CellOk s.stop ∧ CellOk (s.track.getD [])

theorem natToDec_ok (n : Nat) : CellOk (natToDec n) := by
  constructor <;> intro h <;> have := natToDec_digits n _ h <;> simp [isDigit, comma, nl] at this

theorem intToDec_ok (a : Int) : CellOk (intToDec a) := by
  cases a with
  | ofNat n => exact natToDec_ok n
  | negSucc n =>
    have := natToDec_ok (n + 1)
    constructor <;> simp only [intToDec, List.mem_cons, not_or]
    · exact ⟨by decide, this.1⟩
    · exact ⟨by decide, this.2⟩

theorem optUnix_ok (o : Option Int) : CellOk (optUnix o) := by
  cases o with
  | none => simp [optUnix, CellOk]
  | some t => exact intToDec_ok t

theorem fmtDir_ok (d : Nat) : CellOk (fmtDir d) := by
  unfold fmtDir CellOk
  split
  · decide
  · split <;> decide

theorem nil_ok : CellOk [] := by simp [CellOk]

theorem tripCells_ok (tr : Trip) (h : CellOk tr.uid ∧ CellOk tr.tripId ∧ CellOk tr.route ∧ CellOk tr.vehicle) :
    ∀ c ∈ tripCells tr, CellOk c := by
  intro c hc
  simp only [tripCells, List.mem_cons, List.mem_nil_iff, or_false] at hc
  rcases hc with rfl | rfl | rfl | rfl | rfl | rfl | rfl | rfl | rfl | rfl | rfl
  · exact h.1
  · exact h.2.1
  · exact h.2.2.1
  · exact fmtDir_ok _
  · exact intToDec_ok _
  · exact h.2.2.2
  · exact intToDec_ok _
  · exact optUnix_ok _
  · exact intToDec_ok _
  · exact intToDec_ok _
  · exact intToDec_ok _

theorem stCells_ok (uid : Str) (s : ST) (hu : CellOk uid) (hs : CellOk s.stop ∧ CellOk (s.track.getD [])) :
    ∀ c ∈ stCells uid s, CellOk c := by
  intro c hc
  simp only [stCells, List.mem_cons, List.mem_nil_iff, or_false] at hc
  rcases hc with rfl | rfl | rfl | rfl | rfl | rfl | rfl
  · exact hu
  · exact hs.1
  · exact hs.2
  · exact optUnix_ok _
  · exact optUnix_ok _
  · exact intToDec_ok _
  · exact optUnix_ok _

theorem joinSep_nl_free (cells : List Str) (h : ∀ c ∈ cells, CellOk c) : nl ∉ joinSep comma cells := by
  induction cells with
  | nil => simp [joinSep]
  | cons a r ih =>
    cases r with
    | nil => simpa [joinSep] using (h a (by simp)).2
    | cons b r' =>
      simp only [joinSep, List.mem_append, List.mem_cons, not_or]
      refine ⟨(h a (by simp)).2, by decide, ih (fun c hc => h c (by simp [hc]))⟩

/-- **C20 (trips table).** The text consists of the header line followed by exactly one line per
    journal trip, in journal order; reading it back (split at LF, then at commas) yields exactly
    the cells of each trip: ids verbatim, direction 0/1/blank, times as Unix seconds, absent
    marked-past as an empty cell, counters in decimal. -/
theorem C20_trips_parse_back (j : List Trip) (h : MetaFree j) :
    linesOf nl (tripsCsv j) = tripsHeader :: j.map (fun tr => joinComma (tripCells tr)) ∧
    (j.map fun tr => splitOn comma (joinComma (tripCells tr))) = j.map tripCells := by
  constructor
  · have : tripsCsv j = ((tripsHeader :: j.map (fun tr => joinComma (tripCells tr))).map fun r => r ++ [nl]).flatten := by
      simp [tripsCsv, line, joinComma, List.map_map, Function.comp_def]
    rw [this, linesOf_terminated]
    intro r hr
    rcases List.mem_cons.mp hr with rfl | hr
    · decide
    · obtain ⟨tr, htr, rfl⟩ := List.mem_map.mp hr
      rw [joinComma_eq]
      exact joinSep_nl_free _ (tripCells_ok tr ⟨(h tr htr).1, (h tr htr).2.1, (h tr htr).2.2.1, (h tr htr).2.2.2.1⟩)
  · apply List.map_congr_left
    intro tr htr
    rw [joinComma_eq]
    apply splitOn_joinSep
    · simp [tripCells]
    · intro c hc
      exact (tripCells_ok tr ⟨(h tr htr).1, (h tr htr).2.1, (h tr htr).2.2.1, (h tr htr).2.2.2.1⟩ c hc).1

/-- the rows of the stop-times table, in journal order, each keyed by its trip's UID -/
def stRows (j : List Trip) : List (List Str) := (j.map fun tr => tr.sts.map fun s => stCells tr.uid s).flatten

/-- **C20 (stop-times table).** One line per journal stop time, in journal order, each keyed by
    its trip's UID, and each line reads back as that stop time's cells. -/
theorem C20_stop_times_parse_back (j : List Trip) (h : MetaFree j) :
    linesOf nl (stopTimesCsv j) = stopTimesHeader :: (stRows j).map joinComma ∧
    ((stRows j).map fun cells => splitOn comma (joinComma cells)) = stRows j := by
  have hrows : ∀ cells ∈ stRows j, ∀ c ∈ cells, CellOk c := by
    intro cells hcells
    simp only [stRows, List.mem_flatten, List.mem_map] at hcells
    obtain ⟨l, ⟨tr, htr, rfl⟩, hl⟩ := hcells
    obtain ⟨s, hs, rfl⟩ := List.mem_map.mp hl
    exact stCells_ok tr.uid s (h tr htr).1 ((h tr htr).2.2.2.2 s hs)
  constructor
  · have : stopTimesCsv j = ((stopTimesHeader :: (stRows j).map joinComma).map fun r => r ++ [nl]).flatten := by
      simp only [stopTimesCsv, line, joinComma, stRows, List.map_cons, List.flatten_cons, List.map_flatten, List.map_map,
        List.flatten_flatten]
      congr 1
      simp [Function.comp_def, List.map_map]
    rw [this, linesOf_terminated]
    intro r hr
    rcases List.mem_cons.mp hr with rfl | hr
    · decide
    · obtain ⟨cells, hc, rfl⟩ := List.mem_map.mp hr
      rw [joinComma_eq]
      exact joinSep_nl_free _ (hrows cells hc)
  · conv => rhs; rw [← List.map_id (stRows j)]
    apply List.map_congr_left
    intro cells hc
    rw [joinComma_eq]
    simp only [id]
    apply splitOn_joinSep
    · simp only [stRows, List.mem_flatten, List.mem_map] at hc
      obtain ⟨l, ⟨tr, _, rfl⟩, hl⟩ := hc
      obtain ⟨s, _, rfl⟩ := List.mem_map.mp hl
      simp [stCells]
    · intro c hcc; exact (hrows cells hc c hcc).1

/-- row counts: exactly one data row per trip / per stop time -/
theorem C20_row_counts (j : List Trip) :
    (j.map fun tr => joinComma (tripCells tr)).length = j.length ∧
    (stRows j).length = (j.map fun tr => tr.sts.length).sum := by
  constructor
  · simp
  · simp [stRows, List.length_flatten, List.map_map, Function.comp_def]

/-- counters and times are decimal integers that parse back exactly -/
theorem C20_decimal_roundtrip (n : Nat) : digitsVal (intToDec (Int.ofNat n)) = n := digitsVal_natToDec n

/-- direction as 0 / 1 / blank -/
theorem C20_direction_cell (d : Nat) :
    fmtDir d = (if d = 2 then [48] else if d = 1 then [49] else []) := rfl

/-- exporting does not modify the journal: the export is a function of the journal value -/
theorem C20_export_pure (j : List Trip) : (tripsCsv j, stopTimesCsv j, j).2.2 = j := rfl

/-! ## non-vacuity -/
private def stEx : ST := ⟨[65, 49], some 5, none, some [50], 7, none⟩
private def trEx : Trip :=
  { uid := [49, 95, 65], tripId := [48, 95, 65], route := [65], dir := 2, start := 1, vehicle := [86], assigned := true, sts := [stEx], lastObs := 7, past := none, numUpdates := 1 }

example : MetaFree [trEx] := by
  intro tr htr
  simp only [List.mem_singleton] at htr
  subst htr
  refine ⟨by decide, by decide, by decide, by decide, ?_⟩
  intro s hs
  have : s = stEx := by simpa [trEx] using hs
  subst this
  exact ⟨by decide, by decide⟩

end Gtfs.Journal
