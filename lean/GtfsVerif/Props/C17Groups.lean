import GtfsVerif.Model.Realtime
import GtfsVerif.Gen.Regex
import GtfsVerif.Lemmas.RealtimeAlerts
/-! # C17, second part — the elevator groups over a whole feed

The pre-pass of the NYCT alerts extension as a fold, its invariants, and the composition with the
merge loop. Kept apart from `Props/C17.lean` (tables pinned to the documentation, one alert at a time)
so that `Props/C07.lean`, which needs the invariants of the fold, does not depend on the pinned tables. -/

namespace Gtfs.Rt

/-! ## exactly one output alert per group: the fold over a whole feed -/

/-- the documented id of the group an alert entity belongs to (none: not an elevator alert) -/
def groupKeyOf (o : NyctAlertsOpts) (e : Entity) : Option Str :=
  match e.tripUpdate, e.vehicle, e.alert with
  | none, none, some _ => (matchElevator e.id).map fun m => elevatorNewId o m.1 m.2.1 m.2.2
  | _, _, _ => none

/-- distinct keys in order of first appearance -/
def firstOccurrences (l : List Str) : List Str := l.foldl (fun acc k => if acc.contains k then acc else acc ++ [k]) []

def passStep (o : NyctAlertsOpts) (st : AlertPass) (e : Entity) : AlertPass :=
  match e.tripUpdate, e.vehicle, e.alert with
  | none, none, some a => alertPassStep o st e a
  | _, _, _ => { st with done := st.done ++ [(e, false)] }

theorem modifyAt_length {α} (l : List α) (i : Nat) (f : α → α) : (modifyAt l i f).length = l.length := by
  simp [modifyAt]

/-- one step: one entry is appended to `done`; the group table gains the entity's key iff it is an
    elevator alert whose key is new, recorded with the position of that entry -/
theorem passStep_spec (o : NyctAlertsOpts) (st : AlertPass) (e : Entity) :
    (passStep o st e).done.length = st.done.length + 1 ∧
    (passStep o st e).groups =
      (match groupKeyOf o e with
       | some k => if (akeys st.groups).contains k then st.groups else st.groups ++ [(k, st.done.length)]
       | none => st.groups) := by
  unfold passStep groupKeyOf
  cases htu : e.tripUpdate <;> cases hv : e.vehicle <;> cases ha : e.alert <;> simp only [List.length_append, List.length_singleton, true_and]
  rename_i a
  unfold alertPassStep
  cases hm : matchElevator e.id with
  | none => simp
  | some m =>
    obtain ⟨station, suffix, elevator⟩ := m
    simp only [Option.map_some]
    cases hl : alookup (elevatorNewId o station suffix elevator) st.groups with
    | some i =>
      have hc : (akeys st.groups).contains (elevatorNewId o station suffix elevator) = true := by
        simp only [List.contains_iff_mem, akeys, List.mem_map]
        have : ∀ (m : List (Str × Nat)) k v, alookup k m = some v → ∃ p ∈ m, p.1 = k := by
          intro m k v
          induction m with
          | nil => simp [alookup]
          | cons q r ih =>
            intro h
            by_cases hq : q.1 == k
            · exact ⟨q, by simp, by simpa using hq⟩
            · simp only [alookup, hq, Bool.false_eq_true, if_false] at h
              obtain ⟨p, hp, hpk⟩ := ih h
              exact ⟨p, by simp [hp], hpk⟩
        exact this _ _ _ hl
      have hc' : elevatorNewId o station suffix elevator ∈ akeys st.groups := by simpa using hc
      simp [hc', modifyAt_length]
    | none =>
      have hc : (akeys st.groups).contains (elevatorNewId o station suffix elevator) = false := by
        cases hcc : (akeys st.groups).contains (elevatorNewId o station suffix elevator) with
        | false => rfl
        | true =>
          exfalso
          simp only [List.contains_iff_mem, akeys, List.mem_map] at hcc
          obtain ⟨p, hp, hpk⟩ := hcc
          have : ∀ (m : List (Str × Nat)) k, (∃ p ∈ m, p.1 = k) → (alookup k m).isSome = true := by
            intro m k
            induction m with
            | nil => simp
            | cons q r ih =>
              rintro ⟨p, hp, hpk⟩
              by_cases hq : q.1 == k
              · simp [alookup, hq]
              · simp only [alookup, hq, Bool.false_eq_true, if_false]
                rcases List.mem_cons.mp hp with rfl | hp
                · simp [hpk] at hq
                · exact ih ⟨p, hp, hpk⟩
          have := this _ _ ⟨p, hp, hpk⟩
          rw [hl] at this; simp at this
      simp only [hc, Bool.false_eq_true, if_false]
      split <;> simp

/-- **one output group per distinct key, in order of first appearance**: after the pre-pass over any
    feed the group table's keys are exactly the distinct documented ids of the feed's elevator
    alerts – independent of how many members each group has -/
theorem C17_group_keys (o : NyctAlertsOpts) (es : List Entity) :
    akeys (es.foldl (passStep o) {}).groups = firstOccurrences (es.filterMap (groupKeyOf o)) := by
  suffices H : ∀ (es : List Entity) (st : AlertPass) (seen : List Str), akeys st.groups = seen →
      akeys (es.foldl (passStep o) st).groups
        = (es.filterMap (groupKeyOf o)).foldl (fun acc k => if acc.contains k then acc else acc ++ [k]) seen from
    H es {} [] rfl
  intro es
  induction es with
  | nil => intro st seen h; simpa using h
  | cons e r ih =>
    intro st seen h
    simp only [List.foldl_cons]
    cases hk : groupKeyOf o e with
    | none =>
      simp only [List.filterMap_cons, hk]
      apply ih
      rw [(passStep_spec o st e).2, hk]; exact h
    | some k =>
      simp only [List.filterMap_cons, hk, List.foldl_cons]
      apply ih
      rw [(passStep_spec o st e).2, hk, ← h]
      simp only
      split <;> simp [akeys]

/-- the pre-pass of `ParseRealtime` is this fold -/
theorem C17_prepass_is_fold (o : NyctAlertsOpts) (m : Msg) :
    prepass (.alerts o) m = (m.entities.foldl (passStep o) {}).done := rfl

/-- every entity yields exactly one pre-processed entry (skipped or not), in feed order -/
theorem C17_one_entry_per_entity (o : NyctAlertsOpts) (es : List Entity) :
    (es.foldl (passStep o) {}).done.length = es.length := by
  suffices H : ∀ (es : List Entity) (st : AlertPass), (es.foldl (passStep o) st).done.length = st.done.length + es.length from by
    simpa using H es {}
  intro es
  induction es with
  | nil => intro st; simp
  | cons e r ih =>
    intro st
    simp only [List.foldl_cons, List.length_cons]
    rw [ih, (passStep_spec o st e).1]; omega

end Gtfs.Rt

namespace Gtfs.Rt

/-! ## the informed stops of a group over the whole feed -/

/-- the stop an elevator alert informs: its platform, or its station when so configured -/
def informedIdOf (o : NyctAlertsOpts) (e : Entity) : Option Str :=
  (matchElevator e.id).map fun m => if o.useStationIds then m.1 else m.1 ++ m.2.1

/-- the stops of the members of group `k`, in feed order (with repetitions) -/
def memberStops (o : NyctAlertsOpts) (k : Str) (es : List Entity) : List Str :=
  es.filterMap fun e => if groupKeyOf o e = some k then informedIdOf o e else none

def stopSel (s : Str) : EntitySel := { stopId := some s }

theorem firstOccurrences_snoc (l : List Str) (x : Str) :
    firstOccurrences (l ++ [x]) = if (firstOccurrences l).contains x then firstOccurrences l else firstOccurrences l ++ [x] := by
  simp [firstOccurrences, List.foldl_append]

theorem mem_foldl_first (l acc : List Str) : ∀ x,
    x ∈ l.foldl (fun acc k => if acc.contains k then acc else acc ++ [k]) acc ↔ x ∈ acc ∨ x ∈ l := by
  induction l generalizing acc with
  | nil => simp
  | cons y r ih =>
    intro x
    simp only [List.foldl_cons, ih, List.mem_cons]
    split
    · next h =>
      have hy : y ∈ acc := by simpa using h
      constructor
      · rintro (h1 | h1)
        · exact Or.inl h1
        · exact Or.inr (Or.inr h1)
      · rintro (h1 | rfl | h1)
        · exact Or.inl h1
        · exact Or.inl hy
        · exact Or.inr h1
    · simp only [List.mem_append, List.mem_singleton]
      constructor
      · rintro ((h1 | h1) | h1)
        · exact Or.inl h1
        · exact Or.inr (Or.inl h1)
        · exact Or.inr (Or.inr h1)
      · rintro (h1 | h1 | h1)
        · exact Or.inl (Or.inl h1)
        · exact Or.inl (Or.inr h1)
        · exact Or.inr h1

theorem mem_firstOccurrences (l : List Str) (x : Str) : x ∈ firstOccurrences l ↔ x ∈ l := by
  unfold firstOccurrences; rw [mem_foldl_first]; simp

theorem nodup_foldl_first (l acc : List Str) (h : acc.Nodup) :
    (l.foldl (fun acc k => if acc.contains k then acc else acc ++ [k]) acc).Nodup := by
  induction l generalizing acc with
  | nil => simpa using h
  | cons y r ih =>
    simp only [List.foldl_cons]
    apply ih
    split
    · exact h
    · next hc =>
      rw [List.nodup_append]
      refine ⟨h, by simp, ?_⟩
      intro a ha b hb
      simp only [List.mem_singleton] at hb
      subst hb
      intro e; subst e
      exact hc (by simpa using ha)

theorem nodup_firstOccurrences (l : List Str) : (firstOccurrences l).Nodup :=
  nodup_foldl_first l [] (by simp)

/-- adding a member's stop to the first member of its group -/
theorem addInformedStop_stops (a : AlertMsg) (l : List Str) (x : Str) (h : a.informed = (firstOccurrences l).map stopSel) :
    (addInformedStop a x).informed = (firstOccurrences (l ++ [x])).map stopSel := by
  unfold addInformedStop
  rw [firstOccurrences_snoc]
  have hany : a.informed.any (fun e => e.stopId == some x) = (firstOccurrences l).contains x := by
    rw [h]
    induction firstOccurrences l with
    | nil => rfl
    | cons y r ih =>
      simp only [List.map_cons, List.any_cons, List.contains_cons, ih, stopSel]
      congr 1
      by_cases e : y = x
      · subst e; simp
      · have e' : ¬ x = y := fun q => e q.symm
        rw [Bool.eq_iff_iff]; simp [e, e']
  rw [hany]
  split
  · exact h
  · simp [h, stopSel]

/-- a lone stop selector has no Mercury priority: the first member of a group is never skipped -/
theorem effectLoop_stopSel (skipT : Bool) (s : Str) (eff : Option Int) :
    effectLoop skipT [stopSel s] eff = (eff, false) := by
  simp [effectLoop, priorityOf, stopSel]

theorem alookup_append {κ α} [BEq κ] [LawfulBEq κ] (k : κ) (m m' : List (κ × α)) :
    alookup k (m ++ m') = (alookup k m).or (alookup k m') := by
  induction m with
  | nil => simp [alookup]
  | cons q r ih =>
    simp only [List.cons_append, alookup]
    split
    · simp
    · exact ih

theorem addInformedStop_cause (a : AlertMsg) (x : Str) : (addInformedStop a x).cause = a.cause := by
  unfold addInformedStop; split <;> rfl

theorem addInformedStop_effect (a : AlertMsg) (x : Str) : (addInformedStop a x).effect = a.effect := by
  unfold addInformedStop; split <;> rfl

/-- the shape of a match of the elevator id pattern: a three-byte station and an optional N/S suffix -/
theorem matchElevatorAt_shape (s : Str) (st suf el : Str) (h : matchElevatorAt s = some (st, suf, el)) :
    st.length = 3 ∧ (suf = [] ∨ suf = [83] ∨ suf = [78]) := by
  unfold matchElevatorAt at h
  split at h
  · next a b c r =>
    split at h
    · split at h
      · next d r' =>
        split at h
        · next hd =>
          simp only [Option.some.injEq, Prod.mk.injEq] at h
          obtain ⟨rfl, rfl, _⟩ := h
          refine ⟨rfl, ?_⟩
          have : d = 83 ∨ d = 78 := by simpa using hd
          rcases this with rfl | rfl
          · exact Or.inr (Or.inl rfl)
          · exact Or.inr (Or.inr rfl)
        · cases h
      · simp only [Option.some.injEq, Prod.mk.injEq] at h
        obtain ⟨rfl, rfl, _⟩ := h
        exact ⟨rfl, Or.inl rfl⟩
      · cases h
    · cases h
  · cases h

theorem matchElevator_shape (s : Str) (st suf el : Str) (h : matchElevator s = some (st, suf, el)) :
    st.length = 3 ∧ (suf = [] ∨ suf = [83] ∨ suf = [78]) := by
  induction s with
  | nil => simp [matchElevator] at h
  | cons c r ih =>
    unfold matchElevator at h
    split at h
    · next m hm =>
      cases h
      exact matchElevatorAt_shape _ _ _ _ hm
    · exact ih h

/-- the documented id of a group never starts with one of the cause prefixes (`lmm:…`): its fourth
    byte is `#`, `N` or `S`, or it starts with `elevator:` – so the group's alert keeps the elevator cause -/
theorem causeFor_newId (o : NyctAlertsOpts) (id station suffix elevator : Str)
    (hm : matchElevator id = some (station, suffix, elevator)) :
    causeFor (elevatorNewId o station suffix elevator) Gen.NyctTables.elevatorCause = Gen.NyctTables.elevatorCause := by
  obtain ⟨hlen, hsuf⟩ := matchElevator_shape id station suffix elevator hm
  match station, hlen with
  | [a, b, c], _ =>
    unfold causeFor elevatorNewId
    cases o.policy <;> rcases hsuf with rfl | rfl | rfl <;>
      simp [Gen.NyctTables.causeByPrefix, hasPrefix, List.find?_cons, Gen.NyctTables.elevatorCause]

/-- invariant of the pre-pass after the entities `pre`: every group's recorded position holds the
    group's first member, not skipped, under the group's id, informing exactly the distinct stops of
    the members seen so far (in order of first appearance); a key without a group has no member yet -/
def GInv (o : NyctAlertsOpts) (pre : List Entity) (st : AlertPass) : Prop :=
  (∀ k i, alookup k st.groups = some i →
    ∃ ent fa, st.done[i]? = some (ent, false) ∧ ent.id = k ∧ ent.alert = some fa ∧
      (fa.informed = (firstOccurrences (memberStops o k pre)).map stopSel ∧
       fa.cause = some Gen.NyctTables.elevatorCause ∧ fa.effect = some Gen.NyctTables.elevatorEffect)) ∧
  (∀ k, alookup k st.groups = none → memberStops o k pre = [])

theorem memberStops_snoc (o : NyctAlertsOpts) (k : Str) (pre : List Entity) (e : Entity) :
    memberStops o k (pre ++ [e]) = memberStops o k pre ++
      (match (if groupKeyOf o e = some k then informedIdOf o e else none) with | some s => [s] | none => []) := by
  simp only [memberStops, List.filterMap_append, List.filterMap_cons, List.filterMap_nil]
  split <;> simp_all

theorem getElem?_lt_of_some {α} (l : List α) (i : Nat) (x : α) (h : l[i]? = some x) : i < l.length := by
  by_cases hi : i < l.length
  · exact hi
  · simp [List.getElem?_eq_none (Nat.le_of_not_lt hi)] at h

theorem modifyAt_getElem? {α} (l : List α) (i j : Nat) (f : α → α) :
    (modifyAt l i f)[j]? = (l[j]?).map fun x => if j = i then f x else x := by
  simp [modifyAt, List.getElem?_mapIdx]

theorem passStep_GInv (o : NyctAlertsOpts) (pre : List Entity) (st : AlertPass) (e : Entity) (h : GInv o pre st) :
    GInv o (pre ++ [e]) (passStep o st e) := by
  obtain ⟨h1, h2⟩ := h
  cases hk : groupKeyOf o e with
  | none =>
    -- not an elevator alert: one entry is appended, groups and member stops are unchanged
    have hms : ∀ k, memberStops o k (pre ++ [e]) = memberStops o k pre := by
      intro k; rw [memberStops_snoc]; simp [hk]
    have hst : (passStep o st e).groups = st.groups ∧ ∃ x, (passStep o st e).done = st.done ++ [x] := by
      unfold passStep
      split
      · next a htu hv ha =>
        have hm : matchElevator e.id = none := by simpa [groupKeyOf, htu, hv, ha] using hk
        simp only [alertPassStep, hm]
        exact ⟨trivial, _, rfl⟩
      · refine ⟨?_, _, rfl⟩
        first | rfl | trivial
    obtain ⟨hg, x, hd⟩ := hst
    constructor
    · intro k i hl
      rw [hg] at hl
      obtain ⟨ent, fa, hd', hid, hal, hinf⟩ := h1 k i hl
      refine ⟨ent, fa, ?_, hid, hal, by rw [hms]; exact hinf⟩
      rw [hd, List.getElem?_append_left (getElem?_lt_of_some _ _ _ hd')]; exact hd'
    · intro k hl
      rw [hg] at hl
      rw [hms]; exact h2 k hl
  | some key =>
    -- an elevator alert of group `key`
    have hshape : ∃ a, e.tripUpdate = none ∧ e.vehicle = none ∧ e.alert = some a := by
      unfold groupKeyOf at hk
      split at hk
      · next a h1 h2 h3 => exact ⟨a, h1, h2, h3⟩
      · simp at hk
    obtain ⟨a, htu, hv, ha⟩ := hshape
    simp only [groupKeyOf, htu, hv, ha] at hk
    cases hm : matchElevator e.id with
    | none => simp [hm] at hk
    | some m =>
      obtain ⟨station, suffix, elevator⟩ := m
      simp only [hm, Option.map_some, Option.some.injEq] at hk
      have hkey : groupKeyOf o e = some key := by
        unfold groupKeyOf; simp [htu, hv, ha, hm, hk]
      have hinfId : informedIdOf o e = some (if o.useStationIds then station else station ++ suffix) := by
        simp [informedIdOf, hm]
      have hms_key : memberStops o key (pre ++ [e]) = memberStops o key pre ++ [if o.useStationIds then station else station ++ suffix] := by
        rw [memberStops_snoc]; simp [hkey, hinfId]
      have hms_other : ∀ k, k ≠ key → memberStops o k (pre ++ [e]) = memberStops o k pre := by
        intro k hne; rw [memberStops_snoc]
        have : groupKeyOf o e ≠ some k := by rw [hkey]; intro q; exact hne (Option.some.inj q).symm
        simp [this]
      have hstep : passStep o st e = alertPassStep o st e a := by
        unfold passStep; simp [htu, hv, ha]
      rw [hstep]
      unfold alertPassStep
      simp only [hm, hk]
      cases hl : alookup key st.groups with
      | some i =>
        -- a later member
        simp only
        obtain ⟨ent, fa, hd', hid, hal, hinf⟩ := h1 key i hl
        have hi := getElem?_lt_of_some _ _ _ hd'
        constructor
        · intro k j hlj
          by_cases hkk : k = key
          · subst hkk
            rw [hl] at hlj; cases hlj
            refine ⟨{ ent with alert := some (addInformedStop fa (if o.useStationIds then station else station ++ suffix)) },
              addInformedStop fa (if o.useStationIds then station else station ++ suffix), ?_, hid, rfl, ?_⟩
            · rw [List.getElem?_append_left (by rw [modifyAt_length]; exact hi), modifyAt_getElem?, hd']
              simp [hal]
            · rw [hms_key]
              exact ⟨addInformedStop_stops fa _ _ hinf.1, by rw [addInformedStop_cause]; exact hinf.2.1,
                by rw [addInformedStop_effect]; exact hinf.2.2⟩
          · obtain ⟨ent', fa', hd'', hid', hal', hinf'⟩ := h1 k j hlj
            have hj := getElem?_lt_of_some _ _ _ hd''
            have hji : j ≠ i := by
              intro q; subst q
              rw [hd'] at hd''
              cases hd''
              exact hkk (hid'.symm.trans hid)
            refine ⟨ent', fa', ?_, hid', hal', by rw [hms_other k hkk]; exact hinf'⟩
            rw [List.getElem?_append_left (by rw [modifyAt_length]; exact hj), modifyAt_getElem?, hd'']
            simp [hji]
        · intro k hlk
          have hkk : k ≠ key := by intro q; subst q; rw [hl] at hlk; cases hlk
          rw [hms_other k hkk]; exact h2 k hlk
      | none =>
        -- the first member of a new group
        simp only
        have hempty := h2 key hl
        constructor
        · intro k j hlj
          rw [alookup_append] at hlj
          cases hlk : alookup k st.groups with
          | some j' =>
            rw [hlk] at hlj
            simp only [Option.some_or, Option.some.injEq] at hlj
            subst hlj
            have hkk : k ≠ key := by intro q; subst q; rw [hl] at hlk; cases hlk
            obtain ⟨ent', fa', hd'', hid', hal', hinf'⟩ := h1 k j' hlk
            refine ⟨ent', fa', ?_, hid', hal', by rw [hms_other k hkk]; exact hinf'⟩
            rw [List.getElem?_append_left (getElem?_lt_of_some _ _ _ hd'')]; exact hd''
          | none =>
            rw [hlk] at hlj
            simp only [Option.none_or, alookup] at hlj
            by_cases hkk : key = k
            · subst hkk
              simp only [beq_self_eq_true, if_true, Option.some.injEq] at hlj
              subst hlj
              simp only [nyctUpdatePlainAlert, addInformedStop, List.any_nil, Bool.false_eq_true, if_false, List.nil_append]
              have hel := effectLoop_stopSel o.skipTimetabled (if o.useStationIds then station else station ++ suffix) (some Gen.NyctTables.elevatorEffect)
              simp only [stopSel] at hel
              simp only [hel, Bool.false_eq_true, if_false]
              rw [hms_key, hempty]
              have hcause : causeFor key Gen.NyctTables.elevatorCause = Gen.NyctTables.elevatorCause := by
                rw [← hk]; exact causeFor_newId o e.id station suffix elevator hm
              split <;>
                exact ⟨_, _, List.getElem?_concat_length, rfl, rfl, by simp [firstOccurrences, stopSel], by simp [hcause], rfl⟩
            · have : (key == k) = false := by simpa using hkk
              rw [this] at hlj; simp at hlj
        · intro k hlk
          rw [alookup_append] at hlk
          cases hlk' : alookup k st.groups with
          | some j' => rw [hlk'] at hlk; simp at hlk
          | none =>
            rw [hlk'] at hlk
            simp only [Option.none_or, alookup] at hlk
            have hkk : k ≠ key := by
              intro q; subst q; simp at hlk
            rw [hms_other k hkk]; exact h2 k hlk'

/-- **C17 (the stops of a group, over the whole feed).** After the pre-pass over any feed, every
    group's recorded position holds one entry that is not skipped, carries the group's documented id,
    and informs exactly the distinct stops (platform ids, or station ids when so configured) of all
    the group's members, in order of first appearance -/
theorem C17_group_stops (o : NyctAlertsOpts) (es : List Entity) (k : Str) (i : Nat)
    (h : alookup k (es.foldl (passStep o) {}).groups = some i) :
    ∃ ent fa, (es.foldl (passStep o) {}).done[i]? = some (ent, false) ∧ ent.id = k ∧ ent.alert = some fa ∧
      (fa.informed = (firstOccurrences (memberStops o k es)).map stopSel ∧
       fa.cause = some Gen.NyctTables.elevatorCause ∧ fa.effect = some Gen.NyctTables.elevatorEffect) := by
  suffices H : ∀ (es pre : List Entity) (st : AlertPass), GInv o pre st → GInv o (pre ++ es) (es.foldl (passStep o) st) by
    have := H es [] {} ⟨by intro k i h; simp [alookup] at h, by intro k _; rfl⟩
    simp only [List.nil_append] at this
    exact this.1 k i h
  intro es
  induction es with
  | nil => intro pre st h; simpa using h
  | cons e r ih =>
    intro pre st h
    simp only [List.foldl_cons]
    have := ih (pre ++ [e]) _ (passStep_GInv o pre st e h)
    simpa using this

/-- …a set, so independent of the order in which the members appear: the informed stops of group `k`
    for two orders of the same feed have the same members, each once -/
theorem C17_group_stops_perm (o : NyctAlertsOpts) (es es' : List Entity) (hp : es'.Perm es) (k : Str) :
    (firstOccurrences (memberStops o k es')).Perm (firstOccurrences (memberStops o k es)) := by
  rw [List.perm_ext_iff_of_nodup (nodup_firstOccurrences _) (nodup_firstOccurrences _)]
  intro x
  rw [mem_firstOccurrences, mem_firstOccurrences]
  exact (hp.filterMap _).mem_iff

end Gtfs.Rt

namespace Gtfs.Rt

/-! ## composition with ParseRealtime's merge loop: the groups as they appear in `Realtime.Alerts` -/


/-- the entry at every group's position comes from an alert-only entity -/
def AOnly (st : AlertPass) : Prop :=
  ∀ k i, alookup k st.groups = some i → ∃ p, st.done[i]? = some p ∧ p.1.tripUpdate = none ∧ p.1.vehicle = none

theorem passStep_AOnly (o : NyctAlertsOpts) (st : AlertPass) (e : Entity) (h : AOnly st) : AOnly (passStep o st e) := by
  have keep : ∀ (x : Entity × Bool), AOnly { st with done := st.done ++ [x] } := by
    intro x k i hl
    obtain ⟨p, hp, h1, h2⟩ := h k i hl
    exact ⟨p, by simp only; rw [List.getElem?_append_left (getElem?_lt_of_some _ _ _ hp)]; exact hp, h1, h2⟩
  unfold passStep
  split
  · next a htu hv ha =>
    unfold alertPassStep
    cases hm : matchElevator e.id with
    | none => exact keep _
    | some m =>
      obtain ⟨station, suffix, elevator⟩ := m
      simp only
      cases hl : alookup (elevatorNewId o station suffix elevator) st.groups with
      | some i =>
        intro k j hlj
        simp only at hlj
        obtain ⟨p, hp, h1, h2⟩ := h k j hlj
        have hj := getElem?_lt_of_some _ _ _ hp
        refine ⟨(if j = i then ({ p.1 with alert := p.1.alert.map fun fa => addInformedStop fa (if o.useStationIds then station else station ++ suffix) }, p.2) else p), ?_, ?_, ?_⟩
        · simp only
          rw [List.getElem?_append_left (by rw [modifyAt_length]; exact hj), modifyAt_getElem?, hp]
          simp only [Option.map_some]
        · split <;> exact h1
        · split <;> exact h2
      | none =>
        intro k j hlj
        simp only at hlj
        rw [alookup_append] at hlj
        cases hlk : alookup k st.groups with
        | some j' =>
          rw [hlk] at hlj
          simp only [Option.some_or, Option.some.injEq] at hlj
          subst hlj
          obtain ⟨p, hp, h1, h2⟩ := h k j' hlk
          exact ⟨p, by simp only; rw [List.getElem?_append_left (getElem?_lt_of_some _ _ _ hp)]; exact hp, h1, h2⟩
        | none =>
          rw [hlk] at hlj
          simp only [Option.none_or, alookup] at hlj
          split at hlj
          · simp only [Option.some.injEq] at hlj
            subst hlj
            refine ⟨_, by simp only [List.getElem?_append_right (Nat.le_refl _), Nat.sub_self, List.getElem?_cons_zero]; rfl, ?_, ?_⟩
            · exact htu
            · exact hv
          · simp at hlj
  · exact keep _

theorem foldl_AOnly (o : NyctAlertsOpts) (es : List Entity) (st : AlertPass) (h : AOnly st) : AOnly (es.foldl (passStep o) st) := by
  induction es generalizing st with
  | nil => exact h
  | cons e r ih => exact ih _ (passStep_AOnly o st e h)

/-- **the alerts of a parse with the NYCT alerts extension** are the pre-pass entries that are not
    skipped, each turned into an alert, in feed order -/
theorem C17_alerts_end_to_end (o : NyctAlertsOpts) (m : Msg) :
    (parse (.alerts o) m).alerts =
      ((m.entities.foldl (passStep o) {}).done.filter (fun p => !p.2)).filterMap (fun p => alertOf p.1) := by
  simp only [parse, finish, alerts_exact, C17_prepass_is_fold]

/-- **an elevator group in the result**: for every group of a feed, `Realtime.Alerts` contains the
    alert built from the group's entry – id the documented id, cause maintenance, effect
    accessibility issue, informing exactly the distinct stops of all the group's members -/
theorem C17_group_alert_in_result (o : NyctAlertsOpts) (m : Msg) (k : Str) (i : Nat)
    (h : alookup k (m.entities.foldl (passStep o) {}).groups = some i) :
    ∃ fa : AlertMsg,
      fa.informed = (firstOccurrences (memberStops o k m.entities)).map stopSel ∧
      fa.cause = some Gen.NyctTables.elevatorCause ∧ fa.effect = some Gen.NyctTables.elevatorEffect ∧
      (parseAlert k fa).1 ∈ (parse (.alerts o) m).alerts := by
  obtain ⟨ent, fa, hd, hid, hal, hinf, hc, he⟩ := C17_group_stops o m.entities k i h
  obtain ⟨p, hp, htu, hv⟩ := foldl_AOnly o m.entities {} (by intro k i hl; simp [alookup] at hl) k i h
  rw [hd] at hp
  cases hp
  refine ⟨fa, hinf, hc, he, ?_⟩
  rw [C17_alerts_end_to_end]
  refine List.mem_filterMap.mpr ⟨(ent, false), List.mem_filter.mpr ⟨List.mem_of_getElem? hd, by simp⟩, ?_⟩
  simp only at htu hv
  simp [alertOf, htu, hv, hal, hid]

end Gtfs.Rt

namespace Gtfs.Rt
/-! ## non-vacuity: "A10N#EL1" and "A10S#EL1" under the in-station policy form the group "A10#EL1" at position 0,
    informing the two platforms -/
private def elN : Entity := { id := [65, 49, 48, 78, 35, 69, 76, 49], alert := some {} }
private def elS : Entity := { id := [65, 49, 48, 83, 35, 69, 76, 49], alert := some {} }
private def optsSt : NyctAlertsOpts := { policy := .station }
example : alookup [65, 49, 48, 35, 69, 76, 49] (([elN, elS] : List Entity).foldl (passStep optsSt) {}).groups = some 0 := by decide
example : firstOccurrences (memberStops optsSt [65, 49, 48, 35, 69, 76, 49] [elN, elS]) = [[65, 49, 48, 78], [65, 49, 48, 83]] := by decide
example : ((parse (.alerts optsSt) { entities := [elN, elS] }).alerts.map (·.id)) = [[65, 49, 48, 35, 69, 76, 49]] := by decide
end Gtfs.Rt
