import GtfsVerif.Gen.HashSchema
/-! # C13 — trip and vehicle hashes change exactly when the data changes

`Gen/HashSchema.lean` is regenerated on every run from the bodies of `hasher.trip` and
`hasher.vehicle` (hash.go): the fields they write, in order (`tripFields`, `vehicleFields`, …) and the
encoder they apply (`encTripFields`, …) built from the combinators of Model/HashCombinators.lean.
The theorems below are therefore re-checked against what the code says now:

* if a length prefix or presence byte is dropped in hash.go the translator no longer recognises the
  statement (or the combinator has no `PrefixInj` instance) and instance resolution fails;
* if a data field is no longer written, `…Fields_injective` fails (`cases; simp_all` cannot
  recover the omitted field).

`TripData`/`VehicleData` are exactly the data fields of the statement (identifier parts; per stop
time update its sequence, stop, track, schedule relationship and the presence and values of arrival
and departure time, delay, uncertainty; for a vehicle additionally its id, position, … and its
trip). Object identity, the time-zone presentation of an instant, the in-message flag and the
trip's back-reference to its vehicle are not fields of these records: the encoders are functions of
the records alone, which is the "ignores" half of the statement. -/
namespace Gtfs.Hash
open Gtfs.Gen.HashSchema

theorem optmap_inj {α β} {f : α → β} (hf : ∀ a b, f a = f b → a = b) {o₁ o₂ : Option α}
    (h : o₁.map f = o₂.map f) : o₁ = o₂ := by
  cases o₁ <;> cases o₂ <;> simp_all
  exact hf _ _ h

theorem countedmap_inj {α β} {f : α → β} (hf : ∀ a b, f a = f b → a = b) {c₁ c₂ : Counted α}
    (h : c₁.map f = c₂.map f) : c₁ = c₂ := by
  obtain ⟨l₁, p₁⟩ := c₁
  obtain ⟨l₂, p₂⟩ := c₂
  simp only [Counted.map, Counted.mk.injEq] at h ⊢
  clear p₁ p₂
  induction l₁ generalizing l₂ with
  | nil => cases l₂ <;> simp_all
  | cons x xs ih =>
    cases l₂ with
    | nil => simp at h
    | cons y ys =>
      simp only [List.map_cons, List.cons.injEq] at h
      rw [hf _ _ h.1, ih _ h.2]

/-! ## every data field is written (the field tuples determine the records) -/

theorem eventFields_injective (a b : EventData) (h : eventFields a = eventFields b) : a = b := by
  cases a; cases b; simp_all [eventFields]

theorem optmap_eventFields_iff (a b : Option EventData) : a.map eventFields = b.map eventFields ↔ a = b :=
  ⟨optmap_inj eventFields_injective, fun h => by rw [h]⟩

/-- the proofs below do not depend on the position or number of the components of the generated tuples (a field
    added to the source and to the model's record, or an optional field of the source that the model hashes as
    absent – a constant component – leaves them valid) -/
theorem stuFields_injective (a b : StuData) (h : stuFields a = stuFields b) : a = b := by
  cases a; cases b
  simp only [stuFields, Prod.mk.injEq, optmap_eventFields_iff] at h
  simp_all

theorem countedmap_stuFields_iff (a b : Counted StuData) : a.map stuFields = b.map stuFields ↔ a = b :=
  ⟨countedmap_inj stuFields_injective, fun h => by rw [h]⟩

theorem tripFields_injective (a b : TripData) (h : tripFields a = tripFields b) : a = b := by
  cases a; cases b
  simp only [tripFields, Prod.mk.injEq, countedmap_stuFields_iff] at h
  simp_all

theorem vehicleIdFields_injective (a b : VehicleIdData) (h : vehicleIdFields a = vehicleIdFields b) : a = b := by
  cases a; cases b; simp_all [vehicleIdFields]

theorem positionFields_injective (a b : PositionData) (h : positionFields a = positionFields b) : a = b := by
  cases a; cases b; simp_all [positionFields]

theorem optmap_vehicleIdFields_iff (a b : Option VehicleIdData) : a.map vehicleIdFields = b.map vehicleIdFields ↔ a = b :=
  ⟨optmap_inj vehicleIdFields_injective, fun h => by rw [h]⟩

theorem optmap_positionFields_iff (a b : Option PositionData) : a.map positionFields = b.map positionFields ↔ a = b :=
  ⟨optmap_inj positionFields_injective, fun h => by rw [h]⟩

theorem vehicleFields_injective (a b : VehicleData) (h : vehicleFields a = vehicleFields b) : a = b := by
  cases a; cases b
  simp only [vehicleFields, Prod.mk.injEq, optmap_vehicleIdFields_iff, optmap_positionFields_iff] at h
  simp_all

/-! ## every field is written unambiguously (prefix-injective encoders, by instance resolution) -/

instance : PrefixInj encEventFields := by unfold encEventFields; infer_instance
instance : PrefixInj encStuFields := by unfold encStuFields; infer_instance
instance : PrefixInj encTripFields := by unfold encTripFields; infer_instance
instance : PrefixInj encTrip := prefixInj_via tripFields encTripFields tripFields_injective
instance : PrefixInj encVehicleIdFields := by unfold encVehicleIdFields; infer_instance
instance : PrefixInj encPositionFields := by unfold encPositionFields; infer_instance
instance : PrefixInj encVehicleFields := by unfold encVehicleFields; infer_instance
instance : PrefixInj encVehicle := prefixInj_via vehicleFields encVehicleFields vehicleFields_injective

/-- **C13 (trips).** Two trips receive the same hash input exactly when they agree on every data
    field. -/
theorem C13_trip_hash_input_injective (a b : TripData) : encTrip a = encTrip b ↔ a = b := by
  constructor
  · intro h
    exact (PrefixInj.inj (enc := encTrip) a b [] [] (by simpa using h)).1
  · intro h; rw [h]

/-- **C13 (vehicles)**, whose hash additionally covers their trip. -/
theorem C13_vehicle_hash_input_injective (a b : VehicleData) : encVehicle a = encVehicle b ↔ a = b := by
  constructor
  · intro h
    exact (PrefixInj.inj (enc := encVehicle) a b [] [] (by simpa using h)).1
  · intro h; rw [h]

/-- The stream stays unambiguous when hashes are chained (several values written into one
    `hash.Hash`): what follows a trip cannot be confused with part of it. -/
theorem C13_trip_stream_prefix_free (a b : TripData) (r s : List B) (h : encTrip a ++ r = encTrip b ++ s) :
    a = b ∧ r = s := PrefixInj.inj (enc := encTrip) a b r s h

/-- the vehicle's trip is part of its hash input: vehicles differing only in their trip differ -/
theorem C13_vehicle_covers_trip (v : VehicleData) (t₁ t₂ : TripData) (h : t₁ ≠ t₂) :
    encVehicle { v with trip := some t₁ } ≠ encVehicle { v with trip := some t₂ } := by
  intro he
  have := (C13_vehicle_hash_input_injective _ _).mp he
  simp only [VehicleData.mk.injEq, Option.some.injEq] at this
  exact h this.2.1

/-- nil and zero are distinguished: an absent optional field never collides with a present zero -/
theorem C13_nil_vs_zero (k : Nat) (z : Fixed k) : encOpt (encFixed k) none ≠ encOpt (encFixed k) (some z) := by
  simp [encOpt]

/-! ## non-vacuity: two concrete trips that differ only in where the boundary between two
    adjacent strings falls ("ab","c" vs "a","bc") get different streams -/

private def lstr (l : List B) (h : l.length < 256 ^ 8 := by decide) : LStr := ⟨l, h⟩
private def fx (k n : Nat) (h : n < 256 ^ k := by decide) : Fixed k := ⟨n, h⟩
private def t1 : TripData := ⟨lstr [97, 98], lstr [99], fx 1 0, fx 1 0, fx 8 0, fx 1 0, fx 8 0, fx 4 0, ⟨[], by decide⟩⟩
private def t2 : TripData := ⟨lstr [97], lstr [98, 99], fx 1 0, fx 1 0, fx 8 0, fx 1 0, fx 8 0, fx 4 0, ⟨[], by decide⟩⟩

example : encTrip t1 ≠ encTrip t2 := by
  intro h
  have := (C13_trip_hash_input_injective t1 t2).mp h
  simp [t1, t2, lstr] at this

end Gtfs.Hash
