import GtfsVerif.Model.Realtime
import GtfsVerif.Model.Static
import GtfsVerif.Gen.Inventory
/-! # C06 — parsing is a pure function of bytes and options: deterministic and history-free

In the model a Go map has no order: every place where the Go code ranges over a map is either
followed by a sort on a key that is unique in that collection, or touches each entry independently.
The list of range-over-map sites is regenerated from the source on every run; a new one (or a
removed sort) makes `C06_map_ranges_covered` fail or leaves the correspondence, where the oracle
parses the same bytes repeatedly, with one options object, after other inputs, and in a second
process. -/
namespace Gtfs

/-- every `range` over a map in the library, with what makes its visiting order unobservable -/
def coveredMapRanges : List (String × String) := [
  ("gtfs.ParseRealtime: tripsById", "result.Trips is sorted by TripID.Less afterwards; the keys are pairwise distinct (C07_trips_sorted_unique), so the sorted order is unique"),
  ("gtfs.ParseRealtime: vehiclesByID", "result.Vehicles (the id-bearing part) is sorted by (id, label, licence plate) afterwards; keys are distinct (C07_vehicles_unique_ids)"),
  ("gtfs.ParseStatic: serviceIdToService", "result.Services is sorted by service id afterwards; ids are the map's keys, hence distinct (C11_one_service_per_id)"),
  ("gtfs.parseAlert: informedRoutesFromTripIDs", "only the keys are collected, then sorted (sort.Strings) before the entities are appended"),
  ("gtfs.parseScheduledStopTimes: idToTrip", "each iteration sorts one trip's own stop times; iterations are independent"),
  ("gtfs.parseShapes: shapeIDToRowData", "each iteration builds one shape; the shapes are sorted by id afterwards (ids are the keys, distinct)"),
  ("journal.BuildJournal: activeTrips", "each iteration marks one trip past; iterations touch distinct trips"),
  ("journal.BuildJournal: trips", "only the UIDs are collected, then sorted (sort.Strings); the journal is emitted in that order")]

/-- **every range-over-map site of today's source is one whose order cannot reach the output** -/
theorem C06_map_ranges_covered :
    Gen.Inventory.mapRanges.all (fun s => (coveredMapRanges.map (·.1)).contains s) = true := by decide

/-- the model has no hidden input: the realtime result is determined by the decoded message and the
    extension configuration; nothing survives from one parse to the next (the extension's
    deduplication table is created inside `prepass`, per message) -/
theorem C06_realtime_history_free (ext : Rt.Ext) (m earlier : Rt.Msg) :
    (let _ := Rt.parse ext earlier; Rt.parse ext m) = Rt.parse ext m := rfl

theorem C06_static_history_free (env : Static.Env) (ms earlier : List (Str × Str)) :
    (let _ := Static.parse env earlier; Static.parse env ms) = Static.parse env ms := rfl

/-- the alerts pre-pass starts from an empty table for every message -/
theorem C06_alert_state_fresh (o : Rt.NyctAlertsOpts) (m : Rt.Msg) :
    Rt.prepass (.alerts o) m =
      (m.entities.foldl (fun st e =>
        match e.tripUpdate, e.vehicle, e.alert with
        | none, none, some a => Rt.alertPassStep o st e a
        | _, _, _ => { st with done := st.done ++ [(e, false)] }) ({} : Rt.AlertPass)).done := rfl

/-- no package-level state exists that a parse could leave behind, and stateful extensions are
    re-instantiated per message (regenerated facts) -/
theorem C06_no_retained_state :
    Gen.Inventory.globalWrites = [] ∧ Gen.Inventory.parseRealtimeUsesForMessage = true ∧
    Gen.Inventory.parseRealtimeWritesOnlyToCopy = true := by decide

end Gtfs
