import GtfsVerif.Model.Realtime
import GtfsVerif.Model.Static
import GtfsVerif.Gen.Inventory
/-! # C06 — parsing is a pure function of bytes and options: deterministic and history-free

In the model a Go map has no order: every place where the Go code ranges over a map is either
followed by a sort on a key that is unique in that collection, or touches each entry independently.
The list of range-over-map sites is regenerated from the source on every run and classified
structurally by the extractor; a loop that is neither (or a removed sort) makes
`C06_map_ranges_covered` fail or leaves the correspondence, where the oracle
parses the same bytes repeatedly, with one options object, after other inputs, and in a second
process. -/
namespace Gtfs

/-- The extractor classifies every `range` over a map structurally: **independent** – the body
    writes only through the iteration's own key/value (its own entry of another map, a method of its
    own value, a sort of its own slice) – or **collect-then-sort** – besides that, the body only
    appends to slices each of which is sorted afterwards in the same function. A loop it cannot
    classify (an assignment to a shared variable, a call with outside effects, a `break`/`return`
    that leaves at an order-dependent point, a collected slice that is not sorted) is listed in
    `mapRangesUnclassified`.

    Why a sort makes the order unobservable – the keys sorted on are pairwise distinct:
    Trips (`C07_trips_sorted_unique`), identified Vehicles (`C07_vehicles_unique_ids`), Services (keys of
    the map, `C11_one_service_per_id`), shapes (keys of the map), route fallbacks and journal UIDs (keys of
    the map, sorted as strings). -/
theorem C06_map_ranges_covered : Gen.Inventory.mapRangesUnclassified = [] := by decide

/-- today's sites and their classification (pinned for the record; a moved or renamed loop changes
    this list without affecting the theorem above) -/
example : Gen.Inventory.mapRangeClasses.length = Gen.Inventory.mapRanges.length := by decide

/-- the model has no hidden input: the realtime result is determined by the decoded message and the
    extension configuration; nothing survives from one parse to the next (the extension's
    deduplication table is created inside `prepass`, per message) -/
theorem C06_realtime_history_free (ext : Rt.Ext) (m earlier : Rt.Msg) :
    (let _ := Rt.parse ext earlier; Rt.parse ext m) = Rt.parse ext m := rfl

theorem C06_static_history_free (env : Static.Env) (ms earlier : List (Str × Str)) :
    (let _ := Static.parse env earlier; Static.parse env ms) = Static.parse env ms := rfl

/-- the alerts pre-pass starts from an empty table for every message -/
theorem C06_alert_state_fresh (o : Rt.NyctAlertsOpts) (m : Rt.Msg) :
    Rt.prepass (.alerts o) m =
      (m.entities.foldl (fun st e =>
        match e.tripUpdate, e.vehicle, e.alert with
        | none, none, some a => Rt.alertPassStep o st e a
        | _, _, _ => { st with done := st.done ++ [(e, false)] }) ({} : Rt.AlertPass)).done := rfl

/-- no package-level state exists that a parse could leave behind, and stateful extensions are
    re-instantiated per message (regenerated facts) -/
theorem C06_no_retained_state :
    Gen.Inventory.globalWrites = [] ∧ Gen.Inventory.parseRealtimeUsesForMessage = true ∧
    Gen.Inventory.parseRealtimeWritesOnlyToCopy = true := by decide

end Gtfs
